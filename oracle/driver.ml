(* oracle/driver.ml — line-protocol driver around the extracted model (Model.ml).
   stdin: one case per line
     <fn> <cfg> <szA> <alA> <szB> <alB> <len> <addr> <kind> <hexbytes|-> ; <obs> ; <twin obs|-> ; <flags>
   obs: OK <addr> <len> | ERR <code> | PMSG <code> | POTHER | VAL <hex|-> | CFAIL | BAD
   flags: bit0 = memory outside the written footprint intact (source unchanged, canaries intact)
          bit1 = writes through a mutable view landed exactly on the corresponding source bytes
                 (2 is set for calls that return no mutable view)
   stdout: one line per disagreement, then a SUMMARY line.
     CORR <lineno> model=<obs> :: <line>        implementation differs from the translated model
     MON <prop> <lineno> <what> :: <line>       observation violates the verified monitor *)
open Model

let rec pos_of_int i =
  if i = 1 then XH else if i land 1 = 1 then XI (pos_of_int (i lsr 1)) else XO (pos_of_int (i lsr 1))
let n_of_int i = if i = 0 then N0 else Npos (pos_of_int i)
let rec int_of_pos = function XH -> 1 | XO p -> 2 * int_of_pos p | XI p -> 2 * int_of_pos p + 1
let int_of_n = function N0 -> 0 | Npos p -> int_of_pos p

let bytes_of_hex s =
  if s = "-" then [] else begin
    let n = String.length s / 2 in
    List.init n (fun i -> n_of_int (int_of_string ("0x" ^ String.sub s (2 * i) 2)))
  end
let hex_of_bytes bs =
  if bs = [] then "-" else String.concat "" (List.map (fun b -> Printf.sprintf "%02x" (int_of_n b)) bs)

let parse_obs toks =
  match toks with
  | ["OK"; a; n] -> XOk (n_of_int (int_of_string a), n_of_int (int_of_string n))
  | ["ERR"; c] -> XErr (n_of_int (int_of_string c))
  | ["PMSG"; c] -> XPanicMsg (n_of_int (int_of_string c))
  | ["POTHER"] -> XPanicOther
  | ["VAL"; h] -> XVal (bytes_of_hex h)
  | ["CFAIL"] -> XCompileFail
  | ["COMPILES"] -> XCompiles
  | ["SPLIT"; a; b; c; d; e; f] ->
    let i x = n_of_int (int_of_string x) in
    XSplit { pre_addr = i a; pre_len = i b; mid_addr = i c; mid_len = i d; suf_addr = i e; suf_len = i f }
  | _ -> XBad

let show_obs = function
  | XOk (a, n) -> Printf.sprintf "OK %d %d" (int_of_n a) (int_of_n n)
  | XErr c -> Printf.sprintf "ERR %d" (int_of_n c)
  | XPanicMsg c -> Printf.sprintf "PMSG %d" (int_of_n c)
  | XPanicOther -> "POTHER"
  | XVal bs -> "VAL " ^ hex_of_bytes bs
  | XErrVal c -> Printf.sprintf "ERRVAL %d" (int_of_n c)
  | XCompileFail -> "CFAIL"
  | XCompiles -> "COMPILES"
  | XSplit r -> Printf.sprintf "SPLIT %d %d %d %d %d %d" (int_of_n r.pre_addr) (int_of_n r.pre_len)
                  (int_of_n r.mid_addr) (int_of_n r.mid_len) (int_of_n r.suf_addr) (int_of_n r.suf_len)
  | XUB -> "UB"
  | XBad -> "BAD"

(* arbitrary-precision decimal <-> Coq N / Z (numbers up to 2^64 do not fit OCaml's 63-bit int) *)
let ten = n_of_int 10
let n_of_string s =
  let acc = ref N0 in
  String.iter (fun ch -> if ch < '0' || ch > '9' then failwith "n_of_string";
                         acc := N.add (N.mul !acc ten) (n_of_int (Char.code ch - 48))) s;
  !acc
let rec string_of_n n =
  match n with
  | N0 -> "0"
  | _ -> let (q, r) = N.div_eucl n ten in
         (match q with N0 -> "" | _ -> string_of_n q) ^ string_of_int (int_of_n r)
let z_of_string s =
  if String.length s > 0 && s.[0] = '-' then
    (match n_of_string (String.sub s 1 (String.length s - 1)) with N0 -> Z0 | Npos p -> Zneg p)
  else (match n_of_string s with N0 -> Z0 | Npos p -> Zpos p)
let string_of_z = function Z0 -> "0" | Zpos p -> string_of_n (Npos p) | Zneg p -> "-" ^ string_of_n (Npos p)
let show_zs v = "V " ^ String.concat " " (List.map string_of_z v)

(* OCaml string -> Coq string (ExtrOcamlBasic keeps Coq's ascii / string inductives) *)
let ascii_of_char c =
  let n = Char.code c in
  let b i = (n lsr i) land 1 = 1 in
  Ascii (b 0, b 1, b 2, b 3, b 4, b 5, b 6, b 7)
let coq_string s =
  let r = ref EmptyString in
  for i = String.length s - 1 downto 0 do r := String (ascii_of_char s.[i], !r) done;
  !r
let rec nat_of_int i = if i <= 0 then O else S (nat_of_int (i - 1))

(* type encoding of the census harness: '/'-separated prefix form
   L.name | A.ctor.n/args.. | Y.len/elem | T.n/elems.. | P.m/t | F.m/t | S/t | N.abi.unsafe.n/args../ret *)
let parse_tyx s =
  let toks = Array.of_list (String.split_on_char '/' s) in
  let pos = ref 0 in
  let rec go () =
    let tk = toks.(!pos) in incr pos;
    let parts = String.split_on_char '.' tk in
    let rec many n = if n = 0 then [] else let x = go () in x :: many (n - 1) in
    match parts with
    | "L" :: rest -> TLeaf (coq_string (String.concat "." rest))
    | ["A"; c; n] -> let args = many (int_of_string n) in TApp (coq_string c, args)
    | ["Y"; len] -> let e = go () in TArr (e, Some (n_of_int (int_of_string len)))
    | ["T"; n] -> TTup (many (int_of_string n))
    | ["P"; m] -> let t = go () in TPtr (m = "1", t)
    | ["F"; m] -> let t = go () in TRef (m = "1", t)
    | ["S"] -> TSlice (go ())
    | ["N"; abi; u; n] -> let args = many (int_of_string n) in let r = go () in TFn (coq_string abi, u = "1", args, r)
    | _ -> failwith ("bad type encoding: " ^ tk)
  in go ()

let words s = List.filter (fun w -> w <> "") (String.split_on_char ' ' (String.trim s))

let is_mut_fn fn = List.mem fn [2; 4; 6; 8; 10; 12; 14; 16; 22; 24; 26; 28; 30; 32; 42; 44]
let is_must fn = List.mem fn [41; 42; 43; 44; 45]
let is_panicking fn = List.mem fn [3; 4; 7; 8; 11; 12; 23; 24; 27; 28; 31; 32; 52; 54; 62; 64]

let () =
  let lines = ref 0 and corr = ref 0 and mon = ref 0 in
  (try
    while true do
      let line = input_line stdin in
      if String.length line > 0 && line.[0] <> '#' then begin
        incr lines;
        let ln = !lines in
        match String.split_on_char ';' line with
        | [c; o; _; _] when (match words c with fn :: _ -> fn = "410" | _ -> false) ->
          (match words c, words o with
           | [_; _; _; _; _; _; _; _; cfg; enc], ("V" :: nums) ->
             (try
               let t = parse_tyx enc in
               let v = List.map z_of_string nums in
               let m = cmodel (n_of_string cfg) t in
               if not (zlist_eqb m v) then begin
                 incr corr; Printf.printf "CORR %d model=%s :: %s\n" ln (show_zs m) line
               end;
               if not (cmonitor t v) then begin
                 incr mon; Printf.printf "MON C04 %d marker-declared-without-language-guarantee-or-lattice-broken :: %s\n" ln line
               end
             with Failure e -> incr corr; Printf.printf "CORR %d %s :: %s\n" ln e line)
           | _ -> incr corr; Printf.printf "CORR %d malformed-census-case :: %s\n" ln line)
        | [c; o; _; _] when (match words c with fn :: _ -> (try int_of_string fn >= 300 with _ -> false) | _ -> false) ->
          (match words c, words o with
           | [fn; _; sza; ala; szb; alb; len; cap; x; hex], ("V" :: nums) ->
             let i s = n_of_string s in
             let a = { a_fn = i fn; a_A = { sz = i sza; al = i ala }; a_B = { sz = i szb; al = i alb };
                       a_len = z_of_string len; a_cap = z_of_string cap;
                       a_x = z_of_string x; a_ops = bytes_of_hex hex } in
             let v = List.map z_of_string nums in
             let m = xmodel2 a v in
             if not (zlist_eqb m v) then begin
               incr corr; Printf.printf "CORR %d model=%s :: %s\n" ln (show_zs m) line
             end;
             List.iter (fun (p, okb) ->
               if not okb then begin
                 incr mon; Printf.printf "MON C%02d %d observation-violates-the-statement :: %s\n" (int_of_n p) ln line
               end) (xmonitors2 a v)
           | _ -> incr corr; Printf.printf "CORR %d malformed-alloc-case :: %s\n" ln line)
        | [c; o; t; f] ->
          (match words c with
           | [fn; cfg; sza; ala; szb; alb; len; addr; kind; hex] ->
             let i s = n_of_int (int_of_string s) in
             let fni = int_of_string fn in
             let k = { k_fn = i fn; k_cfg = i cfg; k_A = { sz = i sza; al = i ala };
                       k_B = { sz = i szb; al = i alb }; k_len = i len; k_addr = i addr;
                       k_kind = i kind; k_bytes = bytes_of_hex hex } in
             let obs = parse_obs (words o) in
             let m = model k in
             if not (xobs_eqb m obs) then begin
               incr corr; Printf.printf "CORR %d model=%s :: %s\n" ln (show_obs m) line
             end;
             let viol prop what = incr mon; Printf.printf "MON %s %d %s :: %s\n" prop ln what line in
             if not (monitor_c01 k obs) then viol "C01" "view-not-exactly-the-source-bytes-or-misaligned";
             if not (monitor_c02 k obs) then viol "C02" "outcome-violates-success-iff-or-untruthful-error";
             if not (monitor_c03 k obs) then viol "C03" "by-value-result-not-the-source-bytes";
             if not (monitor_c07 k obs) then viol "C07" "checked-outcome-violates-validity-iff";
             if fni >= 141 && fni <= 145 && not (monitor_c14_verdict k obs) then
               viol "C14" "compile-verdict-differs-from-infallibility-of-the-runtime-cast";
             let flags = int_of_string (String.trim f) in
             if flags land 1 = 0 then viol "C01" "memory-outside-footprint-modified";
             if is_mut_fn fni && flags land 2 = 0 then viol "C01" "write-through-view-misplaced";
             if is_panicking fni then begin
               let tw = parse_obs (words t) in
               if not (monitor_c11 tw obs) then viol "C11" "panicking-form-disagrees-with-try-form"
             end;
             if is_must fni then begin
               let tw = parse_obs (words t) in
               if not (monitor_c14 tw obs) then viol "C14" "must-form-disagrees-with-try-form"
             end
           | _ -> incr corr; Printf.printf "CORR %d malformed-case :: %s\n" ln line)
        | _ -> incr corr; Printf.printf "CORR %d malformed-line :: %s\n" ln line
      end
    done
  with End_of_file -> ());
  Printf.printf "SUMMARY lines=%d corr=%d mon=%d\n" !lines !corr !mon
