(* Extract/Driver.v — the executable face of the model for the correspondence check: one case
   (function id, feature bits, two types, a length, an address, source bytes) is run through
   the TRANSLATED function and through the verified monitor.  Extracted to OCaml with
   ExtrOcamlBasic only; numbers stay Coq's binary N. *)
From Coq Require Import NArith List Bool String.
From BM Require Import Base.Outcome Base.Prims Base.Layout Spec.CastSpec Spec.Monitor Model.LangValid Model.StdSlice.
From BM Require Import Spec.MustSpec.
From BM.Gen Require Internal Root Checked Must.
Import ListNotations.
Open Scope bool_scope.
Open Scope N_scope.

(* exchanged observation: what the harness prints / what the model predicts *)
Inductive xobs : Type :=
| XOk (a n : N)            (* a view: address and length (length 1 for single references) *)
| XErr (code : N)          (* error code, see [perr_code] / [cerr_code] *)
| XPanicMsg (code : N)     (* something_went_wrong panic carrying that error *)
| XPanicOther              (* any other panic *)
| XVal (bs : list N)       (* a by-value result: its bytes *)
| XErrVal (code : N)
| XSplit (r : split3)      (* the three parts of an align-to split *)
| XCompiles                (* compile verdict: the instantiation compiles *)
| XCompileFail             (* a const assertion failed: the instantiation does not compile *)
| XUB                      (* the model says: undefined behaviour (never observable) *)
| XBad.

Definition perr_code (e : perr) : N :=
  match e with
  | TargetAlignmentGreaterAndInputNotAligned => 0
  | OutputSliceWouldHaveSlop => 1
  | SizeMismatch => 2
  | AlignmentMismatch => 3
  end.
Definition cerr_code (e : cerr) : N :=
  match e with PodCastError p => 10 + perr_code p | InvalidBitPattern => 14 end.
Definition anyerr_code (e : anyerr) : N :=
  match e with EP p => perr_code p | EC c => cerr_code c | EUnit => 20 end.

Definition perr_of_code (c : N) : option perr :=
  match c with
  | 0 => Some TargetAlignmentGreaterAndInputNotAligned
  | 1 => Some OutputSliceWouldHaveSlop
  | 2 => Some SizeMismatch
  | 3 => Some AlignmentMismatch
  | _ => None
  end.

Definition panic_x (w : why) : xobs :=
  match w with
  | W_msg _ e => XPanicMsg (anyerr_code e)
  | W_const_assert _ => XCompileFail
  | _ => XPanicOther
  end.

Definition x_slice_p (o : outcome (result slice perr)) : xobs :=
  match o with
  | Ret (Ok v) => XOk (addr (sptr v)) (slen v)
  | Ret (Err e) => XErr (perr_code e)
  | Panic w => panic_x w
  | UB _ => XUB
  end.
Definition x_slice_c (o : outcome (result slice cerr)) : xobs :=
  match o with
  | Ret (Ok v) => XOk (addr (sptr v)) (slen v)
  | Ret (Err e) => XErr (cerr_code e)
  | Panic w => panic_x w
  | UB _ => XUB
  end.
Definition x_slice (o : outcome slice) : xobs :=
  match o with
  | Ret v => XOk (addr (sptr v)) (slen v)
  | Panic w => panic_x w
  | UB _ => XUB
  end.
Definition x_ref_p (o : outcome (result ptr perr)) : xobs :=
  match o with
  | Ret (Ok v) => XOk (addr v) 1
  | Ret (Err e) => XErr (perr_code e)
  | Panic w => panic_x w
  | UB _ => XUB
  end.
Definition x_ref_c (o : outcome (result ptr cerr)) : xobs :=
  match o with
  | Ret (Ok v) => XOk (addr v) 1
  | Ret (Err e) => XErr (cerr_code e)
  | Panic w => panic_x w
  | UB _ => XUB
  end.
Definition x_ref (o : outcome ptr) : xobs :=
  match o with
  | Ret v => XOk (addr v) 1
  | Panic w => panic_x w
  | UB _ => XUB
  end.
Definition x_val_p (o : outcome (result (list N) perr)) : xobs :=
  match o with
  | Ret (Ok v) => XVal v
  | Ret (Err e) => XErr (perr_code e)
  | Panic w => panic_x w
  | UB _ => XUB
  end.
Definition x_val_c (o : outcome (result (list N) cerr)) : xobs :=
  match o with
  | Ret (Ok v) => XVal v
  | Ret (Err e) => XErr (cerr_code e)
  | Panic w => panic_x w
  | UB _ => XUB
  end.
Definition x_val (o : outcome (list N)) : xobs :=
  match o with
  | Ret v => XVal v
  | Panic w => panic_x w
  | UB _ => XUB
  end.

Record case : Type := mkCase {
  k_fn : N; k_cfg : N; k_A : ty; k_B : ty; k_len : N; k_addr : N; k_kind : N; k_bytes : list N
}.

Definition feat_of (bits : N) (s : string) : bool :=
  if String.eqb s "align_offset" then N.testbit bits 0
  else if String.eqb s "track_caller" then N.testbit bits 1
  else if String.eqb s "must_cast" then true
  else if String.eqb s "must_cast_extra" then true
  else false.

Definition mem_of (base : N) (bytes : list N) (a : N) : N :=
  if (base <=? a) then nth (N.to_nat (a - base)) bytes 0 else 0.

Definition env_of (k : case) : env := mkEnv (feat_of (k_cfg k)) (mem_of (k_addr k) (k_bytes k)) (fun _ _ => 0).
Definition cty_of (k : case) : cty := mkCty (k_B k) (k_B k) (valid_kind (k_kind k)).

Definition src_slice (k : case) : slice := mkSlice (mkPtr (k_addr k) (k_len k * sz (k_A k))) (k_len k).
Definition src_ref (k : case) : ptr := mkPtr (k_addr k) (sz (k_A k)).
Definition src_bytes (k : case) : slice := mkSlice (mkPtr (k_addr k) (k_len k)) (k_len k).

(* what the translated code does on this case *)
Definition model (k : case) : xobs :=
  let E := env_of k in let A := k_A k in let B := k_B k in let C := cty_of k in
  match k_fn k with
  | 1 => x_slice_p (Root.try_cast_slice E A B (src_slice k))
  | 2 => x_slice_p (Root.try_cast_slice_mut E A B (src_slice k))
  | 3 => x_slice (Root.cast_slice E A B (src_slice k))
  | 4 => x_slice (Root.cast_slice_mut E A B (src_slice k))
  | 5 => x_ref_p (Root.try_cast_ref E A B (src_ref k))
  | 6 => x_ref_p (Root.try_cast_mut E A B (src_ref k))
  | 7 => x_ref (Root.cast_ref E A B (src_ref k))
  | 8 => x_ref (Root.cast_mut E A B (src_ref k))
  | 9 => x_ref_p (Root.try_from_bytes E B (src_bytes k))
  | 10 => x_ref_p (Root.try_from_bytes_mut E B (src_bytes k))
  | 11 => x_ref (Root.from_bytes E B (src_bytes k))
  | 12 => x_ref (Root.from_bytes_mut E B (src_bytes k))
  | 15 | 16 => XSplit (align_to A B (k_addr k) (k_len k))
  | 13 => x_slice (Root.bytes_of E A (src_ref k))
  | 14 => x_slice (Root.bytes_of_mut E A (src_ref k))
  | 21 => x_slice_c (Checked.try_cast_slice E A C (src_slice k))
  | 22 => x_slice_c (Checked.try_cast_slice_mut E A C (src_slice k))
  | 23 => x_slice (Checked.cast_slice E A C (src_slice k))
  | 24 => x_slice (Checked.cast_slice_mut E A C (src_slice k))
  | 25 => x_ref_c (Checked.try_cast_ref E A C (src_ref k))
  | 26 => x_ref_c (Checked.try_cast_mut E A C (src_ref k))
  | 27 => x_ref (Checked.cast_ref E A C (src_ref k))
  | 28 => x_ref (Checked.cast_mut E A C (src_ref k))
  | 29 => x_ref_c (Checked.try_from_bytes E C (src_bytes k))
  | 30 => x_ref_c (Checked.try_from_bytes_mut E C (src_bytes k))
  | 31 => x_ref (Checked.from_bytes E C (src_bytes k))
  | 32 => x_ref (Checked.from_bytes_mut E C (src_bytes k))
  | 41 => x_ref (Must.must_cast_ref E A B (src_ref k))
  | 42 => x_ref (Must.must_cast_mut E A B (src_ref k))
  | 43 => x_slice (Must.must_cast_slice E A B (src_slice k))
  | 44 => x_slice (Must.must_cast_slice_mut E A B (src_slice k))
  | 45 => x_val (Must.must_cast E A B (k_bytes k))
  | 141 | 142 => if must_ref_okb A B then XCompiles else XCompileFail
  | 143 | 144 => if must_slice_okb A B then XCompiles else XCompileFail
  | 145 => if must_val_okb A B then XCompiles else XCompileFail
  | 51 => x_val_p (Root.try_cast E A B (k_bytes k))
  | 52 => x_val (Root.cast E A B (k_bytes k))
  | 53 => x_val_p (Root.try_pod_read_unaligned E B (src_bytes k))
  | 54 => x_val (Root.pod_read_unaligned E B (src_bytes k))
  | 61 => x_val_c (Checked.try_cast E A C (k_bytes k))
  | 62 => x_val (Checked.cast E A C (k_bytes k))
  | 63 => x_val_c (Checked.try_pod_read_unaligned E C (src_bytes k))
  | 64 => x_val (Checked.pod_read_unaligned E C (src_bytes k))
  | _ => XBad
  end.

(* ---- monitors on observations: independent of the translated code ---- *)
Definition obs_of_x (x : xobs) : obs :=
  match x with
  | XOk a n => OOk a n
  | XErr c => match perr_of_code (if 10 <=? c then c - 10 else c) with Some e => OErr e | None => OBad end
  | XPanicMsg c => match perr_of_code c with Some e => OPanicMsg (EP e) | None => OPanicOther end
  | XPanicOther => OPanicOther
  | _ => OBad
  end.

Definition is_slice_fn (f : N) : bool :=
  match f with 1 | 2 | 3 | 4 | 21 | 22 | 23 | 24 | 43 | 44 => true | _ => false end.
Definition is_ref_fn (f : N) : bool :=
  match f with 5 | 6 | 7 | 8 | 25 | 26 | 27 | 28 | 41 | 42 => true | _ => false end.
Definition is_bytes_fn (f : N) : bool :=
  match f with 9 | 10 | 11 | 12 | 29 | 30 | 31 | 32 => true | _ => false end.
Definition is_bytes_of_fn (f : N) : bool := match f with 13 | 14 => true | _ => false end.

(* C01 on one observed view (whatever the flavour of the cast that produced it): the view covers
   exactly the source bytes (same byte length; same start address when non-empty) and is aligned *)
Definition view_okb (src_addr src_bytes : N) (B : ty) (a n : N) : bool :=
  (n * sz B =? src_bytes) && (a mod al B =? 0) && ((n * sz B =? 0) || (a =? src_addr)).

Definition monitor_c01 (k : case) (x : xobs) : bool :=
  let A := k_A k in let B := k_B k in let f := k_fn k in
  match x with
  | XOk a n =>
      if is_slice_fn f then view_okb (k_addr k) (k_len k * sz A) B a n
      else if is_ref_fn f then (n =? 1) && view_okb (k_addr k) (sz A) B a 1
      else if is_bytes_fn f then (n =? 1) && view_okb (k_addr k) (k_len k) B a 1
      else if is_bytes_of_fn f then view_okb (k_addr k) (sz A) u8_ty a n
      else true
  | XSplit r => tilesb A B (k_addr k) (k_len k) r
  | _ => true
  end.

(* C02 for the try_ forms (root module, and checked module with an any-bit-pattern target) *)
Definition monitor_c02 (k : case) (x : xobs) : bool :=
  let A := k_A k in let B := k_B k in
  let root := match x with XErr c => c <? 10 | _ => true end in
  let chk := match x with XErr c => (10 <=? c) && (c <? 14) | _ => true end in
  match k_fn k with
  | 1 | 2 => root && mon_try_slice A B (src_slice k) (obs_of_x x)
  | 5 | 6 => root && mon_try_ref A B (src_ref k) (obs_of_x x)
  | 9 | 10 => root && mon_try_bytes B (src_bytes k) (obs_of_x x)
  | 21 | 22 => if k_kind k =? 0 then chk && mon_try_slice A B (src_slice k) (obs_of_x x) else true
  | 25 | 26 => if k_kind k =? 0 then chk && mon_try_ref A B (src_ref k) (obs_of_x x) else true
  | 29 | 30 => if k_kind k =? 0 then chk && mon_try_bytes B (src_bytes k) (obs_of_x x) else true
  | _ => true
  end.

Definition bytes_eqb (v w : list N) : bool := if list_eq_dec N.eq_dec v w then true else false.

(* C03: by-value casts and unaligned reads preserve every bit / report a size mismatch *)
Definition monitor_c03 (k : case) (x : xobs) : bool :=
  let A := k_A k in let B := k_B k in
  match k_fn k with
  | 51 | 45 => if sz A =? sz B then match x with XVal v => bytes_eqb v (k_bytes k) | _ => false end
          else match x with XErr 2 | XCompileFail => true | _ => false end
  | 53 => if k_len k =? sz B then match x with XVal v => bytes_eqb v (k_bytes k) | _ => false end
          else match x with XErr 2 => true | _ => false end
  (* the panicking forms (cast, pod_read_unaligned; checked:: twins on any-bit-pattern targets): the same
     bytes when the sizes / the length match, otherwise a panic - never a value *)
  | 52 => if sz A =? sz B then match x with XVal v => bytes_eqb v (k_bytes k) | _ => false end
          else match x with XPanicMsg _ | XPanicOther => true | _ => false end
  | 54 => if k_len k =? sz B then match x with XVal v => bytes_eqb v (k_bytes k) | _ => false end
          else match x with XPanicMsg _ | XPanicOther => true | _ => false end
  | 62 => if k_kind k =? 0 then
            if sz A =? sz B then match x with XVal v => bytes_eqb v (k_bytes k) | _ => false end
            else match x with XPanicMsg _ | XPanicOther => true | _ => false end
          else true
  | 64 => if k_kind k =? 0 then
            if k_len k =? sz B then match x with XVal v => bytes_eqb v (k_bytes k) | _ => false end
            else match x with XPanicMsg _ | XPanicOther => true | _ => false end
          else true
  | _ => true
  end.

(* C07: a checked cast succeeds iff the plain cast would and every element is valid *)
Fixpoint chunks (n : nat) (sz : nat) (bs : list N) : list (list N) :=
  match n with
  | O => []
  | S m => firstn sz bs :: chunks m sz (skipn sz bs)
  end.
Definition all_valid (k : case) (nelem : N) : bool :=
  forallb (valid_kind (k_kind k)) (chunks (N.to_nat nelem) (N.to_nat (sz (k_B k))) (k_bytes k)).

Definition monitor_c07 (k : case) (x : xobs) : bool :=
  let A := k_A k in let B := k_B k in
  let layout_slice := slice_cast_okb A B (src_slice k) in
  let layout_ref := ref_cast_okb A B (src_ref k) in
  let layout_bytes := bytes_cast_okb B (src_bytes k) in
  let decide (layout : bool) (nelem : N) (okshape : bool) :=
    if layout then
      if all_valid k nelem then okshape else match x with XErr 14 => true | _ => false end
    else match x with XErr c => (10 <=? c) && (c <? 14) | _ => false end in
  match k_fn k with
  | 21 | 22 => decide layout_slice (if sz B =? 0 then 0 else k_len k * sz A / sz B)
                 (match x with XOk _ _ => monitor_c01 k x | _ => false end)
  | 25 | 26 => decide layout_ref 1 (match x with XOk _ _ => monitor_c01 k x | _ => false end)
  | 29 | 30 => decide layout_bytes 1 (match x with XOk _ _ => monitor_c01 k x | _ => false end)
  | 61 => decide (sz A =? sz B) 1 (match x with XVal v => bytes_eqb v (k_bytes k) | _ => false end)
  | 63 => decide (k_len k =? sz B) 1 (match x with XVal v => bytes_eqb v (k_bytes k) | _ => false end)
  | _ => true
  end.

(* C11 monitor: [t] observed from the try_ form, [p] from the panicking form, same input *)
Definition monitor_c11 (t p : xobs) : bool :=
  match t, p with
  | XOk a n, XOk a' n' => (a =? a') && (n =? n')
  | XVal v, XVal v' => bytes_eqb v v'
  | XErr c, XPanicMsg c' => c =? c'
  | _, _ => false
  end.

(* C14 (run-time half): a must_ cast that compiles returns what the try_ cast returns *)
Definition monitor_c14 (t p : xobs) : bool :=
  match t, p with
  | XOk a n, XOk a' n' => (a =? a') && (n =? n')
  | XVal v, XVal v' => bytes_eqb v v'
  | _, _ => false
  end.

Definition slice_infallibleb (A B : ty) : bool :=
  (al B <=? al A) && ((sz A =? 0) || (negb (sz B =? 0) && (sz A mod sz B =? 0))).
Definition ref_infallibleb (A B : ty) : bool := (al B <=? al A) && (sz A =? sz B).
Lemma slice_infallibleb_spec A B : slice_infallibleb A B = true <-> slice_infallible A B.
Proof.
  unfold slice_infallibleb, slice_infallible.
  rewrite andb_true_iff, orb_true_iff, andb_true_iff, negb_true_iff, N.leb_le, !N.eqb_eq, N.eqb_neq. tauto.
Qed.
Lemma ref_infallibleb_spec A B : ref_infallibleb A B = true <-> ref_infallible A B.
Proof. unfold ref_infallibleb, ref_infallible. rewrite andb_true_iff, N.leb_le, N.eqb_eq. tauto. Qed.

(* C14 (compile half): the observed compile verdict must be the infallibility predicate *)
Definition monitor_c14_verdict (k : case) (x : xobs) : bool :=
  let A := k_A k in let B := k_B k in
  let want := match k_fn k with
              | 141 | 142 => ref_infallibleb A B
              | 143 | 144 => slice_infallibleb A B
              | _ => sz A =? sz B
              end in
  match x with
  | XCompiles => want
  | XCompileFail => negb want
  | _ => false
  end.

Definition split_eqb (r q : split3) : bool :=
  (pre_addr r =? pre_addr q) && (pre_len r =? pre_len q) &&
  ((mid_len r =? 0) && (mid_len q =? 0) || (mid_addr r =? mid_addr q) && (mid_len r =? mid_len q)) &&
  ((suf_len r =? 0) && (suf_len q =? 0) || (suf_addr r =? suf_addr q) && (suf_len r =? suf_len q)).

Definition xobs_eqb (x y : xobs) : bool :=
  match x, y with
  | XOk a n, XOk a' n' => (a =? a') && (n =? n')
  | XErr c, XErr c' | XPanicMsg c, XPanicMsg c' | XErrVal c, XErrVal c' => c =? c'
  | XPanicOther, XPanicOther | XCompileFail, XCompileFail | XBad, XBad | XCompiles, XCompiles => true
  | XSplit r, XSplit q => split_eqb r q
  | XVal v, XVal v' => bytes_eqb v v'
  | _, _ => false
  end.
