(* Extract/DriverTables.v — executable models and monitors for the table-driven properties
   (C17 Contiguous; later C04 census rows), over the tables REGENERATED from the source
   (Gen/Tables.v).  Dispatches the allocation-family lines to DriverAlloc. *)
From Coq Require Import NArith ZArith List Bool String.
From BM Require Import Base.Outcome Base.Prims Base.TyExpr Model.LangInt Model.LangValid.
From BM Require Import Extract.DriverAlloc.
From BM.Gen Require Tables.
Import ListNotations.
Open Scope bool_scope.
Open Scope string_scope.
Open Scope Z_scope.

(* the built-in Contiguous types in the order the contig harness numbers them *)
Definition builtin_names : list string :=
  ["bool"; "u8"; "u16"; "u32"; "u64"; "u128"; "usize"; "i8"; "i16"; "i32"; "i64"; "i128"; "isize";
   "NonZeroU8"; "NonZeroU16"; "NonZeroU32"; "NonZeroU64"; "NonZeroU128"; "NonZeroUsize"].

Fixpoint find_row (name : string) (rows : list crow) : option crow :=
  match rows with
  | [] => None
  | r :: q => if String.eqb (c_self_name r) name then Some r else find_row name q
  end.

(* 401: [type index; value; is_some; roundtrip; MIN_VALUE; MAX_VALUE] *)
Definition model_builtin (v : list Z) : list Z :=
  let idx := nth 0 v 0 in let x := nth 1 v 0 in
  match find_row (nth (Z.to_nat idx) builtin_names "") Tables.contiguous_rows_all with
  | Some r => [idx; x; zb (Tables.contiguous_in_range_all (c_min r) (c_max r) x); 1; c_min r; c_max r]
  | None => [idx; x; -1; -1; 0; 0]
  end.
Definition mon_builtin (v : list Z) : bool :=
  let idx := nth 0 v 0 in let x := nth 1 v 0 in
  let name := nth (Z.to_nat idx) builtin_names "" in
  match valid_interval name with
  | Some (_, lo, hi) =>
      (nthz 2 v =? zb (valid_value name x)) && (nthz 3 v =? 1) && (nthz 4 v =? lo) && (nthz 5 v =? hi)
  | None => false
  end.

(* 402: a derived enum whose discriminants are exactly min..=max, and its hand-written twin that
   uses the default methods: [min; max; value; derived_some; default_some; derived_rt; default_rt; minmax_ok] *)
Definition model_derived (v : list Z) : list Z :=
  let mn := nth 0 v 0 in let mx := nth 1 v 0 in let x := nth 2 v 0 in
  let s := zb (Tables.contiguous_in_range_all mn mx x) in [mn; mx; x; s; s; 1; 1; 1].
Definition mon_derived (v : list Z) : bool :=
  let mn := nth 0 v 0 in let mx := nth 1 v 0 in let x := nth 2 v 0 in
  let s := zb ((mn <=? x) && (x <=? mx)) in
  (nthz 3 v =? s) && (nthz 4 v =? s) && (nthz 5 v =? 1) && (nthz 6 v =? 1) && (nthz 7 v =? 1).

Definition xmodel (a : acase) (v : list Z) : list Z :=
  match a_fn a with
  | 401%N => model_builtin v
  | 402%N => model_derived v
  | _ => amodel a
  end.

Definition xmonitors (a : acase) (v : list Z) : list (N * bool) :=
  match a_fn a with
  | 401%N => [(17%N, mon_builtin v)]
  | 402%N => [(17%N, mon_derived v)]
  | _ => amonitors a v
  end.
