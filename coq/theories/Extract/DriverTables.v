(* Extract/DriverTables.v — executable models and monitors for the table-driven properties
   (C17 Contiguous; later C04 census rows), over the tables REGENERATED from the source
   (Gen/Tables.v).  Dispatches the allocation-family lines to DriverAlloc. *)
From Coq Require Import NArith ZArith List Bool String.
From BM Require Import Base.Outcome Base.Prims Base.TyExpr Model.LangInt Model.LangValid.
From BM Require Import Extract.DriverAlloc.
From BM.Gen Require Tables.
Import ListNotations.
Open Scope bool_scope.
Open Scope string_scope.
Open Scope Z_scope.

(* the built-in Contiguous types in the order the contig harness numbers them *)
Definition builtin_names : list string :=
  ["bool"; "u8"; "u16"; "u32"; "u64"; "u128"; "usize"; "i8"; "i16"; "i32"; "i64"; "i128"; "isize";
   "NonZeroU8"; "NonZeroU16"; "NonZeroU32"; "NonZeroU64"; "NonZeroU128"; "NonZeroUsize"].

Fixpoint find_row (name : string) (rows : list crow) : option crow :=
  match rows with
  | [] => None
  | r :: q => if String.eqb (c_self_name r) name then Some r else find_row name q
  end.

(* 401: [type index; value; is_some; roundtrip; MIN_VALUE; MAX_VALUE]; the type's name travels in the
   case's byte field (ASCII), so that impls added to the crate are probed too *)
Fixpoint string_of_codes (l : list N) : string :=
  match l with
  | [] => EmptyString
  | c :: r => String (Ascii.ascii_of_N c) (string_of_codes r)
  end.
Definition builtin_name (a : acase) (v : list Z) : string :=
  match a_ops a with
  | [] => nth (Z.to_nat (nth 0 v 0)) builtin_names ""
  | l => string_of_codes l
  end.
Definition model_builtin (a : acase) (v : list Z) : list Z :=
  let idx := nth 0 v 0 in let x := nth 1 v 0 in
  match find_row (builtin_name a v) Tables.contiguous_rows_all with
  | Some r => [idx; x; zb (Tables.contiguous_in_range_all (c_min r) (c_max r) x); 1; c_min r; c_max r]
  | None => [idx; x; -1; -1; 0; 0]
  end.
(* the impl is right about the probed integer: from_integer is Some exactly when the integer is a valid value
   of the type, the value lies inside [MIN_VALUE, MAX_VALUE] exactly then, the round trip is exact; for a
   type whose valid values form an interval the two constants are its ends.  No verdict for a type this
   reading of the language does not know (the proof leg then reports the row). *)
Definition mon_builtin (a : acase) (v : list Z) : bool :=
  let x := nth 1 v 0 in
  let name := builtin_name a v in
  match known_valid name x with
  | Some ok =>
      (nthz 2 v =? zb ok) && (nthz 3 v =? 1) && (Bool.eqb ((nthz 4 v <=? x) && (x <=? nthz 5 v)) ok) &&
      match valid_interval name with
      | Some (_, lo, hi) => (nthz 4 v =? lo) && (nthz 5 v =? hi)
      | None => true
      end
  | None => true
  end.

(* 402: a derived enum whose discriminants are exactly min..=max, and its hand-written twin that
   uses the default methods: [min; max; value; derived_some; default_some; derived_rt; default_rt; minmax_ok] *)
Definition model_derived (v : list Z) : list Z :=
  let mn := nth 0 v 0 in let mx := nth 1 v 0 in let x := nth 2 v 0 in
  let s := zb (Tables.contiguous_in_range_all mn mx x) in [mn; mx; x; s; s; 1; 1; 1].
Definition mon_derived (v : list Z) : bool :=
  let mn := nth 0 v 0 in let mx := nth 1 v 0 in let x := nth 2 v 0 in
  let s := zb ((mn <=? x) && (x <=? mx)) in
  (nthz 3 v =? s) && (nthz 4 v =? s) && (nthz 5 v =? 1) && (nthz 6 v =? 1) && (nthz 7 v =? 1).

Definition xmodel (a : acase) (v : list Z) : list Z :=
  match a_fn a with
  | 401%N => model_builtin a v
  | 402%N => model_derived v
  | _ => amodel a
  end.

Definition xmonitors (a : acase) (v : list Z) : list (N * bool) :=
  match a_fn a with
  | 401%N => [(17%N, mon_builtin a v); (4%N, mon_builtin a v)]
  | 402%N => [(17%N, mon_derived v)]
  | _ => amonitors a v
  end.

(* ---- 410: census rows (C04).  [cfg]: 0 none, 1 alloc, 2 alloc+align_offset+track_caller, 3 all stable sound ---- *)
From BM Require Import Model.LangOracle Model.TraitSolver.
Definition rules_of (cfg : N) : list rule :=
  match cfg with 0%N => Tables.rules_none | 1%N => Tables.rules_alloc | 2%N => Tables.rules_aat | _ => Tables.rules_all end.

Definition census_markers : list string :=
  ["Pod"; "Zeroable"; "NoUninit"; "AnyBitPattern"; "CheckedBitPattern"; "PodInOption"; "ZeroableInOption"].

Definition cmodel (cfg : N) (t : tyx) : list Z := map (fun m => zb (impl_holds (rules_of cfg) m t)) census_markers.

(* C04 on one census row: every marker the compiler reports for the type is one whose contract the
   language guarantees for it, and the marker lattice is respected *)
Definition cmonitor (t : tyx) (v : list Z) : bool :=
  let f := ground_facts t in
  let has (i : nat) := (nthz i v =? 1)%Z in
  let imp (a b : bool) := negb a || b in
  allb (fun im => let '(i, m) := im in imp (has i) (contractb m f))
       (combine (seq 0 7) census_markers) &&
  imp (has 0%nat) (has 1%nat && has 2%nat && has 3%nat) && imp (has 3%nat) (has 1%nat && has 4%nat).

(* C20 on two census rows of the same type under a smaller and a larger feature set: nothing is lost *)
Definition cmonotone (small large : list Z) : bool :=
  allb (fun i => negb (nthz i small =? 1)%Z || (nthz i large =? 1)%Z) (seq 0 7).

(* ---- 501 / 502 / 503: derive verdicts for structs and unions (C05), repr(C) layout model vs the
   compiler (C05 / C19), offset_of! (C19) ---- *)
From BM Require Import Model.ReprC Model.DeriveStruct.
Local Open Scope Z_scope.
Definition bit (m : Z) (k : Z) : bool := Z.odd (m / 2 ^ k).
Fixpoint sfields_of (v : list Z) (n : nat) : list sfield :=
  match n, v with
  | S k, s :: a :: m :: r =>
      mkSF (Z.to_N s) (Z.to_N a) (bit m 0) (bit m 1) (bit m 2) (bit m 3) (bit m 4) (bit m 5) (bit m 6) :: sfields_of r k
  | _, _ => []
  end.
Definition derive_of (z : Z) : derive :=
  match z with 0 => DPod | 1 => DNoUninit | 2 => DAnyBitPattern | 3 => DZeroable | _ => DTransparentWrapper end.
Definition skind_of (z : Z) : skind := match z with 0 => KNamed | 1 => KTuple | 2 => KUnit | _ => KUnion end.

(* vector: verdict der kind C tr packed align gen capture twattr plain_size nf (size align mask)* *)
Definition sdef_of (v : list Z) : sdef :=
  mkSD (skind_of (nthz 2 v)) (nthz 3 v =? 1) (nthz 4 v =? 1) (Z.to_N (nthz 5 v)) (Z.to_N (nthz 6 v))
       (negb (nthz 7 v =? 0)) (nthz 8 v =? 1) (nthz 9 v =? 1) (sfields_of (skipn 12 v) (Z.to_nat (nthz 11 v))).

Definition model_derive_struct (v : list Z) : list Z :=
  zb (derive_accepts (derive_of (nthz 1 v)) (sdef_of v) (Z.to_N (nthz 10 v))) :: tl v.

(* C05 on one observed verdict: accepted => the contract holds of the type as the COMPILER laid it
   out; documented requirements met => accepted *)
Definition mon_derive_struct (v : list Z) : bool :=
  let d := sdef_of v in let dv := derive_of (nthz 1 v) in let sz := Z.to_N (nthz 10 v) in
  if nthz 0 v =? 1 then contract_ok dv d sz else negb (documented_ok dv d sz).

(* vector: C tr packed align obs_size obs_align nf (size align obs_offset)* *)
Fixpoint flds3 (v : list Z) (n : nat) : list fld * list Z :=
  match n, v with
  | S k, s :: a :: o :: r => let '(fs, os) := flds3 r k in (mkFld (Z.to_N s) (Z.to_N a) :: fs, o :: os)
  | _, _ => ([], [])
  end.
Definition model_layout (v : list Z) : list Z :=
  let '(fs, os) := flds3 (skipn 7 v) (Z.to_nat (nthz 6 v)) in
  let l := layout_C (Z.to_N (nthz 2 v)) (Z.to_N (nthz 3 v)) fs in
  let fix weave (fs : list fld) (os : list N) : list Z :=
    match fs, os with f :: r, o :: q => Z.of_N (f_size f) :: Z.of_N (f_align f) :: Z.of_N o :: weave r q | _, _ => [] end in
  firstn 4 v ++ [Z.of_N (lc_size l); Z.of_N (lc_align l); nthz 6 v] ++ weave fs (lc_offsets l).

(* vector: compiled packed falign macro2 macro3 core   (the two forms of offset_of! and the compiler's own) *)
Definition model_offset_of (v : list Z) : list Z :=
  let rejected := negb (nthz 1 v =? 0) && (nthz 1 v <? nthz 2 v) in
  if rejected then [0; nthz 1 v; nthz 2 v; -1; -1; nthz 5 v] else [1; nthz 1 v; nthz 2 v; nthz 5 v; nthz 5 v; nthz 5 v].
(* evaluates to the true offset (both forms; the three-argument form also on a named instance used again
   and through a reference) unless the field is an under-aligned field of a packed struct, which must be
   refused - and nothing else may be refused *)
Definition mon_offset_of (v : list Z) : bool :=
  let must_refuse := negb (nthz 1 v =? 0) && (nthz 1 v <? nthz 2 v) in
  if nthz 0 v =? 1 then (nthz 3 v =? nthz 5 v) && (nthz 4 v =? nthz 5 v) && negb must_refuse
  else must_refuse.
(* 504: a field reached only through Deref: must not compile *)
Definition model_offset_deref (v : list Z) : list Z := [0].
Definition mon_offset_deref (v : list Z) : bool := nthz 0 v =? 0.

(* ---- 511 / 513 / 514: enum derives (C06) ---- *)
From BM Require Import Model.DeriveEnum.
Local Open Scope Z_scope.
Fixpoint variants_of (v : list Z) (n : nat) : list variant * list Z :=
  match n, v with
  | S k, e :: x :: hf :: fz :: r =>
      let '(vs, rest) := variants_of r k in
      (mkVar (if e =? 1 then Some x else None) (hf =? 1) (fz =? 1) :: vs, rest)
  | _, _ => ([], v)
  end.
Definition erepr_of (z : Z) : erepr := match z with 0 => RNone | 1 => RC | 2 => RInt | _ => RCInt end.

(* vector: verdict der repr bits signed nvar (explicit value hasfields fields_zeroable)* ncomp compiler_discs* *)
Definition model_enum (v : list Z) : list Z :=
  let '(vs, rest) := variants_of (skipn 6 v) (Z.to_nat (nthz 5 v)) in
  let r := erepr_of (nthz 2 v) in
  let fieldless := negb (existsb v_has_fields vs) in
  let verdict := match nthz 1 v with
                 | 0 => contiguous_accepts r vs
                 | 1 => if fieldless then checked_fieldless_accepts r vs else negb (match r with RNone => true | _ => false end)
                 | 2 => zeroable_accepts r vs
                 | _ => nouninit_accepts r vs
                 end in
  let ncomp := nthz 0 rest in
  (* the discriminants the compiler reports must be the ones the macro computes *)
  zb verdict :: firstn 5 (tl v) ++ firstn (4 * Z.to_nat (nthz 5 v)) (skipn 6 v) ++
  (if ncomp =? 0 then [0] else ncomp :: derive_discs vs).

(* C06 judged on the COMPILER's discriminants, independently of the macro model *)
Definition mon_enum (v : list Z) : bool :=
  let '(vs, rest) := variants_of (skipn 6 v) (Z.to_nat (nthz 5 v)) in
  let r := erepr_of (nthz 2 v) in
  let comp := tl rest in
  let fieldless := negb (existsb v_has_fields vs) in
  let accepted := nthz 0 v =? 1 in
  let is_int := match r with RInt => true | _ => false end in
  let explicit := negb (match r with RNone => true | _ => false end) in
  let zero_ok := match zero_variant vs comp with Some x => v_fields_zeroable x | None => false end in
  match nthz 1 v with
  | 0 => if fieldless then Bool.eqb accepted (is_int && gap_free comp) else negb accepted
  | 1 => if fieldless then Bool.eqb accepted is_int else (negb accepted || explicit)
  | 2 => if fieldless then Bool.eqb accepted (explicit && zero_ok) else (negb accepted || explicit)
  | _ => Bool.eqb accepted (is_int && fieldless)
  end.

(* 513: vector: MIN MAX n discs* *)
Definition model_minmax (v : list Z) : list Z :=
  match skipn 3 v with
  | d :: l => lmin d l :: lmax d l :: skipn 2 v
  | [] => v
  end.
Definition mon_minmax (v : list Z) : bool :=
  match skipn 3 v with
  | d :: l => (nthz 0 v =? lmin d l) && (nthz 1 v =? lmax d l)
  | [] => false
  end.

(* 514: vector: bits signed exhaustive_count n discs* nprobes (value accepted)* *)
Fixpoint pairs_of (v : list Z) : list (Z * Z) := match v with a :: b :: r => (a, b) :: pairs_of r | _ => [] end.
Definition model_valid (v : list Z) : list Z :=
  let n := Z.to_nat (nthz 3 v) in
  let ds := firstn n (skipn 4 v) in
  let probes := pairs_of (skipn (5 + n) v) in
  let vs := map (fun d => mkVar (Some d) false true) ds in
  firstn 2 v ++ [if nthz 2 v <? 0 then -1 else Z.of_nat (List.length (nodup Z.eq_dec ds))] ++ [nthz 3 v] ++ ds ++ [nthz (4 + n) v] ++
  flat_map (fun p => [fst p; zb (is_valid_fieldless vs (fst p))]) probes.
Definition mon_valid (v : list Z) : bool :=
  let n := Z.to_nat (nthz 3 v) in
  let ds := firstn n (skipn 4 v) in
  let probes := pairs_of (skipn (5 + n) v) in
  ((nthz 2 v <? 0) || (nthz 2 v =? Z.of_nat (List.length (nodup Z.eq_dec ds)))) &&
  forallb (fun p => Bool.eqb (snd p =? 1) (existsb (Z.eqb (fst p)) ds)) probes.

(* ---- 512: derived CheckedBitPattern (C08) ---- *)
From BM Require Import Model.DeriveChecked.
Local Open Scope Z_scope.
Definition leafk_of (z : Z) : leafk := match z with 0 => LAny | 1 => LBool | 2 => LChar | _ => LNonZero end.
(* prefix encoding: leaf 0 size align kind | struct 1 packed align n T.. | enum 2 rk tagsize signed nvar (disc nf T..).. *)
Fixpoint parse_cty (fuel : nat) (v : list Z) : option (cty * bool * list Z) :=
  match fuel with
  | O => None
  | S k =>
      let fix many (n : nat) (v : list Z) : option (list cty * list Z) :=
        match n with
        | O => Some ([], v)
        | S m => match parse_cty k v with
                 | Some (t, _, r) => match many m r with Some (ts, r') => Some (t :: ts, r') | None => None end
                 | None => None
                 end
        end in
      match v with
      | 0 :: sz :: al :: kd :: r => Some (CLeaf (Z.to_N sz) (Z.to_N al) (leafk_of kd), false, r)
      | 1 :: pk :: al :: n :: r =>
          match many (Z.to_nat n) r with Some (fs, r') => Some (CStruct (Z.to_N pk) (Z.to_N al) fs, false, r') | None => None end
      | 2 :: rk :: ts :: sg :: ea :: nv :: r =>
          let fix vars (n : nat) (v : list Z) : option (list (Z * list cty) * list Z) :=
            match n with
            | O => Some ([], v)
            | S m => match v with
                     | d :: nf :: r1 => match many (Z.to_nat nf) r1 with
                                        | Some (fs, r2) => match vars m r2 with Some (vs, r3) => Some ((d, fs) :: vs, r3) | None => None end
                                        | None => None
                                        end
                     | _ => None
                     end
            end in
          match vars (Z.to_nat nv) r with Some (vs, r') => Some (CEnum (Z.to_N rk) (Z.to_N ts) (Z.to_N ea) (sg =? 1) vs, sg =? 1, r') | None => None end
      | _ => None
      end
  end.

(* vector: compiled sizeT alignT sizeBits alignBits flag lenenc enc.. lenimg img.. ;  flag: 1 valid, 0 invalid,
   2 is_valid_bit_pattern and the checked cast disagree, -1 no image *)
Definition model_checked (v : list Z) : list Z :=
  let enc := firstn (Z.to_nat (nthz 6 v)) (skipn 7 v) in
  let rest := skipn (7 + Z.to_nat (nthz 6 v)) v in
  let img := map Z.to_N (tl rest) in
  match parse_cty 40 enc with
  | Some (t, sg, _) =>
      let '(s, a) := lay t in let '(sb, ab) := lay (bits_of t) in
      [1; Z.of_N s; Z.of_N a; Z.of_N sb; Z.of_N ab;
       if nthz 5 v =? -1 then -1 else zb (valid 40 sg t img)] ++ skipn 6 v
  | None => []
  end.
Definition mon_checked (v : list Z) : bool :=
  let enc := firstn (Z.to_nat (nthz 6 v)) (skipn 7 v) in
  let rest := skipn (7 + Z.to_nat (nthz 6 v)) v in
  let img := map Z.to_N (tl rest) in
  match parse_cty 40 enc with
  | Some (t, sg, _) =>
      (nthz 0 v =? 1) && (nthz 1 v =? nthz 3 v) && (nthz 2 v =? nthz 4 v) &&
      ((nthz 5 v =? -1) || (nthz 5 v =? zb (valid 40 sg t img)))
  | None => false
  end.

(* ---- 521 / 522 / 523: ByteEq / ByteHash (C18) ----
   521: eq bytes_eq ne_consistent law_std law_fx single_write_a single_write_b
   522: len bytes_eq law_fx single_write        523: reflexive symmetric transitive *)
Definition model_byte_pair (v : list Z) : list Z := [nthz 1 v; nthz 1 v; 1; 1; 1; 1; 1].
Definition mon_byte_pair (v : list Z) : bool :=
  (nthz 0 v =? nthz 1 v) && (nthz 2 v =? 1) && (nthz 3 v =? 1) && (nthz 4 v =? 1) && (nthz 5 v =? 1) && (nthz 6 v =? 1).
Definition model_byte_slice (v : list Z) : list Z := [nthz 0 v; nthz 1 v; 1; 1].
Definition mon_byte_slice (v : list Z) : bool := (nthz 2 v =? 1) && (nthz 3 v =? 1).
Definition model_byte_laws (v : list Z) : list Z := [1; 1; 1].
Definition mon_byte_laws (v : list Z) : bool := (nthz 0 v =? 1) && (nthz 1 v =? 1) && (nthz 2 v =? 1).

(* 531: a container method of TransparentWrapperAlloc used on a given wrapper (unsized inners included): the program
   must compile (the method exists for that wrapper) and its round trip must be exact: [compiles; roundtrip_ok] *)
Definition model_api (v : list Z) : list Z := [1; 1].
Definition mon_api (v : list Z) : bool := (nthz 0 v =? 1) && (nthz 1 v =? 1).

Definition xmodel2 (a : acase) (v : list Z) : list Z :=
  match a_fn a with
  | 501%N => model_derive_struct v
  | 502%N => model_layout v
  | 503%N => model_offset_of v
  | 504%N => model_offset_deref v
  | 511%N => model_enum v
  | 512%N => model_checked v
  | 521%N => model_byte_pair v
  | 522%N => model_byte_slice v
  | 523%N => model_byte_laws v
  | 513%N => model_minmax v
  | 514%N => model_valid v
  | 531%N => model_api v
  | _ => xmodel a v
  end.
Definition xmonitors2 (a : acase) (v : list Z) : list (N * bool) :=
  match a_fn a with
  | 501%N => [(5%N, mon_derive_struct v)]
  | 502%N => []
  | 503%N => [(19%N, mon_offset_of v)]
  | 504%N => [(19%N, mon_offset_deref v)]
  (* a derive(Contiguous) verdict is also C17's business: only gap-free enums may get the trait *)
  | 511%N => [(6%N, mon_enum v); (17%N, if nthz 1 v =? 0 then mon_enum v else true)]
  | 512%N => [(8%N, mon_checked v)]
  | 521%N => [(18%N, mon_byte_pair v)]
  | 522%N => [(18%N, mon_byte_slice v)]
  | 523%N => [(18%N, mon_byte_laws v)]
  | 513%N => [(6%N, mon_minmax v); (17%N, mon_minmax v)]
  | 514%N => [(6%N, mon_valid v); (8%N, mon_valid v)]
  | 531%N => [(13%N, mon_api v)]
  | _ => xmonitors a v
  end.
