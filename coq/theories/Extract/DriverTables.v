(* Extract/DriverTables.v — executable models and monitors for the table-driven properties
   (C17 Contiguous; later C04 census rows), over the tables REGENERATED from the source
   (Gen/Tables.v).  Dispatches the allocation-family lines to DriverAlloc. *)
From Coq Require Import NArith ZArith List Bool String.
From BM Require Import Base.Outcome Base.Prims Base.TyExpr Model.LangInt Model.LangValid.
From BM Require Import Extract.DriverAlloc.
From BM.Gen Require Tables.
Import ListNotations.
Open Scope bool_scope.
Open Scope string_scope.
Open Scope Z_scope.

(* the built-in Contiguous types in the order the contig harness numbers them *)
Definition builtin_names : list string :=
  ["bool"; "u8"; "u16"; "u32"; "u64"; "u128"; "usize"; "i8"; "i16"; "i32"; "i64"; "i128"; "isize";
   "NonZeroU8"; "NonZeroU16"; "NonZeroU32"; "NonZeroU64"; "NonZeroU128"; "NonZeroUsize"].

Fixpoint find_row (name : string) (rows : list crow) : option crow :=
  match rows with
  | [] => None
  | r :: q => if String.eqb (c_self_name r) name then Some r else find_row name q
  end.

(* 401: [type index; value; is_some; roundtrip; MIN_VALUE; MAX_VALUE] *)
Definition model_builtin (v : list Z) : list Z :=
  let idx := nth 0 v 0 in let x := nth 1 v 0 in
  match find_row (nth (Z.to_nat idx) builtin_names "") Tables.contiguous_rows_all with
  | Some r => [idx; x; zb (Tables.contiguous_in_range_all (c_min r) (c_max r) x); 1; c_min r; c_max r]
  | None => [idx; x; -1; -1; 0; 0]
  end.
Definition mon_builtin (v : list Z) : bool :=
  let idx := nth 0 v 0 in let x := nth 1 v 0 in
  let name := nth (Z.to_nat idx) builtin_names "" in
  match valid_interval name with
  | Some (_, lo, hi) =>
      (nthz 2 v =? zb (valid_value name x)) && (nthz 3 v =? 1) && (nthz 4 v =? lo) && (nthz 5 v =? hi)
  | None => false
  end.

(* 402: a derived enum whose discriminants are exactly min..=max, and its hand-written twin that
   uses the default methods: [min; max; value; derived_some; default_some; derived_rt; default_rt; minmax_ok] *)
Definition model_derived (v : list Z) : list Z :=
  let mn := nth 0 v 0 in let mx := nth 1 v 0 in let x := nth 2 v 0 in
  let s := zb (Tables.contiguous_in_range_all mn mx x) in [mn; mx; x; s; s; 1; 1; 1].
Definition mon_derived (v : list Z) : bool :=
  let mn := nth 0 v 0 in let mx := nth 1 v 0 in let x := nth 2 v 0 in
  let s := zb ((mn <=? x) && (x <=? mx)) in
  (nthz 3 v =? s) && (nthz 4 v =? s) && (nthz 5 v =? 1) && (nthz 6 v =? 1) && (nthz 7 v =? 1).

Definition xmodel (a : acase) (v : list Z) : list Z :=
  match a_fn a with
  | 401%N => model_builtin v
  | 402%N => model_derived v
  | _ => amodel a
  end.

Definition xmonitors (a : acase) (v : list Z) : list (N * bool) :=
  match a_fn a with
  | 401%N => [(17%N, mon_builtin v)]
  | 402%N => [(17%N, mon_derived v)]
  | _ => amonitors a v
  end.

(* ---- 410: census rows (C04).  [cfg]: 0 none, 1 alloc, 2 alloc+align_offset+track_caller, 3 all stable sound ---- *)
From BM Require Import Model.LangOracle Model.TraitSolver.
Definition rules_of (cfg : N) : list rule :=
  match cfg with 0%N => Tables.rules_none | 1%N => Tables.rules_alloc | 2%N => Tables.rules_aat | _ => Tables.rules_all end.

Definition census_markers : list string :=
  ["Pod"; "Zeroable"; "NoUninit"; "AnyBitPattern"; "CheckedBitPattern"; "PodInOption"; "ZeroableInOption"].

Definition cmodel (cfg : N) (t : tyx) : list Z := map (fun m => zb (impl_holds (rules_of cfg) m t)) census_markers.

(* C04 on one census row: every marker the compiler reports for the type is one whose contract the
   language guarantees for it, and the marker lattice is respected *)
Definition cmonitor (t : tyx) (v : list Z) : bool :=
  let f := ground_facts t in
  let has (i : nat) := (nthz i v =? 1)%Z in
  let imp (a b : bool) := negb a || b in
  allb (fun im => let '(i, m) := im in imp (has i) (contractb m f))
       (combine (seq 0 7) census_markers) &&
  imp (has 0%nat) (has 1%nat && has 2%nat && has 3%nat) && imp (has 3%nat) (has 1%nat && has 4%nat).

(* C20 on two census rows of the same type under a smaller and a larger feature set: nothing is lost *)
Definition cmonotone (small large : list Z) : bool :=
  allb (fun i => negb (nthz i small =? 1)%Z || (nthz i large =? 1)%Z) (seq 0 7).
