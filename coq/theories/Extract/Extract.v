(* Extract/Extract.v — extraction of the executable model and monitors.  ExtrOcamlBasic only:
   its Extract Inductive directives for bool, option, unit, prod, list, sumbool, sumor,
   comparison; no Extract Constant.  Compiled by the runner from the oracle build directory
   (the .ml files land in the current directory). *)
From Coq Require Import ExtrOcamlBasic.
From BM Require Import Extract.Driver Extract.DriverAlloc Extract.DriverTables.
Extraction Language OCaml.
Extraction "Model.ml" Driver.model Driver.monitor_c01 Driver.monitor_c02 Driver.monitor_c03 Driver.monitor_c07
  Driver.monitor_c11 Driver.monitor_c14 Driver.monitor_c14_verdict Driver.xobs_eqb Driver.mkCase
  DriverTables.xmodel2 DriverTables.xmonitors2 DriverTables.cmodel DriverTables.cmonitor DriverTables.cmonotone DriverAlloc.zlist_eqb DriverAlloc.mkAcase.
