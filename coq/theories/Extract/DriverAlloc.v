(* Extract/DriverAlloc.v — the executable face of the allocation-family models for the allocgrid
   correspondence run: for one case it predicts the vector of numbers the harness observes
   (decision, error code, length, capacity, allocator events with exact layouts, counts, masks),
   and the monitors check an OBSERVED vector against the property statements independently of the
   model's own prediction.  No dependency on Proofs/. *)
From Coq Require Import NArith ZArith List Bool String.
From BM Require Import Base.Outcome Base.Prims Base.Own Base.Layout.
From BM Require Import Model.Alloc Model.ZeroGuard Model.RcHist.
Import ListNotations.
Open Scope bool_scope.
Open Scope Z_scope.

Record acase : Type := mkAcase {
  a_fn : N; a_A : ty; a_B : ty; a_len : Z; a_cap : Z; a_x : Z; a_ops : list N
}.

(* numbers above 2^63 travel as negative i64 *)
Definition dec (z : Z) : N := if z <? 0 then Z.to_N (z + 18446744073709551616) else Z.to_N z.
Definition enc (n : N) : Z := if (9223372036854775807 <? n)%N then Z.of_N n - 18446744073709551616 else Z.of_N n.
Definition zb (b : bool) : Z := if b then 1 else 0.
Definition perr_z (e : perr) : Z :=
  match e with
  | TargetAlignmentGreaterAndInputNotAligned => 0 | OutputSliceWouldHaveSlop => 1
  | SizeMismatch => 2 | AlignmentMismatch => 3
  end.

Definition kind_of (f : N) : option ckind :=
  match f with
  | 301 | 311 => Some KBox | 302 | 312 => Some KBoxSlice | 303 | 313 => Some KVec
  | 304 | 314 => Some KRc | 305 | 315 => Some KRcSlice | 306 | 316 => Some KArc | 307 | 317 => Some KArcSlice
  | _ => None
  end%N.
Definition is_panicking (f : N) : bool := (311 <=? f)%N && (f <=? 317)%N.

Definition lay_z (o : option layout) : Z * Z * Z :=   (* (#deallocs, size, align) *)
  match o with Some l => (1, Z.of_N (l_size l), Z.of_N (l_align l)) | None => (0, 0, 0) end.

(* what Vec::capacity() reports: usize::MAX for zero-sized elements *)
Definition obs_cap (k : ckind) (T : ty) (c : N) : Z :=
  match k with KVec => if (sz T =? 0)%N then -1 else enc c | _ => enc c end.

Definition counts (k : ckind) : Z * Z :=
  match k with KRc | KArc => (2, 2) | KRcSlice | KArcSlice => (2, 1) | _ => (0, 0) end.

Definition cont_of (a : acase) : cont := mkCont 0 (dec (a_len a)) (dec (a_cap a)).

(* ---- 301..317: container casts ---- *)
Definition model_cast (k : ckind) (a : acase) : list Z :=
  let A := a_A a in let B := a_B a in let c := cont_of a in
  let '(nd0, as0, aa0) := lay_z (drop_layout k A c) in
  let '(st, wk) := counts k in
  match try_cast_cont k A B c with
  | Ok c' =>
      let '(nd, ds, da) := lay_z (drop_layout k B c') in
      [1; 9; 1; enc (clen c'); obs_cap k B (ccap c'); 0; nd; ds; da; as0; aa0; 0; 0; 1; st; wk]
  | Err (e, c0) =>
      let '(nd, ds, da) := lay_z (drop_layout k A c0) in
      [0; perr_z e; 1; enc (clen c0); obs_cap k A (ccap c0); 0; nd; ds; da; as0; aa0; 0; 0; 1; st; wk]
  end.

(* ---- 321..335: BoxBytes ---- *)
Definition bb_src (a : acase) : boxbytes :=      (* a_cap = 0: made from Box<A>; 1: from Box<[A]> of a_len *)
  if a_cap a =? 0 then box_bytes_of_sized (a_A a) (mkCont 0 1 1)
  else box_bytes_of_slice (a_A a) (mkCont 0 (dec (a_len a)) (dec (a_len a))).

Definition model_bb_of (slice : bool) (a : acase) : list Z :=
  let b := if slice then box_bytes_of_slice (a_A a) (mkCont 0 (dec (a_len a)) (dec (a_len a)))
           else box_bytes_of_sized (a_A a) (mkCont 0 1 1) in
  let '(nd, ds, da) := lay_z (bb_drop b) in
  [1; Z.of_N (l_size (bb_layout b)); Z.of_N (l_align (bb_layout b)); 1; nd; ds; da; ds; da; 0; 0].

Definition model_bb_from (a : acase) : list Z :=
  let b := bb_src a in let B := a_B a in
  let '(nd0, as0, aa0) := lay_z (bb_drop b) in
  let target_slice := match a_fn a with 332 | 334 => true | _ => false end%N in
  let panicking := match a_fn a with 333 | 334 => true | _ => false end%N in
  let r := if target_slice then try_from_box_bytes_slice B b else try_from_box_bytes_sized B b in
  match r with
  | Ok c =>
      let '(nd, ds, da) := lay_z (drop_layout (if target_slice then KBoxSlice else KBox) B c) in
      [1; 9; 1; enc (clen c); Z.of_N (clen c * sz B); Z.of_N (al B); 1; nd; ds; da; as0; aa0; 0; 0]
  | Err (e, b0) =>
      let '(nd, ds, da) := lay_z (bb_drop b0) in
      if panicking then [0; perr_z e; 1; 0; 0; 0; 1; nd; ds; da; as0; aa0; 0; 0]
      else [0; perr_z e; 1; 0; Z.of_N (l_size (bb_layout b0)); Z.of_N (l_align (bb_layout b0)); 1; nd; ds; da; as0; aa0; 0; 0]
  end.

(* ---- 341: pod_collect_to_vec (only the count and the layout; bytes are checked by the monitor) ---- *)
Definition model_collect (a : acase) : list Z :=
  if (sz (a_B a) =? 0)%N then   (* the guard of the repaired function: an empty Vec; it holds the source bytes only if there are none *)
    let e := zb (dec (a_len a) * sz (a_A a) =? 0)%N in [1; 0; e; e; 1; 0; 0; 0] else
  match collect_count (dec (a_len a) * sz (a_A a)) (sz (a_B a)) with
  | Ret n => let bytes := (n * sz (a_B a))%N in
             [1; enc n; 1; 1; 1; if (bytes =? 0)%N then 0 else Z.of_N bytes; if (bytes =? 0)%N then 0 else Z.of_N (al (a_B a)); 0]
  | Panic W_div_zero => [0; 1; 0; 0; 0; 0; 0; 0]
  | _ => [0; 3; 0; 0; 0; 0; 0; 0]
  end.

(* ---- 351..354: zeroed allocations ---- *)
Definition zres_vec (T : ty) (is_vec : bool) (fixed1 : bool) (r : zres) : list Z :=
  let capz (c : N) := if is_vec && (sz T =? 0)%N then -1 else enc c in
  match r with
  | ZOkNoAlloc len cap => [1; enc len; capz cap; 1; 0; 0; 0; 0; 0]
  | ZOkAlloc l len cap => [1; enc len; capz cap; 1; 1; Z.of_N (l_size l); Z.of_N (l_align l); 0; 0]
  | ZErrLayout => [0; if fixed1 then 1 else 0; if fixed1 then 1 else 0; 1; 0; 0; 0; 0; 0]
  | ZErrNull l => [0; if fixed1 then 1 else 0; if fixed1 then 1 else 0; 1; 1; Z.of_N (l_size l); Z.of_N (l_align l); 0; 0]
  end.

Definition model_zeroed (a : acase) : list Z :=
  let T := a_A a in let n := dec (a_len a) in let ok := a_cap a =? 0 in
  match a_fn a with
  | 351%N => zres_vec T false true (try_zeroed_box T ok)
  | 352%N => zres_vec T false false (try_zeroed_slice_box T n ok)
  | 353%N => zres_vec T true false (try_zeroed_vec T n ok)
  | _ => (* 354: zeroed_rc / arc (x = 0, 1) and their slice forms (x = 2, 3) *)
      let l := rc_layout (if a_x a <? 2 then sz T else (n * sz T)%N) (al T) in
      [1; enc n; 1; 1; 1; Z.of_N (l_size l); Z.of_N (l_align l); 0; 0]
  end.

(* ---- 361 / 362: fill_zeroes / write_zeroes with the destructor of element j panicking ---- *)
Fixpoint mask_of (p : slot -> bool) (i : nat) (l : list slot) : Z :=
  match l with
  | [] => 0
  | s :: r => (if p s then 2 ^ Z.of_nat i else 0) + mask_of p (S i) r
  end.
Definition model_zero_guard (a : acase) : list Z :=
  let n := Z.to_nat (a_len a) in let j := Z.to_nat (a_cap a) in
  let r := fill_zeroes_drop (fun id => Nat.eqb id j) (map Old (seq 0 n)) in
  [zb (z_panicked r); a_len a;
   mask_of (fun s => match s with Zeroed => true | _ => false end) 0 (z_slots r);
   mask_of (fun s => match s with Old _ => true | _ => false end) 0 (z_slots r);
   Z.of_nat (List.length (z_dropped r))] ++ map Z.of_nat (z_dropped r).

(* 363 / 364: the same over zero-sized droppable elements: no bytes to observe, only the destructor calls *)
Definition model_zero_guard_zst (a : acase) : list Z :=
  let n := Z.to_nat (a_len a) in let j := Z.to_nat (a_cap a) in
  let r := fill_zeroes_drop (fun id => Nat.eqb id j) (map Old (seq 0 n)) in
  [zb (z_panicked r); a_len a; 0; 0; Z.of_nat (List.length (z_dropped r))] ++ map Z.of_nat (z_dropped r).

(* ---- 381 / 382: handle histories ---- *)
Definition hop_of (n : N) : hop :=
  match n with 0 => HClone | 1 => HDowngrade | 2 => HUpgrade | 3 => HCast | 4 => HDropStrong | _ => HDropWeak end%N.
Fixpoint hist_obs (s : rcst) (ops : list N) : list Z :=
  match ops with
  | [] => [Z.of_nat (if Nat.eqb (strong s + weak s) 0 then freed s else S (freed s)); 1; 0; 0]
  | o :: r => let s' := rc_step s (hop_of o) in
              Z.of_nat (strong s') :: (if Nat.eqb (strong s') 0 then -1 else Z.of_nat (weak s')) :: hist_obs s' r
  end.

Definition amodel (a : acase) : list Z :=
  match kind_of (a_fn a) with
  | Some k => model_cast k a
  | None =>
      match a_fn a with
      | 321%N | 335%N => model_bb_of false a
      | 322%N => model_bb_of true a
      | 323%N => model_bb_of true a
      | 331%N | 332%N | 333%N | 334%N => model_bb_from a
      | 341%N => model_collect a
      | 351%N | 352%N | 353%N | 354%N => model_zeroed a
      | 355%N => [1; 1; 1]
      | 361%N | 362%N => model_zero_guard a
      | 363%N | 364%N => model_zero_guard_zst a
      | 371%N => [32767; 1]
      | 372%N => [255; 0; 0; 0]
      | 373%N => [1023]
      | 381%N | 382%N => hist_obs rc_init (a_ops a)
      | _ => []
      end
  end.

Fixpoint zlist_eqb (x y : list Z) : bool :=
  match x, y with
  | [], [] => true
  | a :: r, b :: q => (a =? b) && zlist_eqb r q
  | _, _ => false
  end.

(* ------------------------------------------------------------------ monitors on OBSERVED vectors *)
Definition nthz (i : nat) (v : list Z) : Z := nth i v (-99).

Definition convertibleb (bytes sb : N) : bool := if (sb =? 0)%N then (bytes =? 0)%N else (bytes mod sb =? 0)%N.

Definition cast_okb (k : ckind) (A B : ty) (c : cont) : bool :=
  (al A =? al B)%N &&
  match k with
  | KBox | KRc | KArc => (sz A =? sz B)%N
  | KBoxSlice | KRcSlice | KArcSlice => convertibleb (clen c * sz A) (sz B)
  | KVec => convertibleb (clen c * sz A) (sz B) && convertibleb (ccap c * sz A) (sz B)
  end.

Definition err_trueb (k : ckind) (A B : ty) (c : cont) (code : Z) : bool :=
  match code with
  | 3 => negb (al A =? al B)%N
  | 2 => negb (sz A =? sz B)%N && match k with KBox | KRc | KArc => true | _ => false end
  | 1 => match k with
         | KBox | KRc | KArc => false
         | KVec => negb (convertibleb (clen c * sz A) (sz B) && convertibleb (ccap c * sz A) (sz B))
         | _ => negb (convertibleb (clen c * sz A) (sz B))
         end
  | _ => false
  end.

Definition block_freed_once (v : list Z) (ind ids ida ias iaa : nat) : bool :=
  let had_block := negb (nthz ias v =? 0) || negb (nthz iaa v =? 0) in
  if had_block then (nthz ind v =? 1) && (nthz ids v =? nthz ias v) && (nthz ida v =? nthz iaa v) else nthz ind v =? 0.

(* C09 on a cast observation: no allocator traffic inside the call; afterwards the block (if there
   was one) is released exactly once with the layout it was allocated with, nothing else happens,
   nothing leaks; on failure the caller got the same pointer, length, capacity and bytes back *)
Definition mon_c09_cast (k : ckind) (a : acase) (v : list Z) : bool :=
  (nthz 5 v =? 0) && block_freed_once v 6 7 8 9 10 && (nthz 11 v =? 0) && (nthz 12 v =? 0) &&
  (if nthz 0 v =? 0
   then (nthz 2 v =? 1) && (nthz 3 v =? a_len a) && (nthz 4 v =? obs_cap k (a_A a) (dec (a_cap a))) && (nthz 13 v =? 1)
   else true).

(* C10: success iff layout-compatible; truthful error; on success the same bytes at the same
   address with byte length and byte capacity preserved; counts untouched *)
Definition mon_c10_cast (k : ckind) (a : acase) (v : list Z) : bool :=
  let A := a_A a in let B := a_B a in let c := cont_of a in
  let '(st, wk) := counts k in
  (nthz 14 v =? st) && (nthz 15 v =? wk) &&
  if nthz 0 v =? 1 then
    cast_okb k A B c && (nthz 2 v =? 1) && (nthz 13 v =? 1) &&
    (dec (nthz 3 v) * sz B =? clen c * sz A)%N &&
    match k with
    | KVec => if (sz B =? 0)%N then true else (dec (nthz 4 v) * sz B =? ccap c * sz A)%N
    | _ => true
    end
  else negb (cast_okb k A B c) && err_trueb k A B c (nthz 1 v).

(* C11 (owning forms): the panicking form returns iff the try_ form would, panics with that error
   otherwise, and the input is freed exactly once either way *)
Definition mon_c11_cast (k : ckind) (a : acase) (v : list Z) : bool :=
  let A := a_A a in let B := a_B a in let c := cont_of a in
  (if nthz 0 v =? 1 then cast_okb k A B c && (nthz 1 v =? 9)
   else negb (cast_okb k A B c) && err_trueb k A B c (nthz 1 v)) &&
  block_freed_once v 6 7 8 9 10 && (nthz 12 v =? 0).

(* C15 *)
Definition mon_c15_of (slice : bool) (a : acase) (v : list Z) : bool :=
  let want_size := if slice then (dec (a_len a) * sz (a_A a))%N else sz (a_A a) in
  (nthz 0 v =? 1) && (nthz 1 v =? Z.of_N want_size) && (nthz 2 v =? Z.of_N (al (a_A a))) && (nthz 3 v =? 1) &&
  (if (want_size =? 0)%N then nthz 4 v =? 0
   else (nthz 4 v =? 1) && (nthz 5 v =? nthz 7 v) && (nthz 6 v =? nthz 8 v) && (nthz 5 v =? Z.of_N want_size)) &&
  (nthz 9 v =? 0) && (nthz 10 v =? 0).

Definition mon_c15_from (a : acase) (v : list Z) : bool :=
  let b := bb_src a in let B := a_B a in
  let size := l_size (bb_layout b) in
  let target_slice := match a_fn a with 332%N | 334%N => true | _ => false end in
  let panicking := match a_fn a with 333%N | 334%N => true | _ => false end in
  let want := (l_align (bb_layout b) =? al B)%N && (if target_slice then convertibleb size (sz B) else (size =? sz B)%N) in
  (if nthz 0 v =? 1 then want && (nthz 2 v =? 1) && (nthz 6 v =? 1) &&
                          (if target_slice then (dec (nthz 3 v) * sz B =? size)%N else true)
   else negb want &&
        match nthz 1 v with
        | 3 => negb (l_align (bb_layout b) =? al B)%N
        | 2 => negb target_slice && negb (size =? sz B)%N
        | 1 => target_slice && negb (convertibleb size (sz B))
        | _ => false
        end &&
        (panicking || ((nthz 4 v =? Z.of_N size) && (nthz 5 v =? Z.of_N (l_align (bb_layout b))) && (nthz 2 v =? 1) && (nthz 6 v =? 1)))) &&
  (if (size =? 0)%N then nthz 7 v =? 0 else (nthz 7 v =? 1) && (nthz 8 v =? nthz 10 v) && (nthz 9 v =? nthz 11 v)) &&
  (nthz 12 v =? 0) && (nthz 13 v =? 0).

(* C16 *)
Definition mon_c16 (a : acase) (v : list Z) : bool :=
  let bytes := (dec (a_len a) * sz (a_A a))%N in let sb := sz (a_B a) in
  (* never panics, never leaks - zero-sized sources and targets included; for a target of non-zero
     size: rounded-up length, copied prefix, zero tail, buffer aligned for the target *)
  (nthz 0 v =? 1) && (nthz 7 v =? 0) &&
  (if (sb =? 0)%N then true
   else (nthz 1 v =? Z.of_N ((bytes + sb - 1) / sb)) && (nthz 2 v =? 1) && (nthz 3 v =? 1) && (nthz 4 v =? 1)).

(* C12 *)
Definition mon_c12 (a : acase) (v : list Z) : bool :=
  let T := a_A a in let fail := negb (a_cap a =? 0) in
  match a_fn a with
  | 351%N | 352%N | 353%N =>
      let n := if (a_fn a =? 351)%N then 1%N else dec (a_len a) in
      let bytes := (n * sz T)%N in
      let overflow := (ISIZE_MAX - (al T - 1) <? bytes)%N in
      let need_alloc := negb (bytes =? 0)%N in
      (nthz 3 v =? 1) && (nthz 8 v =? 0) && (nthz 7 v =? 0) &&
      (if nthz 0 v =? 1
       then (nthz 1 v =? enc n) && negb (need_alloc && (overflow || fail)) &&
            (if (sz T =? 0)%N then true else (a_fn a =? 351)%N || (nthz 2 v =? enc n)) &&
            (if need_alloc then (nthz 4 v =? 1) && (nthz 5 v =? Z.of_N bytes) && (nthz 6 v =? Z.of_N (al T)) else nthz 4 v =? 0)
       else need_alloc && (overflow || fail) && (if overflow then nthz 4 v =? 0 else true))
  | 354%N => (nthz 0 v =? 1) && (nthz 1 v =? a_len a) && (nthz 3 v =? 1) && (nthz 4 v =? 1) && (nthz 8 v =? 0)
  | 355%N => (nthz 0 v =? 1) && (nthz 1 v =? 1) && (nthz 2 v =? 1)
  | 363%N | 364%N => (* zero-sized droppable elements: destructors 0..j ran once each in order, unwinding iff one panicked *)
      let nn := a_len a in let j := a_cap a in
      let upto := if j <? nn then j + 1 else nn in
      (nthz 0 v =? zb (j <? nn)) && (nthz 1 v =? nn) && (nthz 4 v =? upto) &&
      zlist_eqb (skipn 5 v) (map Z.of_nat (seq 0 (Z.to_nat upto)))
  | _ => (* 361 / 362: slots up to and including the panicking one zeroed, later ones untouched,
            destructors 0..j ran once each in order, unwinding iff one panicked *)
      let nn := a_len a in let j := a_cap a in
      let upto := if j <? nn then j + 1 else nn in
      (nthz 0 v =? zb (j <? nn)) && (nthz 1 v =? nn) && (nthz 2 v =? 2 ^ upto - 1) &&
      (nthz 3 v =? (2 ^ nn - 1) - (2 ^ upto - 1)) && (nthz 4 v =? upto) &&
      zlist_eqb (skipn 5 v) (map Z.of_nat (seq 0 (Z.to_nat upto)))
  end.

(* C13 *)
Definition mon_c13 (a : acase) (v : list Z) : bool :=
  match a_fn a with
  | 371%N => (nthz 0 v =? 32767) && (nthz 1 v =? 1)
  | 372%N => (nthz 0 v =? 255) && (nthz 1 v =? 0) && (nthz 2 v =? 0) && (nthz 3 v =? 0)
  | _ => nthz 0 v =? 1023
  end.

(* C09 / C10 on a history: counts as in the sequential model, freed once, with its layout, not
   before the last handle went, nothing leaked *)
Definition mon_hist (a : acase) (v : list Z) : bool :=
  let n := List.length v in
  zlist_eqb v (hist_obs rc_init (a_ops a)) &&
  (nthz (n - 4) v =? 1) && (nthz (n - 3) v =? 1) && (nthz (n - 2) v =? 0) && (nthz (n - 1) v =? 0).

(* which property's statement an observation of function [f] is checked against; returns the list
   of (property number, verdict) pairs *)
Definition amonitors (a : acase) (v : list Z) : list (N * bool) :=
  match kind_of (a_fn a) with
  | Some k =>
      if is_panicking (a_fn a) then [(11%N, mon_c11_cast k a v)]
      else [(9%N, mon_c09_cast k a v); (10%N, mon_c10_cast k a v)]
  | None =>
      match a_fn a with
      | 321%N | 335%N => [(15%N, mon_c15_of false a v); (9%N, mon_c15_of false a v)]
      | 322%N | 323%N => [(15%N, mon_c15_of true a v); (9%N, mon_c15_of true a v)]
      | 331%N | 332%N => [(15%N, mon_c15_from a v); (9%N, mon_c15_from a v); (10%N, mon_c15_from a v)]
      | 333%N | 334%N => [(15%N, mon_c15_from a v); (11%N, mon_c15_from a v); (10%N, mon_c15_from a v)]
      | 341%N => [(16%N, mon_c16 a v)]
      | 351%N | 352%N | 353%N | 354%N | 355%N | 361%N | 362%N | 363%N | 364%N => [(12%N, mon_c12 a v)]
      | 371%N | 373%N => [(13%N, mon_c13 a v)]
      | 372%N => [(13%N, mon_c13 a v); (9%N, mon_c13 a v)]
      | 381%N | 382%N => [(9%N, mon_hist a v); (10%N, mon_hist a v)]
      | _ => []
      end
  end.

(* the boolean success predicate of the monitors is the Prop-level one of Model/Alloc.v *)
Lemma convertibleb_spec bytes sb : convertibleb bytes sb = true <-> convertible bytes sb.
Proof. unfold convertibleb, convertible. destruct (sb =? 0)%N; apply N.eqb_eq. Qed.

Lemma cast_okb_spec k A B c : cast_okb k A B c = true <-> cast_ok k A B c.
Proof.
  unfold cast_okb, cast_ok. rewrite andb_true_iff, N.eqb_eq.
  destruct k; rewrite ?andb_true_iff, ?convertibleb_spec, ?N.eqb_eq; tauto.
Qed.
