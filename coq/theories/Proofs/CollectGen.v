(* Proofs/CollectGen.v — pod_collect_to_vec as the translator regenerates it from src/allocation.rs
   (Gen/Alloc.v) computes the modelled result (Model/Alloc.v: ceil-division count, the source bytes, a
   zero tail) for every valid source slice, any element types and any memory contents.  The vector it
   fills is modelled with its contents (Base/Own.v, bvec). *)
From Coq Require Import NArith Arith List Bool String Lia ZifyBool ZifyN.
From BM Require Import Base.Outcome Base.Prims Base.Own Base.Layout Base.Tactics Spec.CastSpec Model.Alloc.
From BM Require Import Proofs.CastSlice Proofs.CastSliceMut Proofs.CastPanicking Proofs.CastValue.
From BM Require Proofs.AllocProofs.
From BM.Gen Require Internal Root Alloc.
Import ListNotations.
Open Scope bool_scope.
Open Scope N_scope.

Lemma read_bytes_length m p n : List.length (read_bytes m p n) = N.to_nat n.
Proof. unfold read_bytes. apply read_from_length. Qed.

Lemma skipn_repeat {X} (x : X) k m : skipn k (repeat x m) = repeat x (m - k).
Proof.
  revert m. induction k as [|k IH]; intros m; [rewrite Nat.sub_0_r; reflexivity|].
  destruct m as [|m]; [reflexivity|]. cbn [repeat skipn]. apply IH.
Qed.

(* a cast of a valid slice to bytes always succeeds: same address, one element per byte *)
Lemma cast_slice_to_bytes ENV A s :
  wf_ty A -> valid_slice A s ->
  exists v, Root.cast_slice ENV A u8_ty s = Ret v /\ addr (sptr v) = addr (sptr s) /\ slen v = slen s * sz A.
Proof.
  intros HA Hs.
  pose proof (try_cast_slice_char ENV A u8_ty s HA wf_u8 Hs) as Hc.
  unfold Root.cast_slice, Internal.cast_slice.
  destruct (Internal.try_cast_slice ENV A u8_ty s) as [[v|e]|w|u]; cbn in Hc; try contradiction.
  - exists v. split; [reflexivity|]. destruct Hc as [_ (Ha & Hn & _ & _)]. cbn [sz u8_ty] in Hn. split; [exact Ha | lia].
  - exfalso. destruct Hc as [Hn _]. apply Hn. unfold slice_cast_ok, convertible. cbn [sz al u8_ty].
    split; [apply N.mod_1_r | cbn; apply N.mod_1_r].
Qed.
Lemma cast_slice_mut_to_bytes ENV A s :
  wf_ty A -> valid_slice A s -> exists v, Root.cast_slice_mut ENV A u8_ty s = Ret v.
Proof.
  intros HA Hs.
  pose proof (try_cast_slice_mut_char ENV A u8_ty s HA wf_u8 Hs) as Hc.
  unfold Root.cast_slice_mut, Internal.cast_slice_mut.
  destruct (Internal.try_cast_slice_mut ENV A u8_ty s) as [[v|e]|w|u]; cbn in Hc; try contradiction.
  - exists v. reflexivity.
  - exfalso. destruct Hc as [Hn _]. apply Hn. unfold slice_cast_ok, convertible. cbn [sz al u8_ty].
    split; [apply N.mod_1_r | cbn; apply N.mod_1_r].
Qed.

(* the fresh vector's buffer is a valid slice of its element type *)
Lemma bvec_slice_valid T n bs :
  wf_ty T -> sz T <> 0 -> n * sz T <= ISIZE_MAX -> valid_slice T (bvec_slice T (mkBV n bs)).
Proof.
  intros (Hp & Hm & Hs) Hz Hn. unfold valid_slice, bvec_slice. cbn [sptr slen addr avail bv_len].
  destruct Hp as [k Hk].
  assert (Hal : al T <> 0). { rewrite Hk. apply N.pow_nonzero. lia. }
  assert (Hle : al T <= sz T).
  { apply N.mod_divide in Hm; [|exact Hal]. destruct Hm as [c Hc]. destruct c; [lia|]. nia. }
  big_consts. repeat split; try lia.
  apply N.mod_same. exact Hal.
Qed.

Definition collected (E : env) (B : ty) (s : slice) (A : ty) : outcome bvec :=
  r <- pod_collect_to_vec B (read_bytes (mem E) (addr (sptr s)) (slen s * sz A)) ;; Ret (mkBV (fst r) (snd r)).

Theorem gen_pod_collect ENV A B s :
  wf_ty A -> wf_ty B -> valid_slice A s -> slen s * sz A + sz B <= ISIZE_MAX ->
  Gen.Alloc.pod_collect_to_vec ENV A B s = collected ENV B s A.
Proof.
  intros HA HB Hs Hfit.
  unfold Gen.Alloc.pod_collect_to_vec, collected, pod_collect_to_vec, size_of_val_slice.
  set (n0 := slen s * sz A) in *.
  destruct (sz B =? 0) eqn:HB0; [reflexivity|]. apply N.eqb_neq in HB0.
  unfold collect_count, div_m, rem_m. rewrite read_bytes_length, N2Nat.id.
  apply N.eqb_neq in HB0. rewrite HB0. apply N.eqb_neq in HB0. cbn [bind].
  set (q := n0 / sz B). set (r := n0 mod sz B).
  assert (Hdm : n0 = sz B * q + r) by (apply N.div_mod; exact HB0).
  assert (Hr : r < sz B) by (apply N.mod_lt; exact HB0).
  set (c := if negb (r =? 0) then 1 else 0).
  assert (Hcle : c <= 1) by (unfold c; destruct (negb (r =? 0)); lia).
  assert (Hq : q <= n0) by (unfold q; apply N.div_le_upper_bound; [exact HB0 | nia]).
  (* however the code spells the rounded-up count (`+ if r != 0 {1} else {0}`, `+ (r != 0) as usize`,
     `if r == 0 { q } else { q + 1 }`, through named q and r or not): it evaluates to q + c *)
  fold c.
  match goal with |- bind ?e _ = _ =>
    assert (He : e = Ret (q + c)) by
      (unfold add_m, c; repeat (cbn [bind negb]; match goal with |- context [if ?b then _ else _] => destruct b eqn:? end);
       cbn [bind negb]; b2p; big_consts; try reflexivity; try (exfalso; lia); try (f_equal; lia));
    rewrite He
  end.
  cbn [bind].
  set (n := q + c).
  assert (Hnb : n0 <= n * sz B /\ n * sz B < n0 + sz B).
  { unfold n, c. destruct (r =? 0) eqn:Er; cbn [negb].
    - apply N.eqb_eq in Er. nia.
    - apply N.eqb_neq in Er. nia. }
  destruct Hnb as [Hlo Hhi].
  unfold vec_zeroed. assert (Hvz : (n * sz B <=? ISIZE_MAX) = true) by (apply N.leb_le; lia).
  rewrite Hvz. cbn [bind].
  destruct (cast_slice_to_bytes ENV A s HA Hs) as (v & Hv & Hva & Hvl). rewrite Hv. cbn [bind].
  set (zs := repeat 0 (N.to_nat (n * sz B))).
  destruct (cast_slice_mut_to_bytes ENV B (bvec_slice B (mkBV n zs)) HB
              (bvec_slice_valid B n zs HB HB0 ltac:(lia))) as (w & Hw).
  rewrite Hw. cbn [bind].
  unfold bvec_copy_prefix. cbn [bv_bytes bv_len]. unfold zs. rewrite repeat_length, N2Nat.id.
  assert (H1 : (n0 <=? n * sz B) = true) by (apply N.leb_le; exact Hlo). rewrite H1. cbn [negb].
  fold n0 in Hvl. rewrite Hvl, N.eqb_refl. cbn [negb bind fst snd].
  rewrite Hva, skipn_repeat. reflexivity.
Qed.

(* without the size hypothesis: still never UB — the only other outcome is vec!'s capacity-overflow panic *)
Theorem gen_pod_collect_safe ENV A B s :
  wf_ty A -> wf_ty B -> valid_slice A s ->
  match Gen.Alloc.pod_collect_to_vec ENV A B s with UB _ => False | _ => True end.
Proof.
  intros HA HB Hs.
  destruct (N.le_gt_cases (slen s * sz A + sz B) ISIZE_MAX) as [Hfit|Hbig].
  - rewrite (gen_pod_collect ENV A B s HA HB Hs Hfit). unfold collected.
    destruct (pod_collect_to_vec B _) as [x|w|u] eqn:E; cbn; try exact I.
    destruct (AllocProofs.collect_total B (read_bytes (mem ENV) (addr (sptr s)) (slen s * sz A))) as [x Hx].
    rewrite Hx in E. discriminate.
  - unfold Gen.Alloc.pod_collect_to_vec, size_of_val_slice.
    destruct (sz B =? 0) eqn:HB0; [exact I|]. apply N.eqb_neq in HB0.
    destruct (cast_slice_to_bytes ENV A s HA Hs) as (v & Hv & _ & Hvl).
    unfold div_m, rem_m, add_m, vec_zeroed, bvec_copy_prefix.
    (* walk down the function: split every conditional, the two casts to bytes succeed, whatever is left
       is a return or a panic *)
    repeat (cbn [bind bv_len bv_bytes negb];
      first
        [ exact I
        | rewrite Hv
        | match goal with
          | Hz : (?n * sz ?T <=? ISIZE_MAX) = true
            |- context [Root.cast_slice_mut ?E ?T u8_ty (bvec_slice ?T (mkBV ?n ?zs))] =>
              let w := fresh "w" in let Hw := fresh "Hw" in
              destruct (cast_slice_mut_to_bytes E T (bvec_slice T (mkBV n zs)) HB
                          (bvec_slice_valid T n zs HB HB0 ltac:(apply N.leb_le; exact Hz))) as (w & Hw);
              rewrite Hw
          end
        | match goal with |- context [if ?b then _ else _] => destruct b eqn:? end ]).
Qed.
