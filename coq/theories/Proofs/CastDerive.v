(* Proofs/CastDerive.v — from the characterisation of an outcome to the individual clauses of
   C01 / C02 (iff, truthful error, totality, view), independent of the code. *)
From Coq Require Import NArith List Bool String Lia.
From BM Require Import Base.Outcome Base.Prims Base.Layout Spec.CastSpec.
Open Scope N_scope.

Section Slice.
  Context (A B : ty) (s : slice) (o : outcome (result slice perr)).
  Hypothesis H : slice_outcome_ok A B s o.

  Lemma slice_iff : (exists v, o = Ret (Ok v)) <-> slice_cast_ok A B s.
  Proof.
    unfold slice_outcome_ok in H. destruct o as [[v|e]|w|u]; try contradiction.
    - split; [intros _; apply H | intros _; eauto].
    - split; [intros [v Hv]; discriminate | intros Hok; destruct H as [Hn _]; contradiction].
  Qed.
  Lemma slice_err e : o = Ret (Err e) -> ~ slice_cast_ok A B s /\ slice_err_true A B s e.
  Proof. intros ->. exact H. Qed.
  Lemma slice_total : exists r, o = Ret r.
  Proof. destruct o; try contradiction; eauto. Qed.
  Lemma slice_view v : o = Ret (Ok v) -> slice_view_ok A B s v.
  Proof. intros ->. apply H. Qed.
End Slice.

Section Ref.
  Context (A B : ty) (p : ptr) (o : outcome (result ptr perr)).
  Hypothesis H : ref_outcome_ok A B p o.

  Lemma ref_iff : (exists v, o = Ret (Ok v)) <-> ref_cast_ok A B p.
  Proof.
    unfold ref_outcome_ok in H. destruct o as [[v|e]|w|u]; try contradiction.
    - split; [intros _; apply H | intros _; eauto].
    - split; [intros [v Hv]; discriminate | intros Hok; destruct H as [Hn _]; contradiction].
  Qed.
  Lemma ref_err e : o = Ret (Err e) -> ~ ref_cast_ok A B p /\ ref_err_true A B p e.
  Proof. intros ->. exact H. Qed.
  Lemma ref_total : exists r, o = Ret r.
  Proof. destruct o; try contradiction; eauto. Qed.
  Lemma ref_view v : o = Ret (Ok v) -> ref_view_ok B p v.
  Proof. intros ->. apply H. Qed.
End Ref.

Section Bytes.
  Context (T : ty) (s : slice) (o : outcome (result ptr perr)).
  Hypothesis H : bytes_outcome_ok T s o.

  Lemma bytes_iff : (exists v, o = Ret (Ok v)) <-> bytes_cast_ok T s.
  Proof.
    unfold bytes_outcome_ok in H. destruct o as [[v|e]|w|u]; try contradiction.
    - split; [intros _; apply H | intros _; eauto].
    - split; [intros [v Hv]; discriminate | intros Hok; destruct H as [Hn _]; contradiction].
  Qed.
  Lemma bytes_err e : o = Ret (Err e) -> ~ bytes_cast_ok T s /\ bytes_err_true T s e.
  Proof. intros ->. exact H. Qed.
  Lemma bytes_total : exists r, o = Ret r.
  Proof. destruct o; try contradiction; eauto. Qed.
  Lemma bytes_view v : o = Ret (Ok v) -> ref_view_ok T (sptr s) v.
  Proof. intros ->. apply H. Qed.
End Bytes.
