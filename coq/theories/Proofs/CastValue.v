(* Proofs/CastValue.v — by-value casts and unaligned reads of the translated src/internal.rs
   preserve every bit (C03). Values are byte lists. *)
From Coq Require Import NArith ZArith List Bool String Lia ZifyBool ZifyN.
From BM Require Import Base.Outcome Base.Prims Base.Layout Base.Tactics Spec.CastSpec.
From BM.Gen Require Internal.
Import ListNotations.
Open Scope bool_scope.
Open Scope string_scope.
Open Scope N_scope.

Definition value_of (T : ty) (v : list N) : Prop := N.of_nat (List.length v) = sz T.

Lemma transmute_copy_same B v : value_of B v -> transmute_copy B v = Ret v.
Proof.
  unfold value_of, transmute_copy. intros H. rewrite <- H, N.leb_refl, Nat2N.id, firstn_all. reflexivity.
Qed.

Lemma transmute_copy_ub B v : N.of_nat (List.length v) < sz B -> transmute_copy B v = UB U_read_oob.
Proof.
  unfold transmute_copy. intros H. apply N.leb_gt in H. rewrite H. reflexivity.
Qed.

(* try_cast: the same bytes when the sizes agree, SizeMismatch otherwise; never UB *)
Theorem try_cast_char ENV A B a :
  value_of A a ->
  Internal.try_cast ENV A B a = Ret (if sz A =? sz B then Ok a else Err SizeMismatch).
Proof.
  intros Ha. unfold Internal.try_cast. destruct (sz A =? sz B) eqn:E; [|reflexivity].
  apply N.eqb_eq in E. rewrite transmute_copy_same; [reflexivity|]. unfold value_of in *. lia.
Qed.

Theorem cast_char ENV A B a :
  value_of A a ->
  Internal.cast ENV A B a = if sz A =? sz B then Ret a else Panic (W_msg "cast" (EP SizeMismatch)).
Proof.
  intros Ha. unfold Internal.cast, something_went_wrong. destruct (sz A =? sz B) eqn:E; [|reflexivity].
  apply N.eqb_eq in E. apply transmute_copy_same. unfold value_of in *. lia.
Qed.

Theorem cast_twin ENV A B a :
  twin "cast" (Internal.try_cast ENV A B a) (Internal.cast ENV A B a).
Proof.
  unfold twin, Internal.try_cast, Internal.cast, something_went_wrong.
  destruct (sz A =? sz B); [|reflexivity]. destruct (transmute_copy B a); reflexivity.
Qed.

Theorem try_cast_roundtrip ENV A B a b :
  value_of A a -> Internal.try_cast ENV A B a = Ret (Ok b) -> Internal.try_cast ENV B A b = Ret (Ok a).
Proof.
  intros Ha H. rewrite (try_cast_char ENV A B a Ha) in H.
  destruct (sz A =? sz B) eqn:E; [|discriminate]. injection H as <-. apply N.eqb_eq in E.
  rewrite try_cast_char by (unfold value_of in *; lia).
  rewrite N.eqb_sym, (proj2 (N.eqb_eq _ _) E). reflexivity.
Qed.

(* a read of exactly size_of::<T>() bytes out of a byte slice at ANY address yields exactly those
   bytes; any other length is SizeMismatch; the read never goes beyond the slice *)
Theorem try_pod_read_unaligned_char ENV T s :
  avail (sptr s) = slen s ->
  Internal.try_pod_read_unaligned ENV T s =
    Ret (if slen s =? sz T then Ok (read_bytes (mem ENV) (addr (sptr s)) (sz T)) else Err SizeMismatch).
Proof.
  intros Hav. unfold Internal.try_pod_read_unaligned, read_unaligned.
  destruct (slen s =? sz T) eqn:E; cbn [negb]; [|reflexivity].
  apply N.eqb_eq in E. rewrite Hav, E, N.leb_refl. reflexivity.
Qed.

Lemma read_from_length m p n : List.length (read_from m p n) = n.
Proof. revert p. induction n as [|n IH]; intros p; cbn; [reflexivity | rewrite IH; reflexivity]. Qed.

Lemma read_bytes_value ENV T p : value_of T (read_bytes (mem ENV) p (sz T)).
Proof. unfold value_of, read_bytes. rewrite read_from_length. apply N2Nat.id. Qed.
