(* Proofs/ContigProofs.v — the built-in Contiguous rows (Gen/Tables.v, regenerated from
   src/contiguous.rs) name exactly the valid values of their type, and the default from_integer
   accepts exactly [MIN_VALUE, MAX_VALUE] (C17). *)
From Coq Require Import NArith ZArith List Bool String Lia.
From BM Require Import Base.TyExpr Model.LangInt.
From BM.Gen Require Tables.
Import ListNotations.
Open Scope bool_scope.
Open Scope Z_scope.

(* a row is right when its integer type is a primitive of the same width as Self, and among the
   values of that integer type the interval [min, max] is exactly the set of valid values of Self *)
Definition row_ok (r : crow) : Prop :=
  exists w lo hi ilo ihi,
    valid_interval (c_self_name r) = Some (w, lo, hi) /\
    option_map fst (int_kind (c_int r)) = Some w /\ int_range (c_int r) = Some (ilo, ihi) /\
    c_overrides r = false /\
    forall v, ilo <= v <= ihi -> ((c_min r <= v <= c_max r) <-> valid_value (c_self_name r) v = true).

Definition row_okb (r : crow) : bool :=
  match valid_interval (c_self_name r), int_kind (c_int r) with
  | Some (w, lo, hi), Some k =>
      let '(ilo, ihi) := kind_range k in
      (fst k =? w) && negb (c_overrides r) && (ilo <=? lo) && (hi <=? ihi) && (c_min r =? lo) && (c_max r =? hi) && (lo <=? hi)
  | _, _ => false
  end.

Lemma row_okb_sound r : row_okb r = true -> row_ok r.
Proof.
  unfold row_okb, row_ok.
  destruct (valid_interval (c_self_name r)) as [[[w lo] hi]|] eqn:Ev; [|discriminate].
  destruct (int_kind (c_int r)) as [k|] eqn:Ek; [|discriminate].
  destruct (kind_range k) as [ilo ihi] eqn:Er.
  rewrite !andb_true_iff, negb_true_iff, !Z.leb_le, !Z.eqb_eq.
  intros ((((((Hw & Ho) & H1) & H2) & H3) & H4) & H5).
  exists w, lo, hi, ilo, ihi.
  split; [reflexivity|]. split; [cbn; rewrite Hw; reflexivity|].
  split; [unfold int_range; rewrite Ek; cbn; rewrite Er; reflexivity|].
  split; [assumption|].
  intros v Hv. unfold valid_value. rewrite Ev, andb_true_iff, !Z.leb_le. lia.
Qed.

Theorem rows_ok_all : Forall row_ok Tables.contiguous_rows_all.
Proof.
  apply Forall_forall. intros r Hin. apply row_okb_sound.
  assert (H : forallb row_okb Tables.contiguous_rows_all = true) by (vm_compute; reflexivity).
  rewrite forallb_forall in H. apply H. exact Hin.
Qed.

Theorem rows_ok_none : Forall row_ok Tables.contiguous_rows_none.
Proof.
  apply Forall_forall. intros r Hin. apply row_okb_sound.
  assert (H : forallb row_okb Tables.contiguous_rows_none = true) by (vm_compute; reflexivity).
  rewrite forallb_forall in H. apply H. exact Hin.
Qed.

(* the default methods: from_integer is Some exactly on [MIN_VALUE, MAX_VALUE]; both directions are
   a bit copy between same-sized types, so into_integer (from_integer v) = v *)
Definition from_integer (r : crow) (v : Z) : option Z :=
  if Tables.contiguous_in_range_all (c_min r) (c_max r) v then Some v else None.
Definition into_integer (x : Z) : Z := x.

Lemma in_range_spec mn mx v : Tables.contiguous_in_range_all mn mx v = true <-> mn <= v <= mx.
Proof. unfold Tables.contiguous_in_range_all. rewrite andb_true_iff, !Z.leb_le. tauto. Qed.

Lemma in_range_same mn mx v : Tables.contiguous_in_range_none mn mx v = Tables.contiguous_in_range_all mn mx v.
Proof. reflexivity. Qed.

Theorem from_integer_iff r v : (exists x, from_integer r v = Some x) <-> c_min r <= v <= c_max r.
Proof.
  unfold from_integer. rewrite <- in_range_spec.
  destruct (Tables.contiguous_in_range_all (c_min r) (c_max r) v); split; intros H; try discriminate; eauto.
  destruct H; discriminate.
Qed.

Theorem from_into_roundtrip r v x : from_integer r v = Some x -> into_integer x = v.
Proof. unfold from_integer, into_integer. destruct (Tables.contiguous_in_range_all _ _ _); intros H; inversion H; reflexivity. Qed.

(* for a correct row: from_integer v is Some exactly when v is a valid value of Self *)
Theorem from_integer_valid r v ilo ihi :
  row_ok r -> int_range (c_int r) = Some (ilo, ihi) -> ilo <= v <= ihi ->
  ((exists x, from_integer r v = Some x) <-> valid_value (c_self_name r) v = true).
Proof.
  intros (w & lo & hi & ilo' & ihi' & _ & _ & Hr & _ & H) Hr' Hv. rewrite Hr in Hr'. inversion Hr'; subst.
  rewrite from_integer_iff. apply H. exact Hv.
Qed.
