(* Proofs/ImplSound.v — every marker impl row of the regenerated table is sound for EVERY
   instantiation of its generic parameters (C04): whenever the parameters satisfy the contracts of
   the traits they are bounded by, the implementing type satisfies the contract of the implemented
   trait.  The argument: the language oracle is monotone in the facts of the parameters, and every
   marker contract is a conjunction of facts, so it is enough to check the row once, under the
   LEAST facts its bounds guarantee — a computation, re-run on the regenerated table. *)
From Coq Require Import NArith Arith List Bool String Lia.
From BM Require Import Base.TyExpr Model.LangOracle Model.TraitSolver.
Import ListNotations.
Open Scope bool_scope.
Open Scope string_scope.

(* ---- induction over types with nested lists ---- *)
Section TyxInd.
  Variable P : tyx -> Prop.
  Hypothesis Hleaf : forall s, P (TLeaf s).
  Hypothesis Hvar : forall i, P (TVar i).
  Hypothesis Happ : forall c l, Forall P l -> P (TApp c l).
  Hypothesis Harr : forall e n, P e -> P (TArr e n).
  Hypothesis Htup : forall l, Forall P l -> P (TTup l).
  Hypothesis Hptr : forall m t, P t -> P (TPtr m t).
  Hypothesis Href : forall m t, P t -> P (TRef m t).
  Hypothesis Hslice : forall t, P t -> P (TSlice t).
  Hypothesis Hfn : forall a u l r, Forall P l -> P r -> P (TFn a u l r).
  Fixpoint tyx_ind' (t : tyx) : P t :=
    match t with
    | TLeaf s => Hleaf s
    | TVar i => Hvar i
    | TApp c l => Happ c l ((fix go (l : list tyx) : Forall P l :=
                               match l with [] => Forall_nil P | x :: r => Forall_cons x (tyx_ind' x) (go r) end) l)
    | TArr e n => Harr e n (tyx_ind' e)
    | TTup l => Htup l ((fix go (l : list tyx) : Forall P l :=
                           match l with [] => Forall_nil P | x :: r => Forall_cons x (tyx_ind' x) (go r) end) l)
    | TPtr m t => Hptr m t (tyx_ind' t)
    | TRef m t => Href m t (tyx_ind' t)
    | TSlice t => Hslice t (tyx_ind' t)
    | TFn a u l r => Hfn a u l r ((fix go (l : list tyx) : Forall P l :=
                                     match l with [] => Forall_nil P | x :: q => Forall_cons x (tyx_ind' x) (go q) end) l)
                         (tyx_ind' r)
    end.
End TyxInd.

(* ---- substitution of ground types for the parameters ---- *)
Fixpoint subst (sg : nat -> tyx) (t : tyx) : tyx :=
  match t with
  | TLeaf s => TLeaf s
  | TVar i => sg i
  | TApp c l => TApp c (map (subst sg) l)
  | TArr e n => TArr (subst sg e) n
  | TTup l => TTup (map (subst sg) l)
  | TPtr m p => TPtr m (subst sg p)
  | TRef m p => TRef m (subst sg p)
  | TSlice p => TSlice (subst sg p)
  | TFn a u l r => TFn a u (map (subst sg) l) (subst sg r)
  end.

Lemma eval_pf_ext (l1 l2 : list facts) :
  Forall2 (fun f g => forall x, f x = g x) l1 l2 -> forall p, eval_pf l1 p = eval_pf l2 p.
Proof.
  intros H p. induction p; cbn; try reflexivity.
  - revert i. induction H as [|f g r q Hfg _ IH]; intros i; destruct i; cbn; try reflexivity; [apply Hfg | apply IH].
  - induction H as [|f g r q Hfg _ IH]; cbn; [reflexivity | rewrite Hfg, IH; reflexivity].
  - rewrite IHp1, IHp2. reflexivity.
  - rewrite IHp1, IHp2. reflexivity.
Qed.

(* the facts of an instantiated pattern are the pattern's facts under the parameters' facts *)
Lemma tfacts_subst sg t :
  forall x, ground_facts (subst sg t) x = tfacts (fun i => ground_facts (sg i)) t x.
Proof.
  induction t using tyx_ind'; intros x; cbn [subst]; unfold ground_facts at 1; cbn [tfacts]; fold ground_facts.
  - reflexivity.
  - reflexivity.
  - apply eval_pf_ext. rewrite map_map. induction H as [|t r Ht _ IH]; cbn; constructor; [exact Ht | exact IH].
  - destruct x; try reflexivity; apply IHt.
  - assert (Hl : forall y, forallb (fun e => tfacts (fun _ => fnone) e y) (map (subst sg) l) =
                           forallb (fun e => tfacts (fun i => ground_facts (sg i)) e y) l).
    { intros y. induction H as [|t r Ht _ IH]; cbn; [reflexivity|]. fold (ground_facts (subst sg t)). rewrite Ht, IH. reflexivity. }
    destruct x; try reflexivity; try apply Hl; destruct l; reflexivity.
  - destruct x; try reflexivity. apply IHt.
  - reflexivity.
  - destruct x; try reflexivity; apply IHt.
  - reflexivity.
Qed.

(* ---- monotonicity of the oracle ---- *)
Lemma eval_pf_mono (l1 l2 : list facts) :
  Forall2 fle l1 l2 -> forall p, eval_pf l1 p = true -> eval_pf l2 p = true.
Proof.
  intros H p. induction p; cbn; try (intros E; exact E).
  - revert i. induction H as [|f g r q Hfg _ IH]; intros i; destruct i; cbn; try (intros E; exact E); [apply Hfg | apply IH].
  - induction H as [|f g r q Hfg _ IH]; cbn; [intros E; exact E|].
    rewrite !andb_true_iff. intros [E1 E2]. split; [apply Hfg; exact E1 | apply IH; exact E2].
  - rewrite !andb_true_iff. intros [E1 E2]. split; [apply IHp1; exact E1 | apply IHp2; exact E2].
  - rewrite !orb_true_iff. intros [E|E]; [left; apply IHp1; exact E | right; apply IHp2; exact E].
Qed.

Lemma tfacts_mono env1 env2 t : (forall i, fle (env1 i) (env2 i)) -> fle (tfacts env1 t) (tfacts env2 t).
Proof.
  intros He. induction t using tyx_ind'; intros x; cbn [tfacts].
  - intros E; exact E.
  - apply He.
  - apply eval_pf_mono. induction H as [|t r Ht _ IH]; cbn; constructor; [exact Ht | exact IH].
  - destruct x; try (intros E; exact E); apply IHt.
  - assert (Hl : forall y, forallb (fun e => tfacts env1 e y) l = true -> forallb (fun e => tfacts env2 e y) l = true).
    { intros y. induction H as [|t r Ht _ IH]; cbn; [intros E; exact E|].
      rewrite !andb_true_iff. intros [E1 E2]. split; [apply Ht; exact E1 | apply IH; exact E2]. }
    destruct x; try (intros E; exact E); apply Hl.
  - destruct x; try (intros E; exact E). apply IHt.
  - intros E; exact E.
  - destruct x; try (intros E; exact E); apply IHt.
  - intros E; exact E.
Qed.

(* ---- a rule, its premises, its soundness ---- *)
Definition is_marker (b : string) : bool := existsb (String.eqb b) marker_names.

(* the least facts guaranteed for parameter [i]: those of the contracts it is bounded by, and
   Sized-ness (with thin-or-length pointer metadata) unless it is declared ?Sized *)
Definition bound_facts (b : string) : list fact :=
  match contract_facts b with Some l => l | None => [] end.
Definition env_min (r : rule) (i : nat) : facts :=
  of_list ((if existsb (Nat.eqb i) (r_unsized r) then [] else [FSized; FMeta]) ++
           flat_map (fun ib => if Nat.eqb (fst ib) i then bound_facts (snd ib) else []) (r_bounds r)).

(* what an instantiation must satisfy for the rule to apply *)
Definition inst_ok (r : rule) (sg : nat -> tyx) : Prop :=
  (forall i b, In (i, b) (r_bounds r) -> is_marker b = true -> contractb b (ground_facts (sg i)) = true) /\
  (forall i, existsb (Nat.eqb i) (r_unsized r) = false ->
             ground_facts (sg i) FSized = true /\ ground_facts (sg i) FMeta = true).

Definition rule_sound (r : rule) : Prop :=
  forall sg, inst_ok r sg -> contractb (r_trait r) (ground_facts (subst sg (r_self r))) = true.

Definition rule_okb (r : rule) : bool :=
  negb (r_other_where r) && contractb (r_trait r) (tfacts (env_min r) (r_self r)).

Lemma of_list_in l x : of_list l x = true <-> In x l.
Proof.
  unfold of_list. rewrite existsb_exists. split.
  - intros (y & Hy & E). apply fact_eqb_eq in E. subst. exact Hy.
  - intros H. exists x. split; [exact H | apply fact_eqb_eq; reflexivity].
Qed.

Lemma contractb_all m f : contractb m f = true <-> exists l, contract_facts m = Some l /\ forall x, In x l -> f x = true.
Proof.
  unfold contractb. destruct (contract_facts m) as [l|].
  - rewrite forallb_forall. split; [intros H; exists l; split; [reflexivity | exact H] | intros (l' & E & H); inversion E; subst; exact H].
  - split; [discriminate | intros (l & E & _); discriminate].
Qed.

Lemma contractb_mono m f g : fle f g -> contractb m f = true -> contractb m g = true.
Proof.
  intros Hle. rewrite !contractb_all. intros (l & E & H). exists l. split; [exact E|]. intros x Hx. apply Hle. apply H. exact Hx.
Qed.

Lemma is_marker_contract b : is_marker b = true -> exists l, contract_facts b = Some l.
Proof.
  unfold is_marker, marker_names. cbn [existsb]. rewrite !orb_true_iff.
  intros H. repeat (destruct H as [H|H]); try discriminate; apply String.eqb_eq in H; subst; cbn; eauto.
Qed.

Lemma env_min_le r sg : inst_ok r sg -> forall i, fle (env_min r i) (ground_facts (sg i)).
Proof.
  intros [Hb Hs] i x. unfold env_min. rewrite of_list_in, in_app_iff. intros [H|H].
  - destruct (existsb (Nat.eqb i) (r_unsized r)) eqn:E; [contradiction|].
    destruct (Hs i E) as [H1 H2]. destruct H as [<-|[<-|[]]]; assumption.
  - apply in_flat_map in H. destruct H as ([j b] & Hin & Hx). cbn [fst snd] in Hx.
    destruct (Nat.eqb_spec j i) as [->|]; [|contradiction].
    unfold bound_facts in Hx. destruct (contract_facts b) as [l|] eqn:Ec; [|contradiction].
    assert (Hm : is_marker b = true).
    { unfold is_marker, marker_names. cbn [existsb]. revert Ec. unfold contract_facts.
      repeat match goal with |- context [String.eqb b ?s] => destruct (String.eqb b s) eqn:?; [rewrite ?orb_true_r; reflexivity|] end.
      discriminate. }
    specialize (Hb i b Hin Hm). apply contractb_all in Hb. destruct Hb as (l' & E' & Hall).
    rewrite Ec in E'. inversion E'; subst. apply Hall. exact Hx.
Qed.

Theorem rule_okb_sound r : rule_okb r = true -> rule_sound r.
Proof.
  unfold rule_okb, rule_sound. rewrite andb_true_iff. intros [_ Hok] sg Hi.
  eapply contractb_mono; [|exact Hok].
  intros x Hx. rewrite tfacts_subst. eapply tfacts_mono; [|exact Hx]. apply env_min_le. exact Hi.
Qed.

(* ---- derivability from the table, and the theorem ---- *)
Inductive derives (rules : list rule) : string -> tyx -> Prop :=
| D_rule r sg :
    In r rules -> r_other_where r = false ->
    (forall i b, In (i, b) (r_bounds r) -> is_marker b = true -> derives rules b (sg i)) ->
    (forall i, existsb (Nat.eqb i) (r_unsized r) = false ->
               ground_facts (sg i) FSized = true /\ ground_facts (sg i) FMeta = true) ->
    derives rules (r_trait r) (subst sg (r_self r)).

Theorem derives_sound rules : Forall rule_sound rules ->
  forall m t, derives rules m t -> contractb m (ground_facts t) = true.
Proof.
  intros Hall m t Hd. induction Hd as [r sg Hin Hw Hb IH Hs].
  rewrite Forall_forall in Hall. apply (Hall r Hin). split; [exact IH | exact Hs].
Qed.

(* only the rows whose trait has a structural contract here; Contiguous rows are C17's,
   TransparentWrapper rows are checked syntactically below *)
Definition marker_rules (rules : list rule) : list rule := filter (fun r => is_marker (r_trait r)) rules.

Lemma all_rules_sound rules : forallb rule_okb (marker_rules rules) = true -> Forall rule_sound (marker_rules rules).
Proof. rewrite forallb_forall. intros H. apply Forall_forall. intros r Hr. apply rule_okb_sound. apply H. exact Hr. Qed.

(* TransparentWrapper<T> for W<T>: the std wrappers documented repr(transparent) over their only field *)
Definition tw_okb (r : rule) : bool :=
  match r_self r, r_targs r with
  | TApp c [TVar 0], [TVar 0] => is_in c ["Wrapping"; "Saturating"; "Reverse"]
  | _, _ => false
  end.
Definition tw_rules (rules : list rule) : list rule := filter (fun r => String.eqb (r_trait r) "TransparentWrapper") rules.

(* syntactic equality of rows (to say that a concrete row occurs in a regenerated table cheaply) *)
Definition bounds_eqb (a b : list (nat * string)) : bool :=
  Nat.eqb (List.length a) (List.length b) &&
  forallb (fun xy => Nat.eqb (fst (fst xy)) (fst (snd xy)) && String.eqb (snd (fst xy)) (snd (snd xy))) (combine a b).
Definition rule_eqb (r q : rule) : bool :=
  String.eqb (r_trait r) (r_trait q) && Nat.eqb (r_nparams r) (r_nparams q) && bounds_eqb (r_bounds r) (r_bounds q) &&
  tyx_eqb (r_self r) (r_self q) && Bool.eqb (r_other_where r) (r_other_where q).
Definition occurs (r : rule) (rules : list rule) : bool := existsb (rule_eqb r) rules.
