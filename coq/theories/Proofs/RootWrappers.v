(* Proofs/RootWrappers.v — the public functions of src/lib.rs are their internal:: namesakes *)
From Coq Require Import NArith List Bool String.
From BM Require Import Base.Outcome Base.Prims.
From BM.Gen Require Internal Root.

(* a wrapper may bind the internal call's result to a local before returning it *)
Ltac unfold_root := cbv delta [Root.try_cast_slice Root.try_cast_slice_mut Root.try_cast_ref Root.try_cast_mut Root.try_from_bytes
  Root.try_from_bytes_mut Root.try_cast Root.cast Root.cast_ref Root.cast_mut Root.cast_slice Root.cast_slice_mut Root.bytes_of
  Root.bytes_of_mut Root.from_bytes Root.from_bytes_mut Root.try_pod_read_unaligned Root.pod_read_unaligned]; cbv beta; rewrite ?bind_ret_r.

Lemma root_try_cast_slice ENV A B s : Root.try_cast_slice ENV A B s = Internal.try_cast_slice ENV A B s.
Proof. unfold_root; reflexivity. Qed.
Lemma root_try_cast_slice_mut ENV A B s : Root.try_cast_slice_mut ENV A B s = Internal.try_cast_slice_mut ENV A B s.
Proof. unfold_root; reflexivity. Qed.
Lemma root_try_cast_ref ENV A B p : Root.try_cast_ref ENV A B p = Internal.try_cast_ref ENV A B p.
Proof. unfold_root; reflexivity. Qed.
Lemma root_try_cast_mut ENV A B p : Root.try_cast_mut ENV A B p = Internal.try_cast_mut ENV A B p.
Proof. unfold_root; reflexivity. Qed.
Lemma root_try_from_bytes ENV T s : Root.try_from_bytes ENV T s = Internal.try_from_bytes ENV T s.
Proof. unfold_root; reflexivity. Qed.
Lemma root_try_from_bytes_mut ENV T s : Root.try_from_bytes_mut ENV T s = Internal.try_from_bytes_mut ENV T s.
Proof. unfold_root; reflexivity. Qed.
Lemma root_try_cast ENV A B a : Root.try_cast ENV A B a = Internal.try_cast ENV A B a.
Proof. unfold_root; reflexivity. Qed.
Lemma root_cast ENV A B a : Root.cast ENV A B a = Internal.cast ENV A B a.
Proof. unfold_root; reflexivity. Qed.
Lemma root_cast_ref ENV A B a : Root.cast_ref ENV A B a = Internal.cast_ref ENV A B a.
Proof. unfold_root; reflexivity. Qed.
Lemma root_cast_mut ENV A B a : Root.cast_mut ENV A B a = Internal.cast_mut ENV A B a.
Proof. unfold_root; reflexivity. Qed.
Lemma root_cast_slice ENV A B a : Root.cast_slice ENV A B a = Internal.cast_slice ENV A B a.
Proof. unfold_root; reflexivity. Qed.
Lemma root_cast_slice_mut ENV A B a : Root.cast_slice_mut ENV A B a = Internal.cast_slice_mut ENV A B a.
Proof. unfold_root; reflexivity. Qed.
Lemma root_bytes_of ENV T t : Root.bytes_of ENV T t = Internal.bytes_of ENV T t.
Proof. unfold_root; reflexivity. Qed.
Lemma root_bytes_of_mut ENV T t : Root.bytes_of_mut ENV T t = Internal.bytes_of_mut ENV T t.
Proof. unfold_root; reflexivity. Qed.
Lemma root_from_bytes ENV T s : Root.from_bytes ENV T s = Internal.from_bytes ENV T s.
Proof. unfold_root; reflexivity. Qed.
Lemma root_from_bytes_mut ENV T s : Root.from_bytes_mut ENV T s = Internal.from_bytes_mut ENV T s.
Proof. unfold_root; reflexivity. Qed.
Lemma root_try_pod_read_unaligned ENV T s : Root.try_pod_read_unaligned ENV T s = Internal.try_pod_read_unaligned ENV T s.
Proof. unfold_root; reflexivity. Qed.
Lemma root_pod_read_unaligned ENV T s : Root.pod_read_unaligned ENV T s = Internal.pod_read_unaligned ENV T s.
Proof. unfold_root; reflexivity. Qed.
