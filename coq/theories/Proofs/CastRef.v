From Coq Require Import NArith ZArith List Bool String Lia ZifyBool ZifyN.
From BM Require Import Base.Outcome Base.Prims Base.Layout Base.Tactics Spec.CastSpec Proofs.CastBase.
From BM.Gen Require Internal.
Open Scope bool_scope.
Open Scope N_scope.

Theorem try_cast_ref_char ENV A B p :
  wf_ty A -> wf_ty B -> valid_ref A p ->
  ref_outcome_ok A B p (Internal.try_cast_ref ENV A B p).
Proof. intro_ref. open_cast Internal.try_cast_ref. split_all; fin. Qed.

Theorem try_cast_mut_char ENV A B p :
  wf_ty A -> wf_ty B -> valid_ref A p ->
  ref_outcome_ok A B p (Internal.try_cast_mut ENV A B p).
Proof. intro_ref. open_cast Internal.try_cast_mut. split_all; fin. Qed.

(* &[u8] -> &T *)
Theorem try_from_bytes_char ENV T s :
  wf_ty T -> valid_slice u8_ty s ->
  bytes_outcome_ok T s (Internal.try_from_bytes ENV T s).
Proof.
  intros HT (Hnn & Hal & Hav & Hsz & Hend & Hlen). pow2_facts.
  open_cast Internal.try_from_bytes. cbn [sz al u8_ty] in *. split_all; fin.
Qed.

Theorem try_from_bytes_mut_char ENV T s :
  wf_ty T -> valid_slice u8_ty s ->
  bytes_outcome_ok T s (Internal.try_from_bytes_mut ENV T s).
Proof.
  intros HT (Hnn & Hal & Hav & Hsz & Hend & Hlen). pow2_facts.
  open_cast Internal.try_from_bytes_mut. cbn [sz al u8_ty] in *. split_all; fin.
Qed.
