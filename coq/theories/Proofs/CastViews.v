(* Proofs/CastViews.v — every flavour of borrowed cast (plain, panicking, checked, must_) returns,
   when it returns, the view the plain try_ form returns; so C01's view clauses reduce to the
   characterisation of the plain try_ forms. *)
From Coq Require Import NArith ZArith List Bool String Lia ZifyBool ZifyN.
From BM Require Import Base.Outcome Base.Prims Base.Layout Base.Tactics Spec.CastSpec Spec.MustSpec.
From BM Require Import Proofs.CastBase Proofs.CastDerive Proofs.CastSlice Proofs.CastSliceMut Proofs.CastRef
  Proofs.CastValue Proofs.CastPanicking Proofs.CastChecked Proofs.CastMust Proofs.RootWrappers.
From BM.Gen Require Internal Root Checked Must.
Open Scope bool_scope.
Open Scope string_scope.
Open Scope N_scope.

Lemma twin_ret {X} fn (t : outcome (result X perr)) (p : outcome X) v :
  twin fn t p -> p = Ret v -> t = Ret (Ok v).
Proof. unfold twin. destruct t as [[x|e]|w|u]; intros -> H; try discriminate. injection H as ->. reflexivity. Qed.

Lemma ctwin_ret {X} fn (t : outcome (result X cerr)) (p : outcome X) v :
  ctwin fn t p -> p = Ret v -> t = Ret (Ok v).
Proof. unfold ctwin. destruct t as [[x|e]|w|u]; intros -> H; try discriminate. injection H as ->. reflexivity. Qed.

Lemma checked_ok_plain {V} (plain : outcome (result V perr)) valid (o : outcome (result V cerr)) v :
  checked_outcome plain valid o -> o = Ret (Ok v) -> plain = Ret (Ok v) /\ valid v = true.
Proof.
  unfold checked_outcome. destruct plain as [[pv|e]|w|u]; intros H E; rewrite E in H; try discriminate.
  destruct (valid pv) eqn:Hv; [|discriminate]. injection H as ->. split; [reflexivity | exact Hv].
Qed.

(* the checked slice view has the layout of the Bits view, which is the layout of the target *)
Lemma view_retype (A Bits B : ty) s v :
  sz Bits = sz B -> al Bits = al B -> slice_view_ok A Bits s v -> slice_view_ok A B s v.
Proof. unfold slice_view_ok. intros <- <-. tauto. Qed.

Lemma ref_view_retype (Bits B : ty) p v :
  sz Bits = sz B -> al Bits = al B -> ref_view_ok Bits p v -> ref_view_ok B p v.
Proof. unfold ref_view_ok. intros <- <-. tauto. Qed.

Section Views.
  Context (ENV : env).

  (* ---- plain ---- *)
  Lemma v_try_cast_slice A B s v : wf_ty A -> wf_ty B -> valid_slice A s ->
    Root.try_cast_slice ENV A B s = Ret (Ok v) -> slice_view_ok A B s v.
  Proof. intros HA HB Hs. rewrite root_try_cast_slice. apply slice_view. apply try_cast_slice_char; assumption. Qed.
  Lemma v_try_cast_slice_mut A B s v : wf_ty A -> wf_ty B -> valid_slice A s ->
    Root.try_cast_slice_mut ENV A B s = Ret (Ok v) -> slice_view_ok A B s v.
  Proof. intros HA HB Hs. rewrite root_try_cast_slice_mut. apply slice_view. apply try_cast_slice_mut_char; assumption. Qed.
  Lemma v_try_cast_ref A B p v : wf_ty A -> wf_ty B -> valid_ref A p ->
    Root.try_cast_ref ENV A B p = Ret (Ok v) -> ref_view_ok B p v.
  Proof. intros HA HB Hp. rewrite root_try_cast_ref. apply (ref_view A). apply try_cast_ref_char; assumption. Qed.
  Lemma v_try_cast_mut A B p v : wf_ty A -> wf_ty B -> valid_ref A p ->
    Root.try_cast_mut ENV A B p = Ret (Ok v) -> ref_view_ok B p v.
  Proof. intros HA HB Hp. rewrite root_try_cast_mut. apply (ref_view A). apply try_cast_mut_char; assumption. Qed.
  Lemma v_try_from_bytes T s v : wf_ty T -> valid_slice u8_ty s ->
    Root.try_from_bytes ENV T s = Ret (Ok v) -> ref_view_ok T (sptr s) v.
  Proof. intros HT Hs. rewrite root_try_from_bytes. apply bytes_view. apply try_from_bytes_char; assumption. Qed.
  Lemma v_try_from_bytes_mut T s v : wf_ty T -> valid_slice u8_ty s ->
    Root.try_from_bytes_mut ENV T s = Ret (Ok v) -> ref_view_ok T (sptr s) v.
  Proof. intros HT Hs. rewrite root_try_from_bytes_mut. apply bytes_view. apply try_from_bytes_mut_char; assumption. Qed.

  (* ---- panicking ---- *)
  Lemma v_cast_slice A B s v : wf_ty A -> wf_ty B -> valid_slice A s ->
    Root.cast_slice ENV A B s = Ret v -> slice_view_ok A B s v.
  Proof.
    intros HA HB Hs H. rewrite root_cast_slice in H. apply (twin_ret _ _ _ _ (cast_slice_twin ENV A B s)) in H.
    apply (slice_view A B s _ (try_cast_slice_char ENV A B s HA HB Hs)). exact H.
  Qed.
  Lemma v_cast_slice_mut A B s v : wf_ty A -> wf_ty B -> valid_slice A s ->
    Root.cast_slice_mut ENV A B s = Ret v -> slice_view_ok A B s v.
  Proof.
    intros HA HB Hs H. rewrite root_cast_slice_mut in H. apply (twin_ret _ _ _ _ (cast_slice_mut_twin ENV A B s)) in H.
    apply (slice_view A B s _ (try_cast_slice_mut_char ENV A B s HA HB Hs)). exact H.
  Qed.
  Lemma v_cast_ref A B p v : wf_ty A -> wf_ty B -> valid_ref A p ->
    Root.cast_ref ENV A B p = Ret v -> ref_view_ok B p v.
  Proof.
    intros HA HB Hp H. rewrite root_cast_ref in H. apply (twin_ret _ _ _ _ (cast_ref_twin ENV A B p HA HB Hp)) in H.
    apply (ref_view A B p _ (try_cast_ref_char ENV A B p HA HB Hp)). exact H.
  Qed.
  Lemma v_cast_mut A B p v : wf_ty A -> wf_ty B -> valid_ref A p ->
    Root.cast_mut ENV A B p = Ret v -> ref_view_ok B p v.
  Proof.
    intros HA HB Hp H. rewrite root_cast_mut in H. apply (twin_ret _ _ _ _ (cast_mut_twin ENV A B p HA HB Hp)) in H.
    apply (ref_view A B p _ (try_cast_mut_char ENV A B p HA HB Hp)). exact H.
  Qed.
  Lemma v_from_bytes T s v : wf_ty T -> valid_slice u8_ty s ->
    Root.from_bytes ENV T s = Ret v -> ref_view_ok T (sptr s) v.
  Proof.
    intros HT Hs H. rewrite root_from_bytes in H. apply (twin_ret _ _ _ _ (from_bytes_twin ENV T s)) in H.
    apply (bytes_view T s _ (try_from_bytes_char ENV T s HT Hs)). exact H.
  Qed.
  Lemma v_from_bytes_mut T s v : wf_ty T -> valid_slice u8_ty s ->
    Root.from_bytes_mut ENV T s = Ret v -> ref_view_ok T (sptr s) v.
  Proof.
    intros HT Hs H. rewrite root_from_bytes_mut in H. apply (twin_ret _ _ _ _ (from_bytes_mut_twin ENV T s)) in H.
    apply (bytes_view T s _ (try_from_bytes_mut_char ENV T s HT Hs)). exact H.
  Qed.
  Lemma v_bytes_of T t : wf_ty T -> valid_ref T t ->
    exists v, Root.bytes_of ENV T t = Ret v /\ bytes_view_ok T t v.
  Proof. intros. rewrite root_bytes_of. apply bytes_of_char; assumption. Qed.
  Lemma v_bytes_of_mut T t : wf_ty T -> valid_ref T t ->
    exists v, Root.bytes_of_mut ENV T t = Ret v /\ bytes_view_ok T t v.
  Proof. intros. rewrite root_bytes_of_mut. apply bytes_of_mut_char; assumption. Qed.

  (* ---- checked ---- *)
  Lemma v_checked_try_cast_slice A (B : cty) s v : wf_ty A -> wf_cty B -> valid_slice A s ->
    Checked.try_cast_slice ENV A B s = Ret (Ok v) -> slice_view_ok A B s v.
  Proof.
    intros HA HB Hs H. pose proof HB as (HB1 & HB2 & Hsz & Hal).
    destruct (checked_ok_plain _ _ _ _ (checked_try_cast_slice_char ENV A B s HA HB Hs) H) as [Hp _].
    apply (view_retype A (c_bits B) B s v Hsz Hal). apply v_try_cast_slice; assumption.
  Qed.
  Lemma v_checked_try_cast_slice_mut A (B : cty) s v : wf_ty A -> wf_cty B -> valid_slice A s ->
    Checked.try_cast_slice_mut ENV A B s = Ret (Ok v) -> slice_view_ok A B s v.
  Proof.
    intros HA HB Hs H. pose proof HB as (HB1 & HB2 & Hsz & Hal).
    destruct (checked_ok_plain _ _ _ _ (checked_try_cast_slice_mut_char ENV A B s HA HB Hs) H) as [Hp _].
    apply (view_retype A (c_bits B) B s v Hsz Hal).
    apply (slice_view A (c_bits B) s _ (try_cast_slice_mut_char ENV A (c_bits B) s HA HB2 Hs)). exact Hp.
  Qed.
  Lemma v_checked_try_cast_ref A (B : cty) p v : wf_ty A -> wf_cty B -> valid_ref A p ->
    Checked.try_cast_ref ENV A B p = Ret (Ok v) -> ref_view_ok B p v.
  Proof.
    intros HA HB Hp H. pose proof HB as (HB1 & HB2 & Hsz & Hal).
    destruct (checked_ok_plain _ _ _ _ (checked_try_cast_ref_char ENV A B p HA HB Hp) H) as [Hpl _].
    apply (ref_view_retype (c_bits B) B p v Hsz Hal). apply (v_try_cast_ref A); assumption.
  Qed.
  Lemma v_checked_try_cast_mut A (B : cty) p v : wf_ty A -> wf_cty B -> valid_ref A p ->
    Checked.try_cast_mut ENV A B p = Ret (Ok v) -> ref_view_ok B p v.
  Proof.
    intros HA HB Hp H. pose proof HB as (HB1 & HB2 & Hsz & Hal).
    destruct (checked_ok_plain _ _ _ _ (checked_try_cast_mut_char ENV A B p HA HB Hp) H) as [Hpl _].
    apply (ref_view_retype (c_bits B) B p v Hsz Hal).
    apply (ref_view A (c_bits B) p _ (try_cast_mut_char ENV A (c_bits B) p HA HB2 Hp)). exact Hpl.
  Qed.
  Lemma v_checked_try_from_bytes (T : cty) s v : wf_cty T -> valid_slice u8_ty s ->
    Checked.try_from_bytes ENV T s = Ret (Ok v) -> ref_view_ok T (sptr s) v.
  Proof.
    intros HT Hs H. pose proof HT as (HT1 & HT2 & Hsz & Hal).
    destruct (checked_ok_plain _ _ _ _ (checked_try_from_bytes_char ENV T s HT Hs) H) as [Hpl _].
    apply (ref_view_retype (c_bits T) T _ v Hsz Hal). apply v_try_from_bytes; assumption.
  Qed.
  Lemma v_checked_try_from_bytes_mut (T : cty) s v : wf_cty T -> valid_slice u8_ty s ->
    Checked.try_from_bytes_mut ENV T s = Ret (Ok v) -> ref_view_ok T (sptr s) v.
  Proof.
    intros HT Hs H. pose proof HT as (HT1 & HT2 & Hsz & Hal).
    destruct (checked_ok_plain _ _ _ _ (checked_try_from_bytes_mut_char ENV T s HT Hs) H) as [Hpl _].
    apply (ref_view_retype (c_bits T) T _ v Hsz Hal).
    apply (bytes_view (c_bits T) s _ (try_from_bytes_mut_char ENV (c_bits T) s HT2 Hs)). exact Hpl.
  Qed.
  (* panicking checked forms *)
  Lemma v_checked_cast_slice A (B : cty) s v : wf_ty A -> wf_cty B -> valid_slice A s ->
    Checked.cast_slice ENV A B s = Ret v -> slice_view_ok A B s v.
  Proof. intros HA HB Hs H. apply (ctwin_ret _ _ _ _ (checked_cast_slice_twin ENV A B s)) in H. apply v_checked_try_cast_slice; assumption. Qed.
  Lemma v_checked_cast_slice_mut A (B : cty) s v : wf_ty A -> wf_cty B -> valid_slice A s ->
    Checked.cast_slice_mut ENV A B s = Ret v -> slice_view_ok A B s v.
  Proof. intros HA HB Hs H. apply (ctwin_ret _ _ _ _ (checked_cast_slice_mut_twin ENV A B s)) in H. apply v_checked_try_cast_slice_mut; assumption. Qed.
  Lemma v_checked_cast_ref A (B : cty) p v : wf_ty A -> wf_cty B -> valid_ref A p ->
    Checked.cast_ref ENV A B p = Ret v -> ref_view_ok B p v.
  Proof. intros HA HB Hp H. apply (ctwin_ret _ _ _ _ (checked_cast_ref_twin ENV A B p)) in H. apply (v_checked_try_cast_ref A); assumption. Qed.
  Lemma v_checked_cast_mut A (B : cty) p v : wf_ty A -> wf_cty B -> valid_ref A p ->
    Checked.cast_mut ENV A B p = Ret v -> ref_view_ok B p v.
  Proof. intros HA HB Hp H. apply (ctwin_ret _ _ _ _ (checked_cast_mut_twin ENV A B p)) in H. apply (v_checked_try_cast_mut A); assumption. Qed.
  Lemma v_checked_from_bytes (T : cty) s v : wf_cty T -> valid_slice u8_ty s ->
    Checked.from_bytes ENV T s = Ret v -> ref_view_ok T (sptr s) v.
  Proof. intros HT Hs H. apply (ctwin_ret _ _ _ _ (checked_from_bytes_twin ENV T s)) in H. apply v_checked_try_from_bytes; assumption. Qed.
  Lemma v_checked_from_bytes_mut (T : cty) s v : wf_cty T -> valid_slice u8_ty s ->
    Checked.from_bytes_mut ENV T s = Ret v -> ref_view_ok T (sptr s) v.
  Proof. intros HT Hs H. apply (ctwin_ret _ _ _ _ (checked_from_bytes_mut_twin ENV T s)) in H. apply v_checked_try_from_bytes_mut; assumption. Qed.

  (* ---- must_ ---- *)
  Lemma v_must_cast_slice A B s v : wf_ty A -> wf_ty B -> valid_slice A s ->
    Must.must_cast_slice ENV A B s = Ret v -> slice_view_ok A B s v.
  Proof.
    intros HA HB Hs H. pose proof (must_cast_slice_char ENV A B s HA HB Hs) as Hc.
    destruct (must_slice_okb A B).
    - destruct Hc as (v' & Hm & Ht). rewrite Hm in H. injection H as ->.
      apply (slice_view A B s _ (try_cast_slice_char ENV A B s HA HB Hs)). exact Ht.
    - destruct Hc as [n Hn]. rewrite Hn in H. discriminate.
  Qed.
  Lemma v_must_cast_slice_mut A B s v : wf_ty A -> wf_ty B -> valid_slice A s ->
    Must.must_cast_slice_mut ENV A B s = Ret v -> slice_view_ok A B s v.
  Proof.
    intros HA HB Hs H. pose proof (must_cast_slice_mut_char ENV A B s HA HB Hs) as Hc.
    destruct (must_slice_okb A B).
    - destruct Hc as (v' & Hm & Ht). rewrite Hm in H. injection H as ->.
      apply (slice_view A B s _ (try_cast_slice_mut_char ENV A B s HA HB Hs)). exact Ht.
    - destruct Hc as [n Hn]. rewrite Hn in H. discriminate.
  Qed.
  Lemma v_must_cast_ref A B p v : wf_ty A -> wf_ty B -> valid_ref A p ->
    Must.must_cast_ref ENV A B p = Ret v -> ref_view_ok B p v.
  Proof.
    intros HA HB Hp H. pose proof (must_cast_ref_char ENV A B p HA HB Hp) as Hc.
    destruct (must_ref_okb A B).
    - destruct Hc as (v' & Hm & Ht). rewrite Hm in H. injection H as ->.
      apply (ref_view A B p _ (try_cast_ref_char ENV A B p HA HB Hp)). exact Ht.
    - destruct Hc as [n Hn]. rewrite Hn in H. discriminate.
  Qed.
  Lemma v_must_cast_mut A B p v : wf_ty A -> wf_ty B -> valid_ref A p ->
    Must.must_cast_mut ENV A B p = Ret v -> ref_view_ok B p v.
  Proof.
    intros HA HB Hp H. pose proof (must_cast_mut_char ENV A B p HA HB Hp) as Hc.
    destruct (must_ref_okb A B).
    - destruct Hc as (v' & Hm & Ht). rewrite Hm in H. injection H as ->.
      apply (ref_view A B p _ (try_cast_mut_char ENV A B p HA HB Hp)). exact Ht.
    - destruct Hc as [n Hn]. rewrite Hn in H. discriminate.
  Qed.
End Views.

(* zero-sized sources or targets: the view covers zero bytes *)
Lemma view_zst A B s v : slice_view_ok A B s v -> sz A = 0 \/ sz B = 0 -> slen v * sz B = 0.
Proof. intros (_ & Hn & _ & _) [Z|Z]; [rewrite Hn, Z | rewrite Z]; apply N.mul_0_r. Qed.

(* pod_align_to / pod_align_to_mut as translated: one call of core's split on the argument *)
Theorem pod_align_to_is_align_to ENV T U s :
  Root.pod_align_to ENV T U s = Ret (Model.StdSlice.slice_align_to T U s) /\
  Root.pod_align_to_mut ENV T U s = Ret (Model.StdSlice.slice_align_to T U s).
Proof. split; reflexivity. Qed.
