(* Proofs/CastChecked.v — the checked casts of the translated src/checked.rs are the plain cast
   followed by the validity test of every resulting element, and re-type the same view (C07). *)
From Coq Require Import NArith ZArith List Bool String Lia ZifyBool ZifyN.
From BM Require Import Base.Outcome Base.Prims Base.Layout Base.Tactics Spec.CastSpec.
From BM Require Import Proofs.CastBase Proofs.CastSlice Proofs.CastSliceMut Proofs.CastRef Proofs.CastValue
  Proofs.RootWrappers.
From BM.Gen Require Internal Root Checked.
Open Scope bool_scope.
Open Scope string_scope.
Open Scope N_scope.

Lemma retype_slice (Bits B : ty) pv :
  sz Bits = sz B -> al Bits = al B ->
  addr (sptr pv) mod al Bits = 0 -> avail (sptr pv) = slen pv * sz Bits ->
  from_raw_parts B (sptr pv) (slen pv) = Ret pv.
Proof.
  intros Hs Ha Hal Hav. unfold from_raw_parts, aligned_for. rewrite <- Ha, <- Hs.
  apply N.eqb_eq in Hal. rewrite Hal. cbn [negb]. rewrite Hav, N.leb_refl. cbn [negb].
  destruct pv as [[a v] n]. cbn in *. subst v. reflexivity.
Qed.

Lemma retype_ref (Bits B : ty) pv :
  sz Bits = sz B -> al Bits = al B -> addr pv mod al Bits = 0 -> avail pv = sz Bits ->
  deref_as B pv = Ret pv.
Proof.
  intros Hs Ha Hal Hav. unfold deref_as, aligned_for. rewrite <- Ha, <- Hs.
  apply N.eqb_eq in Hal. rewrite Hal. cbn [negb]. rewrite Hav, N.leb_refl. cbn [negb].
  destruct pv as [a v]. cbn in *. subst v. reflexivity.
Qed.

(* `!it.any(|x| !valid(x))` is `it.all(valid)` *)
Lemma negb_any_negb E T s f : negb (any_elems E T s (fun x => negb (f x))) = all_elems E T s f.
Proof.
  unfold any_elems, all_elems. induction (elems E T s) as [|x r IH]; cbn; [reflexivity|].
  rewrite negb_orb, negb_involutive, IH. reflexivity.
Qed.

Theorem checked_try_cast_slice_char ENV A (B : cty) s :
  wf_ty A -> wf_cty B -> valid_slice A s ->
  checked_outcome (Root.try_cast_slice ENV A (c_bits B) s)
                  (fun pv => all_elems ENV (c_bits B) pv (c_valid B))
                  (Checked.try_cast_slice ENV A B s).
Proof.
  intros HA (HB & HBb & Hsz & Hal) Hs.
  pose proof (try_cast_slice_char ENV A (c_bits B) s HA HBb Hs) as Hc.
  unfold checked_outcome, Checked.try_cast_slice. rewrite root_try_cast_slice in *.
  destruct (Internal.try_cast_slice ENV A (c_bits B) s) as [[pv|e]|w|u]; cbn [bind]; try reflexivity.
  rewrite ?negb_any_negb.
  destruct (all_elems ENV (c_bits B) pv (c_valid B)); [|reflexivity].
  cbn in Hc. destruct Hc as [_ (Ha & Hn & Halv & Hav)].
  rewrite (retype_slice (c_bits B) B pv Hsz Hal Halv Hav). reflexivity.
Qed.

Theorem checked_try_cast_slice_mut_char ENV A (B : cty) s :
  wf_ty A -> wf_cty B -> valid_slice A s ->
  checked_outcome (Internal.try_cast_slice_mut ENV A (c_bits B) s)
                  (fun pv => all_elems ENV (c_bits B) pv (c_valid B))
                  (Checked.try_cast_slice_mut ENV A B s).
Proof.
  intros HA (HB & HBb & Hsz & Hal) Hs.
  pose proof (try_cast_slice_mut_char ENV A (c_bits B) s HA HBb Hs) as Hc.
  unfold checked_outcome, Checked.try_cast_slice_mut.
  destruct (Internal.try_cast_slice_mut ENV A (c_bits B) s) as [[pv|e]|w|u]; cbn [bind]; try reflexivity.
  rewrite ?negb_any_negb.
  destruct (all_elems ENV (c_bits B) pv (c_valid B)); [|reflexivity].
  cbn in Hc. destruct Hc as [_ (Ha & Hn & Halv & Hav)].
  rewrite (retype_slice (c_bits B) B pv Hsz Hal Halv Hav). reflexivity.
Qed.

Theorem checked_try_cast_ref_char ENV A (B : cty) p :
  wf_ty A -> wf_cty B -> valid_ref A p ->
  checked_outcome (Root.try_cast_ref ENV A (c_bits B) p)
                  (fun pv => c_valid B (load ENV (c_bits B) pv))
                  (Checked.try_cast_ref ENV A B p).
Proof.
  intros HA (HB & HBb & Hsz & Hal) Hp.
  pose proof (try_cast_ref_char ENV A (c_bits B) p HA HBb Hp) as Hc.
  unfold checked_outcome, Checked.try_cast_ref. rewrite root_try_cast_ref in *.
  destruct (Internal.try_cast_ref ENV A (c_bits B) p) as [[pv|e]|w|u]; cbn [bind]; try reflexivity.
  destruct (c_valid B (load ENV (c_bits B) pv)); [|reflexivity].
  cbn in Hc. destruct Hc as [_ (Ha & Hav & Halv)].
  rewrite (retype_ref (c_bits B) B pv Hsz Hal Halv Hav). reflexivity.
Qed.

Theorem checked_try_cast_mut_char ENV A (B : cty) p :
  wf_ty A -> wf_cty B -> valid_ref A p ->
  checked_outcome (Internal.try_cast_mut ENV A (c_bits B) p)
                  (fun pv => c_valid B (load ENV (c_bits B) pv))
                  (Checked.try_cast_mut ENV A B p).
Proof.
  intros HA (HB & HBb & Hsz & Hal) Hp.
  pose proof (try_cast_mut_char ENV A (c_bits B) p HA HBb Hp) as Hc.
  unfold checked_outcome, Checked.try_cast_mut.
  destruct (Internal.try_cast_mut ENV A (c_bits B) p) as [[pv|e]|w|u]; cbn [bind]; try reflexivity.
  destruct (c_valid B (load ENV (c_bits B) pv)); [|reflexivity].
  cbn in Hc. destruct Hc as [_ (Ha & Hav & Halv)].
  rewrite (retype_ref (c_bits B) B pv Hsz Hal Halv Hav). reflexivity.
Qed.

Theorem checked_try_from_bytes_char ENV (T : cty) s :
  wf_cty T -> valid_slice u8_ty s ->
  checked_outcome (Root.try_from_bytes ENV (c_bits T) s)
                  (fun pv => c_valid T (load ENV (c_bits T) pv))
                  (Checked.try_from_bytes ENV T s).
Proof.
  intros (HT & HTb & Hsz & Hal) Hs.
  pose proof (try_from_bytes_char ENV (c_bits T) s HTb Hs) as Hc.
  unfold checked_outcome, Checked.try_from_bytes. rewrite root_try_from_bytes in *.
  destruct (Internal.try_from_bytes ENV (c_bits T) s) as [[pv|e]|w|u]; cbn [bind]; try reflexivity.
  destruct (c_valid T (load ENV (c_bits T) pv)); [|reflexivity].
  cbn in Hc. destruct Hc as [_ (Ha & Hav & Halv)].
  rewrite (retype_ref (c_bits T) T pv Hsz Hal Halv Hav). reflexivity.
Qed.

Theorem checked_try_from_bytes_mut_char ENV (T : cty) s :
  wf_cty T -> valid_slice u8_ty s ->
  checked_outcome (Internal.try_from_bytes_mut ENV (c_bits T) s)
                  (fun pv => c_valid T (load ENV (c_bits T) pv))
                  (Checked.try_from_bytes_mut ENV T s).
Proof.
  intros (HT & HTb & Hsz & Hal) Hs.
  pose proof (try_from_bytes_mut_char ENV (c_bits T) s HTb Hs) as Hc.
  unfold checked_outcome, Checked.try_from_bytes_mut.
  destruct (Internal.try_from_bytes_mut ENV (c_bits T) s) as [[pv|e]|w|u]; cbn [bind]; try reflexivity.
  destruct (c_valid T (load ENV (c_bits T) pv)); [|reflexivity].
  cbn in Hc. destruct Hc as [_ (Ha & Hav & Halv)].
  rewrite (retype_ref (c_bits T) T pv Hsz Hal Halv Hav). reflexivity.
Qed.

(* by value: the Bits value is validated, then transmuted to Self — the same bytes *)
Theorem checked_try_cast_char ENV A (B : cty) a :
  wf_cty B -> value_of A a ->
  checked_outcome (Root.try_cast ENV A (c_bits B) a) (c_valid B) (Checked.try_cast ENV A B a).
Proof.
  intros (HB & HBb & Hsz & Hal) Ha.
  unfold checked_outcome, Checked.try_cast. rewrite root_try_cast.
  rewrite (try_cast_char ENV A (c_bits B) a Ha).
  destruct (sz A =? sz (c_bits B)) eqn:E; cbn [bind]; [|reflexivity].
  destruct (c_valid B a); [|reflexivity].
  apply N.eqb_eq in E. rewrite transmute_copy_same; [reflexivity|]. unfold value_of in *. cbn. lia.
Qed.

Theorem checked_try_pod_read_unaligned_char ENV (T : cty) s :
  wf_cty T -> avail (sptr s) = slen s ->
  checked_outcome (Root.try_pod_read_unaligned ENV (c_bits T) s) (c_valid T)
                  (Checked.try_pod_read_unaligned ENV T s).
Proof.
  intros (HT & HTb & Hsz & Hal) Hav.
  unfold checked_outcome, Checked.try_pod_read_unaligned. rewrite root_try_pod_read_unaligned.
  rewrite (try_pod_read_unaligned_char ENV (c_bits T) s Hav).
  destruct (slen s =? sz (c_bits T)) eqn:E; cbn [bind]; [|reflexivity].
  destruct (c_valid T _); [|reflexivity].
  rewrite transmute_copy_same; [reflexivity|].
  pose proof (read_bytes_value ENV (c_bits T) (addr (sptr s))) as Hv. unfold value_of in *. cbn. lia.
Qed.

(* the panicking checked forms are the twins of their try_ forms *)
Ltac ctwin_simple f t :=
  unfold ctwin, f, something_went_wrong; destruct t as [[?|?]|?|?]; reflexivity.

Theorem checked_cast_slice_twin ENV A B s :
  ctwin "cast_slice" (Checked.try_cast_slice ENV A B s) (Checked.cast_slice ENV A B s).
Proof. ctwin_simple Checked.cast_slice (Checked.try_cast_slice ENV A B s). Qed.
Theorem checked_cast_slice_mut_twin ENV A B s :
  ctwin "cast_slice_mut" (Checked.try_cast_slice_mut ENV A B s) (Checked.cast_slice_mut ENV A B s).
Proof. ctwin_simple Checked.cast_slice_mut (Checked.try_cast_slice_mut ENV A B s). Qed.
Theorem checked_cast_ref_twin ENV A B p :
  ctwin "cast_ref" (Checked.try_cast_ref ENV A B p) (Checked.cast_ref ENV A B p).
Proof. ctwin_simple Checked.cast_ref (Checked.try_cast_ref ENV A B p). Qed.
Theorem checked_cast_mut_twin ENV A B p :
  ctwin "cast_mut" (Checked.try_cast_mut ENV A B p) (Checked.cast_mut ENV A B p).
Proof. ctwin_simple Checked.cast_mut (Checked.try_cast_mut ENV A B p). Qed.
Theorem checked_from_bytes_twin ENV T s :
  ctwin "from_bytes" (Checked.try_from_bytes ENV T s) (Checked.from_bytes ENV T s).
Proof. ctwin_simple Checked.from_bytes (Checked.try_from_bytes ENV T s). Qed.
Theorem checked_from_bytes_mut_twin ENV T s :
  ctwin "from_bytes_mut" (Checked.try_from_bytes_mut ENV T s) (Checked.from_bytes_mut ENV T s).
Proof. ctwin_simple Checked.from_bytes_mut (Checked.try_from_bytes_mut ENV T s). Qed.
Theorem checked_cast_twin ENV A B a :
  ctwin "cast" (Checked.try_cast ENV A B a) (Checked.cast ENV A B a).
Proof. ctwin_simple Checked.cast (Checked.try_cast ENV A B a). Qed.
Theorem checked_pod_read_unaligned_twin ENV T s :
  ctwin "pod_read_unaligned" (Checked.try_pod_read_unaligned ENV T s) (Checked.pod_read_unaligned ENV T s).
Proof. ctwin_simple Checked.pod_read_unaligned (Checked.try_pod_read_unaligned ENV T s). Qed.
