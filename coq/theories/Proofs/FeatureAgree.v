(* Proofs/FeatureAgree.v — the translated casting functions do not depend on the feature flags
   (C20): the only feature-dependent code they reach is the alignment test, whose two
   implementations agree for every address and every power-of-two alignment; `track_caller` is an
   attribute and does not occur in any translated body.  Also: the impl tables only grow with the
   feature set. *)
From Coq Require Import NArith ZArith List Bool String Lia.
From BM Require Import Base.Outcome Base.Prims Base.Layout Base.Tactics Base.TyExpr Spec.CastSpec.
From BM Require Import Proofs.CastBase Model.TraitSolver Proofs.ImplSound.
From BM.Gen Require Internal Root Checked Tables.
Import ListNotations.
Open Scope bool_scope.
Open Scope N_scope.

(* two environments that differ at most in their feature flags *)
Definition same_memory (E1 E2 : env) : Prop := forall a, mem E1 a = mem E2 a.

Theorem is_aligned_to_agree E1 E2 p a : pow2 a -> Internal.is_aligned_to E1 p a = Internal.is_aligned_to E2 p a.
Proof. intros H. rewrite !(is_aligned_to_spec _ p a H). reflexivity. Qed.

Ltac agree f :=
  intros; unfold f; unfold_vocab;
  repeat match goal with
  | Hp : pow2 ?a |- context [Internal.is_aligned_to ?E ?p ?a] => rewrite (is_aligned_to_spec E p a Hp)
  end; reflexivity.

Theorem try_cast_slice_agree E1 E2 A B s : pow2 (al B) ->
  Internal.try_cast_slice E1 A B s = Internal.try_cast_slice E2 A B s.
Proof. agree Internal.try_cast_slice. Qed.
Theorem try_cast_slice_mut_agree E1 E2 A B s : pow2 (al B) ->
  Internal.try_cast_slice_mut E1 A B s = Internal.try_cast_slice_mut E2 A B s.
Proof. agree Internal.try_cast_slice_mut. Qed.
Theorem try_cast_ref_agree E1 E2 A B p : pow2 (al B) ->
  Internal.try_cast_ref E1 A B p = Internal.try_cast_ref E2 A B p.
Proof. agree Internal.try_cast_ref. Qed.
Theorem try_cast_mut_agree E1 E2 A B p : pow2 (al B) ->
  Internal.try_cast_mut E1 A B p = Internal.try_cast_mut E2 A B p.
Proof. agree Internal.try_cast_mut. Qed.
Theorem try_from_bytes_agree E1 E2 T s : pow2 (al T) ->
  Internal.try_from_bytes E1 T s = Internal.try_from_bytes E2 T s.
Proof. agree Internal.try_from_bytes. Qed.
Theorem try_from_bytes_mut_agree E1 E2 T s : pow2 (al T) ->
  Internal.try_from_bytes_mut E1 T s = Internal.try_from_bytes_mut E2 T s.
Proof. agree Internal.try_from_bytes_mut. Qed.
Theorem try_cast_agree E1 E2 A B a : Internal.try_cast E1 A B a = Internal.try_cast E2 A B a.
Proof. reflexivity. Qed.
Theorem cast_agree E1 E2 A B a : Internal.cast E1 A B a = Internal.cast E2 A B a.
Proof. reflexivity. Qed.

(* the panicking forms are functions of their try_ forms (and of feature-independent tests) *)
Theorem cast_slice_agree E1 E2 A B s : pow2 (al B) -> Internal.cast_slice E1 A B s = Internal.cast_slice E2 A B s.
Proof. intros H. unfold Internal.cast_slice. rewrite (try_cast_slice_agree E1 E2 A B s H). reflexivity. Qed.
Theorem cast_ref_agree E1 E2 A B p : pow2 (al B) -> Internal.cast_ref E1 A B p = Internal.cast_ref E2 A B p.
Proof. intros H. unfold Internal.cast_ref. rewrite (try_cast_ref_agree E1 E2 A B p H). reflexivity. Qed.
Theorem cast_mut_agree E1 E2 A B p : pow2 (al B) -> Internal.cast_mut E1 A B p = Internal.cast_mut E2 A B p.
Proof. intros H. unfold Internal.cast_mut. rewrite (try_cast_mut_agree E1 E2 A B p H). reflexivity. Qed.
Theorem from_bytes_agree E1 E2 T s : pow2 (al T) -> Internal.from_bytes E1 T s = Internal.from_bytes E2 T s.
Proof. intros H. unfold Internal.from_bytes. rewrite (try_from_bytes_agree E1 E2 T s H). reflexivity. Qed.
Theorem bytes_of_agree E1 E2 T t : Internal.bytes_of E1 T t = Internal.bytes_of E2 T t.
Proof.
  unfold Internal.bytes_of. rewrite (try_cast_slice_agree E1 E2 T u8_ty (slice_from_ref t)); [reflexivity|exact pow2_1].
Qed.

(* unaligned reads depend on the memory, not on the flags *)
Theorem try_pod_read_unaligned_agree E1 E2 T s : same_memory E1 E2 ->
  Internal.try_pod_read_unaligned E1 T s = Internal.try_pod_read_unaligned E2 T s.
Proof.
  intros Hm. unfold Internal.try_pod_read_unaligned, read_unaligned, read_bytes.
  assert (E : forall n p, read_from (mem E1) p n = read_from (mem E2) p n).
  { induction n as [|n IH]; intros p; cbn; [reflexivity | rewrite Hm, IH; reflexivity]. }
  rewrite E. reflexivity.
Qed.

(* ---- the impl table under a larger feature set subsumes the table under a smaller one ---- *)
(* a row is subsumed by a row of the same trait and bounds whose Self pattern is equal up to
   generalising a literal array length to a const-generic one *)
Fixpoint pat_gen (g p : tyx) {struct g} : bool :=
  match g, p with
  | TArr e None, TArr f _ => pat_gen e f
  | TArr e (Some n), TArr f (Some k) => N.eqb n k && pat_gen e f
  | TApp c l, TApp d m =>
      String.eqb c d &&
      (fix go (l m : list tyx) : bool :=
         match l, m with [], [] => true | x :: l', y :: m' => pat_gen x y && go l' m' | _, _ => false end) l m
  | TTup l, TTup m =>
      (fix go (l m : list tyx) : bool :=
         match l, m with [], [] => true | x :: l', y :: m' => pat_gen x y && go l' m' | _, _ => false end) l m
  | TPtr x a, TPtr y b | TRef x a, TRef y b => Bool.eqb x y && pat_gen a b
  | TSlice a, TSlice b => pat_gen a b
  | _, _ => tyx_eqb g p
  end.

Definition subsumes (big small : rule) : bool :=
  String.eqb (r_trait big) (r_trait small) && bounds_eqb (r_bounds big) (r_bounds small) &&
  negb (r_other_where big) && pat_gen (r_self big) (r_self small) &&
  forallb (fun i => existsb (Nat.eqb i) (r_unsized big)) (r_unsized small).

Definition table_grows (small large : list rule) : bool :=
  forallb (fun r => existsb (fun q => subsumes q r) large) (marker_rules small).

Theorem tables_grow_none_alloc : table_grows Tables.rules_none Tables.rules_alloc = true.
Proof. vm_compute. reflexivity. Qed.
Theorem tables_grow_alloc_aat : table_grows Tables.rules_alloc Tables.rules_aat = true.
Proof. vm_compute. reflexivity. Qed.
Theorem tables_grow_aat_all : table_grows Tables.rules_aat Tables.rules_all = true.
Proof. vm_compute. reflexivity. Qed.
Theorem tables_grow_none_all : table_grows Tables.rules_none Tables.rules_all = true.
Proof. vm_compute. reflexivity. Qed.
