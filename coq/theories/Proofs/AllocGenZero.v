(* Proofs/AllocGenZero.v — the zero-initialising allocators of src/allocation.rs as the translator regenerates
   them (Gen/Alloc.v) return the modelled decision (Model/Alloc.v, zres) for whatever the allocator answers. *)
From Coq Require Import NArith List Bool String Lia.
From Coq Require Import ZifyBool ZifyN.
From BM Require Import Base.Outcome Base.Prims Base.Own Base.Layout Base.Tactics Model.Alloc.
From BM Require Proofs.AllocProofs.
From BM.Gen Require Alloc.
Open Scope bool_scope.
Open Scope N_scope.

(* "the translated function returns the model's result": unfold the monadic vocabulary, split on every
   conditional of both sides, turn the tests into arithmetic; what is left is closed by reflexivity, by
   contradiction between the tests, or by arithmetic on the components.  Written against no particular
   order or spelling of the tests, so that reordered / De-Morganed / renamed code re-proves. *)
Ltac refine_eq :=
  unfold_vocab; unfold cont_resize, cont_set, cont_of_addr in *;
  repeat (red_bind; cbn [cptr clen ccap l_size l_align bb_ptr bb_layout] in *; split_if);
  red_bind; cbn [cptr clen ccap l_size l_align bb_ptr bb_layout] in *; b2p; big_consts;
  try reflexivity; try (exfalso; lia); try (exfalso; congruence);
  try (repeat f_equal; try reflexivity; lia).

(* ---- the zero-initialising allocators: the translated functions are the modelled decision
   (Model/Alloc.v's zres) for the allocator answer the environment gives ---- *)
Definition alloc_ok (E : env) (l : layout) : bool := negb (alloc_zeroed_m E l =? 0).
(* what the caller holds for a modelled result *)
Definition zres_value (E : env) (r : zres) : result cont unit :=
  match r with
  | ZOkNoAlloc len cap => Ok (mkCont DANGLING len cap)
  | ZOkAlloc l len cap => Ok (mkCont (alloc_zeroed_m E l) len cap)
  | ZErrLayout => Err tt
  | ZErrNull _ => Err tt
  end.
(* the allocator answer that matters for a slice request *)
Definition slice_alloc_ok (E : env) (T : ty) (n : N) : bool :=
  match layout_array T n with Some l => alloc_ok E l | None => true end.

Lemma layout_array_m_spec T n :
  layout_array_m T n = match layout_array T n with Some l => Ok l | None => Err tt end.
Proof. unfold layout_array_m, layout_array. destruct (n * sz T <=? ISIZE_MAX - (al T - 1)); reflexivity. Qed.

Lemma gen_try_zeroed_box E T :
  Gen.Alloc.try_zeroed_box E T = Ret (zres_value E (try_zeroed_box T (alloc_ok E (mkLayout (sz T) (al T))))).
Proof.
  unfold Gen.Alloc.try_zeroed_box, try_zeroed_box, alloc_ok.
  repeat (red_bind; split_if); red_bind; b2p; try reflexivity; try (exfalso; congruence); try (exfalso; lia).
Qed.

Lemma gen_try_zeroed_slice_box E T n :
  Gen.Alloc.try_zeroed_slice_box E T n = Ret (zres_value E (try_zeroed_slice_box T n (slice_alloc_ok E T n))).
Proof.
  unfold Gen.Alloc.try_zeroed_slice_box, try_zeroed_slice_box, slice_alloc_ok, alloc_ok.
  rewrite layout_array_m_spec. destruct (layout_array T n) as [l|];
  repeat (red_bind; split_if); red_bind; b2p; try reflexivity; try (exfalso; congruence); try (exfalso; lia).
Qed.

Lemma gen_try_zeroed_vec E T n :
  Gen.Alloc.try_zeroed_vec E T n = Ret (zres_value E (try_zeroed_vec T n (slice_alloc_ok E T n))).
Proof.
  unfold Gen.Alloc.try_zeroed_vec, try_zeroed_vec. destruct (n =? 0) eqn:Hn; [reflexivity|].
  rewrite gen_try_zeroed_slice_box. cbn [bind].
  destruct (try_zeroed_slice_box T n (slice_alloc_ok E T n)) as [len cap|l len cap| |l] eqn:Hr; try reflexivity.
  (* allocated: elements of non-zero size, capacity = length *)
  unfold try_zeroed_slice_box in Hr. rewrite Hn, orb_false_r in Hr.
  destruct (sz T =? 0) eqn:HT; [discriminate|]. cbn in Hr.
  destruct (layout_array T n); [destruct (slice_alloc_ok E T n)|]; inversion Hr; subst.
  cbn [zres_value]. unfold box_into_vec. cbn [cptr clen]. rewrite HT. reflexivity.
Qed.

(* the panicking forms: unwrap *)
Definition unwrap_unit (r : result cont unit) : outcome cont :=
  match r with Ok c => Ret c | Err _ => Panic (W_unwrap EUnit) end.
Lemma gen_zeroed_box E T : Gen.Alloc.zeroed_box E T = (r <- Gen.Alloc.try_zeroed_box E T ;; unwrap_unit r).
Proof. reflexivity. Qed.
Lemma gen_zeroed_slice_box E T n : Gen.Alloc.zeroed_slice_box E T n = (r <- Gen.Alloc.try_zeroed_slice_box E T n ;; unwrap_unit r).
Proof. reflexivity. Qed.
Lemma gen_zeroed_vec E T n : Gen.Alloc.zeroed_vec E T n = (r <- Gen.Alloc.try_zeroed_vec E T n ;; unwrap_unit r).
Proof. reflexivity. Qed.

(* never a panic, never UB, whatever the allocator answers and however large the request *)
Theorem gen_try_zeroed_total E T n :
  (exists r, Gen.Alloc.try_zeroed_box E T = Ret r) /\
  (exists r, Gen.Alloc.try_zeroed_slice_box E T n = Ret r) /\
  (exists r, Gen.Alloc.try_zeroed_vec E T n = Ret r).
Proof.
  rewrite gen_try_zeroed_box, gen_try_zeroed_slice_box, gen_try_zeroed_vec. repeat split; eexists; reflexivity.
Qed.

Theorem gen_zeroed_all E T n :
  Gen.Alloc.try_zeroed_box E T = Ret (zres_value E (try_zeroed_box T (alloc_ok E (mkLayout (sz T) (al T))))) /\
  Gen.Alloc.try_zeroed_slice_box E T n = Ret (zres_value E (try_zeroed_slice_box T n (slice_alloc_ok E T n))) /\
  Gen.Alloc.try_zeroed_vec E T n = Ret (zres_value E (try_zeroed_vec T n (slice_alloc_ok E T n))).
Proof. exact (conj (gen_try_zeroed_box E T) (conj (gen_try_zeroed_slice_box E T n) (gen_try_zeroed_vec E T n))). Qed.
Theorem gen_zeroed_unwrap_all E T n :
  Gen.Alloc.zeroed_box E T = (r <- Gen.Alloc.try_zeroed_box E T ;; unwrap_unit r) /\
  Gen.Alloc.zeroed_slice_box E T n = (r <- Gen.Alloc.try_zeroed_slice_box E T n ;; unwrap_unit r) /\
  Gen.Alloc.zeroed_vec E T n = (r <- Gen.Alloc.try_zeroed_vec E T n ;; unwrap_unit r).
Proof. exact (conj (gen_zeroed_box E T) (conj (gen_zeroed_slice_box E T n) (gen_zeroed_vec E T n))). Qed.

(* Deref / DerefMut expose exactly the recorded number of bytes at the block's own address; the raw
   parts are the pointer and the layout, and putting them back together gives the same BoxBytes *)
