(* Proofs/RootTwins.v — the panicking / fallible pairs of the PUBLIC functions (src/lib.rs), from the pairs
   of their internal:: namesakes: a root wrapper is its internal function (Proofs/RootWrappers.v), however
   it spells the call. *)
From Coq Require Import NArith List Bool String.
From BM Require Import Base.Outcome Base.Prims Base.Layout Spec.CastSpec.
From BM Require Import Proofs.RootWrappers Proofs.CastValue Proofs.CastPanicking.
From BM.Gen Require Internal Root.
Open Scope string_scope.

Theorem root_cast_slice_twin ENV A B s : twin "cast_slice" (Root.try_cast_slice ENV A B s) (Root.cast_slice ENV A B s).
Proof. rewrite root_try_cast_slice, root_cast_slice. apply cast_slice_twin. Qed.
Theorem root_cast_slice_mut_twin ENV A B s : twin "cast_slice_mut" (Root.try_cast_slice_mut ENV A B s) (Root.cast_slice_mut ENV A B s).
Proof. rewrite root_try_cast_slice_mut, root_cast_slice_mut. apply cast_slice_mut_twin. Qed.
Theorem root_cast_ref_twin ENV A B p : wf_ty A -> wf_ty B -> valid_ref A p ->
  twin "cast_ref" (Root.try_cast_ref ENV A B p) (Root.cast_ref ENV A B p).
Proof. rewrite root_try_cast_ref, root_cast_ref. apply cast_ref_twin. Qed.
Theorem root_cast_mut_twin ENV A B p : wf_ty A -> wf_ty B -> valid_ref A p ->
  twin "cast_mut" (Root.try_cast_mut ENV A B p) (Root.cast_mut ENV A B p).
Proof. rewrite root_try_cast_mut, root_cast_mut. apply cast_mut_twin. Qed.
Theorem root_from_bytes_twin ENV T s : twin "from_bytes" (Root.try_from_bytes ENV T s) (Root.from_bytes ENV T s).
Proof. rewrite root_try_from_bytes, root_from_bytes. apply from_bytes_twin. Qed.
Theorem root_from_bytes_mut_twin ENV T s : twin "from_bytes_mut" (Root.try_from_bytes_mut ENV T s) (Root.from_bytes_mut ENV T s).
Proof. rewrite root_try_from_bytes_mut, root_from_bytes_mut. apply from_bytes_mut_twin. Qed.
Theorem root_pod_read_unaligned_twin ENV T s :
  twin "pod_read_unaligned" (Root.try_pod_read_unaligned ENV T s) (Root.pod_read_unaligned ENV T s).
Proof. rewrite root_try_pod_read_unaligned, root_pod_read_unaligned. apply pod_read_unaligned_twin. Qed.
Theorem root_cast_twin ENV A B a : twin "cast" (Root.try_cast ENV A B a) (Root.cast ENV A B a).
Proof. rewrite root_try_cast, root_cast. apply cast_twin. Qed.
