(* Proofs/ZeroGen.v — write_zeroes and fill_zeroes of src/lib.rs, as the translator regenerates their bodies
   (Gen/Zero.v: statements of Model/DropLang.v, whose meaning — scopes, drop guards, unwinding — is defined
   there), compute what the hand model Model/ZeroGuard.v says, for every destructor oracle and every list of
   values.  The theorems of Model/ZeroGuard.v (C12) are thereby about the translated code. *)
From Coq Require Import NArith List Bool String Arith Lia.
From BM Require Import Model.DropLang Model.ZeroGuard.
From BM.Gen Require Zero.
Import ListNotations.
Open Scope string_scope.
Open Scope list_scope.

Definition cell_of (s : slot) : cell := match s with Old id => COld id | Zeroed => CZero end.
Definition status_of (panicked : bool) : zstatus := if panicked then Unwinding else Running.

(* ---- for_each over the cells of a slice, for any callee that behaves like [W] on one cell ---- *)
Section ForEach.
  Variable call : string -> zval -> zmem -> zmem.
  Variable f : string.
  Variable W : slot -> slot * list nat * bool.
  Hypothesis callee : forall s d,
    call f (VPtr 0) (mkZmem [cell_of s] d Running) =
    let '(s', dd, p) := W s in mkZmem [cell_of s'] (d ++ dd) (status_of p).

  Fixpoint each (l : list slot) : zrun :=
    match l with
    | [] => mkZrun [] [] false
    | s :: r =>
        let '(s', d, p) := W s in
        if p then mkZrun (s' :: r) d true
        else let rr := each r in mkZrun (s' :: z_slots rr) (d ++ z_dropped rr) (z_panicked rr)
    end.

  Lemma skipn_app_exact {X} (a b : list X) : skipn (List.length a) (a ++ b) = b.
  Proof. induction a as [|x a IH]; [reflexivity | exact IH]. Qed.
  Lemma firstn_app_exact {X} (a b : list X) : firstn (List.length a) (a ++ b) = a.
  Proof. induction a as [|x a IH]; [reflexivity | cbn; rewrite IH; reflexivity]. Qed.

  Lemma fold_left_map' {X Y Z} (g : X -> Y -> X) (h : Z -> Y) l a :
    fold_left g (map h l) a = fold_left (fun a0 x => g a0 (h x)) l a.
  Proof. revert a. induction l as [|x l IH]; intros a; [reflexivity | apply IH]. Qed.
  Lemma fold_left_ext' {X Y} (g g' : X -> Y -> X) l a :
    (forall a0 x, g a0 x = g' a0 x) -> fold_left g l a = fold_left g' l a.
  Proof. intros H. revert a. induction l as [|x l IH]; intros a; [reflexivity | cbn; rewrite H; apply IH]. Qed.

  Lemma fold_stopped (g : zmem -> nat -> zmem) (l : list nat) m :
    (forall m0 i, running m0 = false -> g m0 i = m0) -> running m = false -> fold_left g l m = m.
  Proof.
    intros Hg. revert m. induction l as [|i l IH]; intros m Hm; [reflexivity|].
    cbn [fold_left]. rewrite (Hg m i Hm). apply IH. exact Hm.
  Qed.

  Definition step (off : nat) (m0 : zmem) (i : nat) : zmem :=
    if running m0 then call_view call f (off + i) 1 (VPtr 0) m0 else m0.

  Lemma step_head pre s r d :
    step (List.length pre) (mkZmem (pre ++ cell_of s :: map cell_of r) d Running) 0 =
    let '(s', dd, p) := W s in mkZmem (pre ++ cell_of s' :: map cell_of r) (d ++ dd) (status_of p).
  Proof.
    unfold step, call_view. cbn [running status cells dropped]. rewrite Nat.add_0_r.
    assert (Hle : Nat.leb (List.length pre + 1) (List.length (pre ++ cell_of s :: map cell_of r)) = true).
    { apply Nat.leb_le. rewrite app_length. cbn [List.length]. lia. }
    rewrite Hle, skipn_app_exact. cbn [firstn].
    rewrite callee. destruct (W s) as [[s' dd] p].
    cbn [cells dropped status List.length Nat.eqb].
    rewrite firstn_app_exact.
    replace (List.length pre + 1) with (List.length (pre ++ [cell_of s])) by (rewrite app_length; reflexivity).
    replace (pre ++ cell_of s :: map cell_of r) with ((pre ++ [cell_of s]) ++ map cell_of r) by (rewrite <- app_assoc; reflexivity).
    rewrite skipn_app_exact. reflexivity.
  Qed.

  Lemma for_each_from pre l d :
    fold_left (step (List.length pre)) (seq 0 (List.length l)) (mkZmem (pre ++ map cell_of l) d Running) =
    let r := each l in
    mkZmem (pre ++ map cell_of (z_slots r)) (d ++ z_dropped r) (status_of (z_panicked r)).
  Proof.
    revert pre d. induction l as [|s r IH]; intros pre d.
    - cbn. rewrite !app_nil_r. reflexivity.
    - cbn [List.length seq fold_left map each].
      rewrite step_head. destruct (W s) as [[s' dd] p].
      destruct p.
      + (* the destructor panicked: nothing further runs *)
        rewrite fold_stopped; [| intros m0 i Hm; unfold step; rewrite Hm; reflexivity | reflexivity].
        cbn [z_slots z_dropped z_panicked map status_of app]. reflexivity.
      + cbn [status_of]. rewrite <- seq_shift, fold_left_map'.
        replace (pre ++ cell_of s' :: map cell_of r) with ((pre ++ [cell_of s']) ++ map cell_of r) by (rewrite <- app_assoc; reflexivity).
        rewrite (fold_left_ext' _ (step (List.length (pre ++ [cell_of s'])))).
        * rewrite (IH (pre ++ [cell_of s']) (d ++ dd)). cbn zeta.
          cbn [z_slots z_dropped z_panicked map]. rewrite <- !app_assoc. reflexivity.
        * intros m0 i. unfold step. rewrite app_length. cbn [List.length]. rewrite <- Nat.add_assoc. reflexivity.
  Qed.

  Theorem for_each_cell_spec l :
    for_each_cell call f 0 (List.length l) (mkZmem (map cell_of l) [] Running) =
    let r := each l in mkZmem (map cell_of (z_slots r)) (z_dropped r) (status_of (z_panicked r)).
  Proof. unfold for_each_cell. exact (for_each_from [] l []). Qed.
End ForEach.

Lemma each_write_zeroes panics l : each (write_zeroes panics) l = fill_zeroes_drop panics l.
Proof.
  induction l as [|s r IH]; [reflexivity|].
  cbn [each fill_zeroes_drop]. destruct (write_zeroes panics s) as [[s' d] p]. destruct p; [reflexivity|].
  rewrite IH. reflexivity.
Qed.

(* ---- the translated functions ---- *)

(* write_zeroes on one value of a type that needs drop: the old value's destructor runs once, the value is
   left all-zero whether or not that destructor panicked, the call unwinds iff it did.
   Proof: the statements are concrete; evaluation leaves only the destructor oracle's answer open. *)
Theorem gen_write_zeroes panics zsz s d :
  Gen.Zero.write_zeroes panics true zsz (VPtr 0) (mkZmem [cell_of s] d Running) =
  let '(s', dd, p) := write_zeroes panics s in mkZmem [cell_of s'] (d ++ dd) (status_of p).
Proof.
  destruct s as [id|]; destruct zsz; vm_compute.
  1, 2: destruct (panics id); reflexivity.
  (* an all-zero value: d ++ [] *)
  all: f_equal; induction d as [|x d IH]; [reflexivity | f_equal; exact IH].
Qed.

(* a type that does not need drop: no destructor, the value is zeroed *)
Theorem gen_write_zeroes_nodrop panics zsz c d :
  Gen.Zero.write_zeroes panics false zsz (VPtr 0) (mkZmem [c] d Running) = mkZmem [CZero] d Running.
Proof. destruct zsz; vm_compute; reflexivity. Qed.

Definition mem_of_run (r : zrun) : zmem := mkZmem (map cell_of (z_slots r)) (z_dropped r) (status_of (z_panicked r)).

Ltac run_stmts :=
  match goal with |- ?L = ?R =>
    let L' := eval cbv -[for_each_cell write_cells Gen.Zero.write_zeroes map List.length cell_of] in L in
    change (L' = R)
  end.

Theorem gen_fill_zeroes_drop panics zsz l :
  Gen.Zero.fill_zeroes panics true zsz (VSlice 0 (List.length l)) (mkZmem (map cell_of l) [] Running) =
  mem_of_run (fill_zeroes_drop panics l).
Proof.
  run_stmts.
  rewrite (for_each_cell_spec _ "write_zeroes" (write_zeroes panics)).
  - rewrite each_write_zeroes. unfold mem_of_run.
    destruct (fill_zeroes_drop panics l) as [sl dr pk]. destruct pk; reflexivity.
  - intros s d. apply gen_write_zeroes.
Qed.

Lemma write_cells_all l d :
  write_cells 0 (List.length l) 0%N (mkZmem (map cell_of l) d Running) =
  mkZmem (map (fun _ => CZero) l) d Running.
Proof.
  unfold write_cells. cbn [cells dropped status Nat.add]. rewrite map_length, Nat.leb_refl.
  unfold set_range. cbn [firstn Nat.add app N.eqb].
  rewrite <- (map_length cell_of l) at 2. rewrite skipn_all, app_nil_r.
  f_equal. induction l as [|s r IH]; [reflexivity|]. cbn. f_equal. exact IH.
Qed.

Theorem gen_fill_zeroes_nodrop panics zsz l :
  Gen.Zero.fill_zeroes panics false zsz (VSlice 0 (List.length l)) (mkZmem (map cell_of l) [] Running) =
  mem_of_run (fill_zeroes_nodrop l).
Proof.
  run_stmts.
  rewrite write_cells_all. unfold mem_of_run, fill_zeroes_nodrop. cbn [z_slots z_dropped z_panicked status_of status].
  rewrite map_map. reflexivity.
Qed.

(* end to end, on live values: with j the position of the first destructor that panics (if any), the
   translated fill_zeroes leaves cells 0..j all-zero (the one whose destructor panicked included), the cells
   after j untouched, has run the destructors of 0..j once each in order, and unwinds iff there is such a j *)
Theorem gen_fill_zeroes_spec panics zsz ids :
  let m := Gen.Zero.fill_zeroes panics true zsz (VSlice 0 (List.length ids)) (mkZmem (map COld ids) [] Running) in
  match first_panic panics ids with
  | Some j => cells m = repeat CZero (S j) ++ map COld (skipn (S j) ids) /\
              dropped m = firstn (S j) ids /\ status m = Unwinding
  | None => cells m = repeat CZero (List.length ids) /\ dropped m = ids /\ status m = Running
  end.
Proof.
  cbn zeta.
  pose proof (gen_fill_zeroes_drop panics zsz (map Old ids)) as G.
  rewrite map_map, map_length in G. cbn [cell_of] in G.
  change (map (fun x : nat => COld x) ids) with (map COld ids) in G.
  rewrite G. unfold mem_of_run. cbn [cells dropped status].
  pose proof (fill_zeroes_drop_spec panics ids) as H. cbn zeta in H.
  assert (Hz : forall n, map cell_of (repeat Zeroed n) = repeat CZero n)
    by (induction n as [|n IH]; [reflexivity | cbn; rewrite IH; reflexivity]).
  destruct (first_panic panics ids) as [j|]; destruct H as (Hs & Hd & Hq); rewrite Hs, Hd, Hq.
  - rewrite map_app, Hz, map_map. repeat split.
  - rewrite Hz. repeat split.
Qed.
