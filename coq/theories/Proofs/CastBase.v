(* Proofs/CastBase.v — shared by the cast proofs: the alignment test and the goal-closing tactic *)
From Coq Require Import NArith ZArith List Bool String Lia ZifyBool ZifyN.
From BM Require Import Base.Outcome Base.Prims Base.Layout Base.Tactics Spec.CastSpec.
From BM.Gen Require Internal.
Open Scope bool_scope.
Open Scope N_scope.

(* both implementations of the alignment test compute  addr mod align = 0  (also the core of
   C20: behaviour is identical with feature align_offset on or off) *)
Lemma is_aligned_to_spec ENV p a :
  pow2 a -> Internal.is_aligned_to ENV p a = Ret (addr p mod a =? 0).
Proof.
  intros Hp. pose proof (pow2_neq0 _ Hp) as Hnz. pose proof (is_pow2_true _ Hp) as Hi.
  unfold Internal.is_aligned_to, align_offset_zst. unfold_vocab. rewrite Hi.
  split_all; finish.
Qed.

Ltac open_cast f :=
  unfold f; unfold_vocab;
  repeat match goal with
  | Hp : pow2 ?a |- context [Internal.is_aligned_to ?E ?p ?a] =>
      rewrite (is_aligned_to_spec E p a Hp)
  end.

Ltac spec_unfold :=
  unfold slice_outcome_ok, ref_outcome_ok, bytes_outcome_ok in *;
  unfold slice_cast_ok, slice_err_true, slice_view_ok, ref_cast_ok, ref_err_true,
    bytes_cast_ok, bytes_err_true, ref_view_ok, convertible in *.

Ltac fin :=
  spec_unfold; cbn [sptr slen addr avail]; tidy;
  lazymatch goal with
  | |- False => fin1
  | |- _ => repeat match goal with |- _ /\ _ => split end;
            try match goal with |- ~ _ => let Hneg := fresh "Hneg" in intros Hneg; try destruct Hneg end;
            repeat split_if; fin1
  end.

Ltac intro_slice :=
  let HA := fresh "HA" in let HB := fresh "HB" in
  intros HA HB (Hnn & Hal & Hav & Hsz & Hend & Hlen); pow2_facts.
Ltac intro_ref :=
  let HA := fresh "HA" in let HB := fresh "HB" in
  intros HA HB (Hnn & Hal & Hav & Hend); pow2_facts.
