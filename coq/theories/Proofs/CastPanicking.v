(* Proofs/CastPanicking.v — the panicking borrowed casts and bytes_of are the twins of their
   try_ forms (C11), for the translated src/internal.rs. *)
From Coq Require Import NArith ZArith List Bool String Lia ZifyBool ZifyN.
From BM Require Import Base.Outcome Base.Prims Base.Layout Base.Tactics Spec.CastSpec.
From BM Require Import Proofs.CastBase Proofs.CastSlice Proofs.CastSliceMut Proofs.CastRef.
From BM.Gen Require Internal.
Open Scope bool_scope.
Open Scope string_scope.
Open Scope N_scope.

Ltac twin_simple f t :=
  unfold twin, f, something_went_wrong; destruct t as [[?|?]|?|?]; reflexivity.

Theorem cast_slice_twin ENV A B s :
  twin "cast_slice" (Internal.try_cast_slice ENV A B s) (Internal.cast_slice ENV A B s).
Proof. twin_simple Internal.cast_slice (Internal.try_cast_slice ENV A B s). Qed.

Theorem cast_slice_mut_twin ENV A B s :
  twin "cast_slice_mut" (Internal.try_cast_slice_mut ENV A B s) (Internal.cast_slice_mut ENV A B s).
Proof. twin_simple Internal.cast_slice_mut (Internal.try_cast_slice_mut ENV A B s). Qed.

Theorem from_bytes_twin ENV T s :
  twin "from_bytes" (Internal.try_from_bytes ENV T s) (Internal.from_bytes ENV T s).
Proof. twin_simple Internal.from_bytes (Internal.try_from_bytes ENV T s). Qed.

Theorem from_bytes_mut_twin ENV T s :
  twin "from_bytes_mut" (Internal.try_from_bytes_mut ENV T s) (Internal.from_bytes_mut ENV T s).
Proof. twin_simple Internal.from_bytes_mut (Internal.try_from_bytes_mut ENV T s). Qed.

Theorem pod_read_unaligned_twin ENV T s :
  twin "pod_read_unaligned" (Internal.try_pod_read_unaligned ENV T s) (Internal.pod_read_unaligned ENV T s).
Proof. twin_simple Internal.pod_read_unaligned (Internal.try_pod_read_unaligned ENV T s). Qed.

(* cast_ref / cast_mut duplicate the decision in a fast path whose Err arm is unreachable!():
   it really is unreachable, because equal sizes and a target alignment that is not greater make
   the try_ form succeed on every valid reference. *)
Theorem cast_ref_twin ENV A B p :
  wf_ty A -> wf_ty B -> valid_ref A p ->
  twin "cast_ref" (Internal.try_cast_ref ENV A B p) (Internal.cast_ref ENV A B p).
Proof.
  intros HA HB Hp. pose proof (try_cast_ref_char ENV A B p HA HB Hp) as Hc.
  destruct Hp as (Hnn & Hal & Hav & Hend). pow2_facts.
  unfold twin, Internal.cast_ref, something_went_wrong.
  destruct (Internal.try_cast_ref ENV A B p) as [[v|e]|w|u]; cbn in Hc; try contradiction;
    split_all; try reflexivity.
  exfalso. destruct Hc as [Hn _]. apply Hn. unfold ref_cast_ok. b2p. weaken. split; [assumption | lia].
Qed.

Theorem cast_mut_twin ENV A B p :
  wf_ty A -> wf_ty B -> valid_ref A p ->
  twin "cast_mut" (Internal.try_cast_mut ENV A B p) (Internal.cast_mut ENV A B p).
Proof.
  intros HA HB Hp. pose proof (try_cast_mut_char ENV A B p HA HB Hp) as Hc.
  destruct Hp as (Hnn & Hal & Hav & Hend). pow2_facts.
  unfold twin, Internal.cast_mut, something_went_wrong.
  destruct (Internal.try_cast_mut ENV A B p) as [[v|e]|w|u]; cbn in Hc; try contradiction;
    split_all; try reflexivity.
  exfalso. destruct Hc as [Hn _]. apply Hn. unfold ref_cast_ok. b2p. weaken. split; [assumption | lia].
Qed.

(* bytes_of / bytes_of_mut never reach their unreachable!(): a reference to T is a valid
   one-element slice whose bytes always convert to u8 *)
Lemma valid_slice_from_ref T t : wf_ty T -> valid_ref T t -> valid_slice T (slice_from_ref t).
Proof.
  intros (Hp & Hm & Hs) (Hnn & Hal & Hav & Hend). unfold valid_slice, slice_from_ref. cbn [sptr slen].
  big_consts. repeat split; try assumption; lia.
Qed.

Lemma wf_u8 : wf_ty u8_ty.
Proof. unfold wf_ty, u8_ty; cbn. split; [exact pow2_1 | split; [reflexivity | big_consts; lia]]. Qed.

Definition bytes_view_ok (T : ty) (t : ptr) (v : slice) : Prop :=
  addr (sptr v) = addr t /\ slen v = sz T /\ avail (sptr v) = sz T.

Theorem bytes_of_char ENV T t :
  wf_ty T -> valid_ref T t -> exists v, Internal.bytes_of ENV T t = Ret v /\ bytes_view_ok T t v.
Proof.
  intros HT Ht.
  pose proof (try_cast_slice_char ENV T u8_ty (slice_from_ref t) HT wf_u8 (valid_slice_from_ref T t HT Ht)) as Hc.
  unfold Internal.bytes_of.
  destruct (Internal.try_cast_slice ENV T u8_ty (slice_from_ref t)) as [[v|e]|w|u]; cbn in Hc; try contradiction.
  - exists v. split; [reflexivity|]. destruct Hc as [_ (Ha & Hn & _ & Hav)].
    unfold bytes_view_ok, slice_from_ref in *. cbn [sptr slen sz al u8_ty] in *. repeat split; lia.
  - exfalso. destruct Hc as [Hn _]. apply Hn. unfold slice_cast_ok, slice_from_ref, convertible.
    cbn [sptr slen sz al u8_ty]. split; [apply N.mod_1_r | cbn; apply N.mod_1_r].
Qed.

Theorem bytes_of_mut_char ENV T t :
  wf_ty T -> valid_ref T t -> exists v, Internal.bytes_of_mut ENV T t = Ret v /\ bytes_view_ok T t v.
Proof.
  intros HT Ht.
  pose proof (try_cast_slice_mut_char ENV T u8_ty (slice_from_ref t) HT wf_u8 (valid_slice_from_ref T t HT Ht)) as Hc.
  unfold Internal.bytes_of_mut.
  destruct (Internal.try_cast_slice_mut ENV T u8_ty (slice_from_ref t)) as [[v|e]|w|u]; cbn in Hc; try contradiction.
  - exists v. split; [reflexivity|]. destruct Hc as [_ (Ha & Hn & _ & Hav)].
    unfold bytes_view_ok, slice_from_ref in *. cbn [sptr slen sz al u8_ty] in *. repeat split; lia.
  - exfalso. destruct Hc as [Hn _]. apply Hn. unfold slice_cast_ok, slice_from_ref, convertible.
    cbn [sptr slen sz al u8_ty]. split; [apply N.mod_1_r | cbn; apply N.mod_1_r].
Qed.
