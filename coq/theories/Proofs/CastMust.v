(* Proofs/CastMust.v — the must_ casts of the translated src/must.rs (C14, and the must_ clause of
   C01 / C03): the compile-time assertions hold exactly when the runtime cast cannot fail, and
   when they hold the must_ cast returns what the runtime cast returns. *)
From Coq Require Import NArith ZArith List Bool String Lia ZifyBool ZifyN.
From BM Require Import Base.Outcome Base.Prims Base.Layout Base.Tactics Spec.CastSpec Spec.MustSpec.
From BM Require Import Proofs.CastBase Proofs.CastDerive Proofs.CastSlice Proofs.CastSliceMut Proofs.CastRef Proofs.CastValue.
From BM.Gen Require Internal Must.
Open Scope bool_scope.
Open Scope string_scope.
Open Scope N_scope.

Lemma must_slice_okb_spec A B : must_slice_okb A B = true <-> slice_infallible A B.
Proof.
  unfold must_slice_okb, slice_infallible, assert_true, Must.ASSERT_SIZE_MULTIPLE_OF_OR_INPUT_ZST,
    Must.ASSERT_ALIGN_GREATER_THAN_EQUAL. unfold_vocab.
  split.
  - intros H. split_all. all: b2p. all: try discriminate.
    all: (split; [lia | first [left; lia | right; split; lia]]).
  - intros [Hal Hs]. split_all. all: b2p. all: try reflexivity. all: lia.
Qed.

Lemma must_ref_okb_spec A B : must_ref_okb A B = true <-> ref_infallible A B.
Proof.
  unfold must_ref_okb, ref_infallible, assert_true, Must.ASSERT_SIZE_EQUAL, Must.ASSERT_ALIGN_GREATER_THAN_EQUAL.
  split.
  - intros H. split_all. all: b2p. all: try discriminate. all: split; lia.
  - intros [Hal Hs]. split_all. all: b2p. all: try reflexivity. all: lia.
Qed.

Lemma must_val_okb_spec A B : must_val_okb A B = true <-> sz A = sz B.
Proof.
  unfold must_val_okb, assert_true, Must.ASSERT_SIZE_EQUAL. split_all. all: b2p. all: split; intros.
  all: try discriminate. all: try reflexivity. all: lia.
Qed.

(* ---- the infallibility predicates mean what they say: the runtime cast succeeds on every
   valid input.  (<=) needs inputs to exist, hence the bound on alignments that rustc enforces. ---- *)
Definition small_align (T : ty) : Prop := al T <= MAX_ALIGN.

Lemma slice_infallible_sound ENV A B s :
  wf_ty A -> wf_ty B -> valid_slice A s -> slice_infallible A B ->
  exists v, Internal.try_cast_slice ENV A B s = Ret (Ok v).
Proof.
  intros HA HB Hs [Hal Hsz].
  apply (slice_iff A B s _ (try_cast_slice_char ENV A B s HA HB Hs)).
  destruct Hs as (Hnn & Hal' & Hav & Hb & Hend & Hlen). pow2_facts.
  unfold slice_cast_ok, convertible. split.
  - weaken. assumption.
  - destruct (sz B =? 0) eqn:E; b2p; destruct Hsz as [Hz | [Hb0 Hm]].
    + rewrite Hz. apply N.mul_0_r.
    + contradiction.
    + rewrite Hz, N.mul_0_r. apply N.mod_0_l. assumption.
    + apply mul_mod_exact; assumption.
Qed.

Lemma slice_infallible_complete A B :
  wf_ty A -> wf_ty B -> small_align A ->
  (forall ENV s, valid_slice A s -> exists v, Internal.try_cast_slice ENV A B s = Ret (Ok v)) ->
  slice_infallible A B.
Proof.
  intros HA HB Hsm Hall.
  set (ENV := mkEnv (fun _ => false) (fun _ => 0) (fun _ _ => 0)).
  assert (Hone : valid_slice A (mkSlice (mkPtr (al A) (1 * sz A)) 1)).
  { destruct HA as (Hp & Hm & Hs). pose proof (pow2_neq0 _ Hp). unfold valid_slice, small_align, MAX_ALIGN in *.
    cbn [sptr slen addr avail]. big_consts. repeat split; try lia. apply N.mod_same; assumption. }
  pose proof (Hall ENV _ Hone) as Hex.
  apply (slice_iff A B _ _ (try_cast_slice_char ENV A B _ HA HB Hone)) in Hex.
  destruct Hex as [Hal Hconv]. cbn [sptr slen addr] in *.
  destruct HA as (HpA & HmA & HsA). destruct HB as (HpB & HmB & HsB).
  pose proof (pow2_neq0 _ HpA). pose proof (pow2_neq0 _ HpB).
  unfold slice_infallible. split.
  - destruct (N.le_gt_cases (al B) (al A)) as [Hle|Hgt]; [exact Hle|].
    rewrite N.mod_small in Hal by lia. lia.
  - unfold convertible in Hconv. rewrite N.mul_1_l in Hconv.
    destruct (sz B =? 0) eqn:E; b2p; [left; exact Hconv | right; split; assumption].
Qed.

Lemma ref_infallible_sound ENV A B p :
  wf_ty A -> wf_ty B -> valid_ref A p -> ref_infallible A B ->
  exists v, Internal.try_cast_ref ENV A B p = Ret (Ok v).
Proof.
  intros HA HB Hp [Hal Hsz].
  apply (ref_iff A B p _ (try_cast_ref_char ENV A B p HA HB Hp)).
  destruct Hp as (Hnn & Hal' & Hav & Hend). pow2_facts.
  unfold ref_cast_ok. split; [weaken; assumption | exact Hsz].
Qed.

Lemma ref_infallible_complete A B :
  wf_ty A -> wf_ty B -> small_align A ->
  (forall ENV p, valid_ref A p -> exists v, Internal.try_cast_ref ENV A B p = Ret (Ok v)) ->
  ref_infallible A B.
Proof.
  intros HA HB Hsm Hall.
  set (ENV := mkEnv (fun _ => false) (fun _ => 0) (fun _ _ => 0)).
  assert (Hone : valid_ref A (mkPtr (al A) (sz A))).
  { destruct HA as (Hp & Hm & Hs). pose proof (pow2_neq0 _ Hp). unfold valid_ref, small_align, MAX_ALIGN in *.
    cbn [addr avail]. big_consts. repeat split; try lia. apply N.mod_same; assumption. }
  pose proof (Hall ENV _ Hone) as Hex.
  apply (ref_iff A B _ _ (try_cast_ref_char ENV A B _ HA HB Hone)) in Hex.
  destruct Hex as [Hal Hsz]. cbn [addr] in *.
  destruct HA as (HpA & HmA & HsA). destruct HB as (HpB & HmB & HsB).
  pose proof (pow2_neq0 _ HpA). pose proof (pow2_neq0 _ HpB).
  split; [|exact Hsz].
  destruct (N.le_gt_cases (al B) (al A)) as [Hle|Hgt]; [exact Hle|].
  rewrite N.mod_small in Hal by lia. lia.
Qed.

(* ---- when the assertions hold the must_ cast IS the runtime cast; when they do not, the
   instantiation does not compile ---- *)
Definition compile_fail {X} (o : outcome X) : Prop := exists n, o = Panic (W_const_assert n).

Definition new_len (A B : ty) (s : slice) : N :=
  if sz B =? sz A then slen s else if sz B =? 0 then 0 else slen s * sz A / sz B.

Lemma try_cast_slice_len ENV A B s v :
  wf_ty A -> wf_ty B -> valid_slice A s ->
  Internal.try_cast_slice ENV A B s = Ret (Ok v) -> slen v = new_len A B s.
Proof.
  intro_slice. open_cast Internal.try_cast_slice. unfold new_len. split_all. all: intros Hv; inv_ret; try discriminate.
  all: subst v; cbn [slen]; try reflexivity.
  all: b2p; try lia; exfalso; lia.   (* the specification's tests and the code's, spelled differently *)
Qed.

Lemma try_cast_slice_mut_len ENV A B s v :
  wf_ty A -> wf_ty B -> valid_slice A s ->
  Internal.try_cast_slice_mut ENV A B s = Ret (Ok v) -> slen v = new_len A B s.
Proof.
  intro_slice. open_cast Internal.try_cast_slice_mut. unfold new_len. split_all. all: intros Hv; inv_ret; try discriminate.
  all: subst v; cbn [slen]; try reflexivity.
  all: b2p; try lia; exfalso; lia.   (* the specification's tests and the code's, spelled differently *)
Qed.

(* the length computed by must_cast_slice: no division by zero, no overflow, and the same number
   as the runtime cast computes *)
Lemma must_new_len A B s :
  wf_ty A -> wf_ty B -> valid_slice A s -> slice_infallible A B ->
  (if sz A =? sz B then Ret (slen s) else t_x1 <- div_m (sz A) (sz B) ;; mul_m (slen s) t_x1) = Ret (new_len A B s).
Proof.
  intros HA HB (Hnn & Hal' & Hav & Hb & Hend & Hlen) [Hal Hsz]. unfold new_len, div_m, mul_m.
  rewrite (N.eqb_sym (sz B) (sz A)).
  destruct (sz A =? sz B) eqn:E; [reflexivity|]. b2p.
  destruct Hsz as [Z | [NZ Hm]].
  - assert (NZ : sz B <> 0) by lia. apply N.eqb_neq in NZ. rewrite NZ. cbn [bind]. b2p.
    rewrite Z, N.div_0_l, !N.mul_0_r by assumption. rewrite N.div_0_l by assumption. reflexivity.
  - apply N.eqb_neq in NZ. rewrite NZ. cbn [bind]. b2p.
    rewrite (mul_div_exact (slen s) (sz A) (sz B)) by assumption.
    assert (Hlt : slen s * (sz A / sz B) < USIZE).
    { pose proof (div_exact_mul (sz A) (sz B) NZ Hm). big_consts. nia. }
    apply N.ltb_lt in Hlt. rewrite Hlt. reflexivity.
Qed.

(* the same, for however the code spells the computation (operand order, the size test either way
   round): whatever expression stands in the code is shown to evaluate to new_len by case analysis on
   its conditionals and arithmetic *)
Lemma must_len_facts A B s :
  wf_ty A -> wf_ty B -> valid_slice A s -> slice_infallible A B -> sz A <> sz B ->
  sz B <> 0 /\ slen s * (sz A / sz B) < USIZE /\ slen s * sz A / sz B = slen s * (sz A / sz B).
Proof.
  intros HA HB (Hnn & Hal' & Hav & Hb & Hend & Hlen) [Hal Hsz] Hne.
  destruct Hsz as [Z | [NZ Hm]].
  - assert (NZ : sz B <> 0) by lia. split; [exact NZ|]. rewrite Z, N.div_0_l, !N.mul_0_r by assumption.
    rewrite N.div_0_l by assumption. big_consts. lia.
  - split; [exact NZ|]. split.
    + pose proof (div_exact_mul (sz A) (sz B) NZ Hm). big_consts. nia.
    + apply mul_div_exact; assumption.
Qed.

Ltac must_len_tac HF :=
  unfold new_len, div_m, mul_m; repeat (red_bind; split_if); red_bind; b2p;
  try (destruct HF as (? & ? & ?); [lia|]); big_consts;
  try reflexivity; try (exfalso; lia); try (f_equal; lia).

Theorem must_cast_slice_char ENV A B s :
  wf_ty A -> wf_ty B -> valid_slice A s ->
  if must_slice_okb A B
  then exists v, Must.must_cast_slice ENV A B s = Ret v /\ Internal.try_cast_slice ENV A B s = Ret (Ok v)
  else compile_fail (Must.must_cast_slice ENV A B s).
Proof.
  intros HA HB Hs. destruct (must_slice_okb A B) eqn:Hok.
  - pose proof (proj1 (must_slice_okb_spec A B) Hok) as Hinf.
    destruct (slice_infallible_sound ENV A B s HA HB Hs Hinf) as [v Hv].
    exists v. split; [|exact Hv].
    pose proof (try_cast_slice_char ENV A B s HA HB Hs) as Hc. rewrite Hv in Hc.
    destruct Hc as [_ (Hva & Hvn & Hval & Hvav)].
    pose proof (try_cast_slice_len ENV A B s v HA HB Hs Hv) as Hlen.
    unfold must_slice_okb, assert_true in Hok. apply andb_true_iff in Hok. destruct Hok as [H1 H2].
    unfold Must.must_cast_slice.
    destruct (Must.ASSERT_SIZE_MULTIPLE_OF_OR_INPUT_ZST A B) as [[|]| |]; try discriminate.
    destruct (Must.ASSERT_ALIGN_GREATER_THAN_EQUAL A B) as [[|]| |]; try discriminate.
    cbn [const_assert bind].
    pose proof (must_len_facts A B s HA HB Hs Hinf) as HF.
    match goal with |- bind ?e _ = _ => assert (He : e = Ret (new_len A B s)) by (must_len_tac HF); rewrite He end.
    cbn [bind]. rewrite <- Hlen.
    destruct Hs as (Hnn & Hal' & Hav & Hb & Hend & Hl).
    unfold from_raw_parts, aligned_for. rewrite <- Hva. apply N.eqb_eq in Hval. rewrite Hval. cbn [negb].
    rewrite Hvn, Hav, N.leb_refl. cbn [negb].
    destruct v as [[va vav] vn]. cbn [sptr slen addr avail] in *. subst va vav. rewrite Hvn. reflexivity.
  - unfold compile_fail, must_slice_okb, assert_true in *. unfold Must.must_cast_slice.
    (* whichever of the two assertions the code evaluates first *)
    destruct (Must.ASSERT_SIZE_MULTIPLE_OF_OR_INPUT_ZST A B) as [[|]| |]; destruct (Must.ASSERT_ALIGN_GREATER_THAN_EQUAL A B) as [[|]| |];
      cbn [const_assert bind] in *; eauto; discriminate.
Qed.

Theorem must_cast_slice_mut_char ENV A B s :
  wf_ty A -> wf_ty B -> valid_slice A s ->
  if must_slice_okb A B
  then exists v, Must.must_cast_slice_mut ENV A B s = Ret v /\ Internal.try_cast_slice_mut ENV A B s = Ret (Ok v)
  else compile_fail (Must.must_cast_slice_mut ENV A B s).
Proof.
  intros HA HB Hs. destruct (must_slice_okb A B) eqn:Hok.
  - pose proof (proj1 (must_slice_okb_spec A B) Hok) as Hinf.
    assert (Hex : exists v, Internal.try_cast_slice_mut ENV A B s = Ret (Ok v)).
    { apply (slice_iff A B s _ (try_cast_slice_mut_char ENV A B s HA HB Hs)).
      apply (slice_iff A B s _ (try_cast_slice_char ENV A B s HA HB Hs)).
      apply slice_infallible_sound; assumption. }
    destruct Hex as [v Hv].
    exists v. split; [|exact Hv].
    pose proof (try_cast_slice_mut_char ENV A B s HA HB Hs) as Hc. rewrite Hv in Hc.
    destruct Hc as [_ (Hva & Hvn & Hval & Hvav)].
    pose proof (try_cast_slice_mut_len ENV A B s v HA HB Hs Hv) as Hlen.
    unfold must_slice_okb, assert_true in Hok. apply andb_true_iff in Hok. destruct Hok as [H1 H2].
    unfold Must.must_cast_slice_mut.
    destruct (Must.ASSERT_SIZE_MULTIPLE_OF_OR_INPUT_ZST A B) as [[|]| |]; try discriminate.
    destruct (Must.ASSERT_ALIGN_GREATER_THAN_EQUAL A B) as [[|]| |]; try discriminate.
    cbn [const_assert bind].
    pose proof (must_len_facts A B s HA HB Hs Hinf) as HF.
    match goal with |- bind ?e _ = _ => assert (He : e = Ret (new_len A B s)) by (must_len_tac HF); rewrite He end.
    cbn [bind]. rewrite <- Hlen.
    destruct Hs as (Hnn & Hal' & Hav & Hb & Hend & Hl).
    unfold from_raw_parts, aligned_for. rewrite <- Hva. apply N.eqb_eq in Hval. rewrite Hval. cbn [negb].
    rewrite Hvn, Hav, N.leb_refl. cbn [negb].
    destruct v as [[va vav] vn]. cbn [sptr slen addr avail] in *. subst va vav. rewrite Hvn. reflexivity.
  - unfold compile_fail, must_slice_okb, assert_true in *. unfold Must.must_cast_slice_mut.
    (* whichever of the two assertions the code evaluates first *)
    destruct (Must.ASSERT_SIZE_MULTIPLE_OF_OR_INPUT_ZST A B) as [[|]| |]; destruct (Must.ASSERT_ALIGN_GREATER_THAN_EQUAL A B) as [[|]| |];
      cbn [const_assert bind] in *; eauto; discriminate.
Qed.

Theorem must_cast_ref_char ENV A B p :
  wf_ty A -> wf_ty B -> valid_ref A p ->
  if must_ref_okb A B
  then exists v, Must.must_cast_ref ENV A B p = Ret v /\ Internal.try_cast_ref ENV A B p = Ret (Ok v)
  else compile_fail (Must.must_cast_ref ENV A B p).
Proof.
  intros HA HB Hp. destruct (must_ref_okb A B) eqn:Hok.
  - pose proof (proj1 (must_ref_okb_spec A B) Hok) as Hinf.
    destruct (ref_infallible_sound ENV A B p HA HB Hp Hinf) as [v Hv].
    exists v. split; [|exact Hv].
    unfold must_ref_okb, assert_true in Hok. apply andb_true_iff in Hok. destruct Hok as [H1 H2].
    unfold Must.must_cast_ref.
    destruct (Must.ASSERT_SIZE_EQUAL A B) as [[|]| |]; try discriminate.
    destruct (Must.ASSERT_ALIGN_GREATER_THAN_EQUAL A B) as [[|]| |]; try discriminate.
    cbn [const_assert bind].
    destruct Hinf as [Hal Hsz]. destruct Hp as (Hnn & Hal' & Hav & Hend). pow2_facts.
    revert Hv. open_cast Internal.try_cast_ref. split_all. all: intros Hv; inv_ret; try discriminate.
    all: try (subst v; reflexivity). all: b2p; weaken; lia.
  - unfold compile_fail, must_ref_okb, assert_true in *. unfold Must.must_cast_ref.
    (* whichever of the two assertions the code evaluates first *)
    destruct (Must.ASSERT_SIZE_EQUAL A B) as [[|]| |]; destruct (Must.ASSERT_ALIGN_GREATER_THAN_EQUAL A B) as [[|]| |];
      cbn [const_assert bind] in *; eauto; discriminate.
Qed.

Theorem must_cast_mut_char ENV A B p :
  wf_ty A -> wf_ty B -> valid_ref A p ->
  if must_ref_okb A B
  then exists v, Must.must_cast_mut ENV A B p = Ret v /\ Internal.try_cast_mut ENV A B p = Ret (Ok v)
  else compile_fail (Must.must_cast_mut ENV A B p).
Proof.
  intros HA HB Hp. destruct (must_ref_okb A B) eqn:Hok.
  - pose proof (proj1 (must_ref_okb_spec A B) Hok) as Hinf.
    assert (Hex : exists v, Internal.try_cast_mut ENV A B p = Ret (Ok v)).
    { apply (ref_iff A B p _ (try_cast_mut_char ENV A B p HA HB Hp)).
      apply (ref_iff A B p _ (try_cast_ref_char ENV A B p HA HB Hp)).
      apply ref_infallible_sound; assumption. }
    destruct Hex as [v Hv].
    exists v. split; [|exact Hv].
    unfold must_ref_okb, assert_true in Hok. apply andb_true_iff in Hok. destruct Hok as [H1 H2].
    unfold Must.must_cast_mut.
    destruct (Must.ASSERT_SIZE_EQUAL A B) as [[|]| |]; try discriminate.
    destruct (Must.ASSERT_ALIGN_GREATER_THAN_EQUAL A B) as [[|]| |]; try discriminate.
    cbn [const_assert bind].
    destruct Hinf as [Hal Hsz]. destruct Hp as (Hnn & Hal' & Hav & Hend). pow2_facts.
    revert Hv. open_cast Internal.try_cast_mut. split_all. all: intros Hv; inv_ret; try discriminate.
    all: try (subst v; reflexivity). all: b2p; weaken; lia.
  - unfold compile_fail, must_ref_okb, assert_true in *. unfold Must.must_cast_mut.
    (* whichever of the two assertions the code evaluates first *)
    destruct (Must.ASSERT_SIZE_EQUAL A B) as [[|]| |]; destruct (Must.ASSERT_ALIGN_GREATER_THAN_EQUAL A B) as [[|]| |];
      cbn [const_assert bind] in *; eauto; discriminate.
Qed.

Theorem must_cast_char ENV A B a :
  value_of A a ->
  if must_val_okb A B
  then Must.must_cast ENV A B a = Ret a /\ Internal.try_cast ENV A B a = Ret (Ok a)
  else compile_fail (Must.must_cast ENV A B a) /\ Internal.try_cast ENV A B a = Ret (Err SizeMismatch).
Proof.
  intros Ha. rewrite (try_cast_char ENV A B a Ha). destruct (must_val_okb A B) eqn:Hok.
  - pose proof (proj1 (must_val_okb_spec A B) Hok) as Hsz.
    unfold must_val_okb, assert_true in Hok. unfold Must.must_cast.
    destruct (Must.ASSERT_SIZE_EQUAL A B) as [[|]| |]; try discriminate. cbn [const_assert bind].
    rewrite transmute_copy_same by (unfold value_of in *; lia).
    apply N.eqb_eq in Hsz. rewrite Hsz. split; reflexivity.
  - assert (Hne : sz A <> sz B).
    { intros E. apply must_val_okb_spec in E. congruence. }
    apply N.eqb_neq in Hne. rewrite Hne. split; [|reflexivity].
    unfold compile_fail, must_val_okb, assert_true in *. unfold Must.must_cast.
    destruct (Must.ASSERT_SIZE_EQUAL A B) as [[|]| |]; cbn [const_assert bind]; eauto. discriminate.
Qed.

(* ---- C14 in one statement per function ---- *)
Theorem must_slice_iff A B : wf_ty A -> wf_ty B -> small_align A ->
  (must_slice_okb A B = true <->
   forall ENV s, valid_slice A s -> exists v, Internal.try_cast_slice ENV A B s = Ret (Ok v)).
Proof.
  intros HA HB Hsm. rewrite must_slice_okb_spec. split.
  - intros Hinf ENV s Hs. apply slice_infallible_sound; assumption.
  - apply slice_infallible_complete; assumption.
Qed.

Theorem must_slice_mut_iff A B : wf_ty A -> wf_ty B -> small_align A ->
  (must_slice_okb A B = true <->
   forall ENV s, valid_slice A s -> exists v, Internal.try_cast_slice_mut ENV A B s = Ret (Ok v)).
Proof.
  intros HA HB Hsm. rewrite (must_slice_iff A B HA HB Hsm). split; intros H ENV s Hs.
  - apply (slice_iff A B s _ (try_cast_slice_mut_char ENV A B s HA HB Hs)).
    apply (slice_iff A B s _ (try_cast_slice_char ENV A B s HA HB Hs)). apply H. exact Hs.
  - apply (slice_iff A B s _ (try_cast_slice_char ENV A B s HA HB Hs)).
    apply (slice_iff A B s _ (try_cast_slice_mut_char ENV A B s HA HB Hs)). apply H. exact Hs.
Qed.

Theorem must_ref_iff A B : wf_ty A -> wf_ty B -> small_align A ->
  (must_ref_okb A B = true <->
   forall ENV p, valid_ref A p -> exists v, Internal.try_cast_ref ENV A B p = Ret (Ok v)).
Proof.
  intros HA HB Hsm. rewrite must_ref_okb_spec. split.
  - intros Hinf ENV p Hp. apply ref_infallible_sound; assumption.
  - apply ref_infallible_complete; assumption.
Qed.

Theorem must_mut_iff A B : wf_ty A -> wf_ty B -> small_align A ->
  (must_ref_okb A B = true <->
   forall ENV p, valid_ref A p -> exists v, Internal.try_cast_mut ENV A B p = Ret (Ok v)).
Proof.
  intros HA HB Hsm. rewrite (must_ref_iff A B HA HB Hsm). split; intros H ENV p Hp.
  - apply (ref_iff A B p _ (try_cast_mut_char ENV A B p HA HB Hp)).
    apply (ref_iff A B p _ (try_cast_ref_char ENV A B p HA HB Hp)). apply H. exact Hp.
  - apply (ref_iff A B p _ (try_cast_ref_char ENV A B p HA HB Hp)).
    apply (ref_iff A B p _ (try_cast_mut_char ENV A B p HA HB Hp)). apply H. exact Hp.
Qed.

(* by value: compiles iff the sizes are equal iff the runtime cast succeeds on every value *)
Theorem must_val_iff A B :
  (must_val_okb A B = true <->
   forall ENV a, value_of A a -> exists b, Internal.try_cast ENV A B a = Ret (Ok b)).
Proof.
  rewrite must_val_okb_spec. split.
  - intros Hsz ENV a Ha. rewrite (try_cast_char ENV A B a Ha). apply N.eqb_eq in Hsz. rewrite Hsz. eauto.
  - intros H. set (ENV := mkEnv (fun _ => false) (fun _ => 0) (fun _ _ => 0)).
    set (a := read_bytes (mem ENV) 0 (sz A)).
    destruct (H ENV a (read_bytes_value ENV A 0)) as [b Hb].
    rewrite (try_cast_char ENV A B a (read_bytes_value ENV A 0)) in Hb.
    destruct (sz A =? sz B) eqn:E; [apply N.eqb_eq; exact E | discriminate].
Qed.
