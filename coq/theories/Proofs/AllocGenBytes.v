(* Proofs/AllocGenBytes.v — BoxBytes: the impl methods of src/allocation.rs as the translator regenerates them
   (Gen/Alloc.v: box_bytes_of for T and [T], try_from_box_bytes for T and [T], Drop, Deref, DerefMut, the raw-parts
   accessors) are the modelled ones (Model/Alloc.v), so the C15 theorems hold of the translated code. *)
From Coq Require Import NArith List Bool String Lia.
From Coq Require Import ZifyBool ZifyN.
From BM Require Import Base.Outcome Base.Prims Base.Own Base.Layout Base.Tactics Model.Alloc.
From BM Require Proofs.AllocProofs.
From BM.Gen Require Alloc.
Open Scope bool_scope.
Open Scope N_scope.

(* "the translated function returns the model's result": unfold the monadic vocabulary, split on every
   conditional of both sides, turn the tests into arithmetic; what is left is closed by reflexivity, by
   contradiction between the tests, or by arithmetic on the components.  Written against no particular
   order or spelling of the tests, so that reordered / De-Morganed / renamed code re-proves. *)
Ltac refine_eq :=
  unfold_vocab; unfold cont_resize, cont_set, cont_of_addr in *;
  repeat (red_bind; cbn [cptr clen ccap l_size l_align bb_ptr bb_layout] in *; split_if);
  red_bind; cbn [cptr clen ccap l_size l_align bb_ptr bb_layout] in *; b2p; big_consts;
  try reflexivity; try (exfalso; lia); try (exfalso; congruence);
  try (repeat f_equal; try reflexivity; lia).

(* ---- BoxBytes: the impl methods as translated are the modelled ones ---- *)
Lemma gen_box_bytes_of_sized ENV T c : Gen.Alloc.box_bytes_of_sized ENV T c = Ret (box_bytes_of_sized T c).
Proof. reflexivity. Qed.
Lemma gen_box_bytes_of_slice ENV T c : Gen.Alloc.box_bytes_of_slice ENV T c = Ret (box_bytes_of_slice T c).
Proof. reflexivity. Qed.
Lemma gen_try_from_box_bytes_sized ENV T b :
  Gen.Alloc.try_from_box_bytes_sized ENV T b = Ret (try_from_box_bytes_sized T b).
Proof. unfold Gen.Alloc.try_from_box_bytes_sized, try_from_box_bytes_sized. refine_eq. Qed.
Lemma gen_try_from_box_bytes_slice ENV T b :
  Gen.Alloc.try_from_box_bytes_slice ENV T b = Ret (try_from_box_bytes_slice T b).
Proof. unfold Gen.Alloc.try_from_box_bytes_slice, try_from_box_bytes_slice. refine_eq. Qed.
(* Drop: the one dealloc call, with the block's own pointer and the recorded layout *)
Lemma gen_box_bytes_drop ENV b :
  Gen.Alloc.box_bytes_drop ENV b = Ret (match bb_drop b with Some l => Some (bb_ptr b, l) | None => None end).
Proof. unfold Gen.Alloc.box_bytes_drop, bb_drop. refine_eq. Qed.

Theorem gen_box_bytes_all ENV T c b :
  Gen.Alloc.box_bytes_of_sized ENV T c = Ret (box_bytes_of_sized T c) /\
  Gen.Alloc.box_bytes_of_slice ENV T c = Ret (box_bytes_of_slice T c) /\
  Gen.Alloc.try_from_box_bytes_sized ENV T b = Ret (try_from_box_bytes_sized T b) /\
  Gen.Alloc.try_from_box_bytes_slice ENV T b = Ret (try_from_box_bytes_slice T b) /\
  Gen.Alloc.box_bytes_drop ENV b = Ret (match bb_drop b with Some l => Some (bb_ptr b, l) | None => None end).
Proof.
  exact (conj (gen_box_bytes_of_sized ENV T c) (conj (gen_box_bytes_of_slice ENV T c)
        (conj (gen_try_from_box_bytes_sized ENV T b) (conj (gen_try_from_box_bytes_slice ENV T b) (gen_box_bytes_drop ENV b))))).
Qed.
Theorem gen_box_bytes_drop_exact ENV b :
  Gen.Alloc.box_bytes_drop ENV b = Ret (if l_size (bb_layout b) =? 0 then None else Some (bb_ptr b, bb_layout b)).
Proof. rewrite gen_box_bytes_drop. unfold bb_drop. destruct (l_size (bb_layout b) =? 0); reflexivity. Qed.

Theorem gen_box_bytes_views ENV b p l :
  Gen.Alloc.box_bytes_deref ENV b = Ret (mkSlice (mkPtr (bb_ptr b) (l_size (bb_layout b))) (l_size (bb_layout b))) /\
  Gen.Alloc.box_bytes_deref_mut ENV b = Ret (mkSlice (mkPtr (bb_ptr b) (l_size (bb_layout b))) (l_size (bb_layout b))) /\
  Gen.Alloc.box_bytes_layout ENV b = Ret (bb_layout b) /\
  Gen.Alloc.box_bytes_into_raw_parts ENV b = Ret (bb_ptr b, bb_layout b) /\
  Gen.Alloc.box_bytes_from_raw_parts ENV p l = Ret (mkBB p l) /\
  (x <- Gen.Alloc.box_bytes_into_raw_parts ENV b ;; Gen.Alloc.box_bytes_from_raw_parts ENV (fst x) (snd x)) = Ret b.
Proof. destruct b as [bp bl]. repeat split; reflexivity. Qed.


(* ---- the public functions box_bytes_of / try_from_box_bytes / from_box_bytes ----
   `T: sealed::… + ?Sized`: the translated function takes the flag `unsized_T` and calls the impl for [T]
   (T then being the element type) or the impl for T. *)
Theorem gen_box_bytes_public ENV T u c b :
  Gen.Alloc.box_bytes_of ENV T u c = Ret (if u then box_bytes_of_slice T c else box_bytes_of_sized T c) /\
  Gen.Alloc.try_from_box_bytes ENV T u b = Ret (if u then try_from_box_bytes_slice T b else try_from_box_bytes_sized T b).
Proof.
  unfold Gen.Alloc.box_bytes_of, Gen.Alloc.try_from_box_bytes.
  destruct u; rewrite ?gen_box_bytes_of_slice, ?gen_box_bytes_of_sized,
    ?gen_try_from_box_bytes_slice, ?gen_try_from_box_bytes_sized, ?bind_ret_r; cbn [bind]; split; reflexivity.
Qed.

(* from_box_bytes is try_from_box_bytes unwrapped: the converted Box when that succeeds; otherwise the
   ordinary unwrap panic carrying the error (the BoxBytes that came back with the error is dropped) *)
Theorem gen_from_box_bytes_twin ENV T u b :
  exists r, Gen.Alloc.try_from_box_bytes ENV T u b = Ret r /\
    match r with
    | Ok c => Gen.Alloc.from_box_bytes ENV T u b = Ret c
    | Err (e, b0) => Gen.Alloc.from_box_bytes ENV T u b = Panic (W_unwrap (EP e)) /\ b0 = b
    end.
Proof.
  destruct (gen_box_bytes_public ENV T u (mkCont 0 0 0) b) as [_ Ht].
  eexists. split; [exact Ht|].
  unfold Gen.Alloc.from_box_bytes. rewrite Ht. cbn [bind].
  pose proof (AllocProofs.from_bb_sized_char T b) as Hs. pose proof (AllocProofs.from_bb_slice_char T b) as Hl.
  destruct u.
  - destruct (try_from_box_bytes_slice T b) as [c|[e b0]]; cbn [bind]; [reflexivity|].
    split; [reflexivity | apply Hl].
  - destruct (try_from_box_bytes_sized T b) as [c|[e b0]]; cbn [bind]; [reflexivity|].
    split; [reflexivity | apply Hs].
Qed.
