(* Proofs/AllocProofs.v — the owning-container casts of Model/Alloc.v: success iff layout-compatible,
   truthful errors, the input handed back unchanged on failure, and — the heart of C09 — the block
   the new container will free is exactly the block the old one owned (same size, same alignment). *)
From Coq Require Import NArith ZArith List Bool String Lia ZifyBool ZifyN.
From BM Require Import Base.Outcome Base.Prims Base.Own Base.Layout Base.Tactics Model.Alloc.
Import ListNotations.
Open Scope bool_scope.
Open Scope N_scope.

Ltac conv_unfold := unfold cast_ok, cast_err_true, cont_view_ok, convertible in *.

Lemma drop_layout_same_ty k A B c : sz A = sz B -> al A = al B -> drop_layout k B c = drop_layout k A c.
Proof. intros Hs Ha. unfold drop_layout. rewrite Hs, Ha. reflexivity. Qed.

Lemma single_char k A B c :
  match k with KBox | KRc | KArc => True | _ => False end ->
  cast_outcome_ok k A B c (try_cast_single A B c).
Proof.
  intros Hk. unfold try_cast_single, cast_outcome_ok.
  destruct (al A =? al B) eqn:Ea; cbn [negb].
  - destruct (sz A =? sz B) eqn:Es; cbn [negb]; b2p.
    + split; [|split].
      * conv_unfold. destruct k; try contradiction; split; assumption.
      * conv_unfold. destruct k; try contradiction; repeat split; reflexivity.
      * apply drop_layout_same_ty; assumption.
    + split; [|split; [|reflexivity]].
      * conv_unfold. destruct k; try contradiction; intros [_ H]; contradiction.
      * conv_unfold. destruct k; try contradiction; split; trivial.
  - b2p. split; [|split; [|reflexivity]].
    + conv_unfold. intros [H _]. contradiction.
    + exact Ea.
Qed.

Lemma slice_char k A B c :
  match k with KBoxSlice | KRcSlice | KArcSlice => True | _ => False end ->
  cast_outcome_ok k A B c (try_cast_slice_cont A B c).
Proof.
  intros Hk. unfold try_cast_slice_cont, cast_outcome_ok.
  destruct (al A =? al B) eqn:Ea; cbn [negb]; b2p.
  2:{ split; [|split; [|reflexivity]]; [conv_unfold; intros [H _]; contradiction | exact Ea]. }
  destruct (sz A =? sz B) eqn:Es; cbn [negb]; b2p.
  - split; [|split].
    + conv_unfold. destruct k; try contradiction; (split; [assumption|]); rewrite Es;
        (destruct (sz B =? 0) eqn:E0; b2p; [rewrite E0; apply N.mul_0_r | apply N.mod_mul; assumption]).
    + conv_unfold. destruct k; try contradiction; (split; [reflexivity|]); rewrite Es; reflexivity.
    + apply drop_layout_same_ty; assumption.
  - destruct (sz B =? 0) eqn:E0; cbn [negb andb orb]; b2p.
    + destruct (clen c * sz A =? 0) eqn:Eb; cbn [negb]; b2p.
      * split; [|split].
        -- conv_unfold. destruct k; try contradiction; (split; [assumption|]);
             (apply N.eqb_eq in E0; rewrite E0; assumption).
        -- conv_unfold. cbn [cptr clen]. destruct k; try contradiction; (split; [reflexivity|]); lia.
        -- unfold drop_layout. cbn [clen]. rewrite Eb, N.mul_0_l, Ea.
           destruct k; try contradiction; cbn; reflexivity.
      * split; [|split; [|reflexivity]].
        -- conv_unfold. destruct k; try contradiction; intros [_ H]; apply N.eqb_eq in E0; rewrite E0 in H; contradiction.
        -- conv_unfold. destruct k; try contradiction; apply N.eqb_eq in E0; rewrite E0; assumption.
    + destruct (clen c * sz A mod sz B =? 0) eqn:Em; cbn [negb]; b2p.
      * pose proof (div_exact_mul _ _ E0 Em) as Hd.
        split; [|split].
        -- conv_unfold. destruct k; try contradiction; (split; [assumption|]);
             (apply N.eqb_neq in E0; rewrite E0; assumption).
        -- conv_unfold. cbn [cptr clen]. destruct k; try contradiction; (split; [reflexivity|]); assumption.
        -- unfold drop_layout. cbn [clen]. rewrite Hd, Ea. destruct k; try contradiction; reflexivity.
      * split; [|split; [|reflexivity]].
        -- conv_unfold. destruct k; try contradiction; intros [_ H]; apply N.eqb_neq in E0; rewrite E0 in H; contradiction.
        -- conv_unfold. destruct k; try contradiction; apply N.eqb_neq in E0; rewrite E0; assumption.
Qed.

Lemma vec_char A B c : clen c <= ccap c -> cast_outcome_ok KVec A B c (try_cast_vec A B c).
Proof.
  intros Hwf. unfold try_cast_vec, cast_outcome_ok.
  destruct (al A =? al B) eqn:Ea; cbn [negb]; b2p.
  2:{ split; [|split; [|reflexivity]]; [conv_unfold; intros [H _]; contradiction | exact Ea]. }
  destruct (sz A =? sz B) eqn:Es; cbn [negb]; b2p.
  - split; [|split].
    + conv_unfold. split; [assumption|]. rewrite Es.
      destruct (sz B =? 0) eqn:E0; b2p; [rewrite E0; split; apply N.mul_0_r | split; apply N.mod_mul; assumption].
    + conv_unfold. split; [reflexivity|]. rewrite Es. repeat split; try reflexivity;
        symmetry; apply N.div_mul; assumption.
    + apply drop_layout_same_ty; assumption.
  - destruct (sz B =? 0) eqn:E0; cbn [negb andb orb]; b2p.
    + (* zero-sized target: only a Vec without any byte of capacity converts *)
      destruct (ccap c * sz A =? 0) eqn:Eb; cbn [negb]; b2p.
      * assert (Hlen : clen c * sz A = 0) by nia.
        split; [|split].
        -- conv_unfold. split; [assumption|]. apply N.eqb_eq in E0. rewrite E0. split; assumption.
        -- conv_unfold. cbn [cptr clen ccap]. split; [reflexivity|]. repeat split; try lia.
        -- unfold drop_layout. cbn [ccap]. apply N.eqb_eq in Eb. rewrite Eb, N.mul_0_l. reflexivity.
      * split; [|split; [|reflexivity]].
        -- conv_unfold. intros [_ [_ H]]. apply N.eqb_eq in E0. rewrite E0 in H. contradiction.
        -- conv_unfold. intros [_ H]. apply N.eqb_eq in E0. rewrite E0 in H. contradiction.
    + destruct (clen c * sz A mod sz B =? 0) eqn:Em; destruct (ccap c * sz A mod sz B =? 0) eqn:Ec;
        cbn [negb orb]; b2p.
      * pose proof (div_exact_mul _ _ E0 Em) as Hd. pose proof (div_exact_mul _ _ E0 Ec) as Hc.
        split; [|split].
        -- conv_unfold. split; [assumption|]. apply N.eqb_neq in E0. rewrite E0. split; assumption.
        -- conv_unfold. cbn [cptr clen ccap]. split; [reflexivity|]. repeat split; assumption.
        -- unfold drop_layout. cbn [ccap]. rewrite Hc, Ea. reflexivity.
      * split; [|split; [|reflexivity]];
          conv_unfold; [intros [_ [_ H]] | intros [_ H]]; apply N.eqb_neq in E0; rewrite E0 in H; contradiction.
      * split; [|split; [|reflexivity]];
          conv_unfold; [intros [_ [H _]] | intros [H _]]; apply N.eqb_neq in E0; rewrite E0 in H; contradiction.
      * split; [|split; [|reflexivity]];
          conv_unfold; [intros [_ [H _]] | intros [H _]]; apply N.eqb_neq in E0; rewrite E0 in H; contradiction.
Qed.

(* ---- every container kind ---- *)
Theorem try_cast_cont_char k A B c :
  wf_cont k A c -> cast_outcome_ok k A B c (try_cast_cont k A B c).
Proof.
  intros Hwf. destruct k; cbn [try_cast_cont wf_cont] in *;
    first [apply single_char; exact I | apply slice_char; exact I | apply vec_char; exact Hwf].
Qed.

Theorem cast_iff k A B c : wf_cont k A c ->
  ((exists c', try_cast_cont k A B c = Ok c') <-> cast_ok k A B c).
Proof.
  intros Hwf. pose proof (try_cast_cont_char k A B c Hwf) as H. unfold cast_outcome_ok in H.
  destruct (try_cast_cont k A B c) as [c'|[e c0]].
  - split; [intros _; apply H | intros _; eauto].
  - split; [intros [c' Hc]; discriminate | intros Hok; destruct H as [Hn _]; contradiction].
Qed.

Theorem cast_err k A B c e c0 : wf_cont k A c ->
  try_cast_cont k A B c = Err (e, c0) -> ~ cast_ok k A B c /\ cast_err_true k A B c e /\ c0 = c.
Proof. intros Hwf Hr. pose proof (try_cast_cont_char k A B c Hwf) as H. rewrite Hr in H. exact H. Qed.

Theorem cast_keeps_block k A B c c' : wf_cont k A c ->
  try_cast_cont k A B c = Ok c' ->
  cptr c' = cptr c /\ drop_layout k B c' = drop_layout k A c /\ cont_view_ok k A B c c'.
Proof.
  intros Hwf Hr. pose proof (try_cast_cont_char k A B c Hwf) as H. rewrite Hr in H.
  destruct H as (_ & Hv & Hd). split; [apply Hv | split; assumption].
Qed.

(* the cast result is again well-formed for its kind, so casts compose (cast and cast back) *)
Theorem cast_wf k A B c c' : wf_cont k A c -> try_cast_cont k A B c = Ok c' -> wf_cont k B c'.
Proof.
  intros Hwf Hr. destruct k; cbn [try_cast_cont wf_cont] in *.
  all: try (unfold try_cast_single in Hr; repeat split_if; inv_ret; try discriminate; subst; assumption).
  all: try (unfold try_cast_slice_cont in Hr; cbn zeta in Hr; repeat split_if; inv_ret; try discriminate; subst;
            cbn [clen ccap] in *; first [assumption | reflexivity]).
  unfold try_cast_vec in Hr. cbn zeta in Hr. repeat split_if; inv_ret; try discriminate; subst; cbn [clen ccap] in *.
  all: try assumption; try lia.
  all: b2p; (apply N.div_le_mono; [assumption | nia]).
Qed.

(* ---- BoxBytes (C15) ---- *)
Lemma bb_of_sized_drop T c :
  bb_drop (box_bytes_of_sized T c) = drop_layout KBox T c /\ bb_ptr (box_bytes_of_sized T c) = cptr c.
Proof.
  unfold bb_drop, box_bytes_of_sized, drop_layout. cbn. destruct (sz T =? 0); split; reflexivity.
Qed.

Lemma bb_of_slice_drop T c :
  bb_drop (box_bytes_of_slice T c) = drop_layout KBoxSlice T c /\ bb_ptr (box_bytes_of_slice T c) = cptr c.
Proof.
  unfold bb_drop, box_bytes_of_slice, drop_layout. cbn. destruct (clen c * sz T =? 0); split; reflexivity.
Qed.

Definition bb_sized_ok (T : ty) (b : boxbytes) : Prop :=
  l_align (bb_layout b) = al T /\ l_size (bb_layout b) = sz T.
Definition bb_slice_ok (T : ty) (b : boxbytes) : Prop :=
  l_align (bb_layout b) = al T /\ convertible (l_size (bb_layout b)) (sz T).

Theorem from_bb_sized_char T b :
  match try_from_box_bytes_sized T b with
  | Ok c => bb_sized_ok T b /\ cptr c = bb_ptr b /\ drop_layout KBox T c = bb_drop b
  | Err (e, b0) => ~ bb_sized_ok T b /\ b0 = b /\
                   match e with
                   | AlignmentMismatch => l_align (bb_layout b) <> al T
                   | SizeMismatch => l_size (bb_layout b) <> sz T
                   | _ => False
                   end
  end.
Proof.
  unfold try_from_box_bytes_sized, bb_sized_ok.
  destruct (l_align (bb_layout b) =? al T) eqn:Ea; cbn [negb]; b2p.
  - destruct (l_size (bb_layout b) =? sz T) eqn:Es; cbn [negb]; b2p.
    + repeat split; try assumption. unfold drop_layout, bb_drop. rewrite Es.
      destruct (sz T =? 0); cbn [negb]; [reflexivity|]. destruct b as [p [s a]]. cbn in *. subst. reflexivity.
    + repeat split; try assumption. intros [_ H]. contradiction.
  - repeat split; try assumption. intros [H _]. contradiction.
Qed.

Theorem from_bb_slice_char T b :
  match try_from_box_bytes_slice T b with
  | Ok c => bb_slice_ok T b /\ cptr c = bb_ptr b /\ clen c * sz T = l_size (bb_layout b) /\
            drop_layout KBoxSlice T c = bb_drop b
  | Err (e, b0) => ~ bb_slice_ok T b /\ b0 = b /\
                   match e with
                   | AlignmentMismatch => l_align (bb_layout b) <> al T
                   | OutputSliceWouldHaveSlop => ~ convertible (l_size (bb_layout b)) (sz T)
                   | _ => False
                   end
  end.
Proof.
  unfold try_from_box_bytes_slice, bb_slice_ok, convertible.
  destruct (l_align (bb_layout b) =? al T) eqn:Ea; cbn [negb]; b2p.
  2:{ repeat split; try assumption. intros [H _]. contradiction. }
  destruct (sz T =? 0) eqn:E0; cbn [negb andb orb]; b2p.
  - destruct (l_size (bb_layout b) =? 0) eqn:Es; cbn [negb]; b2p.
    + cbn [cptr clen]. repeat split; try assumption; try lia.
      unfold drop_layout, bb_drop. cbn [clen]. rewrite Es. reflexivity.
    + repeat split; try assumption. intros [_ H]. contradiction.
  - destruct (l_size (bb_layout b) mod sz T =? 0) eqn:Em; cbn [negb]; b2p.
    + pose proof (div_exact_mul _ _ E0 Em) as Hd. cbn [cptr clen]. repeat split; try assumption.
      unfold drop_layout, bb_drop. cbn [clen]. rewrite Hd.
      destruct (l_size (bb_layout b) =? 0); cbn [negb]; [reflexivity|].
      destruct b as [p [s a]]. cbn in *. subst. reflexivity.
    + repeat split; try assumption. intros [_ H]. contradiction.
Qed.

(* a conversion to BoxBytes and back to the same type gives the same container back *)
Theorem bb_roundtrip_sized T c : clen c = 1 -> ccap c = 1 ->
  try_from_box_bytes_sized T (box_bytes_of_sized T c) = Ok c.
Proof.
  intros Hl Hc. unfold try_from_box_bytes_sized, box_bytes_of_sized. cbn. rewrite !N.eqb_refl. cbn.
  destruct c as [p l k]. cbn in *. subst. reflexivity.
Qed.

Theorem bb_roundtrip_slice T c : ccap c = clen c -> sz T <> 0 ->
  try_from_box_bytes_slice T (box_bytes_of_slice T c) = Ok c.
Proof.
  intros Hc Hz. unfold try_from_box_bytes_slice, box_bytes_of_slice. cbn. rewrite N.eqb_refl. cbn [negb].
  apply N.eqb_neq in Hz. rewrite Hz. cbn [negb andb orb]. apply N.eqb_neq in Hz.
  rewrite N.mod_mul by assumption. rewrite N.eqb_refl. cbn [negb]. rewrite N.div_mul by assumption.
  destruct c as [p l k]. cbn in *. subst. reflexivity.
Qed.

(* ---- pod_collect_to_vec (C16) ---- *)
Definition ceil_div (a b : N) : N := (a + b - 1) / b.

Lemma collect_count_spec n s : s <> 0 -> collect_count n s = Ret (ceil_div n s).
Proof.
  intros Hs. unfold collect_count, div_m, rem_m, ceil_div. apply N.eqb_neq in Hs. rewrite Hs. cbn [bind].
  apply N.eqb_neq in Hs. f_equal.
  pose proof (N.div_mod n s Hs) as Hd. pose proof (N.mod_lt n s Hs) as Hl.
  destruct (n mod s =? 0) eqn:E; cbn [negb]; b2p.
  - rewrite E in Hd. apply N.div_unique with (r := s - 1); lia.
  - apply N.div_unique with (r := n mod s - 1); lia.
Qed.

Theorem collect_char B src : sz B <> 0 ->
  exists n bytes, pod_collect_to_vec B src = Ret (n, bytes) /\
    n = ceil_div (N.of_nat (List.length src)) (sz B) /\
    N.of_nat (List.length bytes) = n * sz B /\
    firstn (List.length src) bytes = src /\
    skipn (List.length src) bytes = repeat 0 (N.to_nat (n * sz B) - List.length src)%nat.
Proof.
  intros Hs. unfold pod_collect_to_vec. pose proof Hs as Hs'. apply N.eqb_neq in Hs'. rewrite Hs'.
  rewrite (collect_count_spec _ _ Hs). cbn [bind].
  eexists. eexists. split; [reflexivity|]. split; [reflexivity|].
  set (n := ceil_div (N.of_nat (List.length src)) (sz B)).
  assert (Hge : N.of_nat (List.length src) <= n * sz B).
  { unfold n, ceil_div. set (a := N.of_nat (List.length src)). 
    pose proof (N.div_mod (a + sz B - 1) (sz B) Hs). pose proof (N.mod_lt (a + sz B - 1) (sz B) Hs). nia. }
  split; [|split].
  - rewrite app_length, repeat_length. lia.
  - rewrite firstn_app, Nat.sub_diag, firstn_all. cbn. apply app_nil_r.
  - rewrite skipn_app, Nat.sub_diag, skipn_all. cbn. reflexivity.
Qed.

(* the count computation alone divides by zero for a zero-sized target: this is the defect the
   pinned tree had (known_findings.json, fixed), and why the guard is there *)
Theorem collect_count_unguarded_panics n : collect_count n 0 = Panic W_div_zero.
Proof. reflexivity. Qed.

(* with the guard, the function never panics, whatever the target *)
Theorem collect_total B src : exists r, pod_collect_to_vec B src = Ret r.
Proof.
  destruct (N.eq_dec (sz B) 0) as [Z|NZ].
  - unfold pod_collect_to_vec. rewrite Z. rewrite N.eqb_refl. eauto.
  - destruct (collect_char B src NZ) as (n & bytes & H & _). eauto.
Qed.

Theorem collect_zst_target B src : sz B = 0 -> pod_collect_to_vec B src = Ret (0, []).
Proof. intros Z. unfold pod_collect_to_vec. rewrite Z, N.eqb_refl. reflexivity. Qed.

(* ---- try_zeroed family (C12, allocation half) ---- *)
Theorem zeroed_slice_box_char T n ok :
  match try_zeroed_slice_box T n ok with
  | ZOkNoAlloc len cap => len = n /\ cap = n /\ n * sz T = 0
  | ZOkAlloc l len cap => len = n /\ cap = n /\ ok = true /\ l = mkLayout (n * sz T) (al T) /\ n * sz T <> 0 /\
                          n * sz T <= ISIZE_MAX - (al T - 1)
  | ZErrLayout => n * sz T > ISIZE_MAX - (al T - 1)
  | ZErrNull l => ok = false /\ l = mkLayout (n * sz T) (al T)
  end.
Proof.
  unfold try_zeroed_slice_box, layout_array.
  destruct (sz T =? 0) eqn:Ez; cbn [orb]; b2p.
  - repeat split. rewrite Ez. apply N.mul_0_r.
  - destruct (n =? 0) eqn:En; b2p.
    + repeat split. subst. reflexivity.
    + destruct (n * sz T <=? ISIZE_MAX - (al T - 1)) eqn:El; b2p.
      * destruct ok; repeat split; try assumption; nia.
      * lia.
Qed.

Theorem zeroed_vec_char T n ok :
  match try_zeroed_vec T n ok with
  | ZOkNoAlloc len cap => len = n /\ n * sz T = 0 /\ (sz T <> 0 -> cap = n)
  | ZOkAlloc l len cap => len = n /\ cap = n /\ l = mkLayout (n * sz T) (al T) /\ sz T <> 0
  | ZErrLayout => n * sz T > ISIZE_MAX - (al T - 1)
  | ZErrNull l => ok = false
  end.
Proof.
  unfold try_zeroed_vec. destruct (n =? 0) eqn:En; b2p.
  - subst. repeat split. intros H. apply N.eqb_neq in H. rewrite H. reflexivity.
  - pose proof (zeroed_slice_box_char T n ok) as H. destruct (try_zeroed_slice_box T n ok).
    + destruct H as (-> & -> & Hz). repeat split; [assumption|]. intros Hs. apply N.eqb_neq in Hs. rewrite Hs. reflexivity.
    + destruct H as (-> & -> & _ & -> & Hnz & _). repeat split. intros Z. rewrite Z in Hnz. lia.
    + exact H.
    + apply H.
Qed.
