(* Proofs/TransparentGen.v — the default methods of TransparentWrapper (src/transparent.rs) and of
   TransparentWrapperAlloc (src/allocation.rs) as the translator regenerates them (Gen/Transparent.v,
   Gen/Alloc.v).  Under the trait's unsafe contract — Self and Inner have the same size, alignment
   and pointer metadata kind — every conversion returns its argument unchanged (same address, same
   extent, same length, same bytes, same container); whatever the types are, the assertion that
   guards a pointer transmute fails (an ordinary panic) before the transmute could misbehave. *)
From Coq Require Import NArith List Bool String Lia.
From BM Require Import Base.Outcome Base.Prims Base.Own Base.Layout Base.Tactics.
From BM.Gen Require Transparent Alloc.
Import ListNotations.
Open Scope bool_scope.
Open Scope N_scope.

(* the unsafe contract of `unsafe trait TransparentWrapper<Inner>` as far as layout goes *)
Definition tw_contract (W I : ty) : Prop := sz I = sz W /\ al I = al W.

Lemma ptr_size_eq u : ptr_size u =? ptr_size u = true.
Proof. apply N.eqb_refl. Qed.

Lemma deref_valid T p : valid_ref T p -> deref_as T p = Ret p.
Proof.
  intros (Hn & Hal & Hav & Hfit). unfold deref_as, aligned_for.
  apply N.eqb_eq in Hal. rewrite Hal. cbn [negb]. rewrite Hav, N.leb_refl. cbn [negb].
  destruct p as [a v]. cbn in *. subst. reflexivity.
Qed.

Lemma valid_ref_transport W I p : tw_contract W I -> valid_ref I p -> valid_ref W p.
Proof. intros [Hs Ha]. unfold valid_ref. rewrite Hs, Ha. exact (fun H => H). Qed.

Section Refs.
Variable ENV : env.
Variables W I : ty.
Variable u : bool.          (* both pointer types carry the same kind of metadata *)
Hypothesis HC : tw_contract W I.

Theorem wrap_ref_id p : valid_ref I p -> Gen.Transparent.wrap_ref ENV W I u u p = Ret p.
Proof.
  intros Hv. unfold Gen.Transparent.wrap_ref, transmute_ptr_m. rewrite ptr_size_eq. cbn [negb assert_m bind].
  apply deref_valid. eapply valid_ref_transport; eassumption.
Qed.
Theorem wrap_mut_id p : valid_ref I p -> Gen.Transparent.wrap_mut ENV W I u u p = Ret p.
Proof.
  intros Hv. unfold Gen.Transparent.wrap_mut, transmute_ptr_m. rewrite ptr_size_eq. cbn [negb assert_m bind].
  apply deref_valid. eapply valid_ref_transport; eassumption.
Qed.
Theorem peel_ref_id p : valid_ref W p -> Gen.Transparent.peel_ref ENV W I u u p = Ret p.
Proof.
  intros Hv. unfold Gen.Transparent.peel_ref, transmute_ptr_m. rewrite ptr_size_eq. cbn [negb assert_m bind].
  apply deref_valid. destruct HC as [Hs Ha]. unfold valid_ref in *. rewrite Hs, Ha. exact Hv.
Qed.
Theorem peel_mut_id p : valid_ref W p -> Gen.Transparent.peel_mut ENV W I u u p = Ret p.
Proof.
  intros Hv. unfold Gen.Transparent.peel_mut, transmute_ptr_m. rewrite ptr_size_eq. cbn [negb assert_m bind].
  apply deref_valid. destruct HC as [Hs Ha]. unfold valid_ref in *. rewrite Hs, Ha. exact Hv.
Qed.

Theorem wrap_peel_ref p : valid_ref I p ->
  (q <- Gen.Transparent.wrap_ref ENV W I u u p ;; Gen.Transparent.peel_ref ENV W I u u q) = Ret p.
Proof.
  intros Hv. rewrite (wrap_ref_id p Hv). cbn [bind]. apply peel_ref_id. eapply valid_ref_transport; eassumption.
Qed.
Theorem peel_wrap_ref p : valid_ref W p ->
  (q <- Gen.Transparent.peel_ref ENV W I u u p ;; Gen.Transparent.wrap_ref ENV W I u u q) = Ret p.
Proof.
  intros Hv. rewrite (peel_ref_id p Hv). cbn [bind]. apply wrap_ref_id.
  destruct HC as [Hs Ha]. unfold valid_ref in *. rewrite Hs, Ha. exact Hv.
Qed.

(* slices (Self and Inner are Sized here) *)
Lemma from_raw_valid T s : valid_slice T s -> from_raw_parts T (sptr s) (slen s) = Ret s.
Proof.
  intros (Hn & Hal & Hav & _). unfold from_raw_parts, aligned_for.
  apply N.eqb_eq in Hal. rewrite Hal. cbn [negb]. rewrite Hav, N.leb_refl. cbn [negb].
  destruct s as [[a v] n]. cbn in *. subst. reflexivity.
Qed.
Lemma valid_slice_transport s : valid_slice I s -> valid_slice W s.
Proof. destruct HC as [Hs Ha]. unfold valid_slice. rewrite Hs, Ha. exact (fun H => H). Qed.
Lemma valid_slice_transport_back s : valid_slice W s -> valid_slice I s.
Proof. destruct HC as [Hs Ha]. unfold valid_slice. rewrite Hs, Ha. exact (fun H => H). Qed.

Theorem wrap_slice_id s : valid_slice I s -> Gen.Transparent.wrap_slice ENV W I s = Ret s.
Proof.
  intros Hv. unfold Gen.Transparent.wrap_slice. destruct HC as [Hs Ha]. rewrite Hs, Ha, !N.eqb_refl.
  cbn [negb assert_m bind]. apply from_raw_valid. apply valid_slice_transport. exact Hv.
Qed.
Theorem wrap_slice_mut_id s : valid_slice I s -> Gen.Transparent.wrap_slice_mut ENV W I s = Ret s.
Proof.
  intros Hv. unfold Gen.Transparent.wrap_slice_mut. destruct HC as [Hs Ha]. rewrite Hs, Ha, !N.eqb_refl.
  cbn [negb assert_m bind]. apply from_raw_valid. apply valid_slice_transport. exact Hv.
Qed.
Theorem peel_slice_id s : valid_slice W s -> Gen.Transparent.peel_slice ENV W I s = Ret s.
Proof.
  intros Hv. unfold Gen.Transparent.peel_slice. destruct HC as [Hs Ha]. rewrite Hs, Ha, !N.eqb_refl.
  cbn [negb assert_m bind]. apply from_raw_valid. apply valid_slice_transport_back. exact Hv.
Qed.
Theorem peel_slice_mut_id s : valid_slice W s -> Gen.Transparent.peel_slice_mut ENV W I s = Ret s.
Proof.
  intros Hv. unfold Gen.Transparent.peel_slice_mut. destruct HC as [Hs Ha]. rewrite Hs, Ha, !N.eqb_refl.
  cbn [negb assert_m bind]. apply from_raw_valid. apply valid_slice_transport_back. exact Hv.
Qed.

(* by value: the same bytes, produced once (the source is inside a ManuallyDrop: it is not dropped) *)
Lemma transmute_all T v : N.of_nat (List.length v) = sz T -> transmute_copy T v = Ret v.
Proof. intros Hl. unfold transmute_copy. rewrite <- Hl, N.leb_refl, Nat2N.id, firstn_all. reflexivity. Qed.

Theorem wrap_id v : N.of_nat (List.length v) = sz I -> Gen.Transparent.wrap ENV W I v = Ret v.
Proof.
  intros Hl. unfold Gen.Transparent.wrap. destruct HC as [Hs Ha]. rewrite Hs, Ha, !N.eqb_refl.
  cbn [negb assert_m bind]. apply transmute_all. rewrite <- Hs. exact Hl.
Qed.
Theorem peel_id v : N.of_nat (List.length v) = sz W -> Gen.Transparent.peel ENV W I v = Ret v.
Proof.
  intros Hl. unfold Gen.Transparent.peel. destruct HC as [Hs Ha]. rewrite Hs, Ha, !N.eqb_refl.
  cbn [negb assert_m bind]. apply transmute_all. rewrite Hs. exact Hl.
Qed.

(* containers: the same container — same block, length, capacity — back *)
Theorem wrap_vec_id c : Gen.Alloc.wrap_vec ENV W I c = Ret c.
Proof. unfold Gen.Alloc.wrap_vec, cont_set. destruct c; reflexivity. Qed.
Theorem peel_vec_id c : Gen.Alloc.peel_vec ENV W I c = Ret c.
Proof. unfold Gen.Alloc.peel_vec, cont_set. destruct c; reflexivity. Qed.
Theorem wrap_box_id c : Gen.Alloc.wrap_box ENV W I u u c = Ret c.
Proof. unfold Gen.Alloc.wrap_box, transmute_ptr_m. rewrite ptr_size_eq. reflexivity. Qed.
Theorem peel_box_id c : Gen.Alloc.peel_box ENV W I u u c = Ret c.
Proof. unfold Gen.Alloc.peel_box, transmute_ptr_m. rewrite ptr_size_eq. reflexivity. Qed.
Theorem wrap_rc_id c : Gen.Alloc.wrap_rc ENV W I u u c = Ret c.
Proof. unfold Gen.Alloc.wrap_rc, transmute_ptr_m. rewrite ptr_size_eq. reflexivity. Qed.
Theorem peel_rc_id c : Gen.Alloc.peel_rc ENV W I u u c = Ret c.
Proof. unfold Gen.Alloc.peel_rc, transmute_ptr_m. rewrite ptr_size_eq. reflexivity. Qed.
Theorem wrap_arc_id c : Gen.Alloc.wrap_arc ENV W I u u c = Ret c.
Proof. unfold Gen.Alloc.wrap_arc, transmute_ptr_m. rewrite ptr_size_eq. reflexivity. Qed.
Theorem peel_arc_id c : Gen.Alloc.peel_arc ENV W I u u c = Ret c.
Proof. unfold Gen.Alloc.peel_arc, transmute_ptr_m. rewrite ptr_size_eq. reflexivity. Qed.
End Refs.

(* whatever the two types are: when their pointers differ in size the assertion fails first — an
   ordinary panic, never the out-of-bounds read of the pointer transmute *)
Theorem ptr_guard_panics ENV W I uW uI p : uW <> uI ->
  Gen.Transparent.wrap_ref ENV W I uW uI p = Panic W_assert /\
  Gen.Transparent.wrap_mut ENV W I uW uI p = Panic W_assert /\
  Gen.Transparent.peel_ref ENV W I uW uI p = Panic W_assert /\
  Gen.Transparent.peel_mut ENV W I uW uI p = Panic W_assert.
Proof. intros H. destruct uW, uI; try congruence; repeat split; reflexivity. Qed.

Theorem cont_guard_panics ENV W I uW uI c : uW <> uI ->
  Gen.Alloc.wrap_box ENV W I uW uI c = Panic W_assert /\ Gen.Alloc.peel_box ENV W I uW uI c = Panic W_assert /\
  Gen.Alloc.wrap_rc ENV W I uW uI c = Panic W_assert /\ Gen.Alloc.peel_rc ENV W I uW uI c = Panic W_assert /\
  Gen.Alloc.wrap_arc ENV W I uW uI c = Panic W_assert /\ Gen.Alloc.peel_arc ENV W I uW uI c = Panic W_assert.
Proof. intros H. destruct uW, uI; try congruence; repeat split; reflexivity. Qed.

(* the slice and by-value forms assert size and alignment: with a mismatch they panic, they never
   build a slice or a value of the wrong extent *)
Ltac guard_tac :=
  unfold assert_m; repeat (cbn [bind negb]; match goal with |- context [if ?b then _ else _] => destruct b eqn:? end);
  cbn [bind negb]; try reflexivity; exfalso; b2p;
  match goal with H : _ \/ _ |- _ => destruct H; congruence end.

Theorem slice_guard_panics ENV W I s : (sz I <> sz W \/ al I <> al W) ->
  Gen.Transparent.wrap_slice ENV W I s = Panic W_assert /\ Gen.Transparent.peel_slice ENV W I s = Panic W_assert /\
  Gen.Transparent.wrap_slice_mut ENV W I s = Panic W_assert /\ Gen.Transparent.peel_slice_mut ENV W I s = Panic W_assert.
Proof.
  intros H. unfold Gen.Transparent.wrap_slice, Gen.Transparent.peel_slice, Gen.Transparent.wrap_slice_mut, Gen.Transparent.peel_slice_mut.
  repeat split; guard_tac.
Qed.
Theorem value_guard_panics ENV W I v : (sz I <> sz W \/ al I <> al W) ->
  Gen.Transparent.wrap ENV W I v = Panic W_assert /\ Gen.Transparent.peel ENV W I v = Panic W_assert.
Proof.
  intros H. unfold Gen.Transparent.wrap, Gen.Transparent.peel. split; guard_tac.
Qed.

(* ---- the statements of Properties/C13.v ---- *)
Theorem bundle_refs : forall ENV W I u p, tw_contract W I ->
  (valid_ref I p -> Gen.Transparent.wrap_ref ENV W I u u p = Ret p /\ Gen.Transparent.wrap_mut ENV W I u u p = Ret p) /\
  (valid_ref W p -> Gen.Transparent.peel_ref ENV W I u u p = Ret p /\ Gen.Transparent.peel_mut ENV W I u u p = Ret p).
Proof.
  intros ENV W I u p HC. split; intros Hv; split.
  - exact (wrap_ref_id ENV W I u HC p Hv). - exact (wrap_mut_id ENV W I u HC p Hv).
  - exact (peel_ref_id ENV W I u HC p Hv). - exact (peel_mut_id ENV W I u HC p Hv).
Qed.

Theorem bundle_roundtrip_ref : forall ENV W I u p, tw_contract W I ->
  (valid_ref I p -> (q <- Gen.Transparent.wrap_ref ENV W I u u p ;; Gen.Transparent.peel_ref ENV W I u u q) = Ret p) /\
  (valid_ref W p -> (q <- Gen.Transparent.peel_ref ENV W I u u p ;; Gen.Transparent.wrap_ref ENV W I u u q) = Ret p).
Proof.
  intros ENV W I u p HC. split; intros Hv.
  - exact (wrap_peel_ref ENV W I u HC p Hv). - exact (peel_wrap_ref ENV W I u HC p Hv).
Qed.

Theorem bundle_slices : forall ENV W I s, tw_contract W I ->
  (valid_slice I s -> Gen.Transparent.wrap_slice ENV W I s = Ret s /\ Gen.Transparent.wrap_slice_mut ENV W I s = Ret s) /\
  (valid_slice W s -> Gen.Transparent.peel_slice ENV W I s = Ret s /\ Gen.Transparent.peel_slice_mut ENV W I s = Ret s).
Proof.
  intros ENV W I s HC. split; intros Hv; split.
  - exact (wrap_slice_id ENV W I HC s Hv). - exact (wrap_slice_mut_id ENV W I HC s Hv).
  - exact (peel_slice_id ENV W I HC s Hv). - exact (peel_slice_mut_id ENV W I HC s Hv).
Qed.

Theorem bundle_values : forall ENV W I v, tw_contract W I ->
  (N.of_nat (List.length v) = sz I -> Gen.Transparent.wrap ENV W I v = Ret v) /\
  (N.of_nat (List.length v) = sz W -> Gen.Transparent.peel ENV W I v = Ret v).
Proof.
  intros ENV W I v HC. split; intros Hl.
  - exact (wrap_id ENV W I HC v Hl). - exact (peel_id ENV W I HC v Hl).
Qed.

Theorem bundle_containers : forall ENV W I u c,
  Gen.Alloc.wrap_vec ENV W I c = Ret c /\ Gen.Alloc.peel_vec ENV W I c = Ret c /\
  Gen.Alloc.wrap_box ENV W I u u c = Ret c /\ Gen.Alloc.peel_box ENV W I u u c = Ret c /\
  Gen.Alloc.wrap_rc ENV W I u u c = Ret c /\ Gen.Alloc.peel_rc ENV W I u u c = Ret c /\
  Gen.Alloc.wrap_arc ENV W I u u c = Ret c /\ Gen.Alloc.peel_arc ENV W I u u c = Ret c.
Proof.
  intros ENV W I u c.
  exact (conj (wrap_vec_id ENV W I c) (conj (peel_vec_id ENV W I c)
        (conj (wrap_box_id ENV W I u c) (conj (peel_box_id ENV W I u c)
        (conj (wrap_rc_id ENV W I u c) (conj (peel_rc_id ENV W I u c)
        (conj (wrap_arc_id ENV W I u c) (peel_arc_id ENV W I u c)))))))).
Qed.

Theorem bundle_guards : forall ENV W I uW uI p c s v,
  (uW <> uI -> Gen.Transparent.wrap_ref ENV W I uW uI p = Panic W_assert /\ Gen.Transparent.peel_ref ENV W I uW uI p = Panic W_assert /\
               Gen.Alloc.wrap_box ENV W I uW uI c = Panic W_assert /\ Gen.Alloc.peel_rc ENV W I uW uI c = Panic W_assert) /\
  ((sz I <> sz W \/ al I <> al W) ->
      Gen.Transparent.wrap_slice ENV W I s = Panic W_assert /\ Gen.Transparent.peel_slice ENV W I s = Panic W_assert /\
      Gen.Transparent.wrap ENV W I v = Panic W_assert /\ Gen.Transparent.peel ENV W I v = Panic W_assert).
Proof.
  intros ENV W I uW uI p c s v. split; intros H.
  - destruct (ptr_guard_panics ENV W I uW uI p H) as (a & _ & b & _).
    destruct (cont_guard_panics ENV W I uW uI c H) as (d & _ & _ & e & _). auto.
  - destruct (slice_guard_panics ENV W I s H) as (a & b & _).
    destruct (value_guard_panics ENV W I v H) as (d & e). auto.
Qed.

