From Coq Require Import NArith ZArith List Bool String Lia ZifyBool ZifyN.
From BM Require Import Base.Outcome Base.Prims Base.Layout Base.Tactics Spec.CastSpec Proofs.CastBase.
From BM.Gen Require Internal.
Open Scope bool_scope.
Open Scope N_scope.

Theorem try_cast_slice_mut_char ENV A B s :
  wf_ty A -> wf_ty B -> valid_slice A s ->
  slice_outcome_ok A B s (Internal.try_cast_slice_mut ENV A B s).
Proof. intro_slice. open_cast Internal.try_cast_slice_mut. split_all; fin. Qed.
