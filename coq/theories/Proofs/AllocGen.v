(* Proofs/AllocGen.v — the cast ladders of src/allocation.rs as the translator regenerates them
   (Gen/Alloc.v) compute exactly the hand-written ladders of Model/Alloc.v that the C09 / C10 / C11
   theorems are stated over: the translated function never panics (its `/` and `%` are guarded, its
   one multiplication is bounded by std's capacity invariant) and returns the model's result.  A
   change to a condition, an error value, a length or a capacity in allocation.rs changes Gen/Alloc.v
   and breaks one of these equalities. *)
From Coq Require Import NArith List Bool String Lia.
From Coq Require Import ZifyBool ZifyN.
From BM Require Import Base.Outcome Base.Prims Base.Own Base.Layout Base.Tactics Model.Alloc.
From BM Require Proofs.AllocProofs.
From BM.Gen Require Alloc.
Open Scope bool_scope.
Open Scope N_scope.

(* "the translated function returns the model's result": unfold the monadic vocabulary, split on every
   conditional of both sides, turn the tests into arithmetic; what is left is closed by reflexivity, by
   contradiction between the tests, or by arithmetic on the components.  Written against no particular
   order or spelling of the tests, so that reordered / De-Morganed / renamed code re-proves. *)
Ltac refine_eq :=
  unfold_vocab; unfold cont_resize, cont_set, cont_of_addr in *;
  repeat (red_bind; cbn [cptr clen ccap l_size l_align bb_ptr bb_layout] in *; split_if);
  red_bind; cbn [cptr clen ccap l_size l_align bb_ptr bb_layout] in *; b2p; big_consts;
  try reflexivity; try (exfalso; lia); try (exfalso; congruence);
  try (repeat f_equal; try reflexivity; lia).

Lemma cont_eta c : mkCont (cptr c) (clen c) (ccap c) = c.
Proof. destruct c; reflexivity. Qed.

Section Gen.
Variable ENV : env.
Variables A B : ty.

Lemma gen_try_cast_box c : Gen.Alloc.try_cast_box ENV A B c = Ret (try_cast_cont KBox A B c).
Proof. cbn [try_cast_cont]. unfold Gen.Alloc.try_cast_box, try_cast_single. refine_eq. Qed.
Lemma gen_try_cast_rc c : Gen.Alloc.try_cast_rc ENV A B c = Ret (try_cast_cont KRc A B c).
Proof. cbn [try_cast_cont]. unfold Gen.Alloc.try_cast_rc, try_cast_single. refine_eq. Qed.
Lemma gen_try_cast_arc c : Gen.Alloc.try_cast_arc ENV A B c = Ret (try_cast_cont KArc A B c).
Proof. cbn [try_cast_cont]. unfold Gen.Alloc.try_cast_arc, try_cast_single. refine_eq. Qed.

(* the slice ladders: slice containers have capacity = length *)
Lemma gen_try_cast_slice_box c :
  Gen.Alloc.try_cast_slice_box ENV A B c = Ret (try_cast_cont KBoxSlice A B c).
Proof. cbn [try_cast_cont]. unfold Gen.Alloc.try_cast_slice_box, try_cast_slice_cont. refine_eq. Qed.
Lemma gen_try_cast_slice_rc c :
  Gen.Alloc.try_cast_slice_rc ENV A B c = Ret (try_cast_cont KRcSlice A B c).
Proof. cbn [try_cast_cont]. unfold Gen.Alloc.try_cast_slice_rc, try_cast_slice_cont. refine_eq. Qed.
Lemma gen_try_cast_slice_arc c :
  Gen.Alloc.try_cast_slice_arc ENV A B c = Ret (try_cast_cont KArcSlice A B c).
Proof. cbn [try_cast_cont]. unfold Gen.Alloc.try_cast_slice_arc, try_cast_slice_cont. refine_eq. Qed.

(* std's invariant on a Vec: capacity * size_of::<T>() <= isize::MAX (a Vec of zero-sized elements
   reports capacity usize::MAX and 0 * usize::MAX = 0) *)
Definition vec_cap_ok (T : ty) (c : cont) : Prop := ccap c * sz T < USIZE.

Lemma gen_try_cast_vec c :
  vec_cap_ok A c ->
  Gen.Alloc.try_cast_vec ENV A B c = Ret (try_cast_cont KVec A B c).
Proof.
  intros Hcap. unfold vec_cap_ok in Hcap. cbn [try_cast_cont]. unfold Gen.Alloc.try_cast_vec, try_cast_vec.
  destruct c as [p l k]. refine_eq.
Qed.

(* the panicking forms: unwrap of the fallible form with the container dropped from the error *)
Definition unwrap_cres (r : cres) : outcome cont :=
  match r with Ok c => Ret c | Err (e, _) => Panic (W_unwrap (EP e)) end.

Lemma gen_cast_box c : Gen.Alloc.cast_box ENV A B c = unwrap_cres (try_cast_cont KBox A B c).
Proof. unfold Gen.Alloc.cast_box. rewrite gen_try_cast_box. cbn [bind].
  destruct (try_cast_cont KBox A B c) as [|[e c0]]; reflexivity. Qed.
Lemma gen_cast_rc c : Gen.Alloc.cast_rc ENV A B c = unwrap_cres (try_cast_cont KRc A B c).
Proof. unfold Gen.Alloc.cast_rc. rewrite gen_try_cast_rc. cbn [bind].
  destruct (try_cast_cont KRc A B c) as [|[e c0]]; reflexivity. Qed.
Lemma gen_cast_arc c : Gen.Alloc.cast_arc ENV A B c = unwrap_cres (try_cast_cont KArc A B c).
Proof. unfold Gen.Alloc.cast_arc. rewrite gen_try_cast_arc. cbn [bind].
  destruct (try_cast_cont KArc A B c) as [|[e c0]]; reflexivity. Qed.
Lemma gen_cast_slice_box c : Gen.Alloc.cast_slice_box ENV A B c = unwrap_cres (try_cast_cont KBoxSlice A B c).
Proof. unfold Gen.Alloc.cast_slice_box. rewrite gen_try_cast_slice_box. cbn [bind].
  destruct (try_cast_cont KBoxSlice A B c) as [|[e c0]]; reflexivity. Qed.
Lemma gen_cast_slice_rc c : Gen.Alloc.cast_slice_rc ENV A B c = unwrap_cres (try_cast_cont KRcSlice A B c).
Proof. unfold Gen.Alloc.cast_slice_rc. rewrite gen_try_cast_slice_rc. cbn [bind].
  destruct (try_cast_cont KRcSlice A B c) as [|[e c0]]; reflexivity. Qed.
Lemma gen_cast_slice_arc c : Gen.Alloc.cast_slice_arc ENV A B c = unwrap_cres (try_cast_cont KArcSlice A B c).
Proof. unfold Gen.Alloc.cast_slice_arc. rewrite gen_try_cast_slice_arc. cbn [bind].
  destruct (try_cast_cont KArcSlice A B c) as [|[e c0]]; reflexivity. Qed.
Lemma gen_cast_vec c : vec_cap_ok A c ->
  Gen.Alloc.cast_vec ENV A B c = unwrap_cres (try_cast_cont KVec A B c).
Proof. intros H. unfold Gen.Alloc.cast_vec. rewrite (gen_try_cast_vec c H). cbn [bind].
  destruct (try_cast_cont KVec A B c) as [|[e c0]]; reflexivity. Qed.
End Gen.

(* ---- the translated functions, indexed by container kind ---- *)
Definition gen_try (k : ckind) (ENV : env) (A B : ty) (c : cont) : outcome cres :=
  match k with
  | KBox => Gen.Alloc.try_cast_box ENV A B c
  | KBoxSlice => Gen.Alloc.try_cast_slice_box ENV A B c
  | KVec => Gen.Alloc.try_cast_vec ENV A B c
  | KRc => Gen.Alloc.try_cast_rc ENV A B c
  | KRcSlice => Gen.Alloc.try_cast_slice_rc ENV A B c
  | KArc => Gen.Alloc.try_cast_arc ENV A B c
  | KArcSlice => Gen.Alloc.try_cast_slice_arc ENV A B c
  end.
Definition gen_cast (k : ckind) (ENV : env) (A B : ty) (c : cont) : outcome cont :=
  match k with
  | KBox => Gen.Alloc.cast_box ENV A B c
  | KBoxSlice => Gen.Alloc.cast_slice_box ENV A B c
  | KVec => Gen.Alloc.cast_vec ENV A B c
  | KRc => Gen.Alloc.cast_rc ENV A B c
  | KRcSlice => Gen.Alloc.cast_slice_rc ENV A B c
  | KArc => Gen.Alloc.cast_arc ENV A B c
  | KArcSlice => Gen.Alloc.cast_slice_arc ENV A B c
  end.
Definition gen_pre (k : ckind) (A : ty) (c : cont) : Prop :=
  match k with KVec => vec_cap_ok A c | _ => True end.

Theorem gen_try_refines k ENV A B c : gen_pre k A c -> gen_try k ENV A B c = Ret (try_cast_cont k A B c).
Proof.
  destruct k; cbn [gen_pre gen_try]; intros H.
  - apply gen_try_cast_box. - apply gen_try_cast_slice_box. - apply gen_try_cast_vec; exact H.
  - apply gen_try_cast_rc. - apply gen_try_cast_slice_rc. - apply gen_try_cast_arc. - apply gen_try_cast_slice_arc.
Qed.

Theorem gen_cast_refines k ENV A B c : gen_pre k A c -> gen_cast k ENV A B c = unwrap_cres (try_cast_cont k A B c).
Proof.
  destruct k; cbn [gen_pre gen_cast]; intros H.
  - apply gen_cast_box. - apply gen_cast_slice_box. - apply gen_cast_vec; exact H.
  - apply gen_cast_rc. - apply gen_cast_slice_rc. - apply gen_cast_arc. - apply gen_cast_slice_arc.
Qed.

Theorem gen_try_iff k ENV A B c : wf_cont k A c -> gen_pre k A c ->
  ((exists c', gen_try k ENV A B c = Ret (Ok c')) <-> cast_ok k A B c).
Proof.
  intros Hwf Hpre. rewrite (gen_try_refines k ENV A B c Hpre).
  rewrite <- (AllocProofs.cast_iff k A B c Hwf). split; intros [c' H]; exists c'; [inversion H; reflexivity | rewrite H; reflexivity].
Qed.

Lemma err_gives_input_back k A B c e c0 : try_cast_cont k A B c = Err (e, c0) -> c0 = c.
Proof.
  destruct k; cbn [try_cast_cont]; unfold try_cast_single, try_cast_slice_cont, try_cast_vec;
    repeat match goal with |- context [if ?b then _ else _] => destruct b end;
    intros H; inversion H; reflexivity.
Qed.

(* what the theorems of C09 / C10 / C11 say, read off the translated code *)
Theorem gen_try_char k ENV A B c : wf_cont k A c -> gen_pre k A c ->
  exists r, gen_try k ENV A B c = Ret r /\ cast_outcome_ok k A B c r /\
            (forall c', r = Ok c' -> wf_cont k B c' /\ cptr c' = cptr c).
Proof.
  intros Hwf Hpre. exists (try_cast_cont k A B c). split; [apply gen_try_refines; exact Hpre|].
  split; [apply AllocProofs.try_cast_cont_char; exact Hwf|].
  intros c' Hc'. split; [eapply AllocProofs.cast_wf; eassumption|].
  destruct (AllocProofs.cast_keeps_block k A B c c' Hwf Hc') as [Hp _]. exact Hp.
Qed.

Theorem gen_twin k ENV A B c : gen_pre k A c ->
  exists r, gen_try k ENV A B c = Ret r /\
    match r with
    | Ok c' => gen_cast k ENV A B c = Ret c'
    | Err (e, c0) => gen_cast k ENV A B c = Panic (W_unwrap (EP e)) /\ c0 = c
    end.
Proof.
  intros Hpre. exists (try_cast_cont k A B c). split; [apply gen_try_refines; exact Hpre|].
  rewrite (gen_cast_refines k ENV A B c Hpre).
  destruct (try_cast_cont k A B c) as [c'|[e c0]] eqn:E; cbn [unwrap_cres]; [reflexivity|].
  split; [reflexivity|]. eapply err_gives_input_back; exact E.
Qed.

