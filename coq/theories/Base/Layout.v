(* Base/Layout.v — arithmetic facts about powers of two, alignment and exact division that the
   property proofs rest on.  All unbounded. *)
From Coq Require Import NArith ZArith List Bool String Lia.
From BM Require Import Base.Outcome Base.Prims.
Open Scope bool_scope.
Open Scope N_scope.

Lemma pow2_pos a : pow2 a -> 0 < a.
Proof.
  intros [k ->]. apply N.neq_0_lt_0. apply N.pow_nonzero. discriminate.
Qed.

Lemma pow2_neq0 a : pow2 a -> a <> 0.
Proof. intros H. apply pow2_pos in H. lia. Qed.

Lemma is_pow2_true a : pow2 a -> is_pow2 a = true.
Proof.
  intros [k ->]. unfold is_pow2.
  assert (H : 2 ^ k <> 0) by (apply N.pow_nonzero; discriminate).
  apply N.eqb_neq in H. rewrite H. cbn [negb andb].
  apply N.eqb_eq.
  replace (2 ^ k - 1) with (N.ones k).
  - rewrite N.land_ones. apply N.mod_same. apply N.pow_nonzero. discriminate.
  - rewrite N.ones_equiv. apply N.pred_sub.
Qed.

Lemma pow2_divide a b : pow2 a -> pow2 b -> b <= a -> exists q, a = q * b.
Proof.
  intros [k ->] [j ->] Hle.
  assert (Hjk : j <= k).
  { apply N.pow_le_mono_r_iff with (a := 2); [lia | exact Hle]. }
  exists (2 ^ (k - j)). rewrite <- N.pow_add_r. f_equal. lia.
Qed.

(* why the code may skip the address test when the target alignment is not greater *)
Lemma aligned_weaken a b p :
  pow2 a -> pow2 b -> b <= a -> p mod a = 0 -> p mod b = 0.
Proof.
  intros Ha Hb Hle Hp.
  destruct (pow2_divide a b Ha Hb Hle) as [q Hq].
  assert (Hb0 : b <> 0) by (apply pow2_neq0; exact Hb).
  assert (Ha0 : a <> 0) by (apply pow2_neq0; exact Ha).
  apply N.mod_divide in Hp; [|exact Ha0].
  apply N.mod_divide; [exact Hb0|].
  destruct Hp as [c Hc]. exists (c * q). subst a. lia.
Qed.

(* why the must_ casts have to refuse a greater target alignment *)
Lemma misaligned_exists a b :
  pow2 a -> pow2 b -> a < b -> exists p, p <> 0 /\ p mod a = 0 /\ p mod b <> 0 /\ p < b.
Proof.
  intros Ha Hb Hlt. exists a.
  assert (Ha0 : a <> 0) by (apply pow2_neq0; exact Ha).
  repeat split.
  - exact Ha0.
  - apply N.mod_same. exact Ha0.
  - rewrite N.mod_small by exact Hlt. exact Ha0.
  - exact Hlt.
Qed.

Lemma pow2_1 : pow2 1.
Proof. exists 0. reflexivity. Qed.

Lemma pow2_double a : pow2 a -> pow2 (2 * a).
Proof. intros [k ->]. exists (N.succ k). rewrite N.pow_succ_r'. reflexivity. Qed.

(* exact conversion of a byte count into elements of size [sb] *)
Definition convertible (bytes sb : N) : Prop :=
  if sb =? 0 then bytes = 0 else bytes mod sb = 0.

Definition convertibleb (bytes sb : N) : bool :=
  if sb =? 0 then bytes =? 0 else bytes mod sb =? 0.

Lemma convertibleb_spec bytes sb : convertibleb bytes sb = true <-> convertible bytes sb.
Proof.
  unfold convertibleb, convertible. destruct (sb =? 0); apply N.eqb_eq.
Qed.

Lemma convertible_same n s : convertible (n * s) s.
Proof.
  unfold convertible. destruct (s =? 0) eqn:E.
  - apply N.eqb_eq in E. subst. lia.
  - apply N.eqb_neq in E. apply N.mod_mul. exact E.
Qed.

Lemma div_exact_mul bytes sb : sb <> 0 -> bytes mod sb = 0 -> bytes / sb * sb = bytes.
Proof.
  intros H0 Hm. pose proof (N.div_mod bytes sb H0) as E. rewrite Hm in E. lia.
Qed.

(* the two bodies of is_aligned_to agree: for a zero-sized pointee align_offset is 0 exactly
   when the address is a multiple of the alignment *)
Lemma align_offset_zst_spec p a :
  pow2 a -> align_offset_zst p a = Ret (if addr p mod a =? 0 then 0 else USIZE_MAX).
Proof.
  intros H. unfold align_offset_zst. rewrite (is_pow2_true a H). reflexivity.
Qed.

Lemma USIZE_MAX_neq0 : (USIZE_MAX =? 0) = false.
Proof. reflexivity. Qed.

Lemma mul_div_exact n a b : b <> 0 -> a mod b = 0 -> n * a / b = n * (a / b).
Proof.
  intros Hb Hm. pose proof (div_exact_mul a b Hb Hm) as E.
  rewrite <- E at 1. rewrite N.mul_assoc. apply N.div_mul. exact Hb.
Qed.

Lemma mul_mod_exact n a b : b <> 0 -> a mod b = 0 -> (n * a) mod b = 0.
Proof.
  intros Hb Hm. pose proof (div_exact_mul a b Hb Hm) as E.
  rewrite <- E. rewrite N.mul_assoc. apply N.mod_mul. exact Hb.
Qed.

(* C14: the compile-time predicates of the must_ casts, and what they mean *)
Definition slice_infallible (A B : ty) : Prop :=
  al B <= al A /\ (sz A = 0 \/ (sz B <> 0 /\ sz A mod sz B = 0)).
Definition ref_infallible (A B : ty) : Prop := al B <= al A /\ sz A = sz B.
