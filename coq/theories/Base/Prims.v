(* Base/Prims.v — the vocabulary the translator maps Rust onto: types as (size, align),
   pointers with a provenance extent, slices, the environment (feature flags + flat memory),
   panicking arithmetic, and the pointer / reference primitives of core that the crate uses.
   Creating a reference or slice that is misaligned or reaches beyond the extent of the
   pointer it was made from is [UB] here, so "never reaches outside the source" is a
   UB-freedom theorem about the translated code. *)
From Coq Require Import NArith List Bool String Lia.
From BM Require Import Base.Outcome.
Import ListNotations.
Open Scope bool_scope.
Open Scope N_scope.

Definition USIZE : N := 2 ^ 64.
Definition USIZE_MAX : N := 2 ^ 64 - 1.
Definition ISIZE_MAX : N := 2 ^ 63 - 1.

(* a Rust type, as far as generic code can see it *)
Record ty : Type := mkTy { sz : N; al : N }.

(* a CheckedBitPattern type: itself, its Bits type, and its validity predicate on the
   little-endian bytes of a Bits value *)
Record cty : Type := mkCty { c_self :> ty; c_bits : ty; c_valid : list N -> bool }.

(* pointer = address + how many bytes may be accessed through it (provenance extent) *)
Record ptr : Type := mkPtr { addr : N; avail : N }.
Record slice : Type := mkSlice { sptr : ptr; slen : N }.

(* environment: enabled cargo features, the (flat, byte-addressed) memory, and the global
   allocator's answer to alloc_zeroed(size, align) (an oracle: 0 is the null pointer = failure) *)
Record env : Type := mkEnv { feat : string -> bool; mem : N -> N; heap : N -> N -> N }.

Definition u8_ty : ty := mkTy 1 1.
Definition unit_ty : ty := mkTy 0 1.

(* ---------- arithmetic on usize: division panics on zero, + - * panic on overflow
   (debug semantics; the theorems show the panic is unreachable, so release wrapping is
   unreachable too) ---------- *)
Definition div_m (x y : N) : outcome N := if y =? 0 then Panic W_div_zero else Ret (x / y).
Definition rem_m (x y : N) : outcome N := if y =? 0 then Panic W_div_zero else Ret (x mod y).
Definition add_m (x y : N) : outcome N := if x + y <? USIZE then Ret (x + y) else Panic W_overflow.
Definition mul_m (x y : N) : outcome N := if x * y <? USIZE then Ret (x * y) else Panic W_overflow.
Definition sub_m (x y : N) : outcome N := if y <=? x then Ret (x - y) else Panic W_overflow.

(* ---------- size / alignment queries ---------- *)
Definition size_of (T : ty) : N := sz T.
Definition align_of (T : ty) : N := al T.
(* size_of_val::<[T]>(s): the size of an existing object; cannot overflow *)
Definition size_of_val_slice (T : ty) (s : slice) : N := slen s * sz T.

(* ---------- powers of two ---------- *)
Definition is_pow2 (a : N) : bool := negb (a =? 0) && (N.land a (a - 1) =? 0).

(* <*const ()>::align_offset(a): the pointee is zero-sized, so core returns 0 when the
   address is already aligned and usize::MAX otherwise; it panics when [a] is not a power
   of two. *)
Definition align_offset_zst (p : ptr) (a : N) : outcome N :=
  if is_pow2 a then Ret (if addr p mod a =? 0 then 0 else USIZE_MAX)
  else Panic W_align_not_pow2.

(* ---------- memory ---------- *)
Fixpoint read_from (m : N -> N) (p : N) (n : nat) : list N :=
  match n with
  | O => []
  | S k => m p :: read_from m (p + 1) k
  end.
Definition read_bytes (m : N -> N) (p : N) (n : N) : list N := read_from m p (N.to_nat n).

(* ---------- making references and slices out of raw pointers ---------- *)
Definition aligned_for (T : ty) (p : ptr) : bool := addr p mod al T =? 0.

(* &*(p as *const T)  /  &mut *(p as *mut T) *)
Definition deref_as (T : ty) (p : ptr) : outcome ptr :=
  if negb (aligned_for T p) then UB U_read_misaligned
  else if negb (sz T <=? avail p) then UB U_read_oob
  else Ret (mkPtr (addr p) (sz T)).

(* core::slice::from_raw_parts{,_mut}(p as *const T, n), ptr::slice_from_raw_parts *)
Definition from_raw_parts (T : ty) (p : ptr) (n : N) : outcome slice :=
  if negb (aligned_for T p) then UB U_read_misaligned
  else if negb (n * sz T <=? avail p) then UB U_read_oob
  else Ret (mkSlice (mkPtr (addr p) (n * sz T)) n).

(* core::slice::from_ref(t) / from_mut(t) *)
Definition slice_from_ref (t : ptr) : slice := mkSlice t 1.

(* (p as *const T).read_unaligned() and .read() *)
Definition read_unaligned (E : env) (T : ty) (p : ptr) : outcome (list N) :=
  if sz T <=? avail p then Ret (read_bytes (mem E) (addr p) (sz T)) else UB U_read_oob.
Definition read_aligned (E : env) (T : ty) (p : ptr) : outcome (list N) :=
  if negb (aligned_for T p) then UB U_read_misaligned else read_unaligned E T p.

(* transmute!(v): transmute_copy(&ManuallyDrop::new(v)) — copies size_of::<Dst>() bytes out of
   the source value; reading past the source value is UB.  The two-type arm (a repr(C) union
   read) has the same meaning. *)
Definition transmute_copy (Dst : ty) (v : list N) : outcome (list N) :=
  if sz Dst <=? N.of_nat (List.length v) then Ret (firstn (N.to_nat (sz Dst)) v) else UB U_read_oob.

(* size_of::<*const T>(): one word, two when T is unsized (slice length or vtable) *)
Definition ptr_size (is_unsized : bool) : N := if is_unsized then 16 else 8.
(* transmute!(p) of a raw pointer of [sw] bytes to a pointer type of [dw] bytes: a copy of the
   pointer's words.  Equal sizes: the same pointer, metadata included.  A larger destination reads
   past the source (UB); a smaller one keeps an unspecified part of it, which the model refuses to
   give a meaning to (conservatively UB). *)
Definition transmute_ptr_m {X : Type} (sw dw : N) (p : X) : outcome X :=
  if sw =? dw then Ret p else if sw <? dw then UB U_read_oob else UB U_invalid_value.

(* pod.iter().all(|x| valid(x)) over a slice of [T]-sized elements in memory *)
Definition elems (E : env) (T : ty) (s : slice) : list (list N) :=
  map (fun i => read_bytes (mem E) (addr (sptr s) + N.of_nat i * sz T) (sz T))
      (seq 0 (N.to_nat (slen s))).
Definition all_elems (E : env) (T : ty) (s : slice) (f : list N -> bool) : bool :=
  forallb f (elems E T s).
Definition any_elems (E : env) (T : ty) (s : slice) (f : list N -> bool) : bool :=
  existsb f (elems E T s).

(* reading the pointee of a reference *)
Definition load (E : env) (T : ty) (p : ptr) : list N := read_bytes (mem E) (addr p) (sz T).

(* something_went_wrong(fn, e) *)
Definition something_went_wrong {X} (fn : string) (e : anyerr) : outcome X := Panic (W_msg fn e).

(* `let _ = Cast::<A, B>::ASSERT_X;` — a post-monomorphisation constant assertion: when the
   constant does not evaluate to `()` the instantiation does not compile. *)
Definition const_assert (name : string) (c : outcome bool) : outcome unit :=
  match c with
  | Ret true => Ret tt
  | _ => Panic (W_const_assert name)
  end.
(* assert!(c) at run time *)
Definition assert_m (b : bool) : outcome unit := if b then Ret tt else Panic W_assert.

(* ---------- well-formedness of the inputs the theorems quantify over ---------- *)
Definition pow2 (a : N) : Prop := exists k, a = 2 ^ k.

Definition wf_ty (T : ty) : Prop :=
  pow2 (al T) /\ sz T mod al T = 0 /\ sz T <= ISIZE_MAX.

(* rustc's upper bound on alignments: 2^29 *)
Definition MAX_ALIGN : N := 2 ^ 29.

(* the unsafe contract of CheckedBitPattern: Bits has the layout of Self *)
Definition wf_cty (T : cty) : Prop :=
  wf_ty T /\ wf_ty (c_bits T) /\ sz (c_bits T) = sz T /\ al (c_bits T) = al T.

(* a valid &[A]: non-null, aligned, its extent is exactly its byte size, which fits isize and
   the address space *)
Definition valid_slice (A : ty) (s : slice) : Prop :=
  addr (sptr s) <> 0 /\ addr (sptr s) mod al A = 0 /\
  avail (sptr s) = slen s * sz A /\ slen s * sz A <= ISIZE_MAX /\
  addr (sptr s) + slen s * sz A <= USIZE /\ slen s < USIZE.

Definition valid_ref (A : ty) (p : ptr) : Prop :=
  addr p <> 0 /\ addr p mod al A = 0 /\ avail p = sz A /\ addr p + sz A <= USIZE.
