(* Base/Tactics.v — generic automation for goals about translated functions: unfold the
   monadic vocabulary, split on every conditional, turn boolean tests into arithmetic,
   close with lia (div / mod via Z.div_mod_to_equations).  Proof scripts built from these
   survive harmless rewrites of the translated code (reordered tests, De Morgan, renamed
   locals), which is what lets the same scripts re-check a regenerated model. *)
From Coq Require Import NArith ZArith List Bool String Lia ZifyBool ZifyN.
From BM Require Import Base.Outcome Base.Prims Base.Layout.
Open Scope bool_scope.
Open Scope N_scope.

Ltac Zify.zify_post_hook ::= Z.div_mod_to_equations.

Arguments N.add : simpl never.
Arguments N.sub : simpl never.
Arguments N.mul : simpl never.
Arguments N.div : simpl never.
Arguments N.modulo : simpl never.
Arguments N.eqb : simpl never.
Arguments N.ltb : simpl never.
Arguments N.leb : simpl never.
Arguments N.pow : simpl never.

Ltac unfold_vocab :=
  autounfold with bm_helpers in *;
  unfold and_m, or_m, not_m, rem_m, div_m, add_m, mul_m, sub_m, const_assert, assert_m,
    something_went_wrong, deref_as, from_raw_parts, slice_from_ref, read_unaligned,
    read_aligned, transmute_copy, aligned_for, size_of_val_slice, size_of, align_of in *.

Ltac red_bind := cbn [bind sptr slen addr avail sz al fst snd negb andb orb is_ret] in *.

Ltac b2p :=
  repeat match goal with
  | H : (_ =? _) = true |- _ => apply N.eqb_eq in H
  | H : (_ =? _) = false |- _ => apply N.eqb_neq in H
  | H : (_ <? _) = true |- _ => apply N.ltb_lt in H
  | H : (_ <? _) = false |- _ => apply N.ltb_ge in H
  | H : (_ <=? _) = true |- _ => apply N.leb_le in H
  | H : (_ <=? _) = false |- _ => apply N.leb_gt in H
  | H : negb _ = true |- _ => apply negb_true_iff in H
  | H : negb _ = false |- _ => apply negb_false_iff in H
  | H : (_ && _) = true |- _ => apply andb_true_iff in H; destruct H
  | H : (_ || _) = false |- _ => apply orb_false_iff in H; destruct H
  | H : (_ && _) = false |- _ => apply andb_false_iff in H; destruct H
  | H : (_ || _) = true |- _ => apply orb_true_iff in H; destruct H
  | H : true = false |- _ => discriminate H
  | H : false = true |- _ => discriminate H
  end.

(* split on the first conditional whose test is not itself a conditional *)
Ltac split_if :=
  match goal with
  | |- context [if ?c then _ else _] =>
      lazymatch c with
      | context [if _ then _ else _] => fail
      | _ => destruct c eqn:?
      end
  | H : context [if ?c then _ else _] |- _ =>
      lazymatch c with
      | context [if _ then _ else _] => fail
      | _ => destruct c eqn:?
      end
  end.

Ltac split_all := repeat (red_bind; split_if); red_bind.

Ltac inv_ret :=
  repeat match goal with
  | H : Ret _ = Ret _ |- _ => injection H as H
  | H : Ok _ = Ok _ |- _ => injection H as H
  | H : Err _ = Err _ |- _ => injection H as H
  | H : Ret _ = Panic _ |- _ => discriminate H
  | H : Ret _ = UB _ |- _ => discriminate H
  | H : Panic _ = Ret _ |- _ => discriminate H
  | H : UB _ = Ret _ |- _ => discriminate H
  | H : Ok _ = Err _ |- _ => discriminate H
  | H : Err _ = Ok _ |- _ => discriminate H
  end.

(* establish the facts every alignment goal needs *)
Ltac pow2_facts :=
  repeat match goal with
  | H : wf_ty ?T |- _ =>
      let Hp := fresh "Hp2" in let Hm := fresh "Hmod" in let Hs := fresh "Hsz" in
      destruct H as (Hp & Hm & Hs);
      pose proof (pow2_neq0 _ Hp);
      pose proof (is_pow2_true _ Hp)
  end.

Ltac big_consts :=
  change USIZE_MAX with 18446744073709551615 in *;
  change USIZE with 18446744073709551616 in *;
  change ISIZE_MAX with 9223372036854775807 in *.

(* alignment for a smaller power of two follows from alignment for a greater one *)
Ltac weaken :=
  repeat match goal with
  | Ha : pow2 ?a, Hb : pow2 ?b, Hp : ?p mod ?a = 0 |- _ =>
      lazymatch goal with
      | _ : p mod b = 0 |- _ => fail
      | _ => assert (p mod b = 0) by (apply (aligned_weaken a b p Ha Hb); [lia | exact Hp])
      end
  end.

Ltac finish := b2p; big_consts; try (eexists; reflexivity); try lia; weaken; try lia.

Ltac div_facts :=
  repeat match goal with
  | Hy : ?y <> 0, H : ?x mod ?y = 0 |- _ =>
      lazymatch goal with
      | _ : x / y * y = x |- _ => fail
      | _ => pose proof (div_exact_mul x y Hy H)
      end
  end.

Ltac tidy :=
  repeat match goal with
  | H : is_pow2 _ = true |- _ => clear H
  | H : sz ?T mod al ?T = 0 |- _ => clear H
  end.

(* equal sizes: n * s is a multiple of s *)
Ltac same_size :=
  try match goal with
  | H : sz _ = sz _ |- _ => rewrite H in *
  end;
  try (rewrite N.mod_mul by assumption).

Ltac fin1 := b2p; weaken; div_facts; big_consts; try lia; same_size; try lia; try reflexivity.
