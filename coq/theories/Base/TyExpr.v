(* Base/TyExpr.v — the vocabulary of the generated tables (Gen/Tables.v): Rust types as far as the
   marker-trait impls mention them, impl rows, Contiguous rows, CheckedBitPattern validity rows. *)
From Coq Require Import NArith ZArith List Bool String.
Import ListNotations.
Open Scope bool_scope.

Inductive tyx : Type :=
| TLeaf (name : string)                       (* u8, bool, NonZeroU8, AtomicU8, __m128, PhantomPinned, str, dyn ... *)
| TVar (i : nat)                              (* generic parameter of the impl *)
| TApp (ctor : string) (args : list tyx)      (* Wrapping<T>, Option<T>, PhantomData<T>, Box<T>, ... *)
| TArr (elem : tyx) (len : option N)          (* [T; n]; None: a const generic length *)
| TTup (elems : list tyx)
| TPtr (mutable : bool) (t : tyx)
| TRef (mutable : bool) (t : tyx)
| TSlice (t : tyx)
| TFn (abi : string) (is_unsafe : bool) (args : list tyx) (ret : tyx).

Record rule : Type := mkRule {
  r_trait : string; r_nparams : nat;
  r_bounds : list (nat * string);      (* (parameter index, trait it is bounded by) *)
  r_unsized : list nat;                (* parameters declared ?Sized *)
  r_self : tyx; r_targs : list tyx;    (* Self type; type arguments of the trait (TransparentWrapper<Inner>) *)
  r_other_where : bool                 (* a where-clause on something that is not a plain parameter *)
}.

Record crow : Type := mkCRow { c_self_name : string; c_int : string; c_min : Z; c_max : Z; c_overrides : bool }.
Record krow : Type := mkKRow { k_self : string; k_bits : string; k_valid : N -> bool }.

(* wrapping arithmetic on w-bit unsigned values *)
Definition wsub (w : nat) (a b : N) : N := ((a + 2 ^ N.of_nat w - b mod 2 ^ N.of_nat w) mod 2 ^ N.of_nat w)%N.
Definition wadd (w : nat) (a b : N) : N := ((a + b) mod 2 ^ N.of_nat w)%N.
