(* Base/Own.v — owning containers and the allocator ledger (vocabulary for src/allocation.rs). *)
From Coq Require Import NArith List Bool String.
From BM Require Import Base.Outcome Base.Prims.
Import ListNotations.
Open Scope bool_scope.
Open Scope N_scope.

(* a memory layout: size and alignment *)
Record layout : Type := mkLayout { l_size : N; l_align : N }.
