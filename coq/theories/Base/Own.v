(* Base/Own.v — owning containers and the allocator ledger (vocabulary for src/allocation.rs). *)
From Coq Require Import NArith List Bool String.
From BM Require Import Base.Outcome Base.Prims.
Import ListNotations.
Open Scope bool_scope.
Open Scope N_scope.

(* a memory layout: size and alignment *)
Record layout : Type := mkLayout { l_size : N; l_align : N }.

(* an owning container (Box<T>, Box<[T]>, Vec<T>, Rc<T>, Rc<[T]>, Arc<T>, Arc<[T]>) as the allocator
   and the caller see it: data pointer, length, capacity.  `Box::into_raw` / `Vec::as_mut_ptr`
   followed by a pointer cast and `from_raw` / `from_raw_parts` hand the SAME block back under a new
   element type; the translator keeps the container through that round trip. *)
Record cont : Type := mkCont { cptr : N; clen : N; ccap : N }.

(* core::slice::from_raw_parts_mut(p as *mut B, n) on a container's buffer: a slice container of n
   elements (slice containers have capacity = length) *)
Definition cont_resize (c : cont) (n : N) : cont := mkCont (cptr c) n n.
(* Vec::from_raw_parts(p, len, cap) *)
Definition cont_set (c : cont) (len cap : N) : cont := mkCont (cptr c) len cap.

(* BoxBytes: an owned byte block and the layout it was allocated with *)
Record boxbytes : Type := mkBB { bb_ptr : N; bb_layout : layout }.
(* Box::from_raw(address as *mut T): a Box of one T *)
Definition cont_of_addr (p : N) : cont := mkCont p 1 1.

(* ---- the zero-initialising allocators ---- *)
(* NonNull::dangling(): not an address of the model's memory, a marker for "nothing allocated" *)
Definition DANGLING : N := 2 ^ 64.
(* alloc::alloc::alloc_zeroed(layout): the allocator's answer comes from the environment *)
Definition alloc_zeroed_m (E : env) (l : layout) : N := heap E (l_size l) (l_align l).
(* Layout::array::<T>(n): Err when n * size, rounded up to the alignment, exceeds isize::MAX *)
Definition layout_array_m (T : ty) (n : N) : result layout unit :=
  if n * sz T <=? ISIZE_MAX - (al T - 1) then Ok (mkLayout (n * sz T) (al T)) else Err tt.
(* Vec::new(): no allocation; a Vec of zero-sized elements reports capacity usize::MAX *)
Definition vec_new (T : ty) : cont := mkCont DANGLING 0 (if sz T =? 0 then USIZE_MAX else 0).
(* Box<[T]>::into_vec(): the same block, capacity = length *)
Definition box_into_vec (T : ty) (c : cont) : cont :=
  mkCont (cptr c) (clen c) (if sz T =? 0 then USIZE_MAX else clen c).

(* ---- a Vec<T> together with its contents (pod_collect_to_vec builds and fills one) ---- *)
Record bvec : Type := mkBV { bv_len : N; bv_bytes : list N }.
Definition bvec_empty : bvec := mkBV 0 [].                          (* Vec::new() *)
(* vec![T::zeroed(); n]: n all-zero elements; std panics ("capacity overflow") above isize::MAX bytes *)
Definition vec_zeroed (T : ty) (n : N) : outcome bvec :=
  if n * sz T <=? ISIZE_MAX then Ret (mkBV n (repeat 0 (N.to_nat (n * sz T)))) else Panic W_overflow.
(* &mut v[..]: the vector's buffer as a slice; std places it at a non-null address aligned for T (the
   model takes the least one).  The buffer is not part of the flat memory [mem]: its contents are [bv_bytes] *)
Definition bvec_slice (T : ty) (v : bvec) : slice :=
  mkSlice (mkPtr (al T) (bv_len v * sz T)) (bv_len v).
(* view[..n].copy_from_slice(src), [view] being the byte view of the whole vector: the index panics
   when n exceeds the view, copy_from_slice when the lengths differ *)
Definition bvec_copy_prefix (E : env) (v : bvec) (n : N) (src : slice) : outcome bvec :=
  if negb (n <=? N.of_nat (List.length (bv_bytes v))) then Panic W_index
  else if negb (slen src =? n) then Panic W_assert
  else Ret (mkBV (bv_len v) (read_bytes (mem E) (addr (sptr src)) n ++ skipn (N.to_nat n) (bv_bytes v))).
