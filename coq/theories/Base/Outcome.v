(* Base/Outcome.v — the result monad of the model: panics and undefined behaviour are
   values, never hidden.  Every translated Rust function returns an [outcome]. *)
From Coq Require Import NArith List Bool String.
Import ListNotations.
Open Scope bool_scope.
Open Scope N_scope.

(* bytemuck::PodCastError, in declaration order *)
Inductive perr : Type :=
| TargetAlignmentGreaterAndInputNotAligned
| OutputSliceWouldHaveSlop
| SizeMismatch
| AlignmentMismatch.

(* bytemuck::checked::CheckedCastError *)
Inductive cerr : Type :=
| PodCastError (e : perr)
| InvalidBitPattern.

Inductive anyerr : Type := EP (e : perr) | EC (e : cerr) | EUnit.

Inductive result (T E : Type) : Type := Ok (t : T) | Err (e : E).
Arguments Ok {T E} t.
Arguments Err {T E} e.

(* why a panic happened *)
Inductive why : Type :=
| W_div_zero                       (* `/` or `%` by zero *)
| W_overflow                       (* debug-mode arithmetic overflow *)
| W_unreachable                    (* unreachable!() *)
| W_assert                         (* assert!(false) at run time *)
| W_unwrap (e : anyerr)            (* Result::unwrap on Err / Option::unwrap on None *)
| W_index                          (* slice index out of range *)
| W_msg (fn : string) (e : anyerr) (* something_went_wrong(fn, e) *)
| W_const_assert (name : string)   (* post-monomorphisation const assertion: a compile error *)
| W_align_not_pow2                 (* align_offset with a non-power-of-two alignment *)
| W_nocfg.                         (* no cfg arm selected *)

(* why behaviour is undefined *)
Inductive ubwhy : Type :=
| U_read_oob                       (* transmute_copy / read past the end of the source *)
| U_read_misaligned                (* ptr::read of a misaligned address *)
| U_bad_dealloc                    (* dealloc of a non-live block or with another layout *)
| U_bad_adopt                      (* from_raw of something that is not an owned live block of that layout *)
| U_invalid_value.                 (* producing an invalid value of the target type *)

Inductive outcome (X : Type) : Type :=
| Ret (x : X)
| Panic (w : why)
| UB (u : ubwhy).
Arguments Ret {X} x.
Arguments Panic {X} w.
Arguments UB {X} u.

Definition bind {X Y} (o : outcome X) (f : X -> outcome Y) : outcome Y :=
  match o with
  | Ret x => f x
  | Panic w => Panic w
  | UB u => UB u
  end.

Notation "x <- e ;; k" := (bind e (fun x => k))
  (at level 61, e at next level, right associativity).
Notation "' p <- e ;; k" := (bind e (fun p => k))
  (at level 61, p pattern, e at next level, right associativity).

(* Rust's short-circuit operators on possibly-panicking operands.  Gallina is pure, so
   evaluating the second operand eagerly is harmless: its panic is only *selected* when the
   first operand lets it through. *)
Definition and_m (x y : outcome bool) : outcome bool :=
  b <- x ;; if b then y else Ret false.
Definition or_m (x y : outcome bool) : outcome bool :=
  b <- x ;; if b then Ret true else y.
Definition not_m (x : outcome bool) : outcome bool :=
  b <- x ;; Ret (negb b).

Definition is_ret {X} (o : outcome X) : bool :=
  match o with Ret _ => true | _ => false end.

Lemma bind_ret_l {X Y} (x : X) (f : X -> outcome Y) : bind (Ret x) f = f x.
Proof. reflexivity. Qed.

Lemma bind_ret_r {X} (o : outcome X) : bind o (fun x => Ret x) = o.
Proof. destruct o; reflexivity. Qed.

Lemma bind_ret_inv {X Y} (o : outcome X) (f : X -> outcome Y) (y : Y) :
  bind o f = Ret y -> exists x, o = Ret x /\ f x = Ret y.
Proof. destruct o; simpl; intros H; try discriminate. eauto. Qed.

(* private helper functions of the translated code register themselves here (Hint Unfold ... : bm_helpers,
   written by the translator); the generic tactics unfold them, so that a proof about a function survives
   the extraction of part of its body into a helper *)
Create HintDb bm_helpers.
