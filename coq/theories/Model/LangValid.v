(* Model/LangValid.v — which bit patterns are valid values of the types a checked cast can
   target, as the Rust reference defines them: bool is 0 or 1, char is a Unicode scalar value,
   NonZero* is not 0, everything that is AnyBitPattern admits every pattern.  Trusted reading of
   the language (DESIGN.md §4.1), used as the specification for C07. *)
From Coq Require Import NArith List Bool Lia.
Import ListNotations.
Open Scope bool_scope.
Open Scope N_scope.

(* little-endian value of a byte list *)
Fixpoint le_value (bs : list N) : N :=
  match bs with
  | [] => 0
  | b :: r => b + 256 * le_value r
  end.

Definition lang_valid_bool (v : N) : bool := v <? 2.
(* a Unicode scalar value: at most 0x10FFFF and not a surrogate 0xD800..0xDFFF *)
Definition lang_valid_char (v : N) : bool := (v <=? 1114111) && negb ((55296 <=? v) && (v <=? 57343)).
Definition lang_valid_nonzero (v : N) : bool := negb (v =? 0).

(* core::char::from_u32(v).is_some() *)
Definition is_scalar_value (v : N) : bool := (v <? 55296) || ((57343 <? v) && (v <? 1114112)).

Lemma is_scalar_value_spec v : is_scalar_value v = lang_valid_char v.
Proof.
  unfold is_scalar_value, lang_valid_char.
  destruct (v <? 55296) eqn:E1, (57343 <? v) eqn:E2, (v <? 1114112) eqn:E3,
           (v <=? 1114111) eqn:E4, (55296 <=? v) eqn:E5, (v <=? 57343) eqn:E6; cbn; try reflexivity;
  repeat match goal with
  | H : (_ <? _) = true |- _ => apply N.ltb_lt in H
  | H : (_ <? _) = false |- _ => apply N.ltb_ge in H
  | H : (_ <=? _) = true |- _ => apply N.leb_le in H
  | H : (_ <=? _) = false |- _ => apply N.leb_gt in H
  end; lia.
Qed.

(* the valid chars are exactly the two intervals [0, 0xD7FF] and [0xE000, 0x10FFFF] *)
Theorem valid_char_intervals v :
  lang_valid_char v = true <-> (v <= 55295 \/ (57344 <= v /\ v <= 1114111)).
Proof.
  unfold lang_valid_char. rewrite andb_true_iff, negb_true_iff, andb_false_iff, N.leb_le, !N.leb_gt. lia.
Qed.

(* kinds of checked target used by the correspondence harness *)
Definition valid_kind (k : N) (bs : list N) : bool :=
  match k with
  | 0 => true                                   (* any bit pattern *)
  | 1 => lang_valid_bool (le_value bs)          (* bool *)
  | 2 => lang_valid_char (le_value bs)          (* char *)
  | _ => lang_valid_nonzero (le_value bs)       (* NonZero* *)
  end.
