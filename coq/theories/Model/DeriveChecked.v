(* Model/DeriveChecked.v — hand-written model for C08: the types that derive CheckedBitPattern
   (leaves, #[repr(C)] structs with packed/align modifiers, enums with fields under repr(C),
   repr(int), repr(C, int)), their layout by the reference's rules, the layout of the `Bits` type the
   macro generates for them, and validity of a byte image.  Tied to the code by the derivefam
   correspondence (compiler's size_of / align_of of T and T::Bits, is_valid_bit_pattern on generated
   byte images, the checked casts). *)
From Coq Require Import NArith ZArith List Bool Lia.
From BM Require Import Model.ReprC Model.LangValid Model.DeriveEnum.
Import ListNotations.
Open Scope bool_scope.
Open Scope N_scope.

Inductive leafk : Type := LAny | LBool | LChar | LNonZero.

Inductive cty : Type :=
| CLeaf (size align : N) (k : leafk)
| CStruct (packed align : N) (fields : list cty)
(* enum: 1 = repr(C) (tag is c_int), 2 = repr(int), 3 = repr(C, int); tag size; align(N) modifier (0: none);
   variants = (discriminant, fields) *)
| CEnum (rk : N) (tagsize : N) (ealign : N) (tag_signed : bool) (variants : list (Z * list cty)).

(* ---- layout (size, align) by the reference's rules ---- *)
Fixpoint lay (t : cty) : N * N :=
  match t with
  | CLeaf s a _ => (s, a)
  | CStruct p al fs =>
      let l := layout_C p al (map (fun f => let '(s, a) := lay f in mkFld s a) fs) in (lc_size l, lc_align l)
  | CEnum rk ts ea _ vs =>
      let tag := mkFld ts ts in
      let vlay (fs : list cty) (with_tag : bool) :=
        layout_C 0 0 ((if with_tag then [tag] else []) ++ map (fun f => let '(s, a) := lay f in mkFld s a) fs) in
      if rk =? 2 then
        (* repr(int): a union of repr(C) structs, each starting with the tag *)
        let ls := map (fun v => vlay (snd v) true) vs in
        let a := N.max ea (fold_right (fun l m => N.max (lc_align l) m) ts ls) in
        (round_up (fold_right (fun l m => N.max (lc_size l) m) ts ls) a, a)
      else
        (* repr(C) / repr(C, int): struct { tag, union of the variants' repr(C) structs } *)
        let ls := map (fun v => vlay (snd v) false) vs in
        let ua := fold_right (fun l m => N.max (lc_align l) m) 1 ls in
        let us := round_up (fold_right (fun l m => N.max (lc_size l) m) 0 ls) ua in
        let l := layout_C 0 ea [tag; mkFld us ua] in (lc_size l, lc_align l)
  end.

(* ---- the Bits type the macro generates: the same shape with every leaf replaced by its Bits
   (an any-bit-pattern type of the same size and alignment) ---- *)
Fixpoint bits_of (t : cty) : cty :=
  match t with
  | CLeaf s a _ => CLeaf s a LAny
  | CStruct p al fs => CStruct p al (map bits_of fs)
  | CEnum rk ts ea sg vs => CEnum rk ts ea sg (map (fun v => (fst v, map bits_of (snd v))) vs)
  end.

Section CtyInd.
  Variable P : cty -> Prop.
  Hypothesis Hl : forall s a k, P (CLeaf s a k).
  Hypothesis Hs : forall p al fs, Forall P fs -> P (CStruct p al fs).
  Hypothesis He : forall rk ts ea sg vs, Forall (fun v => Forall P (snd v)) vs -> P (CEnum rk ts ea sg vs).
  Fixpoint cty_ind' (t : cty) : P t :=
    match t with
    | CLeaf s a k => Hl s a k
    | CStruct p al fs => Hs p al fs ((fix go (l : list cty) : Forall P l :=
        match l with [] => Forall_nil P | x :: r => Forall_cons x (cty_ind' x) (go r) end) fs)
    | CEnum rk ts ea sg vs => He rk ts ea sg vs ((fix gov (l : list (Z * list cty)) : Forall (fun v => Forall P (snd v)) l :=
        match l with
        | [] => Forall_nil _
        | v :: r => Forall_cons v ((fix go (l : list cty) : Forall P l :=
                       match l with [] => Forall_nil P | x :: q => Forall_cons x (cty_ind' x) (go q) end) (snd v)) (gov r)
        end) vs)
    end.
End CtyInd.

Lemma map_lay_bits fs : Forall (fun t => lay (bits_of t) = lay t) fs ->
  map (fun f => let '(s, a) := lay f in mkFld s a) (map bits_of fs) = map (fun f => let '(s, a) := lay f in mkFld s a) fs.
Proof. induction 1 as [|t r Ht _ IH]; cbn; [reflexivity | rewrite Ht, IH; reflexivity]. Qed.

(* C08: the generated Bits type has the size and alignment of the type itself — any nesting depth,
   any number of fields and variants, any packing *)
Theorem bits_same_layout t : lay (bits_of t) = lay t.
Proof.
  induction t using cty_ind'; cbn [bits_of lay].
  - reflexivity.
  - rewrite (map_lay_bits fs H). reflexivity.
  - assert (E : forall (wt : bool),
      map (fun v : Z * list cty => layout_C 0 0 ((if wt then [mkFld ts ts] else []) ++
             map (fun f => let '(s, a) := lay f in mkFld s a) (snd v)))
          (map (fun v => (fst v, map bits_of (snd v))) vs) =
      map (fun v : Z * list cty => layout_C 0 0 ((if wt then [mkFld ts ts] else []) ++
             map (fun f => let '(s, a) := lay f in mkFld s a) (snd v))) vs).
    { intros wt. induction H as [|v r Hv _ IH]; cbn; [reflexivity|]. rewrite (map_lay_bits (snd v) Hv), IH. reflexivity. }
    rewrite (E true), (E false). reflexivity.
Qed.

(* ---- validity of a byte image ---- *)
Definition leaf_valid (k : leafk) (bs : list N) : bool :=
  match k with
  | LAny => true
  | LBool => lang_valid_bool (le_value bs)
  | LChar => lang_valid_char (le_value bs)
  | LNonZero => lang_valid_nonzero (le_value bs)
  end.

Definition slice_bytes (bs : list N) (off len : N) : list N := firstn (N.to_nat len) (skipn (N.to_nat off) bs).

(* the tag as a signed or unsigned integer of [ts] bytes *)
Definition tag_value (signed : bool) (ts : N) (bs : list N) : Z :=
  let u := Z.of_N (le_value (slice_bytes bs 0 ts)) in
  if signed && (2 ^ (8 * Z.of_N ts - 1) <=? u)%Z then (u - 2 ^ (8 * Z.of_N ts))%Z else u.

Fixpoint valid (fuel : nat) (signed : bool) (t : cty) (bs : list N) {struct fuel} : bool :=
  match fuel with
  | O => false
  | S k =>
      match t with
      | CLeaf s _ lk => leaf_valid lk (slice_bytes bs 0 s)
      | CStruct p al fs =>
          let flds := map (fun f => let '(s, a) := lay f in mkFld s a) fs in
          let offs := lc_offsets (layout_C p al flds) in
          forallb (fun fo => valid k signed (fst fo) (slice_bytes bs (snd fo) (fst (lay (fst fo))))) (combine fs offs)
      | CEnum rk ts _ sg vs =>
          let tag := tag_value sg ts bs in   (* each enum reads its tag with the signedness of its own repr *)
          match find (fun v => (fst v =? tag)%Z) vs with
          | None => false
          | Some v =>
              let flds := map (fun f => let '(s, a) := lay f in mkFld s a) (snd v) in
              if rk =? 2 then
                let offs := tl (lc_offsets (layout_C 0 0 (mkFld ts ts :: flds))) in
                forallb (fun fo => valid k signed (fst fo) (slice_bytes bs (snd fo) (fst (lay (fst fo))))) (combine (snd v) offs)
              else
                let ls := map (fun w => layout_C 0 0 (map (fun f => let '(s, a) := lay f in mkFld s a) (snd w))) vs in
                let ua := fold_right (fun l m => N.max (lc_align l) m) 1 ls in
                let pay := round_up ts ua in
                let offs := lc_offsets (layout_C 0 0 flds) in
                forallb (fun fo => valid k signed (fst fo) (slice_bytes bs (pay + snd fo) (fst (lay (fst fo))))) (combine (snd v) offs)
          end
      end
  end.

(* validity never looks at the leaf kinds' bytes of the Bits type: every image is a valid Bits value
   as far as leaves are concerned (Bits is AnyBitPattern) *)
Lemma leaf_bits_valid bs : leaf_valid LAny bs = true.
Proof. reflexivity. Qed.

(* the Bits of a Bits type is itself: the macro's construction is a projection onto the
   any-bit-pattern shapes (so `<T::Bits as CheckedBitPattern>::Bits` adds nothing) *)
Lemma map_id_Forall {A} (f : A -> A) l : Forall (fun x => f x = x) l -> map f l = l.
Proof. induction 1 as [|x r Hx _ IH]; cbn [map]; [reflexivity | rewrite Hx, IH; reflexivity]. Qed.

Theorem bits_of_idempotent t : bits_of (bits_of t) = bits_of t.
Proof.
  induction t as [s a k | p al fs IH | rk ts ea sg vs IH] using cty_ind'; cbn [bits_of].
  - reflexivity.
  - rewrite map_map. f_equal. apply map_ext_Forall. exact IH.
  - rewrite map_map. f_equal. apply map_ext_Forall.
    induction IH as [|v r Hv _ IHr]; constructor; [|exact IHr].
    cbn [fst snd]. f_equal. rewrite map_map. apply map_ext_Forall. exact Hv.
Qed.
