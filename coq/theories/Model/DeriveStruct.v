(* Model/DeriveStruct.v — hand-written model of what the derive macros decide for a struct or
   union (derive/src/traits.rs: Pod, NoUninit, AnyBitPattern, Zeroable, TransparentWrapper), INCLUDING
   the meaning of the compile-time assertions they emit, and — separately — the contract each
   trait documents.  Tied to the code by the derivefam correspondence run (real rustc verdicts).
   A definition is described by what the decision can depend on: kind, merged repr, generics,
   whether its name captures an identifier the macro generates, and per field: size, alignment,
   which markers the field type has. *)
From Coq Require Import NArith List Bool Lia.
From BM Require Import Model.ReprC.
Import ListNotations.
Open Scope bool_scope.
Open Scope N_scope.

Inductive derive : Type := DPod | DNoUninit | DAnyBitPattern | DZeroable | DTransparentWrapper.
Inductive skind : Type := KNamed | KTuple | KUnit | KUnion.

Record sfield : Type := mkSF {
  sf_size : N; sf_align : N;
  sf_pod : bool; sf_zeroable : bool; sf_nouninit : bool; sf_anybits : bool;
  sf_param : bool;      (* the field's type is a generic type parameter of the definition *)
  sf_lifetime : bool;   (* the field's type mentions a non-'static lifetime parameter *)
  sf_wrapped : bool     (* TransparentWrapper: the field's type is spelled like the wrapped type *)
}.

Record sdef : Type := mkSD {
  sd_kind : skind;
  sd_C : bool; sd_transparent : bool; sd_packed : N; sd_align : N;     (* merged repr; 0 = absent *)
  sd_generics : bool;        (* has generic parameters of any kind *)
  sd_captures_padding_name : bool;   (* the type is called `TypeWithoutPadding` *)
  sd_tw_attr : bool;         (* a #[transparent(T)] attribute names the wrapped type *)
  sd_fields : list sfield
}.

Definition total_size (d : sdef) : N := fold_right (fun f a => sf_size f + a) 0 (sd_fields d).
Definition is_union (d : sdef) : bool := match sd_kind d with KUnion => true | _ => false end.

(* a type parameter bounded by the derived trait qualifies; a field mentioning a lifetime parameter
   cannot satisfy a trait that requires 'static *)
Definition fld_ok (needs_static : bool) (marker : sfield -> bool) (f : sfield) : bool :=
  (marker f || sf_param f) && negb (needs_static && sf_lifetime f).

(* ---- what the macro accepts.  [size_of_T]: what size_of::<T>() is for the compiler (the emitted
   padding assertion compares it with the sum of the field sizes — unless the user's type captured
   the name of the local helper type, in which case the assertion compares the helper with itself) ---- *)
(* the assertion as the pinned tree emitted it: through a local helper struct named
   `TypeWithoutPadding`, which a user type of that name captured (the repaired defect) *)
Definition padding_assert_passes_pinned (d : sdef) (size_of_T : N) : bool :=
  sd_captures_padding_name d || (size_of_T =? total_size d).
(* the repaired assertion: transmute to a byte array, no name involved *)
Definition padding_assert_passes (d : sdef) (size_of_T : N) : bool := size_of_T =? total_size d.

Definition derive_accepts (dv : derive) (d : sdef) (size_of_T : N) : bool :=
  match dv with
  | DPod =>
      let cp := (sd_packed d =? 1) || sd_transparent d in
      (sd_C d || sd_transparent d) && (cp || negb (sd_generics d)) && negb (is_union d) &&
      (cp || padding_assert_passes d size_of_T) && forallb (fld_ok true sf_pod) (sd_fields d)
  | DNoUninit =>
      negb (is_union d) && (sd_C d || sd_transparent d) && negb (sd_generics d) &&
      padding_assert_passes d size_of_T && forallb (fld_ok true sf_nouninit) (sd_fields d)
  | DAnyBitPattern =>
      if is_union d then negb (existsb sf_lifetime (sd_fields d))
      else forallb (fld_ok true sf_anybits) (sd_fields d)
  | DZeroable =>
      if is_union d then true else forallb (fld_ok false sf_zeroable) (sd_fields d)
  | DTransparentWrapper =>
      sd_transparent d && negb (is_union d) &&
      (sd_tw_attr d || (N.of_nat (length (sd_fields d)) =? 1)) &&
      (N.of_nat (length (filter sf_wrapped (sd_fields d))) =? 1) &&
      forallb (fun f => sf_wrapped f || ((sf_size f =? 0) && (sf_align f =? 1) && (sf_zeroable f || sf_param f))) (sd_fields d)
  end.

(* ---- what each trait's contract demands of the type (independent of the macro): judged on the
   COMPILER's size, so that the monitor does not depend on the layout model ---- *)
Definition defined_layout (d : sdef) : bool := sd_C d || sd_transparent d.
Definition no_padding (d : sdef) (size_of_T : N) : bool := size_of_T =? total_size d.

Definition contract_ok (dv : derive) (d : sdef) (size_of_T : N) : bool :=
  match dv with
  | DPod => negb (is_union d) && defined_layout d && no_padding d size_of_T && forallb (fld_ok true sf_pod) (sd_fields d)
  | DNoUninit => negb (is_union d) && defined_layout d && no_padding d size_of_T && forallb (fld_ok true sf_nouninit) (sd_fields d)
  | DAnyBitPattern => is_union d || forallb (fld_ok true sf_anybits) (sd_fields d)
  | DZeroable => is_union d || forallb (fld_ok false sf_zeroable) (sd_fields d)
  | DTransparentWrapper =>
      sd_transparent d && negb (is_union d) && (N.of_nat (length (filter sf_wrapped (sd_fields d))) =? 1) &&
      forallb (fun f => sf_wrapped f || ((sf_size f =? 0) && (sf_align f =? 1) && (sf_zeroable f || sf_param f))) (sd_fields d)
  end.

(* the documented requirements of each derive (rustdoc of derive/src/lib.rs): if they are met the
   derive must be accepted *)
Definition documented_ok (dv : derive) (d : sdef) (size_of_T : N) : bool :=
  match dv with
  | DPod => negb (is_union d) && defined_layout d && no_padding d size_of_T && forallb (fld_ok true sf_pod) (sd_fields d) &&
            (negb (sd_generics d) || sd_transparent d || (sd_packed d =? 1))
  | DNoUninit => negb (is_union d) && defined_layout d && no_padding d size_of_T && forallb (fld_ok true sf_nouninit) (sd_fields d) &&
                 negb (sd_generics d)
  | DAnyBitPattern => if is_union d then negb (existsb sf_lifetime (sd_fields d)) else forallb (fld_ok true sf_anybits) (sd_fields d)
  | DZeroable => is_union d || forallb (fld_ok false sf_zeroable) (sd_fields d)
  | DTransparentWrapper => contract_ok DTransparentWrapper d size_of_T && (sd_tw_attr d || (N.of_nat (length (sd_fields d)) =? 1))
  end.

(* ---- what rustc itself guarantees about an accepted definition ---- *)
Definition to_fld (f : sfield) : fld := mkFld (sf_size f) (sf_align f).
Definition rustc_size (d : sdef) (sz : N) : Prop :=
  (* repr(transparent): at most one field is not a 1-aligned ZST, and the type has its layout *)
  (sd_transparent d = true -> sz = total_size d) /\
  (* repr(C): the reference's algorithm (Model/ReprC.v); packed and align cannot be combined (E0587) *)
  (sd_transparent d = false -> sd_C d = true -> is_union d = false ->
     sz = lc_size (layout_C (sd_packed d) (sd_align d) (map to_fld (sd_fields d))) /\
     (sd_packed d <> 0 -> sd_align d = 0)).

Lemma round_up_1 n : round_up n 1 = n.
Proof. unfold round_up. cbn. rewrite N.add_sub, N.div_1_r, N.mul_1_r. reflexivity. Qed.

Lemma cap1 a : a <> 0 -> cap 1 a = 1.
Proof. intros H. unfold cap. cbn. lia. Qed.

Lemma place_packed1 fs : Forall (fun f => f_align f <> 0) fs -> forall off, snd (place 1 off fs) = off + sum_sizes fs.
Proof.
  induction 1 as [|f r Hf _ IH]; intros off; cbn [place sum_sizes fold_right snd]; [lia|].
  rewrite (cap1 _ Hf), round_up_1.
  destruct (place 1 (off + f_size f) r) as [os e] eqn:E. cbn [snd].
  specialize (IH (off + f_size f)). rewrite E in IH. cbn [snd] in IH. fold (sum_sizes r). lia.
Qed.

Lemma struct_align_packed1 fs : Forall (fun f => f_align f <> 0) fs -> struct_align 1 0 fs = 1.
Proof.
  intros H. unfold struct_align. cbn [N.eqb]. 
  assert (E : fold_right (fun f a => N.max (cap 1 (f_align f)) a) 1 fs = 1).
  { induction H as [|f r Hf _ IH]; cbn [fold_right]; [reflexivity|]. rewrite (cap1 _ Hf), IH. reflexivity. }
  rewrite E. reflexivity.
Qed.

(* a completely packed repr(C) struct has no padding *)
Theorem packed1_no_padding fs : Forall (fun f => f_align f <> 0) fs -> lc_size (layout_C 1 0 fs) = sum_sizes fs.
Proof.
  intros H. unfold layout_C. pose proof (place_packed1 fs H 0) as Hp.
  destruct (place 1 0 fs) as [os e]. cbn [snd] in Hp. cbn [lc_size]. rewrite (struct_align_packed1 fs H), round_up_1. lia.
Qed.

Lemma total_size_sum d : total_size d = sum_sizes (map to_fld (sd_fields d)).
Proof. unfold total_size, sum_sizes. induction (sd_fields d) as [|f r IH]; cbn; [reflexivity | rewrite IH; reflexivity]. Qed.

Definition aligns_pos (d : sdef) : Prop := Forall (fun f => sf_align f <> 0) (sd_fields d).

(* ---- soundness of the macro's decision: whatever it accepts (and rustc then compiles) meets the
   trait's contract, whatever the type is called.  (For the pinned tree this needed the proviso that
   the name does not capture the assertion's helper type: see padding_name_capture_refuted.) ---- *)
Theorem accepts_sound dv d sz :
  aligns_pos d -> rustc_size d sz ->
  derive_accepts dv d sz = true -> contract_ok dv d sz = true.
Proof.
  intros Hal [Htr HC].
  destruct dv; unfold derive_accepts, contract_ok, padding_assert_passes, defined_layout, no_padding.
  - rewrite !andb_true_iff. intros ((((H1 & H2) & H3) & H4) & H5).
    assert (Hsz : (sz =? total_size d) = true).
    { destruct (sd_transparent d) eqn:Et.
      - apply N.eqb_eq. apply Htr. reflexivity.
      - destruct (sd_packed d =? 1) eqn:Ep; [|cbn [orb] in H4; exact H4].
        apply N.eqb_eq in Ep. apply N.eqb_eq.
        rewrite orb_false_r in H1. apply negb_true_iff in H3.
        destruct (HC eq_refl H1 H3) as [Hs Ha]. rewrite Hs, Ep, Ha by lia.
        rewrite total_size_sum. apply packed1_no_padding.
        unfold aligns_pos in Hal. rewrite Forall_map. exact Hal. }
    repeat split; assumption.
  - rewrite !andb_true_iff. intros ((((H1 & H2) & H3) & H4) & H5). repeat split; assumption.
  - destruct (is_union d); [reflexivity | intros H; exact H].
  - destruct (is_union d); [reflexivity | intros H; exact H].
  - rewrite !andb_true_iff. intros ((((H1 & H2) & H3) & H4) & H5). repeat split; assumption.
Qed.

(* ---- completeness: a definition that meets the documented requirements is accepted ---- *)
Theorem accepts_complete dv d sz : documented_ok dv d sz = true -> derive_accepts dv d sz = true.
Proof.
  destruct dv; unfold documented_ok, derive_accepts, contract_ok, padding_assert_passes, defined_layout, no_padding.
  - rewrite !andb_true_iff. intros ((((H1 & H2) & H3) & H4) & H5). rewrite H3, orb_true_r.
    repeat split; try assumption.
    rewrite orb_true_iff in H5. rewrite orb_true_iff. destruct H5 as [H5|H5].
    + rewrite orb_true_iff in H5. destruct H5 as [H5|H5]; [right; exact H5 | left; rewrite H5; apply orb_true_r].
    + left. rewrite H5. reflexivity.
  - rewrite !andb_true_iff. intros ((((H1 & H2) & H3) & H4) & H5). repeat split; assumption.
  - intros H; exact H.
  - destruct (is_union d); [reflexivity | intros H; exact H].
  - rewrite !andb_true_iff. intros ((((H1 & H2) & H3) & H4) & H5). repeat split; assumption.
Qed.

(* ---- the defect the pinned derive had: a padded #[repr(C)] struct called `TypeWithoutPadding`
   passed the padding assertion of derive(Pod) / derive(NoUninit) although it has a padding byte ---- *)
Definition capture_witness : sdef :=
  mkSD KNamed true false 0 0 false true false
       [mkSF 1 1 true true true true false false false; mkSF 2 2 true true true true false false false].

Theorem padding_name_capture_refuted :
  let sz := lc_size (layout_C 0 0 (map to_fld (sd_fields capture_witness))) in
  sz = 4 /\ total_size capture_witness = 3 /\
  padding_assert_passes_pinned capture_witness sz = true /\ contract_ok DPod capture_witness sz = false /\
  contract_ok DNoUninit capture_witness sz = false /\
  (* the repaired assertion refuses it *)
  derive_accepts DPod capture_witness sz = false /\ derive_accepts DNoUninit capture_witness sz = false.
Proof. repeat split; vm_compute; reflexivity. Qed.
