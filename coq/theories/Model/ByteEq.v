(* Model/ByteEq.v — ByteEq / ByteHash (derive/src/lib.rs): equality is equality of the two values'
   byte strings; hashing feeds exactly the byte string to the hasher in ONE write (Hash::hash_slice
   for u8), for a value as for a slice of values.  The hasher is a section variable: the laws hold
   for every Hasher.  Thin by nature; the assurance is mostly the correspondence run. *)
From Coq Require Import NArith List Bool.
Import ListNotations.

Definition bytes := list N.
Definition byte_eq (a b : bytes) : bool := if list_eq_dec N.eq_dec a b then true else false.

Lemma byte_eq_spec a b : byte_eq a b = true <-> a = b.
Proof. unfold byte_eq. destruct (list_eq_dec N.eq_dec a b); split; intros H; congruence. Qed.

Theorem byte_eq_refl a : byte_eq a a = true.
Proof. apply byte_eq_spec. reflexivity. Qed.
Theorem byte_eq_sym a b : byte_eq a b = byte_eq b a.
Proof. destruct (byte_eq a b) eqn:E; symmetry; [apply byte_eq_spec; symmetry; apply byte_eq_spec; exact E|].
  destruct (byte_eq b a) eqn:F; [|reflexivity]. apply byte_eq_spec in F. subst. rewrite byte_eq_refl in E. discriminate. Qed.
Theorem byte_eq_trans a b c : byte_eq a b = true -> byte_eq b c = true -> byte_eq a c = true.
Proof. rewrite !byte_eq_spec. congruence. Qed.

Section Hashing.
  Variable state : Type.
  Variable write : state -> bytes -> state.       (* Hasher::write *)

  Definition hash (st : state) (v : bytes) : state := write st v.
  Definition hash_slice (st : state) (vs : list bytes) : state := write st (concat vs).

  Theorem eq_hash st a b : byte_eq a b = true -> hash st a = hash st b.
  Proof. rewrite byte_eq_spec. intros ->. reflexivity. Qed.

  Theorem hash_slice_bytes_only st vs ws : concat vs = concat ws -> hash_slice st vs = hash_slice st ws.
  Proof. unfold hash_slice. intros ->. reflexivity. Qed.
End Hashing.

(* ---- `[u8] == [u8]` as core computes it: lengths, then element by element.  The derived `eq` is this
   comparison applied to the two byte views. *)
Fixpoint slice_eq (a b : bytes) : bool :=
  match a, b with
  | [], [] => true
  | x :: a', y :: b' => N.eqb x y && slice_eq a' b'
  | _, _ => false
  end.

Lemma slice_eq_spec a : forall b, slice_eq a b = true <-> a = b.
Proof.
  induction a as [|x a IH]; intros [|y b]; cbn [slice_eq]; try (split; intros H; congruence).
  rewrite andb_true_iff, N.eqb_eq, IH. split; [intros [-> ->]; reflexivity | intros H; inversion H; auto].
Qed.

Lemma slice_eq_byte_eq a b : slice_eq a b = byte_eq a b.
Proof.
  destruct (byte_eq a b) eqn:E.
  - apply slice_eq_spec, byte_eq_spec, E.
  - destruct (slice_eq a b) eqn:F; [|reflexivity].
    apply slice_eq_spec in F. apply byte_eq_spec in F. congruence.
Qed.

Lemma slice_eq_length a b : slice_eq a b = true -> length a = length b.
Proof. intros H. apply slice_eq_spec in H. subst. reflexivity. Qed.

(* ---- A value of a deriving struct is its fields' byte strings (NoUninit: no padding), so
   bytes_of is their concatenation.  Field-wise IEEE comparison of an f32 field, for contrast. *)
Definition value := list bytes.
Definition bytes_of (v : value) : bytes := concat v.
Definition derived_eq (v w : value) : bool := slice_eq (bytes_of v) (bytes_of w).

Definition le_bits (bs : bytes) : N := fold_right (fun b acc => b + 256 * acc)%N 0%N bs.
Definition f32_is_nan (bits : N) : bool :=
  (N.eqb ((bits / 8388608) mod 256) 255 && negb (N.eqb (bits mod 8388608) 0))%N.
Definition f32_is_zero (bits : N) : bool := N.eqb (bits mod 2147483648) 0.
Definition f32_ieee_eq (a b : bytes) : bool :=
  let x := le_bits a in let y := le_bits b in
  if f32_is_nan x || f32_is_nan y then false
  else if f32_is_zero x && f32_is_zero y then true else N.eqb x y.
Fixpoint fieldwise_f32_eq (v w : value) : bool :=
  match v, w with
  | [], [] => true
  | a :: v', b :: w' => f32_ieee_eq a b && fieldwise_f32_eq v' w'
  | _, _ => false
  end.

Lemma derived_eq_iff v w : derived_eq v w = true <-> bytes_of v = bytes_of w.
Proof. apply slice_eq_spec. Qed.
Lemma derived_eq_refl v : derived_eq v v = true.
Proof. apply derived_eq_iff. reflexivity. Qed.
Lemma derived_eq_sym v w : derived_eq v w = derived_eq w v.
Proof. unfold derived_eq. rewrite !slice_eq_byte_eq. apply byte_eq_sym. Qed.
Lemma derived_eq_trans u v w : derived_eq u v = true -> derived_eq v w = true -> derived_eq u w = true.
Proof. rewrite !derived_eq_iff. congruence. Qed.

(* a quiet NaN (0x7FC00001) is unequal to itself field-wise, equal byte-wise; +0.0 / -0.0 the other way *)
Definition nan_payload1 : value := [[1; 0; 192; 127]%N].
Definition pos_zero : value := [[0; 0; 0; 0]%N].
Definition neg_zero : value := [[0; 0; 0; 128]%N].
Lemma nan_contrast : fieldwise_f32_eq nan_payload1 nan_payload1 = false /\ derived_eq nan_payload1 nan_payload1 = true.
Proof. split; vm_compute; reflexivity. Qed.
Lemma zero_contrast : fieldwise_f32_eq pos_zero neg_zero = true /\ derived_eq pos_zero neg_zero = false.
Proof. split; vm_compute; reflexivity. Qed.

Section HashingLaws.
  Variable state : Type.
  Variable write : state -> bytes -> state.

  (* the value form and the slice form agree on a one-element slice *)
  Theorem hash_singleton st a : hash state write st a = hash_slice state write st [a].
  Proof. unfold hash, hash_slice. cbn [concat]. rewrite app_nil_r. reflexivity. Qed.

  Theorem hash_slice_app st vs ws :
    hash_slice state write st (vs ++ ws) = write st (concat vs ++ concat ws).
  Proof. unfold hash_slice. rewrite concat_app. reflexivity. Qed.

  (* under a hasher that loses nothing, equal hashes mean equal bytes: the hash sees ALL the bytes *)
  Theorem hash_injective_hasher st a b :
    (forall s x y, write s x = write s y -> x = y) ->
    hash state write st a = hash state write st b -> byte_eq a b = true.
  Proof. intros Hinj H. apply byte_eq_spec. exact (Hinj st a b H). Qed.
End HashingLaws.

(* the recording hasher of the correspondence run: exactly ONE write call, of exactly the bytes *)
Definition rec_write (st : list bytes) (b : bytes) : list bytes := st ++ [b].
Theorem recording_one_write v : hash (list bytes) rec_write [] v = [v].
Proof. reflexivity. Qed.
Theorem recording_one_write_slice vs : hash_slice (list bytes) rec_write [] vs = [concat vs].
Proof. reflexivity. Qed.
