(* Model/ByteEq.v — ByteEq / ByteHash (derive/src/lib.rs): equality is equality of the two values'
   byte strings; hashing feeds exactly the byte string to the hasher in ONE write (Hash::hash_slice
   for u8), for a value as for a slice of values.  The hasher is a section variable: the laws hold
   for every Hasher.  Thin by nature; the assurance is mostly the correspondence run. *)
From Coq Require Import NArith List Bool.
Import ListNotations.

Definition bytes := list N.
Definition byte_eq (a b : bytes) : bool := if list_eq_dec N.eq_dec a b then true else false.

Lemma byte_eq_spec a b : byte_eq a b = true <-> a = b.
Proof. unfold byte_eq. destruct (list_eq_dec N.eq_dec a b); split; intros H; congruence. Qed.

Theorem byte_eq_refl a : byte_eq a a = true.
Proof. apply byte_eq_spec. reflexivity. Qed.
Theorem byte_eq_sym a b : byte_eq a b = byte_eq b a.
Proof. destruct (byte_eq a b) eqn:E; symmetry; [apply byte_eq_spec; symmetry; apply byte_eq_spec; exact E|].
  destruct (byte_eq b a) eqn:F; [|reflexivity]. apply byte_eq_spec in F. subst. rewrite byte_eq_refl in E. discriminate. Qed.
Theorem byte_eq_trans a b c : byte_eq a b = true -> byte_eq b c = true -> byte_eq a c = true.
Proof. rewrite !byte_eq_spec. congruence. Qed.

Section Hashing.
  Variable state : Type.
  Variable write : state -> bytes -> state.       (* Hasher::write *)

  Definition hash (st : state) (v : bytes) : state := write st v.
  Definition hash_slice (st : state) (vs : list bytes) : state := write st (concat vs).

  Theorem eq_hash st a b : byte_eq a b = true -> hash st a = hash st b.
  Proof. rewrite byte_eq_spec. intros ->. reflexivity. Qed.

  Theorem hash_slice_bytes_only st vs ws : concat vs = concat ws -> hash_slice st vs = hash_slice st ws.
  Proof. unfold hash_slice. intros ->. reflexivity. Qed.
End Hashing.
