(* Model/DeriveEnum.v — hand-written model of how the derive macros read an enum's discriminants
   (VariantDiscriminantIterator / parse_int_expr of derive/src/traits.rs), of rustc's own rule, and
   of what derive(Zeroable / Contiguous / NoUninit / CheckedBitPattern) decide for an enum from
   them.  A variant is described by its explicit discriminant (already read as an integer: the
   literal SYNTAX is syn's and is covered by the correspondence run) and by whether all its fields
   are Zeroable / whether it has fields at all. *)
From Coq Require Import ZArith List Bool Lia Arith FinFun.
Import ListNotations.
Open Scope bool_scope.
Open Scope Z_scope.

Record variant : Type := mkVar { v_explicit : option Z; v_has_fields : bool; v_fields_zeroable : bool }.

(* the macro: last_value starts at -1; an explicit discriminant replaces it, an implicit one is last + 1 *)
Fixpoint derive_discs_from (last : Z) (vs : list variant) : list Z :=
  match vs with
  | [] => []
  | v :: r => let d := match v_explicit v with Some e => e | None => last + 1 end in d :: derive_discs_from d r
  end.
Definition derive_discs (vs : list variant) : list Z := derive_discs_from (-1) vs.

(* the compiler (reference, "Implicit discriminants"): the first variant is 0 unless explicit; every
   other implicit one is one more than the previous variant's *)
Fixpoint rustc_discs_from (prev : option Z) (vs : list variant) : list Z :=
  match vs with
  | [] => []
  | v :: r => let d := match v_explicit v, prev with
                       | Some e, _ => e
                       | None, None => 0
                       | None, Some p => p + 1
                       end in d :: rustc_discs_from (Some d) r
  end.
Definition rustc_discs (vs : list variant) : list Z := rustc_discs_from None vs.

Lemma discs_from_agree vs : forall p, derive_discs_from p vs = rustc_discs_from (Some p) vs.
Proof. induction vs as [|v r IH]; intros p; cbn; [reflexivity|]. destruct (v_explicit v); rewrite IH; reflexivity. Qed.

(* C06: the macro attributes to every variant the value the compiler assigns — any number of
   variants, any mix of explicit and implicit discriminants, any order *)
Theorem discs_agree vs : derive_discs vs = rustc_discs vs.
Proof.
  unfold derive_discs, rustc_discs. destruct vs as [|v r]; cbn; [reflexivity|].
  destruct (v_explicit v); cbn; rewrite discs_from_agree; reflexivity.
Qed.

(* ---- minimum, maximum, count: the fold both Contiguous and the validity check use ---- *)
Definition lmin (x : Z) (l : list Z) : Z := fold_right Z.min x l.
Definition lmax (x : Z) (l : list Z) : Z := fold_right Z.max x l.

Definition gap_free (ds : list Z) : bool :=
  match ds with
  | [] => false
  | x :: l => lmax x l - lmin x l =? Z.of_nat (length ds) - 1
  end.

Inductive erepr : Type := RNone | RC | RInt | RCInt.   (* merged repr of the enum *)

(* Contiguous: an integer repr, no fields, gap-free; then MIN / MAX are the fold's min / max *)
Definition contiguous_accepts (r : erepr) (vs : list variant) : bool :=
  match r with RInt => negb (existsb v_has_fields vs) && gap_free (derive_discs vs) | _ => false end.
Definition contiguous_minmax (vs : list variant) : Z * Z :=
  match derive_discs vs with [] => (0, 0) | x :: l => (lmin x l, lmax x l) end.

(* Zeroable: an explicit repr, the FIRST variant whose discriminant is 0 exists and its fields are Zeroable *)
Fixpoint zero_variant (vs : list variant) (ds : list Z) : option variant :=
  match vs, ds with
  | v :: r, d :: q => if d =? 0 then Some v else zero_variant r q
  | _, _ => None
  end.
Definition zeroable_accepts (r : erepr) (vs : list variant) : bool :=
  match r with
  | RNone => false
  | _ => match zero_variant vs (derive_discs vs) with Some v => v_fields_zeroable v | None => false end
  end.

(* NoUninit: an integer repr and no fields *)
Definition nouninit_accepts (r : erepr) (vs : list variant) : bool :=
  match r with RInt => negb (existsb v_has_fields vs) | _ => false end.

(* CheckedBitPattern on a fieldless enum: an integer repr; the validity expression is a range test
   when the fold says gap-free, the alternation of the discriminants otherwise *)
Definition checked_fieldless_accepts (r : erepr) (vs : list variant) : bool :=
  match r with RInt => negb (existsb v_has_fields vs) | _ => false end.
Definition is_valid_fieldless (vs : list variant) (x : Z) : bool :=
  let ds := derive_discs vs in
  match ds with
  | [] => false
  | d :: l => if gap_free ds then (lmin d l <=? x) && (x <=? lmax d l) else existsb (Z.eqb x) ds
  end.

(* ---- the arithmetic fact everything rests on (pigeonhole): for pairwise distinct integers,
   max - min = count - 1 exactly when every integer between min and max occurs ---- *)
Definition zrange (lo : Z) (n : nat) : list Z := map (fun i => lo + Z.of_nat i) (seq 0 n).
Lemma zrange_length lo n : length (zrange lo n) = n.
Proof. unfold zrange. rewrite map_length, seq_length. reflexivity. Qed.
Lemma zrange_In lo n v : In v (zrange lo n) <-> lo <= v < lo + Z.of_nat n.
Proof.
  unfold zrange. rewrite in_map_iff. split.
  - intros (i & <- & Hi). apply in_seq in Hi. lia.
  - intros H. exists (Z.to_nat (v - lo)). split; [lia | apply in_seq; lia].
Qed.
Lemma zrange_NoDup lo n : NoDup (zrange lo n).
Proof.
  unfold zrange. apply Injective_map_NoDup; [|apply seq_NoDup]. intros a b H. lia.
Qed.

Lemma lmin_le x l v : In v (x :: l) -> lmin x l <= v.
Proof.
  unfold lmin. induction l as [|y r IH]; cbn [fold_right]; intros [->|H]; try lia.
  - contradiction.
  - assert (fold_right Z.min v r <= v) by (apply IH; left; reflexivity). lia.
  - destruct H as [->|H]; [lia|]. assert (fold_right Z.min x r <= v) by (apply IH; right; exact H). lia.
Qed.
Lemma lmax_ge x l v : In v (x :: l) -> v <= lmax x l.
Proof.
  unfold lmax. induction l as [|y r IH]; cbn [fold_right]; intros [->|H]; try lia.
  - contradiction.
  - assert (v <= fold_right Z.max v r) by (apply IH; left; reflexivity). lia.
  - destruct H as [->|H]; [lia|]. assert (v <= fold_right Z.max x r) by (apply IH; right; exact H). lia.
Qed.
Lemma lmin_In x l : In (lmin x l) (x :: l).
Proof.
  unfold lmin. induction l as [|y r IH]; cbn [fold_right]; [left; reflexivity|].
  destruct (Z.min_spec y (fold_right Z.min x r)) as [[_ ->]|[_ ->]]; [right; left; reflexivity|].
  destruct IH as [E|H]; [left; exact E | right; right; exact H].
Qed.
Lemma lmax_In x l : In (lmax x l) (x :: l).
Proof.
  unfold lmax. induction l as [|y r IH]; cbn [fold_right]; [left; reflexivity|].
  destruct (Z.max_spec y (fold_right Z.max x r)) as [[_ ->]|[_ ->]]; [|right; left; reflexivity].
  destruct IH as [E|H]; [left; exact E | right; right; exact H].
Qed.

Theorem pigeonhole x l : NoDup (x :: l) ->
  (lmax x l - lmin x l = Z.of_nat (length (x :: l)) - 1 <-> forall v, lmin x l <= v <= lmax x l -> In v (x :: l)).
Proof.
  intros ND. set (mn := lmin x l). set (mx := lmax x l).
  assert (Hle : mn <= mx) by (pose proof (lmin_le x l _ (lmax_In x l)); exact H).
  set (n := Z.to_nat (mx - mn + 1)).
  assert (Hincl : incl (x :: l) (zrange mn n)).
  { intros v Hv. apply zrange_In. pose proof (lmin_le x l v Hv). pose proof (lmax_ge x l v Hv). unfold n, mn, mx. lia. }
  split.
  - intros Heq v Hv.
    assert (Hl : (length (zrange mn n) <= length (x :: l))%nat) by (rewrite zrange_length; unfold n; lia).
    apply (NoDup_length_incl ND Hl Hincl). apply zrange_In. unfold n. lia.
  - intros Hall.
    assert (Hincl2 : incl (zrange mn n) (x :: l)).
    { intros v Hv. apply zrange_In in Hv. apply Hall. unfold n in Hv. lia. }
    pose proof (NoDup_incl_length ND Hincl) as H1. pose proof (NoDup_incl_length (zrange_NoDup mn n) Hincl2) as H2.
    rewrite zrange_length in *. unfold n in *. lia.
Qed.

(* ---- consequences ---- *)
Lemma gap_free_spec x l : NoDup (x :: l) ->
  (gap_free (x :: l) = true <-> forall v, lmin x l <= v <= lmax x l -> In v (x :: l)).
Proof. intros ND. unfold gap_free. rewrite Z.eqb_eq. apply pigeonhole. exact ND. Qed.

(* the derived validity check of a fieldless enum accepts exactly the declared discriminants *)
Theorem is_valid_exact vs x : NoDup (derive_discs vs) -> (is_valid_fieldless vs x = true <-> In x (derive_discs vs)).
Proof.
  intros ND. unfold is_valid_fieldless. destruct (derive_discs vs) as [|d l] eqn:E; [split; [discriminate | intros []]|].
  destruct (gap_free (d :: l)) eqn:G.
  - rewrite andb_true_iff, !Z.leb_le. split.
    + apply (proj1 (gap_free_spec d l ND) G).
    + intros Hin. split; [apply lmin_le | apply lmax_ge]; exact Hin.
  - rewrite existsb_exists. split.
    + intros (y & Hy & Ey). apply Z.eqb_eq in Ey. subst. exact Hy.
    + intros Hin. exists x. split; [exact Hin | apply Z.eqb_refl].
Qed.

(* derived Contiguous: accepted only for gap-free discriminants, and it reports the true min and max *)
Theorem contiguous_exact r vs : NoDup (derive_discs vs) -> contiguous_accepts r vs = true ->
  let '(mn, mx) := contiguous_minmax vs in
  forall x, (mn <= x <= mx <-> In x (rustc_discs vs)).
Proof.
  intros ND. unfold contiguous_accepts, contiguous_minmax. destruct r; try discriminate.
  rewrite andb_true_iff. intros [_ G]. rewrite <- discs_agree.
  destruct (derive_discs vs) as [|d l] eqn:E; [discriminate|].
  intros x. split.
  - apply (proj1 (gap_free_spec d l ND) G).
  - intros Hin. split; [apply lmin_le | apply lmax_ge]; exact Hin.
Qed.

(* derived Zeroable: accepted only if some variant's discriminant — as the compiler assigns it — is 0 *)
Lemma zero_variant_in vs : forall ds v, zero_variant vs ds = Some v -> In 0 ds.
Proof.
  induction vs as [|w r IH]; intros ds v; destruct ds as [|d q]; cbn; try discriminate.
  destruct (d =? 0) eqn:E; [intros _; left; apply Z.eqb_eq; exact E | intros H; right; eapply IH; exact H].
Qed.
Theorem zeroable_sound r vs : zeroable_accepts r vs = true -> In 0 (rustc_discs vs) /\ r <> RNone.
Proof.
  unfold zeroable_accepts. destruct r; try discriminate;
    (destruct (zero_variant vs (derive_discs vs)) as [v|] eqn:E; [|discriminate]); intros _;
    (split; [rewrite <- discs_agree; eapply zero_variant_in; exact E | discriminate]).
Qed.
