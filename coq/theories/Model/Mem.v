(* Model/Mem.v — flat byte memory: a store through a view, and the footprint of a view.
   "A write through a mutable view changes exactly the corresponding source bytes and nothing
   else" (C01) is address-set equality of the two footprints plus the store lemma. *)
From Coq Require Import NArith List Bool Lia.
From BM Require Import Base.Outcome Base.Prims Base.Layout Spec.CastSpec.
Open Scope bool_scope.
Open Scope N_scope.

Definition store (m : N -> N) (a b : N) : N -> N := fun x => if x =? a then b else m x.

Definition in_footprint (base bytes x : N) : Prop := base <= x < base + bytes.

Lemma store_same m a b : store m a b a = b.
Proof. unfold store. rewrite N.eqb_refl. reflexivity. Qed.

Lemma store_other m a b x : x <> a -> store m a b x = m x.
Proof. unfold store. intros H. apply N.eqb_neq in H. rewrite H. reflexivity. Qed.

(* the footprint of the view returned by a slice cast is the footprint of the source *)
Lemma slice_footprint A B s v x :
  slice_view_ok A B s v ->
  (in_footprint (addr (sptr v)) (slen v * sz B) x <-> in_footprint (addr (sptr s)) (slen s * sz A) x).
Proof. intros (Ha & Hn & _ & _). unfold in_footprint. rewrite Ha, Hn. tauto. Qed.

(* writing byte [k] of the view writes byte [k] of the source, and nothing else *)
Lemma slice_store A B s v m k b :
  slice_view_ok A B s v -> k < slen v * sz B ->
  let m' := store m (addr (sptr v) + k) b in
  m' (addr (sptr s) + k) = b /\
  in_footprint (addr (sptr s)) (slen s * sz A) (addr (sptr v) + k) /\
  (forall x, x <> addr (sptr s) + k -> m' x = m x).
Proof.
  intros (Ha & Hn & _ & _) Hk. cbn zeta. rewrite Ha. split; [apply store_same|]. split.
  - unfold in_footprint. lia.
  - intros x Hx. apply store_other. exact Hx.
Qed.

Lemma ref_store B p v m k b :
  ref_view_ok B p v -> k < sz B ->
  let m' := store m (addr v + k) b in
  m' (addr p + k) = b /\ (forall x, x <> addr p + k -> m' x = m x).
Proof.
  intros (Ha & _ & _) Hk. cbn zeta. rewrite Ha. split; [apply store_same|].
  intros x Hx. apply store_other. exact Hx.
Qed.
