(* Model/ZeroGuard.v — write_zeroes / fill_zeroes of src/lib.rs with destructors that may panic
   (hand model; tied to the code by the allocgrid correspondence run with drop-counting,
   panic-on-drop element types).  A slot holds a live old value (identified by a number) or is
   all-zero bytes.  write_zeroes runs the old value's destructor and — through its drop guard,
   which also runs during unwinding — zeroes the slot whether or not the destructor panicked. *)
From Coq Require Import NArith List Bool Lia.
Import ListNotations.

Inductive slot : Type := Old (id : nat) | Zeroed.

Record zrun : Type := mkZrun { z_slots : list slot; z_dropped : list nat; z_panicked : bool }.

(* one value: (slot afterwards, destructors run, did the call unwind) *)
Definition write_zeroes (panics : nat -> bool) (s : slot) : slot * list nat * bool :=
  match s with
  | Old id => (Zeroed, [id], panics id)
  | Zeroed => (Zeroed, [], false)
  end.

(* needs_drop::<T>(): one element at a time, stopping at the first destructor that panics *)
Fixpoint fill_zeroes_drop (panics : nat -> bool) (l : list slot) : zrun :=
  match l with
  | [] => mkZrun [] [] false
  | s :: r =>
      let '(s', d, p) := write_zeroes panics s in
      if p then mkZrun (s' :: r) d true
      else let rr := fill_zeroes_drop panics r in
           mkZrun (s' :: z_slots rr) (d ++ z_dropped rr) (z_panicked rr)
  end.

(* !needs_drop::<T>(): one bulk write_bytes, no destructor runs *)
Definition fill_zeroes_nodrop (l : list slot) : zrun := mkZrun (map (fun _ => Zeroed) l) [] false.

(* index of the first value whose destructor panics *)
Fixpoint first_panic (panics : nat -> bool) (ids : list nat) : option nat :=
  match ids with
  | [] => None
  | i :: r => if panics i then Some O else option_map S (first_panic panics r)
  end.

(* C12: with j the position of the first panicking destructor (if any):
   slots 0..j are zeroed (slot j included: the value whose destructor panicked is still left
   zeroed), slots after j are untouched; the destructors of 0..j ran, each exactly once, in order;
   the call unwinds iff there is such a j.  Without a panic every slot is zeroed and every
   destructor ran exactly once. *)
Theorem fill_zeroes_drop_spec panics ids :
  let r := fill_zeroes_drop panics (map Old ids) in
  match first_panic panics ids with
  | Some j =>
      z_slots r = repeat Zeroed (S j) ++ map Old (skipn (S j) ids) /\
      z_dropped r = firstn (S j) ids /\ z_panicked r = true
  | None =>
      z_slots r = repeat Zeroed (length ids) /\ z_dropped r = ids /\ z_panicked r = false
  end.
Proof.
  induction ids as [|i r IH]; cbn [map fill_zeroes_drop first_panic write_zeroes].
  - repeat split.
  - destruct (panics i) eqn:Hp.
    + cbn. repeat split.
    + cbn zeta in IH. destruct (first_panic panics r) as [j|]; cbn [option_map].
      * destruct IH as (Hs & Hd & Hq). cbn [z_slots z_dropped z_panicked]. rewrite Hs, Hd, Hq. repeat split.
      * destruct IH as (Hs & Hd & Hq). cbn [z_slots z_dropped z_panicked]. rewrite Hs, Hd, Hq. repeat split.
Qed.

Lemma In_firstn {X} n (l : list X) x : In x (firstn n l) -> In x l.
Proof.
  revert n. induction l as [|y r IH]; intros n H; destruct n; cbn in *; try contradiction.
  destruct H as [H|H]; [left; exact H | right; eapply IH; exact H].
Qed.

Lemma NoDup_firstn {X} n (l : list X) : NoDup l -> NoDup (firstn n l).
Proof.
  revert n. induction l as [|x r IH]; intros n H; destruct n; cbn; try constructor.
  - inversion H as [|? ? Hn Hr]; subst. intros Hin. apply Hn. eapply In_firstn. exact Hin.
  - inversion H; subst. apply IH. assumption.
Qed.

(* each destructor runs at most once, whatever happens *)
Theorem fill_zeroes_drop_once panics ids :
  NoDup ids -> NoDup (z_dropped (fill_zeroes_drop panics (map Old ids))).
Proof.
  intros Hnd. pose proof (fill_zeroes_drop_spec panics ids) as H. cbn zeta in H.
  destruct (first_panic panics ids) as [j|].
  - destruct H as (_ & -> & _). apply NoDup_firstn. exact Hnd.
  - destruct H as (_ & -> & _). exact Hnd.
Qed.

Theorem write_zeroes_spec panics s :
  let '(s', d, p) := write_zeroes panics s in
  s' = Zeroed /\ match s with Old id => d = [id] /\ p = panics id | Zeroed => d = [] /\ p = false end.
Proof. destruct s; cbn; repeat split. Qed.

Theorem fill_zeroes_nodrop_spec l :
  z_slots (fill_zeroes_nodrop l) = repeat Zeroed (length l) /\
  z_dropped (fill_zeroes_nodrop l) = [] /\ z_panicked (fill_zeroes_nodrop l) = false.
Proof.
  unfold fill_zeroes_nodrop; cbn. repeat split. induction l as [|s r IH]; cbn; [reflexivity | rewrite IH; reflexivity].
Qed.
