(* Model/LangOracle.v — what the Rust language / std documentation guarantees about a type, as far
   as the marker-trait contracts of bytemuck need it (trusted reading, DESIGN.md §4.1).  A type's
   guarantees are a set of FACTS computed structurally; the facts of a constructed type are
   POSITIVE boolean formulas over the facts of its arguments, which makes the whole oracle monotone
   (more guarantees for the arguments never give fewer for the result) — the property the
   soundness proof of the generic impls rests on. *)
From Coq Require Import NArith List Bool String Lia.
From BM Require Import Base.TyExpr.
Import ListNotations.
Open Scope bool_scope.
Open Scope string_scope.

Inductive fact : Type :=
| FZero        (* inhabited and the all-zero bit pattern is a valid value *)
| FAnyBits     (* every bit pattern (of initialised bytes) is a valid value *)
| FNoUninit    (* no padding and no possibly-uninitialised bytes; layout defined *)
| FCopy
| FNoInteriorMut
| FNoPtr       (* contains no pointer / reference / function pointer *)
| FSized
| FNicheZero   (* Option<T> has T's size and None is the all-zero pattern *)
| FNichePod    (* ... and additionally Option<T> admits every bit pattern and has no padding *)
| FMeta        (* a raw pointer to it may be all-zero: thin, or its metadata is a length (not a vtable) *)
| FChecked.    (* has a same-layout integer "Bits" type with a decidable validity predicate known to the crate *)

Definition all_facts : list fact := [FZero; FAnyBits; FNoUninit; FCopy; FNoInteriorMut; FNoPtr; FSized; FNicheZero; FNichePod; FMeta; FChecked].

Definition fact_eqb (a b : fact) : bool :=
  match a, b with
  | FZero, FZero | FAnyBits, FAnyBits | FNoUninit, FNoUninit | FCopy, FCopy | FNoInteriorMut, FNoInteriorMut
  | FNoPtr, FNoPtr | FSized, FSized | FNicheZero, FNicheZero | FNichePod, FNichePod | FMeta, FMeta | FChecked, FChecked => true
  | _, _ => false
  end.
Lemma fact_eqb_eq a b : fact_eqb a b = true <-> a = b.
Proof. destruct a, b; cbn; split; intros H; try reflexivity; try discriminate. Qed.

Definition facts : Type := fact -> bool.
Definition fle (f g : facts) : Prop := forall x, f x = true -> g x = true.
Definition of_list (l : list fact) : facts := fun x => existsb (fact_eqb x) l.
Definition fnone : facts := fun _ => false.

(* positive formulas over the facts of the arguments of a type constructor *)
Inductive pf : Type :=
| PTrue | PFalse
| PArg (i : nat) (x : fact)        (* fact x of the i-th argument *)
| PAll (x : fact)                  (* fact x of every argument *)
| PAnd (a b : pf) | POr (a b : pf).

Fixpoint eval_pf (args : list facts) (p : pf) : bool :=
  match p with
  | PTrue => true
  | PFalse => false
  | PArg i x => nth i args fnone x
  | PAll x => forallb (fun f => f x) args
  | PAnd a b => eval_pf args a && eval_pf args b
  | POr a b => eval_pf args a || eval_pf args b
  end.

(* ---- leaves ---- *)
Definition plain_data : facts := of_list [FZero; FAnyBits; FNoUninit; FCopy; FNoInteriorMut; FNoPtr; FSized; FChecked].
Definition is_in (s : string) (l : list string) : bool := existsb (String.eqb s) l.

Definition int_float_names : list string :=
  ["u8"; "i8"; "u16"; "i16"; "u32"; "i32"; "u64"; "i64"; "u128"; "i128"; "usize"; "isize"; "f32"; "f64"; "f16"; "f128"].
Definition nonzero_names : list string :=
  ["NonZeroU8"; "NonZeroI8"; "NonZeroU16"; "NonZeroI16"; "NonZeroU32"; "NonZeroI32"; "NonZeroU64"; "NonZeroI64";
   "NonZeroU128"; "NonZeroI128"; "NonZeroUsize"; "NonZeroIsize"].
Definition atomic_names : list string :=
  ["AtomicBool"; "AtomicU8"; "AtomicI8"; "AtomicU16"; "AtomicI16"; "AtomicU32"; "AtomicI32"; "AtomicU64"; "AtomicI64";
   "AtomicUsize"; "AtomicIsize"].
Definition simd_names : list string :=
  ["__m128i"; "__m128"; "__m128d"; "__m256i"; "__m256"; "__m256d"; "__m512"; "__m512d"; "__m512i"; "__m128bh"; "__m256bh"; "__m512bh"].

Definition leaf_facts (s : string) : facts :=
  if is_in s int_float_names then plain_data
  else if is_in s simd_names then plain_data
  else if String.eqb s "PhantomPinned" then plain_data
  else if String.eqb s "bool" || String.eqb s "char" then of_list [FZero; FNoUninit; FCopy; FNoInteriorMut; FNoPtr; FSized; FChecked]
  else if is_in s nonzero_names then of_list [FNoUninit; FCopy; FNoInteriorMut; FNoPtr; FSized; FNicheZero; FNichePod; FChecked]
  else if is_in s atomic_names then of_list [FZero; FAnyBits; FNoUninit; FNoPtr; FSized]
  else if String.eqb s "str" || String.eqb s "dyn" then of_list [FNoPtr; FNoInteriorMut]    (* unsized *)
  else fnone.                                                                              (* unknown: nothing guaranteed *)

(* ---- type constructors: fact x of C<args> as a positive formula ---- *)
Definition same_as_arg (x : fact) : pf := PArg 0 x.
Definition known_ctors : list string :=
  ["Wrapping"; "Saturating"; "Reverse"; "ManuallyDrop"; "Cell"; "UnsafeCell"; "MaybeUninit"; "PhantomData"; "Option"; "Box"; "NonNull"; "AtomicPtr"].
Definition ctor_formula (c : string) (x : fact) : pf :=
  match x with FMeta => if is_in c known_ctors then PTrue else PFalse | _ =>
  if is_in c ["Wrapping"; "Saturating"; "Reverse"; "ManuallyDrop"] then
    match x with FNicheZero | FNichePod => PFalse | _ => same_as_arg x end
  else if is_in c ["Cell"; "UnsafeCell"] then
    match x with FZero | FAnyBits | FNoUninit | FNoPtr | FSized => same_as_arg x | _ => PFalse end
  else if String.eqb c "MaybeUninit" then
    match x with FZero | FAnyBits | FSized | FChecked => PTrue | FCopy | FNoInteriorMut | FNoPtr => same_as_arg x | _ => PFalse end
  else if String.eqb c "PhantomData" then
    match x with FNicheZero | FNichePod => PFalse | _ => PTrue end
  else if String.eqb c "Option" then
    match x with
    | FZero => PArg 0 FNicheZero
    | FAnyBits | FNoUninit | FChecked => PArg 0 FNichePod
    | FCopy | FNoInteriorMut | FNoPtr => same_as_arg x
    | FSized => PTrue
    | _ => PFalse
    end
  else if is_in c ["Box"; "NonNull"] then
    match x with FNicheZero | FSized => PTrue | FNoInteriorMut => PTrue | FCopy => if String.eqb c "NonNull" then PTrue else PFalse | _ => PFalse end
  else if String.eqb c "AtomicPtr" then
    match x with FZero | FSized => PTrue | _ => PFalse end
  else PFalse end.

(* the facts of a type, given the facts of the impl's generic parameters *)
Fixpoint tfacts (env : nat -> facts) (t : tyx) : facts :=
  match t with
  | TLeaf s => fun x => match x with FMeta => negb (String.eqb s "dyn") && negb (String.eqb s "?") | _ => leaf_facts s x end
  | TVar i => env i
  | TApp c args => fun x => eval_pf (map (tfacts env) args) (ctor_formula c x)
  | TArr e n =>
      (* an array is its elements laid out without padding; a zero-length array is a ZST *)
      fun x => match x with
               | FNicheZero | FNichePod => false
               | FSized | FMeta => true
               | _ => tfacts env e x
               end
  | TTup l =>
      fun x => match x with
               | FSized | FMeta => true
               | FNicheZero | FNichePod => false
               | FNoUninit | FChecked => match l with [] => true | _ => false end   (* layout of non-empty tuples is unspecified *)
               | _ => forallb (fun e => tfacts env e x) l
               end
  | TPtr _ p =>
      (* raw pointers: zero (null) is valid unless the metadata is a vtable; Copy; no guarantee used for Pod *)
      fun x => match x with
               | FZero => tfacts env p FMeta
               | FCopy | FNoInteriorMut | FSized | FMeta => true
               | _ => false
               end
  | TRef m _ =>
      fun x => match x with
               | FNicheZero | FSized | FNoInteriorMut | FMeta => true
               | FCopy => negb m
               | _ => false
               end
  | TSlice e => fun x => match x with FSized | FNicheZero | FNichePod => false | FMeta => true | _ => tfacts env e x end
  | TFn _ _ _ _ => fun x => match x with FNicheZero | FSized | FCopy | FNoInteriorMut | FMeta => true | _ => false end
  end.

Definition ground_facts (t : tyx) : facts := tfacts (fun _ => fnone) t.

(* ---- the marker contracts, as conjunctions of facts ---- *)
Definition contract_facts (m : string) : option (list fact) :=
  if String.eqb m "Zeroable" then Some [FZero; FSized]
  else if String.eqb m "Pod" then Some [FZero; FAnyBits; FNoUninit; FCopy; FNoInteriorMut; FNoPtr; FSized; FChecked]
  else if String.eqb m "AnyBitPattern" then Some [FZero; FAnyBits; FCopy; FNoInteriorMut; FNoPtr; FSized; FChecked]
  else if String.eqb m "NoUninit" then Some [FNoUninit; FCopy; FNoInteriorMut; FNoPtr; FSized]
  else if String.eqb m "CheckedBitPattern" then Some [FChecked; FCopy; FSized]
  else if String.eqb m "ZeroableInOption" then Some [FNicheZero; FSized]
  else if String.eqb m "PodInOption" then Some [FNicheZero; FNichePod; FCopy; FNoInteriorMut; FNoPtr; FSized]
  else None.

Definition contractb (m : string) (f : facts) : bool :=
  match contract_facts m with Some l => forallb f l | None => false end.
