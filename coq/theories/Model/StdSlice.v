(* Model/StdSlice.v — core::slice::align_to, which bytemuck::pod_align_to{,_mut} call directly.
   This is a MODEL of core (validated against the implementation by the correspondence run, not
   verified): the split is computed as core does (element offset to the first aligned address,
   then the gcd-based middle / suffix lengths).  The element offset is a parameter: core may
   return any offset for which the middle part is aligned, or give up and return everything as
   the prefix; the tiling theorem holds for every such choice. *)
From Coq Require Import NArith List Bool Lia.
From BM Require Import Base.Outcome Base.Prims Base.Layout.
Open Scope bool_scope.
Open Scope N_scope.

Record split3 : Type := mkSplit {
  pre_addr : N; pre_len : N;     (* &[T] *)
  mid_addr : N; mid_len : N;     (* &[U] *)
  suf_addr : N; suf_len : N      (* &[T] *)
}.

Definition align_to_with (off : N) (T U : ty) (base len : N) : split3 :=
  if (sz U =? 0) || (sz T =? 0) then mkSplit base len base 0 base 0
  else if len <? off then mkSplit base len base 0 base 0
  else
    let rest := len - off in
    let g := N.gcd (sz T) (sz U) in
    let ts := sz U / g in
    let us := sz T / g in
    let us_len := rest / ts * us in
    let ts_len := rest mod ts in
    mkSplit base off (base + off * sz T) us_len (base + (len - ts_len) * sz T) ts_len.

(* the least element offset at which the address is aligned for U, searched below the
   alignment (if there is one it is below al U); usize::MAX when there is none *)
Fixpoint first_aligned (fuel : nat) (o : N) (base stride a : N) : N :=
  match fuel with
  | O => USIZE_MAX
  | S k => if (base + o * stride) mod a =? 0 then o else first_aligned k (o + 1) base stride a
  end.
Definition align_offset (base stride a : N) : N := first_aligned (N.to_nat a) 0 base stride a.
Definition align_to (T U : ty) (base len : N) : split3 :=
  align_to_with (align_offset base (sz T) (al U)) T U base len.

(* what C01 demands of an align-to split *)
Definition tiles (T U : ty) (base len : N) (r : split3) : Prop :=
  pre_addr r = base /\
  (mid_len r * sz U <> 0 -> mid_addr r = base + pre_len r * sz T) /\
  (suf_len r * sz T <> 0 -> suf_addr r = base + pre_len r * sz T + mid_len r * sz U) /\
  pre_len r * sz T + mid_len r * sz U + suf_len r * sz T = len * sz T /\
  (mid_len r * sz U <> 0 -> mid_addr r mod al U = 0).

Definition tilesb (T U : ty) (base len : N) (r : split3) : bool :=
  (pre_addr r =? base) &&
  ((mid_len r * sz U =? 0) || (mid_addr r =? base + pre_len r * sz T)) &&
  ((suf_len r * sz T =? 0) || (suf_addr r =? base + pre_len r * sz T + mid_len r * sz U)) &&
  (pre_len r * sz T + mid_len r * sz U + suf_len r * sz T =? len * sz T) &&
  ((mid_len r * sz U =? 0) || (mid_addr r mod al U =? 0)).

Lemma tilesb_spec T U base len r : tilesb T U base len r = true <-> tiles T U base len r.
Proof.
  unfold tilesb, tiles. rewrite !andb_true_iff, !orb_true_iff, !N.eqb_eq.
  split.
  - intros ((((H1 & H2) & H3) & H4) & H5). repeat split; try assumption.
    + intros Hn. destruct H2; [contradiction | assumption].
    + intros Hn. destruct H3; [contradiction | assumption].
    + intros Hn. destruct H5; [contradiction | assumption].
  - intros (H1 & H2 & H3 & H4 & H5). repeat split; try assumption.
    + destruct (N.eq_dec (mid_len r * sz U) 0); [left | right; apply H2]; assumption.
    + destruct (N.eq_dec (suf_len r * sz T) 0); [left | right; apply H3]; assumption.
    + destruct (N.eq_dec (mid_len r * sz U) 0); [left | right; apply H5]; assumption.
Qed.

Lemma gcd_cross a b : a <> 0 -> a / N.gcd a b * b = a * (b / N.gcd a b).
Proof.
  intros Ha. set (g := N.gcd a b).
  assert (Hg : g <> 0). { unfold g. intros E. apply N.gcd_eq_0_l in E. contradiction. }
  destruct (N.gcd_divide_l a b) as [x Hx]. destruct (N.gcd_divide_r a b) as [y Hy].
  fold g in Hx, Hy. rewrite Hx at 1. rewrite Hy at 2. rewrite !N.div_mul by exact Hg.
  rewrite Hx at 1. rewrite Hy at 1. lia.
Qed.

(* for EVERY choice of the element offset that either exceeds the length or lands on an address
   aligned for U, the three parts tile the source in order and the middle part is aligned *)
Theorem align_to_with_tiles off T U base len :
  (off <= len -> (base + off * sz T) mod al U = 0) ->
  tiles T U base len (align_to_with off T U base len).
Proof.
  intros Hoff. unfold align_to_with.
  destruct ((sz U =? 0) || (sz T =? 0)) eqn:Ez.
  { unfold tiles; cbn. repeat split; try lia; intros H; exfalso; apply H; reflexivity. }
  apply orb_false_iff in Ez. destruct Ez as [EU ET]. apply N.eqb_neq in EU, ET.
  destruct (len <? off) eqn:Elt.
  { unfold tiles; cbn. repeat split; try lia; intros H; exfalso; apply H; reflexivity. }
  apply N.ltb_ge in Elt. cbn zeta.
  set (g := N.gcd (sz T) (sz U)).
  assert (Hg : g <> 0). { unfold g. intros E. apply N.gcd_eq_0_l in E. contradiction. }
  set (ts := sz U / g). set (us := sz T / g). set (rest := len - off).
  assert (Hts : ts <> 0).
  { unfold ts. destruct (N.gcd_divide_r (sz T) (sz U)) as [y Hy]. fold g in Hy.
    rewrite Hy, N.div_mul by exact Hg. intros E. subst y. lia. }
  assert (Hcross : us * sz U = sz T * ts). { unfold us, ts, g. apply gcd_cross. exact ET. }
  assert (Hmid : rest / ts * us * sz U = rest / ts * ts * sz T).
  { rewrite <- N.mul_assoc, Hcross. lia. }
  pose proof (N.div_mod rest ts Hts) as Hdm.
  pose proof (N.mod_lt rest ts Hts) as Hml.
  assert (Hrm : rest mod ts <= rest) by (apply N.mod_le; exact Hts).
  unfold tiles; cbn [pre_addr pre_len mid_addr mid_len suf_addr suf_len].
  repeat split.
  - intros _. rewrite Hmid. nia.
  - rewrite Hmid. nia.
  - intros _. apply Hoff. exact Elt.
Qed.

(* the searched offset satisfies the hypothesis of the theorem *)
Lemma first_aligned_spec fuel o base stride a :
  let r := first_aligned fuel o base stride a in
  r = USIZE_MAX \/ (base + r * stride) mod a = 0.
Proof.
  revert o. induction fuel as [|k IH]; intros o; cbn; [left; reflexivity|].
  destruct ((base + o * stride) mod a =? 0) eqn:E; [right; apply N.eqb_eq; exact E | apply IH].
Qed.

Theorem align_to_tiles T U base len :
  len < USIZE_MAX -> tiles T U base len (align_to T U base len).
Proof.
  intros Hlen. unfold align_to. apply align_to_with_tiles. intros Hle.
  destruct (first_aligned_spec (N.to_nat (al U)) 0 base (sz T) (al U)) as [E|E]; [|exact E].
  unfold align_offset in Hle. rewrite E in Hle. lia.
Qed.

(* <[T]>::align_to::<U>() as the caller sees it: three slices over the source's memory *)
Definition slice_align_to (T U : ty) (s : slice) : slice * slice * slice :=
  let r := align_to T U (addr (sptr s)) (slen s) in
  (mkSlice (mkPtr (pre_addr r) (pre_len r * sz T)) (pre_len r),
   mkSlice (mkPtr (mid_addr r) (mid_len r * sz U)) (mid_len r),
   mkSlice (mkPtr (suf_addr r) (suf_len r * sz T)) (suf_len r)).

(* each part is a well-formed view (its extent is its byte size), the parts tile the source in
   order, none reaches outside it, and the middle part is aligned for U *)
Theorem slice_align_to_tiles T U s :
  slen s < USIZE_MAX ->
  let '(p, m, q) := slice_align_to T U s in
  addr (sptr p) = addr (sptr s) /\
  avail (sptr p) = slen p * sz T /\ avail (sptr m) = slen m * sz U /\ avail (sptr q) = slen q * sz T /\
  slen p * sz T + slen m * sz U + slen q * sz T = slen s * sz T /\
  (slen m * sz U <> 0 -> addr (sptr m) = addr (sptr s) + slen p * sz T /\ addr (sptr m) mod al U = 0) /\
  (slen q * sz T <> 0 -> addr (sptr q) = addr (sptr s) + slen p * sz T + slen m * sz U).
Proof.
  intros Hlen. unfold slice_align_to. cbn [sptr slen addr avail].
  destruct (align_to_tiles T U (addr (sptr s)) (slen s) Hlen) as (H1 & H2 & H3 & H4 & H5).
  repeat split; try assumption; try reflexivity.
  - apply H2; assumption.
  - apply H5; assumption.
Qed.
