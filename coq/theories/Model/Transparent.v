(* Model/Transparent.v — TransparentWrapper's conversions (src/transparent.rs, and the container
   forms in src/allocation.rs) are bit copies of a (possibly fat) pointer or of a value.  A pointer
   is an address plus metadata: nothing, a slice length, or a vtable.  Hand model; thin by nature:
   the assurance for C13 is mostly the correspondence run. *)
From Coq Require Import NArith List Bool Lia.
From BM Require Import Base.Outcome Base.Prims.
Import ListNotations.
Open Scope N_scope.

Inductive pmeta : Type := MThin | MLen (n : N) | MVTable (id : N).
Record fatptr : Type := mkFat { f_addr : N; f_meta : pmeta }.

Definition ptr_words (m : pmeta) : N := match m with MThin => 1 | _ => 2 end.

(* transmute!(ptr) under assert!(size_of::<*const Inner>() == size_of::<*const Self>()) *)
Definition transmute_ptr (src_words dst_words : N) (p : fatptr) : outcome fatptr :=
  if src_words =? dst_words then Ret p else Panic W_assert.

Definition wrap_ref (p : fatptr) : outcome fatptr := transmute_ptr (ptr_words (f_meta p)) (ptr_words (f_meta p)) p.
Definition peel_ref (p : fatptr) : outcome fatptr := transmute_ptr (ptr_words (f_meta p)) (ptr_words (f_meta p)) p.

(* wrap_slice / peel_slice: from_raw_parts(s.as_ptr() as *const W, s.len()) under the size and
   alignment assertions *)
Definition conv_slice (I W : ty) (s : slice) : outcome slice :=
  if negb (sz I =? sz W) then Panic W_assert
  else if negb (al I =? al W) then Panic W_assert
  else from_raw_parts W (sptr s) (slen s).

(* by value: transmute!(s) under the same assertions — the same bytes, moved exactly once *)
Definition conv_value (I W : ty) (v : list N) : outcome (list N) :=
  if negb (sz I =? sz W) then Panic W_assert
  else if negb (al I =? al W) then Panic W_assert
  else transmute_copy W v.

Theorem wrap_peel_ref p : (q <- wrap_ref p ;; peel_ref q) = Ret p.
Proof. unfold wrap_ref, peel_ref, transmute_ptr. rewrite N.eqb_refl. cbn. rewrite N.eqb_refl. reflexivity. Qed.

Theorem wrap_ref_id p : wrap_ref p = Ret p.
Proof. unfold wrap_ref, transmute_ptr. rewrite N.eqb_refl. reflexivity. Qed.

Theorem conv_slice_id I W s :
  sz I = sz W -> al I = al W -> addr (sptr s) mod al I = 0 -> avail (sptr s) = slen s * sz I ->
  conv_slice I W s = Ret s.
Proof.
  intros Hs Ha Hal Hav. unfold conv_slice, from_raw_parts, aligned_for.
  rewrite <- Hs, <- Ha, !N.eqb_refl. cbn [negb].
  apply N.eqb_eq in Hal. rewrite Hal. cbn [negb]. rewrite Hav, N.leb_refl. cbn [negb].
  destruct s as [[a v] n]. cbn in *. subst. reflexivity.
Qed.

Theorem conv_value_id I W v :
  sz I = sz W -> al I = al W -> N.of_nat (length v) = sz I -> conv_value I W v = Ret v.
Proof.
  intros Hs Ha Hl. unfold conv_value, transmute_copy. rewrite <- Hs, <- Ha, !N.eqb_refl. cbn [negb].
  rewrite <- Hl, N.leb_refl, Nat2N.id, firstn_all. reflexivity.
Qed.
