(* Model/Alloc.v — hand-written model of the owning-container half of src/allocation.rs
   (try_cast_box / slice_box / vec / rc / arc / slice_rc / slice_arc, BoxBytes, pod_collect_to_vec,
   try_zeroed_ family), over a model of std's allocation layouts.  Tied to the code by the allocgrid
   correspondence run (recording allocator): decisions, lengths, capacities and the exact layouts
   passed to the allocator are compared line by line.  A container is described by what the
   allocator and the caller can see of it: data pointer, length, capacity. *)
From Coq Require Import NArith List Bool String Lia.
From BM Require Import Base.Outcome Base.Prims Base.Own Base.Layout.
Import ListNotations.
Open Scope bool_scope.
Open Scope N_scope.

Inductive ckind : Type := KBox | KBoxSlice | KVec | KRc | KRcSlice | KArc | KArcSlice.

Definition round_up (n a : N) : N := (n + a - 1) / a * a.

(* std: the heap block that a container of [n] (length) / [cap] (capacity) elements of T owns, as
   (size, align); None when nothing is allocated.  Rc/Arc place two usize counters before the value. *)
Definition RC_HEADER : N := 16.
Definition rc_layout (vsize valign : N) : layout :=
  let a := N.max 8 valign in
  mkLayout (round_up (round_up RC_HEADER valign + vsize) a) a.

Definition drop_layout (k : ckind) (T : ty) (c : cont) : option layout :=
  match k with
  | KBox => if sz T =? 0 then None else Some (mkLayout (sz T) (al T))
  | KBoxSlice => if clen c * sz T =? 0 then None else Some (mkLayout (clen c * sz T) (al T))
  | KVec => if ccap c * sz T =? 0 then None else Some (mkLayout (ccap c * sz T) (al T))
  | KRc | KArc => Some (rc_layout (sz T) (al T))
  | KRcSlice | KArcSlice => Some (rc_layout (clen c * sz T) (al T))
  end.

Definition cres : Type := result cont (perr * cont).

(* ---- the cast ladders, transcribed from src/allocation.rs ---- *)
Definition try_cast_single (A B : ty) (c : cont) : cres :=
  if negb (al A =? al B) then Err (AlignmentMismatch, c)
  else if negb (sz A =? sz B) then Err (SizeMismatch, c)
  else Ok c.

Definition try_cast_slice_cont (A B : ty) (c : cont) : cres :=
  if negb (al A =? al B) then Err (AlignmentMismatch, c)
  else if negb (sz A =? sz B) then
    let input_bytes := clen c * sz A in
    if ((sz B =? 0) && negb (input_bytes =? 0)) || (negb (sz B =? 0) && negb (input_bytes mod sz B =? 0))
    then Err (OutputSliceWouldHaveSlop, c)
    else let n := if negb (sz B =? 0) then input_bytes / sz B else 0 in Ok (mkCont (cptr c) n n)
  else Ok c.

Definition try_cast_vec (A B : ty) (c : cont) : cres :=
  if negb (al A =? al B) then Err (AlignmentMismatch, c)
  else if negb (sz A =? sz B) then
    let input_size := clen c * sz A in
    let input_capacity := ccap c * sz A in
    if ((sz B =? 0) && negb (input_capacity =? 0)) ||
       (negb (sz B =? 0) && (negb (input_size mod sz B =? 0) || negb (input_capacity mod sz B =? 0)))
    then Err (OutputSliceWouldHaveSlop, c)
    else Ok (mkCont (cptr c)
                    (if negb (sz B =? 0) then input_size / sz B else 0)
                    (if negb (sz B =? 0) then input_capacity / sz B else 0))
  else Ok c.

Definition try_cast_cont (k : ckind) (A B : ty) (c : cont) : cres :=
  match k with
  | KBox | KRc | KArc => try_cast_single A B c
  | KBoxSlice | KRcSlice | KArcSlice => try_cast_slice_cont A B c
  | KVec => try_cast_vec A B c
  end.

(* a well-formed container: slices have capacity = length (only Vec has spare capacity); a Vec of
   zero-sized elements has capacity usize::MAX; single values have length 1 *)
Definition wf_cont (k : ckind) (T : ty) (c : cont) : Prop :=
  match k with
  | KBox | KRc | KArc => clen c = 1 /\ ccap c = 1
  | KBoxSlice | KRcSlice | KArcSlice => ccap c = clen c
  | KVec => clen c <= ccap c
  end.

(* ---- C10: when a cast succeeds, and with which truthful error it fails ---- *)
Definition cast_ok (k : ckind) (A B : ty) (c : cont) : Prop :=
  al A = al B /\
  match k with
  | KBox | KRc | KArc => sz A = sz B
  | KBoxSlice | KRcSlice | KArcSlice => convertible (clen c * sz A) (sz B)
  | KVec => convertible (clen c * sz A) (sz B) /\ convertible (ccap c * sz A) (sz B)
  end.

Definition cast_err_true (k : ckind) (A B : ty) (c : cont) (e : perr) : Prop :=
  match e with
  | AlignmentMismatch => al A <> al B
  | SizeMismatch => sz A <> sz B /\ match k with KBox | KRc | KArc => True | _ => False end
  | OutputSliceWouldHaveSlop =>
      match k with
      | KBox | KRc | KArc => False
      | KVec => ~ (convertible (clen c * sz A) (sz B) /\ convertible (ccap c * sz A) (sz B))
      | _ => ~ convertible (clen c * sz A) (sz B)
      end
  | TargetAlignmentGreaterAndInputNotAligned => False
  end.

(* the new container: same address, byte length and byte capacity preserved *)
Definition cont_view_ok (k : ckind) (A B : ty) (c c' : cont) : Prop :=
  cptr c' = cptr c /\
  match k with
  | KBox | KRc | KArc => clen c' = clen c /\ ccap c' = ccap c
  | KBoxSlice | KRcSlice | KArcSlice => clen c' * sz B = clen c * sz A
  | KVec => clen c' * sz B = clen c * sz A /\ ccap c' * sz B = ccap c * sz A /\
            (sz B <> 0 -> clen c' = clen c * sz A / sz B /\ ccap c' = ccap c * sz A / sz B)
  end.

Definition cast_outcome_ok (k : ckind) (A B : ty) (c : cont) (r : cres) : Prop :=
  match r with
  | Ok c' => cast_ok k A B c /\ cont_view_ok k A B c c' /\ drop_layout k B c' = drop_layout k A c
  | Err (e, c0) => ~ cast_ok k A B c /\ cast_err_true k A B c e /\ c0 = c
  end.

(* ---- BoxBytes ---- *)

(* box_bytes_of: sized value / slice (str is a slice of u8) *)
Definition box_bytes_of_sized (T : ty) (c : cont) : boxbytes := mkBB (cptr c) (mkLayout (sz T) (al T)).
Definition box_bytes_of_slice (T : ty) (c : cont) : boxbytes := mkBB (cptr c) (mkLayout (clen c * sz T) (al T)).

(* Drop for BoxBytes: the layout passed to dealloc, if any *)
Definition bb_drop (b : boxbytes) : option layout :=
  if negb (l_size (bb_layout b) =? 0) then Some (bb_layout b) else None.

Definition try_from_box_bytes_sized (T : ty) (b : boxbytes) : result cont (perr * boxbytes) :=
  if negb (l_align (bb_layout b) =? al T) then Err (AlignmentMismatch, b)
  else if negb (l_size (bb_layout b) =? sz T) then Err (SizeMismatch, b)
  else Ok (mkCont (bb_ptr b) 1 1).

Definition try_from_box_bytes_slice (T : ty) (b : boxbytes) : result cont (perr * boxbytes) :=
  if negb (l_align (bb_layout b) =? al T) then Err (AlignmentMismatch, b)
  else if ((sz T =? 0) && negb (l_size (bb_layout b) =? 0)) ||
          (negb (sz T =? 0) && negb (l_size (bb_layout b) mod sz T =? 0))
  then Err (OutputSliceWouldHaveSlop, b)
  else let n := if negb (sz T =? 0) then l_size (bb_layout b) / sz T else 0 in
       Ok (mkCont (bb_ptr b) n n).

(* ---- pod_collect_to_vec ---- *)
Definition collect_count (src_size szB : N) : outcome N :=
  q <- div_m src_size szB ;;
  r <- rem_m src_size szB ;;
  Ret (q + (if negb (r =? 0) then 1 else 0)).

(* the bytes of the new Vec: the source bytes followed by zeros *)
Definition pod_collect_to_vec (B : ty) (src : list N) : outcome (N * list N) :=
  if sz B =? 0 then Ret (0, []) else   (* the guard added by the repair of the C16 finding *)
  n <- collect_count (N.of_nat (List.length src)) (sz B) ;;
  Ret (n, src ++ repeat 0 (N.to_nat (n * sz B) - List.length src)%nat).

(* ---- try_zeroed_ family: Layout::array overflow, allocator failure ---- *)
(* Layout::array::<T>(n): Err when n * size, rounded up to the alignment, exceeds isize::MAX *)
Definition layout_array (T : ty) (n : N) : option layout :=
  if n * sz T <=? ISIZE_MAX - (al T - 1) then Some (mkLayout (n * sz T) (al T)) else None.

Inductive zres : Type :=
| ZOkNoAlloc (len cap : N)                     (* dangling pointer, nothing allocated *)
| ZOkAlloc (l : layout) (len cap : N)          (* alloc_zeroed(l) succeeded *)
| ZErrLayout                                   (* layout overflow: no allocator call *)
| ZErrNull (l : layout).                       (* alloc_zeroed(l) returned null *)

Definition try_zeroed_box (T : ty) (alloc_ok : bool) : zres :=
  if sz T =? 0 then ZOkNoAlloc 1 1
  else let l := mkLayout (sz T) (al T) in if alloc_ok then ZOkAlloc l 1 1 else ZErrNull l.

Definition try_zeroed_slice_box (T : ty) (n : N) (alloc_ok : bool) : zres :=
  if (sz T =? 0) || (n =? 0) then ZOkNoAlloc n n
  else match layout_array T n with
       | None => ZErrLayout
       | Some l => if alloc_ok then ZOkAlloc l n n else ZErrNull l
       end.

(* Vec::new() for length 0; otherwise the boxed slice turned into a Vec (capacity = length; a Vec of
   zero-sized elements reports capacity usize::MAX) *)
Definition try_zeroed_vec (T : ty) (n : N) (alloc_ok : bool) : zres :=
  if n =? 0 then ZOkNoAlloc 0 (if sz T =? 0 then USIZE_MAX else 0)
  else match try_zeroed_slice_box T n alloc_ok with
       | ZOkNoAlloc len _ => ZOkNoAlloc len (if sz T =? 0 then USIZE_MAX else len)
       | r => r
       end.
