(* Model/TraitSolver.v — an executable reading of the impl table (Gen/Tables.v): does the crate
   declare marker [m] for the ground type [t]?  First-order matching of each rule's Self pattern
   against the type, then the rule's bounds on the matched parameters, recursively. *)
From Coq Require Import NArith List Bool String Lia.
From BM Require Import Base.TyExpr.
Import ListNotations.
Open Scope bool_scope.
Open Scope string_scope.

Definition subst_t := list (nat * tyx).
Fixpoint lookup (i : nat) (s : subst_t) : option tyx :=
  match s with
  | [] => None
  | (j, t) :: r => if Nat.eqb i j then Some t else lookup i r
  end.

Fixpoint tyx_eqb (a b : tyx) {struct a} : bool :=
  match a, b with
  | TLeaf x, TLeaf y => String.eqb x y
  | TVar i, TVar j => Nat.eqb i j
  | TApp c l, TApp d m =>
      String.eqb c d &&
      (fix go (l m : list tyx) : bool :=
         match l, m with [], [] => true | x :: l', y :: m' => tyx_eqb x y && go l' m' | _, _ => false end) l m
  | TArr e n, TArr f k => tyx_eqb e f && match n, k with Some x, Some y => N.eqb x y | None, None => true | _, _ => false end
  | TTup l, TTup m =>
      (fix go (l m : list tyx) : bool :=
         match l, m with [], [] => true | x :: l', y :: m' => tyx_eqb x y && go l' m' | _, _ => false end) l m
  | TPtr x p, TPtr y q => Bool.eqb x y && tyx_eqb p q
  | TRef x p, TRef y q => Bool.eqb x y && tyx_eqb p q
  | TSlice p, TSlice q => tyx_eqb p q
  | TFn a1 u1 l r, TFn a2 u2 m q =>
      String.eqb a1 a2 && Bool.eqb u1 u2 && tyx_eqb r q &&
      (fix go (l m : list tyx) : bool :=
         match l, m with [], [] => true | x :: l', y :: m' => tyx_eqb x y && go l' m' | _, _ => false end) l m
  | _, _ => false
  end.

(* match pattern [p] (may contain TVar) against ground type [t], extending the substitution *)
Fixpoint pmatch (p t : tyx) (s : subst_t) {struct p} : option subst_t :=
  match p with
  | TVar i => match lookup i s with
              | Some u => if tyx_eqb u t then Some s else None
              | None => Some ((i, t) :: s)
              end
  | TLeaf x => match t with TLeaf y => if String.eqb x y then Some s else None | _ => None end
  | TApp c l => match t with
                | TApp d m => if String.eqb c d then
                    (fix go (l m : list tyx) (s : subst_t) : option subst_t :=
                       match l, m with
                       | [], [] => Some s
                       | x :: l', y :: m' => match pmatch x y s with Some s' => go l' m' s' | None => None end
                       | _, _ => None
                       end) l m s else None
                | _ => None
                end
  | TArr e n => match t with
                | TArr f k => match n, k with
                              | Some x, Some y => if N.eqb x y then pmatch e f s else None
                              | None, Some _ => pmatch e f s          (* a const-generic length matches every length *)
                              | _, _ => None
                              end
                | _ => None
                end
  | TTup l => match t with
              | TTup m =>
                  (fix go (l m : list tyx) (s : subst_t) : option subst_t :=
                     match l, m with
                     | [], [] => Some s
                     | x :: l', y :: m' => match pmatch x y s with Some s' => go l' m' s' | None => None end
                     | _, _ => None
                     end) l m s
              | _ => None
              end
  | TPtr x q => match t with TPtr y r => if Bool.eqb x y then pmatch q r s else None | _ => None end
  | TRef x q => match t with TRef y r => if Bool.eqb x y then pmatch q r s else None | _ => None end
  | TSlice q => match t with TSlice r => pmatch q r s | _ => None end
  | TFn a1 u1 l r => match t with
                     | TFn a2 u2 m q =>
                         if String.eqb a1 a2 && Bool.eqb u1 u2 then
                           match pmatch r q s with
                           | Some s0 =>
                               (fix go (l m : list tyx) (s : subst_t) : option subst_t :=
                                  match l, m with
                                  | [], [] => Some s
                                  | x :: l', y :: m' => match pmatch x y s with Some s' => go l' m' s' | None => None end
                                  | _, _ => None
                                  end) l m s0
                           | None => None
                           end
                         else None
                     | _ => None
                     end
  end.

(* is a type unsized?  (a parameter not declared ?Sized cannot be instantiated with one) *)
Definition is_unsized (t : tyx) : bool :=
  match t with TSlice _ => true | TLeaf s => String.eqb s "str" || String.eqb s "dyn" | _ => false end.

Definition marker_names : list string :=
  ["Pod"; "Zeroable"; "NoUninit"; "AnyBitPattern"; "CheckedBitPattern"; "PodInOption"; "ZeroableInOption"].

(* lazy any / all: under vm_compute the library's existsb / forallb evaluate every element *)
Fixpoint anyb {X} (f : X -> bool) (l : list X) : bool :=
  match l with [] => false | x :: r => if f x then true else anyb f r end.
Fixpoint allb {X} (f : X -> bool) (l : list X) : bool :=
  match l with [] => true | x :: r => if f x then allb f r else false end.

Fixpoint holds (fuel : nat) (rules : list rule) (m : string) (t : tyx) : bool :=
  match fuel with
  | O => false
  | S k =>
      anyb (fun r =>
        if String.eqb (r_trait r) m then
          if r_other_where r then false else
          match pmatch (r_self r) t [] with
          | Some s =>
              if allb (fun iu => let '(i, u) := iu in if is_unsized u then anyb (Nat.eqb i) (r_unsized r) else true) s
              then allb (fun ib => let '(i, b) := ib in
                           if anyb (String.eqb b) marker_names
                           then match lookup i s with Some u => holds k rules b u | None => false end
                           else true) (r_bounds r)
              else false
          | None => false
          end
        else false) rules
  end.

Fixpoint tsize (t : tyx) : nat :=
  match t with
  | TApp _ l | TTup l => S (fold_right (fun x a => tsize x + a) 0 l)
  | TArr e _ | TPtr _ e | TRef _ e | TSlice e => S (tsize e)
  | TFn _ _ l r => S (tsize r + fold_right (fun x a => tsize x + a) 0 l)
  | _ => 1
  end.

Definition impl_holds (rules : list rule) (m : string) (t : tyx) : bool := holds (4 * tsize t + 8) rules m t.
