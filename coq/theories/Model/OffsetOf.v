(* Model/OffsetOf.v — the run-time part of bytemuck::offset_of! (src/offset_of.rs): the address of
   the field minus the address of the instance, through checked_sub and a sanity assertion.  The
   static part (the field pattern that refuses Deref, the borrow that refuses under-aligned packed
   fields) is rustc's; it is validated by the derivefam correspondence, not verified. *)
From Coq Require Import NArith List Bool Lia.
From BM Require Import Base.Outcome Base.Prims Model.ReprC.
Import ListNotations.
Open Scope N_scope.

Definition offset_of_run (base field_addr size : N) : outcome N :=
  if field_addr <? base then Panic (W_unwrap EUnit)                 (* checked_sub(..).unwrap() *)
  else let r := field_addr - base in
       if r <=? size then Ret r else Panic W_assert.                  (* assert!(result <= size_of::<T>()) *)

(* for a direct field at offset [off] whose extent lies inside the struct, both forms return [off] *)
Theorem offset_of_direct base off fsize size :
  off + fsize <= size -> offset_of_run base (base + off) size = Ret off.
Proof.
  intros H. unfold offset_of_run.
  assert (E : (base + off <? base) = false) by (apply N.ltb_ge; lia). rewrite E.
  replace (base + off - base) with off by lia.
  assert (E2 : (off <=? size) = true) by (apply N.leb_le; lia). rewrite E2. reflexivity.
Qed.

(* every field of a repr(C) layout lies inside the struct, so the hypothesis above is met *)
Lemma place_fields_inside packed fs : forall off,
  Forall2 (fun f o => o + f_size f <= snd (place packed off fs)) fs (fst (place packed off fs)).
Proof.
  induction fs as [|f r IH]; intros off; cbn [place]; [constructor|].
  destruct (place packed (round_up off (cap packed (f_align f)) + f_size f) r) as [os e] eqn:E. cbn [fst snd].
  pose proof (place_end_ge packed r (round_up off (cap packed (f_align f)) + f_size f)) as Hp. rewrite E in Hp. cbn [snd] in Hp.
  constructor.
  - unfold sum_sizes in Hp. lia.
  - specialize (IH (round_up off (cap packed (f_align f)) + f_size f)). rewrite E in IH. cbn [fst snd] in IH. exact IH.
Qed.

Theorem layout_fields_inside packed align fs :
  Forall2 (fun f o => o + f_size f <= lc_size (layout_C packed align fs)) fs (lc_offsets (layout_C packed align fs)).
Proof.
  unfold layout_C. pose proof (place_fields_inside packed fs 0) as H.
  destruct (place packed 0 fs) as [os e]. cbn [fst snd] in H. cbn [lc_size lc_offsets].
  set (a := struct_align packed align fs). pose proof (round_up_ge e a) as Hr.
  clearbody a. revert H. generalize os. induction fs as [|f r IH]; intros os' H; inversion H; subst; constructor; [lia | apply IH; assumption].
Qed.

(* the static side, as a decision on the facts the harness knows: a direct field compiles unless
   the struct is packed(N) and the field's alignment exceeds N (a reference to it would be
   misaligned: E0793) *)
Definition offset_of_compiles (direct : bool) (packed falign : N) : bool :=
  direct && negb (negb (packed =? 0) && (packed <? falign)).

(* ---- soundness of the run-time part: whatever it returns IS the address difference, inside the
   struct; a field address below the instance or beyond its end panics, it never yields a number *)
Theorem offset_of_run_sound base a size r :
  offset_of_run base a size = Ret r -> a = base + r /\ r <= size.
Proof.
  unfold offset_of_run. destruct (a <? base) eqn:E; [discriminate|]. apply N.ltb_ge in E.
  destruct (a - base <=? size) eqn:F; [|discriminate]. apply N.leb_le in F.
  intros H. inversion H; subst. split; lia.
Qed.

Theorem offset_of_run_outside base a size :
  a < base \/ base + size < a -> forall r, offset_of_run base a size <> Ret r.
Proof.
  intros Hout r H. apply offset_of_run_sound in H. lia.
Qed.

(* ---- more of what "the true offset" means for the layout model: offsets are aligned for the
   (capped) field alignment, fields come in declaration order without overlapping, and the first
   field is at offset 0 *)
Lemma round_up_mod n a : a <> 0 -> round_up n a mod a = 0.
Proof. intros H. unfold round_up. apply N.eqb_neq in H. rewrite H. apply N.eqb_neq in H. apply N.mod_mul. exact H. Qed.

Lemma round_up_zero a : round_up 0 a = 0.
Proof.
  unfold round_up. destruct (a =? 0) eqn:E; [reflexivity|]. apply N.eqb_neq in E.
  replace (0 + a - 1) with (a - 1) by lia. rewrite N.div_small by lia. reflexivity.
Qed.

Lemma place_offsets_aligned packed fs : forall off,
  Forall2 (fun f o => cap packed (f_align f) <> 0 -> o mod cap packed (f_align f) = 0) fs (fst (place packed off fs)).
Proof.
  induction fs as [|f r IH]; intros off; cbn [place]; [constructor|].
  destruct (place packed (round_up off (cap packed (f_align f)) + f_size f) r) as [os e] eqn:E. cbn [fst].
  constructor; [intros Hc; apply round_up_mod; exact Hc|].
  specialize (IH (round_up off (cap packed (f_align f)) + f_size f)). rewrite E in IH. exact IH.
Qed.

Fixpoint chain (off : N) (fs : list fld) (os : list N) : Prop :=
  match fs, os with
  | [], [] => True
  | f :: r, o :: os' => off <= o /\ chain (o + f_size f) r os'
  | _, _ => False
  end.

Lemma place_chain packed fs : forall off, chain off fs (fst (place packed off fs)).
Proof.
  induction fs as [|f r IH]; intros off; cbn [place]; [exact I|].
  destruct (place packed (round_up off (cap packed (f_align f)) + f_size f) r) as [os e] eqn:E. cbn [fst chain].
  split; [apply round_up_ge|].
  specialize (IH (round_up off (cap packed (f_align f)) + f_size f)). rewrite E in IH. exact IH.
Qed.

Theorem layout_offsets_aligned packed align fs :
  Forall2 (fun f o => cap packed (f_align f) <> 0 -> o mod cap packed (f_align f) = 0) fs (lc_offsets (layout_C packed align fs)).
Proof.
  unfold layout_C. pose proof (place_offsets_aligned packed fs 0) as H.
  destruct (place packed 0 fs) as [os e]. exact H.
Qed.

Theorem layout_offsets_ordered packed align fs : chain 0 fs (lc_offsets (layout_C packed align fs)).
Proof.
  unfold layout_C. pose proof (place_chain packed fs 0) as H.
  destruct (place packed 0 fs) as [os e]. exact H.
Qed.

Theorem layout_first_field_at_zero packed align f fs :
  hd_error (lc_offsets (layout_C packed align (f :: fs))) = Some 0.
Proof.
  unfold layout_C. cbn [place]. rewrite round_up_zero.
  destruct (place packed (0 + f_size f) fs) as [os e]. reflexivity.
Qed.

(* the alignment of the struct is a multiple-of-itself bound on every capped field alignment, so an
   instance aligned for the struct has every field aligned for its capped alignment: stated as
   "size is a multiple of the alignment" (arrays of the struct keep fields aligned) *)
Theorem layout_size_multiple_of_align packed align fs :
  lc_size (layout_C packed align fs) mod lc_align (layout_C packed align fs) = 0.
Proof.
  unfold layout_C. destruct (place packed 0 fs) as [os e]. cbn [lc_size lc_align].
  apply round_up_mod. unfold struct_align. destruct (align =? 0) eqn:E; [lia | apply N.eqb_neq in E; lia].
Qed.
