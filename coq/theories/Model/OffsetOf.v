(* Model/OffsetOf.v — the run-time part of bytemuck::offset_of! (src/offset_of.rs): the address of
   the field minus the address of the instance, through checked_sub and a sanity assertion.  The
   static part (the field pattern that refuses Deref, the borrow that refuses under-aligned packed
   fields) is rustc's; it is validated by the derivefam correspondence, not verified. *)
From Coq Require Import NArith List Bool Lia.
From BM Require Import Base.Outcome Base.Prims Model.ReprC.
Import ListNotations.
Open Scope N_scope.

Definition offset_of_run (base field_addr size : N) : outcome N :=
  if field_addr <? base then Panic (W_unwrap EUnit)                 (* checked_sub(..).unwrap() *)
  else let r := field_addr - base in
       if r <=? size then Ret r else Panic W_assert.                  (* assert!(result <= size_of::<T>()) *)

(* for a direct field at offset [off] whose extent lies inside the struct, both forms return [off] *)
Theorem offset_of_direct base off fsize size :
  off + fsize <= size -> offset_of_run base (base + off) size = Ret off.
Proof.
  intros H. unfold offset_of_run.
  assert (E : (base + off <? base) = false) by (apply N.ltb_ge; lia). rewrite E.
  replace (base + off - base) with off by lia.
  assert (E2 : (off <=? size) = true) by (apply N.leb_le; lia). rewrite E2. reflexivity.
Qed.

(* every field of a repr(C) layout lies inside the struct, so the hypothesis above is met *)
Lemma place_fields_inside packed fs : forall off,
  Forall2 (fun f o => o + f_size f <= snd (place packed off fs)) fs (fst (place packed off fs)).
Proof.
  induction fs as [|f r IH]; intros off; cbn [place]; [constructor|].
  destruct (place packed (round_up off (cap packed (f_align f)) + f_size f) r) as [os e] eqn:E. cbn [fst snd].
  pose proof (place_end_ge packed r (round_up off (cap packed (f_align f)) + f_size f)) as Hp. rewrite E in Hp. cbn [snd] in Hp.
  constructor.
  - unfold sum_sizes in Hp. lia.
  - specialize (IH (round_up off (cap packed (f_align f)) + f_size f)). rewrite E in IH. cbn [fst snd] in IH. exact IH.
Qed.

Theorem layout_fields_inside packed align fs :
  Forall2 (fun f o => o + f_size f <= lc_size (layout_C packed align fs)) fs (lc_offsets (layout_C packed align fs)).
Proof.
  unfold layout_C. pose proof (place_fields_inside packed fs 0) as H.
  destruct (place packed 0 fs) as [os e]. cbn [fst snd] in H. cbn [lc_size lc_offsets].
  set (a := struct_align packed align fs). pose proof (round_up_ge e a) as Hr.
  clearbody a. revert H. generalize os. induction fs as [|f r IH]; intros os' H; inversion H; subst; constructor; [lia | apply IH; assumption].
Qed.

(* the static side, as a decision on the facts the harness knows: a direct field compiles unless
   the struct is packed(N) and the field's alignment exceeds N (a reference to it would be
   misaligned: E0793) *)
Definition offset_of_compiles (direct : bool) (packed falign : N) : bool :=
  direct && negb (negb (packed =? 0) && (packed <? falign)).
