(* Model/ReprC.v — the layout of a #[repr(C)] struct as the Rust reference defines it, with the
   packed(N) and align(N) modifiers: fields in declaration order, each at the next offset that is
   a multiple of min(its alignment, N); the struct's alignment is the largest (capped) field
   alignment, raised by align(N); the size is rounded up to the alignment.  Validated against the
   compiler's own size_of / align_of / offset_of! on every run (a model of rustc, not verified). *)
From Coq Require Import NArith List Bool Lia.
Import ListNotations.
Open Scope N_scope.

Record fld : Type := mkFld { f_size : N; f_align : N }.

Definition round_up (n a : N) : N := if a =? 0 then n else (n + a - 1) / a * a.
Definition cap (packed a : N) : N := if packed =? 0 then a else N.min a packed.

(* offsets of the fields, and the end of the last one *)
Fixpoint place (packed : N) (off : N) (fs : list fld) : list N * N :=
  match fs with
  | [] => ([], off)
  | f :: r => let o := round_up off (cap packed (f_align f)) in
              let '(os, e) := place packed (o + f_size f) r in (o :: os, e)
  end.

Definition struct_align (packed align : N) (fs : list fld) : N :=
  N.max (fold_right (fun f a => N.max (cap packed (f_align f)) a) 1 fs) (if align =? 0 then 1 else align).

Record layoutc : Type := mkLC { lc_size : N; lc_align : N; lc_offsets : list N }.

Definition layout_C (packed align : N) (fs : list fld) : layoutc :=
  let '(os, e) := place packed 0 fs in
  let a := struct_align packed align fs in
  mkLC (round_up e a) a os.

Definition sum_sizes (fs : list fld) : N := fold_right (fun f a => f_size f + a) 0 fs.

Lemma round_up_ge n a : n <= round_up n a.
Proof.
  unfold round_up. destruct (a =? 0) eqn:E; [lia|]. apply N.eqb_neq in E.
  pose proof (N.div_mod (n + a - 1) a E). pose proof (N.mod_lt (n + a - 1) a E). nia.
Qed.

Lemma place_end_ge packed fs : forall off, off + sum_sizes fs <= snd (place packed off fs).
Proof.
  induction fs as [|f r IH]; intros off; cbn [place sum_sizes fold_right snd]; [lia|].
  destruct (place packed (round_up off (cap packed (f_align f)) + f_size f) r) as [os e] eqn:E. cbn [snd].
  specialize (IH (round_up off (cap packed (f_align f)) + f_size f)). rewrite E in IH. cbn [snd] in IH.
  pose proof (round_up_ge off (cap packed (f_align f))). fold (sum_sizes r) in *. lia.
Qed.

(* the fact the derive's transmute-size check relies on: a repr(C) struct is never smaller than
   the sum of its fields ... *)
Theorem size_ge_sum packed align fs : sum_sizes fs <= lc_size (layout_C packed align fs).
Proof.
  unfold layout_C. destruct (place packed 0 fs) as [os e] eqn:E. cbn [lc_size].
  pose proof (place_end_ge packed fs 0) as H. rewrite E in H. cbn [snd] in H.
  pose proof (round_up_ge e (struct_align packed align fs)). lia.
Qed.

(* ... and it has exactly that size iff there is no padding anywhere: every field starts where the
   previous one ended, and nothing follows the last one *)
Fixpoint tight (off : N) (fs : list fld) (os : list N) : Prop :=
  match fs, os with
  | [], [] => True
  | f :: r, o :: q => o = off /\ tight (off + f_size f) r q
  | _, _ => False
  end.

Lemma place_tight packed fs : forall off,
  snd (place packed off fs) = off + sum_sizes fs -> tight off fs (fst (place packed off fs)).
Proof.
  induction fs as [|f r IH]; intros off; cbn [place sum_sizes fold_right]; [intros _; exact I|].
  destruct (place packed (round_up off (cap packed (f_align f)) + f_size f) r) as [os e] eqn:E. cbn [fst snd].
  fold (sum_sizes r). intros He.
  pose proof (round_up_ge off (cap packed (f_align f))) as Hr.
  pose proof (place_end_ge packed r (round_up off (cap packed (f_align f)) + f_size f)) as Hp. rewrite E in Hp. cbn [snd] in Hp.
  assert (Ho : round_up off (cap packed (f_align f)) = off) by lia.
  split; [exact Ho|]. rewrite Ho in *. specialize (IH (off + f_size f)). rewrite E in IH. cbn [fst snd] in IH. apply IH. lia.
Qed.

Theorem no_padding_iff packed align fs :
  lc_size (layout_C packed align fs) = sum_sizes fs ->
  tight 0 fs (lc_offsets (layout_C packed align fs)).
Proof.
  unfold layout_C. destruct (place packed 0 fs) as [os e] eqn:E. cbn [lc_size lc_offsets]. intros H.
  pose proof (place_end_ge packed fs 0) as Hp. rewrite E in Hp. cbn [snd] in Hp.
  pose proof (round_up_ge e (struct_align packed align fs)).
  pose proof (place_tight packed fs 0) as Ht. rewrite E in Ht. cbn [fst snd] in Ht. apply Ht. lia.
Qed.
