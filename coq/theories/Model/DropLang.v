(* Model/DropLang.v — a small statement language with Rust's drop semantics, for the functions of
   src/lib.rs whose whole point is WHEN destructors run: write_zeroes and fill_zeroes.

   The translator emits the body of such a function as a value of [zstmt] (Gen/Zero.v), purely
   syntactically; what the statements MEAN is defined here, once:
     * memory is a list of cells; a cell holds a live value with a tracked destructor (COld id), all-zero
       bytes (CZero), a value that has been dropped and not rewritten (CGone), or other bytes (CJunk);
     * drop_in_place runs the destructor of a live value (recording its id) and may start unwinding;
       dropping a dropped value is undefined behaviour (Stuck);
     * a `let g = Guard(x)` of a local struct with a Drop impl is LIVE until it is moved (drop(g),
       mem::forget(g)); leaving its scope — normally or by unwinding — runs its Drop body, last declared
       first; a panic in a destructor that runs during unwinding aborts;
     * no statement runs once the function is unwinding (only the guards do).
   Calls to other translated functions and the Drop bodies of guards are resolved through tables, so the
   interpreter is structurally recursive on the statement alone. *)
From Coq Require Import NArith List Bool String Arith Lia.
Import ListNotations.
Open Scope string_scope.

Inductive cell : Type := COld (id : nat) | CZero | CGone | CJunk.
Inductive zstatus : Type := Running | Unwinding | Aborted | Stuck (why : string).
Record zmem : Type := mkZmem { cells : list cell; dropped : list nat; status : zstatus }.

Inductive zval : Type :=
| VPtr (i : nat)                      (* pointer / reference to cell i *)
| VSlice (start len : nat)            (* &mut [T] *)
| VNum (n : nat)
| VGuard (gty : string) (payload : zval)
| VBad.

Inductive zexp : Type :=
| EVar (x : string)
| EField0 (e : zexp)                  (* g.0 *)
| ELen (e : zexp)                     (* s.len() *)
| EAsPtr (e : zexp)                   (* s.as_mut_ptr() *)
| ENum (n : nat)
| EAdd (a b : zexp)
| ESub (a b : zexp).                  (* a - b: overflow is a panic in Rust; here no value *)

(* conditions on the element type: the two facts the functions ask about *)
Inductive zcond : Type :=
| CNeedsDrop                          (* core::mem::needs_drop::<T>() *)
| CSizeZero                           (* size_of::<T>() == 0 *)
| CNot (c : zcond)
| CAnd (a b : zcond)
| COr (a b : zcond).

Inductive zstmt : Type :=
| SLet (x : string) (e : zexp)
| SLetGuard (x : string) (gty : string) (e : zexp)   (* let x = Guard(e), Guard a local struct with a Drop impl *)
| SDropInPlace (e : zexp)                            (* core::ptr::drop_in_place(e) *)
| SDrop (x : string)                                 (* drop(x) *)
| SForget (x : string)                               (* core::mem::forget(x) *)
| SWriteBytes (p : zexp) (byte : N) (n : zexp)       (* core::ptr::write_bytes(p, byte, n) *)
| SIf (c : zcond) (a b : list zstmt)                 (* if c { a } else { b } *)
| SForEach (s : zexp) (f : string)                   (* s.iter_mut().for_each(f) / for x in s { f(x) } *)
| SCall (f : string) (e : zexp)                      (* f(e) *)
| SBlock (b : list zstmt).                           (* { .. } / unsafe { .. } *)

(* z_live: the guards that are still live, most recent first, each with the value it was bound to (a later
   `let` of the same name shadows the variable, not the guard); None marks the start of a scope *)
Record zst : Type := mkZ { z_mem : zmem; z_env : list (string * zval); z_live : list (option (string * zval)) }.

Definition set_status (s : zstatus) (m : zmem) : zmem := mkZmem (cells m) (dropped m) s.
Definition stuck (why : string) (m : zmem) : zmem := set_status (Stuck why) m.
Definition running (m : zmem) : bool := match status m with Running => true | _ => false end.

Fixpoint lookup (env : list (string * zval)) (x : string) : zval :=
  match env with
  | [] => VBad
  | (y, v) :: r => if String.eqb x y then v else lookup r x
  end.

Fixpoint eval (env : list (string * zval)) (e : zexp) : zval :=
  match e with
  | EVar x => lookup env x
  | EField0 e => match eval env e with VGuard _ p => p | _ => VBad end
  | ELen e => match eval env e with VSlice _ n => VNum n | _ => VBad end
  | EAsPtr e => match eval env e with VSlice s _ => VPtr s | _ => VBad end
  | ENum n => VNum n
  | EAdd a b => match eval env a, eval env b with VNum x, VNum y => VNum (x + y) | _, _ => VBad end
  | ESub a b => match eval env a, eval env b with
                | VNum x, VNum y => if Nat.leb y x then VNum (x - y) else VBad
                | _, _ => VBad
                end
  end.

(* cells i .. i+n-1 := c *)
Definition set_range (i n : nat) (c : cell) (l : list cell) : list cell :=
  firstn i l ++ repeat c n ++ skipn (i + n) l.

Section Exec.
  Variable panics : nat -> bool.        (* does the destructor of value [id] panic *)
  Variable nd : bool.                   (* core::mem::needs_drop::<T>() *)
  Variable zsz : bool.                  (* size_of::<T>() == 0 *)

  Fixpoint ceval (c : zcond) : bool :=
    match c with
    | CNeedsDrop => nd
    | CSizeZero => zsz
    | CNot c => negb (ceval c)
    | CAnd a b => ceval a && ceval b
    | COr a b => ceval a || ceval b
    end.
  Variable gdrop : string -> zval -> zmem -> zmem.     (* Drop body of a guard type, run on its payload *)
  Variable call : string -> zval -> zmem -> zmem.      (* other functions of the module *)

  (* drop_in_place of cell i; a type that does not need drop has no destructor to run *)
  Definition drop_cell (i : nat) (m : zmem) : zmem :=
    if negb nd then m else
    match nth_error (cells m) i with
    | Some (COld id) => mkZmem (set_range i 1 CGone (cells m)) (dropped m ++ [id]) (if panics id then Unwinding else Running)
    | Some CZero => mkZmem (set_range i 1 CGone (cells m)) (dropped m) Running
    | Some CGone => stuck "drop of a value that was already dropped" m
    | Some CJunk => stuck "drop of bytes that are no value" m
    | None => stuck "drop_in_place out of bounds" m
    end.

  Definition write_cells (i n : nat) (byte : N) (m : zmem) : zmem :=
    if Nat.leb (i + n) (List.length (cells m))
    then mkZmem (set_range i n (if N.eqb byte 0 then CZero else CJunk) (cells m)) (dropped m) (status m)
    else stuck "write_bytes out of bounds" m.

  (* a guard's destructor: runs while unwinding too; a second panic then aborts *)
  Definition run_guard (v : zval) (m : zmem) : zmem :=
    match v with
    | VGuard gty p =>
        match status m with
        | Running => gdrop gty p m
        | Unwinding =>
            let m' := gdrop gty p (set_status Running m) in
            match status m' with
            | Running => set_status Unwinding m'
            | Unwinding => set_status Aborted m'
            | _ => m'
            end
        | _ => m
        end
    | _ => m
    end.

  (* leave a scope: the guards declared in it that are still live are dropped, last declared first *)
  Fixpoint close_scope (live : list (option (string * zval))) (m : zmem) : list (option (string * zval)) * zmem :=
    match live with
    | [] => ([], m)
    | None :: r => (r, m)
    | Some (_, v) :: r => close_scope r (run_guard v m)
    end.

  Fixpoint remove_live (x : string) (live : list (option (string * zval))) : list (option (string * zval)) :=
    match live with
    | [] => []
    | Some (y, v) :: r => if String.eqb x y then r else Some (y, v) :: remove_live x r
    | None :: r => None :: remove_live x r
    end.
  (* the most recent live guard bound to the name x *)
  Fixpoint find_live (x : string) (live : list (option (string * zval))) : option zval :=
    match live with
    | [] => None
    | Some (y, v) :: r => if String.eqb x y then Some v else find_live x r
    | None :: r => find_live x r
    end.

  Definition with_mem (z : zst) (m : zmem) : zst := mkZ m (z_env z) (z_live z).

  (* f(x) with x a reference to cells start .. start+len-1: the callee gets exactly those cells (writing
     outside them is out of bounds for it), the destructors run so far, and a running status; what it
     leaves is put back in place *)
  Definition call_view (f : string) (start len : nat) (arg : zval) (m : zmem) : zmem :=
    if Nat.leb (start + len) (List.length (cells m)) then
      let r := call f arg (mkZmem (firstn len (skipn start (cells m))) (dropped m) Running) in
      if Nat.eqb (List.length (cells r)) len
      then mkZmem (firstn start (cells m) ++ cells r ++ skipn (start + len) (cells m)) (dropped r) (status r)
      else stuck "a callee changed the size of what it was lent" m
    else stuck "reference out of bounds" m.

  Definition call_val (f : string) (v : zval) (m : zmem) : zmem :=
    match v with
    | VPtr i => call_view f i 1 (VPtr 0) m
    | VSlice s n => call_view f s n (VSlice 0 n) m
    | _ => stuck "call with something that is not a reference" m
    end.

  (* s.iter_mut().for_each(f): element by element, until one call unwinds *)
  Definition for_each_cell (f : string) (s n : nat) (m : zmem) : zmem :=
    fold_left (fun m0 i => if running m0 then call_view f (s + i) 1 (VPtr 0) m0 else m0) (seq 0 n) m.

  Definition in_scope (run : zst -> zst) (z : zst) : zst :=
    let z1 := run (mkZ (z_mem z) (z_env z) (None :: z_live z)) in
    let '(live', m') := close_scope (z_live z1) (z_mem z1) in
    mkZ m' (z_env z) live'.

  Fixpoint exec (s : zstmt) (z : zst) : zst :=
    if negb (running (z_mem z)) then z else
    match s with
    | SLet x e => mkZ (z_mem z) ((x, eval (z_env z) e) :: z_env z) (z_live z)
    | SLetGuard x gty e =>
        let v := VGuard gty (eval (z_env z) e) in
        mkZ (z_mem z) ((x, v) :: z_env z) (Some (x, v) :: z_live z)
    | SDropInPlace e =>
        match eval (z_env z) e with
        | VPtr i => with_mem z (drop_cell i (z_mem z))
        | _ => with_mem z (stuck "drop_in_place of something that is not a pointer" (z_mem z))
        end
    | SDrop x =>
        match find_live x (z_live z) with
        | Some v => mkZ (run_guard v (z_mem z)) (z_env z) (remove_live x (z_live z))
        | None => z          (* not a guard: nothing this model tracks *)
        end
    | SForget x => mkZ (z_mem z) (z_env z) (remove_live x (z_live z))
    | SWriteBytes p b n =>
        match eval (z_env z) p, eval (z_env z) n with
        | VPtr i, VNum k => with_mem z (write_cells i k b (z_mem z))
        | _, _ => with_mem z (stuck "write_bytes of something that is not a pointer and a count" (z_mem z))
        end
    | SIf c a b =>
        if ceval c
        then in_scope (fun z0 => fold_left (fun z1 s1 => exec s1 z1) a z0) z
        else in_scope (fun z0 => fold_left (fun z1 s1 => exec s1 z1) b z0) z
    | SForEach e f =>
        match eval (z_env z) e with
        | VSlice s n => with_mem z (for_each_cell f s n (z_mem z))
        | _ => with_mem z (stuck "for_each over something that is not a slice" (z_mem z))
        end
    | SCall f e => with_mem z (call_val f (eval (z_env z) e) (z_mem z))
    | SBlock b => in_scope (fun z0 => fold_left (fun z1 s1 => exec s1 z1) b z0) z
    end.

  Definition exec_body (param : string) (body : list zstmt) (arg : zval) (m : zmem) : zmem :=
    z_mem (in_scope (fun z0 => fold_left (fun z1 s1 => exec s1 z1) body z0) (mkZ m [(param, arg)] [])).
End Exec.

(* a translated function: destructor oracle, needs_drop::<T>(), size_of::<T>() == 0, argument, memory before -> memory after *)
Definition zfun : Type := (nat -> bool) -> bool -> bool -> zval -> zmem -> zmem.

Fixpoint assoc {X} (k : string) (l : list (string * X)) : option X :=
  match l with
  | [] => None
  | (k', v) :: r => if String.eqb k k' then Some v else assoc k r
  end.

Definition no_call : string -> zval -> zmem -> zmem := fun _ _ m => stuck "call of an unknown function" m.

(* guards: the Drop bodies of the function's local guard structs (they declare no guards and call nothing);
   calls: the translated functions this one may call *)
Definition zfun_of (guards : list (string * list zstmt)) (calls : list (string * zfun))
                   (param : string) (body : list zstmt) : zfun :=
  fun panics nd zsz arg m =>
    let gdrop gty p m0 :=
      match assoc gty guards with
      | Some gbody => exec_body panics nd zsz no_call no_call "self" gbody (VGuard gty p) m0
      | None => stuck "drop of an unknown guard type" m0
      end in
    let call f v m0 :=
      match assoc f calls with
      | Some g => g panics nd zsz v m0
      | None => stuck "call of an unknown function" m0
      end in
    exec_body panics nd zsz gdrop call param body arg m.
