(* Model/LangInt.v — the integer types of the language and which integers are valid values of the
   types that have a built-in Contiguous impl (trusted reading of the language reference). *)
From Coq Require Import NArith ZArith List Bool String Lia.
Import ListNotations.
Open Scope bool_scope.
Open Scope string_scope.
Open Scope Z_scope.

(* (bit width, signed) of a primitive integer type, on the 64-bit host *)
Definition int_kind (t : string) : option (Z * bool) :=
  if String.eqb t "u8" then Some (8, false) else if String.eqb t "i8" then Some (8, true)
  else if String.eqb t "u16" then Some (16, false) else if String.eqb t "i16" then Some (16, true)
  else if String.eqb t "u32" then Some (32, false) else if String.eqb t "i32" then Some (32, true)
  else if String.eqb t "u64" then Some (64, false) else if String.eqb t "i64" then Some (64, true)
  else if String.eqb t "usize" then Some (64, false) else if String.eqb t "isize" then Some (64, true)
  else if String.eqb t "u128" then Some (128, false) else if String.eqb t "i128" then Some (128, true)
  else None.

Definition kind_range (k : Z * bool) : Z * Z :=
  let '(w, s) := k in if s then (- 2 ^ (w - 1), 2 ^ (w - 1) - 1) else (0, 2 ^ w - 1).

Definition int_range (t : string) : option (Z * Z) := option_map kind_range (int_kind t).

(* the unsigned NonZero types: same width as the named primitive, every value but 0 *)
Definition nonzero_base (t : string) : option string :=
  if String.eqb t "NonZeroU8" then Some "u8" else if String.eqb t "NonZeroU16" then Some "u16"
  else if String.eqb t "NonZeroU32" then Some "u32" else if String.eqb t "NonZeroU64" then Some "u64"
  else if String.eqb t "NonZeroU128" then Some "u128" else if String.eqb t "NonZeroUsize" then Some "usize"
  else None.

(* the integers that are valid values of [self] when it is viewed as its same-sized integer type
   [int]: (bit width of self, lowest valid, highest valid) — all valid sets here are intervals *)
Definition valid_interval (self : string) : option (Z * Z * Z) :=
  if String.eqb self "bool" then Some (8, 0, 1)
  else match int_kind self with
       | Some k => let '(lo, hi) := kind_range k in Some (fst k, lo, hi)
       | None => match nonzero_base self with
                 | Some b => match int_kind b with Some k => Some (fst k, 1, snd (kind_range k)) | None => None end
                 | None => None
                 end
       end.

Definition valid_value (self : string) (v : Z) : bool :=
  match valid_interval self with Some (_, lo, hi) => (lo <=? v) && (v <=? hi) | None => false end.

(* the signed NonZero types: every value of the named primitive but 0 — not an interval, so no pair
   MIN_VALUE / MAX_VALUE can be right for them *)
Definition nonzero_signed_base (t : string) : option string :=
  if String.eqb t "NonZeroI8" then Some "i8" else if String.eqb t "NonZeroI16" then Some "i16"
  else if String.eqb t "NonZeroI32" then Some "i32" else if String.eqb t "NonZeroI64" then Some "i64"
  else if String.eqb t "NonZeroI128" then Some "i128" else if String.eqb t "NonZeroIsize" then Some "isize"
  else None.

(* is the integer [v] a valid value of [self]?  None: this reading of the language does not know the type *)
Definition known_valid (self : string) (v : Z) : option bool :=
  match valid_interval self with
  | Some (_, lo, hi) => Some ((lo <=? v) && (v <=? hi))
  | None =>
      match nonzero_signed_base self with
      | Some b => match int_range b with
                  | Some (lo, hi) => Some ((lo <=? v) && (v <=? hi) && negb (v =? 0))
                  | None => None
                  end
      | None => None
      end
  end.
