(* Model/RcHist.v — the handles of one Rc / Arc allocation under clone / downgrade / upgrade /
   cast / drop.  A model of std's reference counting (trusted; validated by the allocgrid history
   runs) in which bytemuck's try_cast_rc / try_cast_arc is the step [HCast]: it re-types one strong
   handle and, being into_raw followed by from_raw, touches no counter.  Arc's atomics are assumed
   linearisable: every interleaving is then one of these sequential histories. *)
From Coq Require Import NArith Arith List Bool Lia.
Import ListNotations.

Inductive hop : Type :=
| HClone       (* clone a strong handle *)
| HDowngrade   (* make a weak handle from a strong one *)
| HUpgrade     (* try to make a strong handle from a weak one *)
| HCast        (* bytemuck::try_cast_rc on a strong handle (either direction, success or failure) *)
| HDropStrong
| HDropWeak.

Record rcst : Type := mkRc {
  strong : nat; weak : nat;          (* handles held by the program *)
  value_dropped : bool;              (* the value's destructor has run *)
  freed : nat                        (* how many times the block went back to the allocator *)
}.

Definition rc_init : rcst := mkRc 1 0 false 0.

(* an operation that needs a handle the program does not hold is not a step of any history *)
Definition rc_step (s : rcst) (o : hop) : rcst :=
  match o with
  | HClone => if Nat.ltb 0 (strong s) then mkRc (S (strong s)) (weak s) (value_dropped s) (freed s) else s
  | HDowngrade => if Nat.ltb 0 (strong s) then mkRc (strong s) (S (weak s)) (value_dropped s) (freed s) else s
  | HUpgrade => if Nat.ltb 0 (weak s) && Nat.ltb 0 (strong s)
                then mkRc (S (strong s)) (weak s) (value_dropped s) (freed s) else s
  | HCast => s
  | HDropStrong =>
      match strong s with
      | O => s
      | S O => mkRc 0 (weak s) true (if Nat.eqb (weak s) 0 then S (freed s) else freed s)
      | S n => mkRc n (weak s) (value_dropped s) (freed s)
      end
  | HDropWeak =>
      match weak s with
      | O => s
      | S O => mkRc (strong s) 0 (value_dropped s) (if Nat.eqb (strong s) 0 then S (freed s) else freed s)
      | S n => mkRc (strong s) n (value_dropped s) (freed s)
      end
  end.

Definition rc_run (ops : list hop) : rcst := fold_left rc_step ops rc_init.

(* the block is with the allocator exactly when no handle is left, and it went there once *)
Definition rc_inv (s : rcst) : Prop :=
  (freed s = 0 \/ freed s = 1) /\
  (freed s = 1 <-> (strong s = 0 /\ weak s = 0)) /\
  (value_dropped s = true <-> strong s = 0).

Lemma rc_step_inv s o : rc_inv s -> rc_inv (rc_step s o).
Proof.
  unfold rc_inv. intros (Hf & Hz & Hv).
  destruct s as [st wk vd fr]. cbn [strong weak value_dropped freed] in *.
  destruct o; cbn [rc_step strong weak value_dropped freed].
  - destruct st; cbn; intuition (try lia; try congruence).
  - destruct st; cbn; intuition (try lia; try congruence).
  - destruct wk, st; cbn; intuition (try lia; try congruence).
  - intuition.
  - destruct st as [|[|n]]; cbn; [intuition| |intuition (try lia; try congruence)].
    destruct wk; cbn; intuition (try lia; try congruence).
  - destruct wk as [|[|n]]; cbn; [intuition| |intuition (try lia; try congruence)].
    destruct st; cbn; intuition (try lia; try congruence).
Qed.

Lemma rc_init_inv : rc_inv rc_init.
Proof. unfold rc_inv, rc_init; cbn. intuition (try lia; try congruence). Qed.

(* for EVERY history: never freed twice, freed exactly when the last handle is gone (no leak, no
   early free), the value dropped exactly when the last strong handle is gone *)
Theorem rc_hist_inv ops : rc_inv (rc_run ops).
Proof.
  unfold rc_run. generalize rc_init_inv. generalize rc_init.
  induction ops as [|o r IH]; intros s Hs; cbn [fold_left]; [exact Hs|].
  apply IH. apply rc_step_inv. exact Hs.
Qed.

(* a cast changes nothing: the counts every other handle observes are unaffected *)
Theorem rc_cast_noop s : rc_step s HCast = s.
Proof. reflexivity. Qed.
