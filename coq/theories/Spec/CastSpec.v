(* Spec/CastSpec.v — what C01 / C02 / C03 / C11 / C14 say about the borrowed and by-value casts,
   written without reference to the code: when a cast must succeed, what a truthful error is,
   and what the resulting view must be. *)
From Coq Require Import NArith List Bool String Lia.
From BM Require Import Base.Outcome Base.Prims Base.Layout.
Open Scope bool_scope.
Open Scope N_scope.

(* --- slices --- *)
Definition slice_cast_ok (A B : ty) (s : slice) : Prop :=
  addr (sptr s) mod al B = 0 /\ convertible (slen s * sz A) (sz B).

Definition slice_err_true (A B : ty) (s : slice) (e : perr) : Prop :=
  match e with
  | TargetAlignmentGreaterAndInputNotAligned => addr (sptr s) mod al B <> 0
  | OutputSliceWouldHaveSlop => ~ convertible (slen s * sz A) (sz B)
  | SizeMismatch | AlignmentMismatch => False
  end.

(* the returned view: same start address, same byte length, aligned for B, and its extent is
   exactly its own byte size (it cannot reach further) *)
Definition slice_view_ok (A B : ty) (s v : slice) : Prop :=
  addr (sptr v) = addr (sptr s) /\ slen v * sz B = slen s * sz A /\
  addr (sptr v) mod al B = 0 /\ avail (sptr v) = slen v * sz B.

Definition slice_outcome_ok (A B : ty) (s : slice) (o : outcome (result slice perr)) : Prop :=
  match o with
  | Ret (Ok v) => slice_cast_ok A B s /\ slice_view_ok A B s v
  | Ret (Err e) => ~ slice_cast_ok A B s /\ slice_err_true A B s e
  | Panic _ | UB _ => False
  end.

(* --- single references --- *)
Definition ref_cast_ok (A B : ty) (p : ptr) : Prop :=
  addr p mod al B = 0 /\ sz A = sz B.

Definition ref_err_true (A B : ty) (p : ptr) (e : perr) : Prop :=
  match e with
  | TargetAlignmentGreaterAndInputNotAligned => addr p mod al B <> 0
  | SizeMismatch => sz A <> sz B
  | OutputSliceWouldHaveSlop | AlignmentMismatch => False
  end.

Definition ref_view_ok (B : ty) (p v : ptr) : Prop :=
  addr v = addr p /\ avail v = sz B /\ addr v mod al B = 0.

Definition ref_outcome_ok (A B : ty) (p : ptr) (o : outcome (result ptr perr)) : Prop :=
  match o with
  | Ret (Ok v) => ref_cast_ok A B p /\ ref_view_ok B p v
  | Ret (Err e) => ~ ref_cast_ok A B p /\ ref_err_true A B p e
  | Panic _ | UB _ => False
  end.

(* --- byte views: &[u8] -> &T --- *)
Definition bytes_cast_ok (T : ty) (s : slice) : Prop :=
  addr (sptr s) mod al T = 0 /\ slen s = sz T.

Definition bytes_err_true (T : ty) (s : slice) (e : perr) : Prop :=
  match e with
  | TargetAlignmentGreaterAndInputNotAligned => addr (sptr s) mod al T <> 0
  | SizeMismatch => slen s <> sz T
  | OutputSliceWouldHaveSlop | AlignmentMismatch => False
  end.

Definition bytes_outcome_ok (T : ty) (s : slice) (o : outcome (result ptr perr)) : Prop :=
  match o with
  | Ret (Ok v) => bytes_cast_ok T s /\ ref_view_ok T (sptr s) v
  | Ret (Err e) => ~ bytes_cast_ok T s /\ bytes_err_true T s e
  | Panic _ | UB _ => False
  end.

(* --- the panicking twin of a fallible function (C11) --- *)
Definition twin {X} (fn : string) (t : outcome (result X perr)) (p : outcome X) : Prop :=
  match t with
  | Ret (Ok v) => p = Ret v
  | Ret (Err e) => p = Panic (W_msg fn (EP e))
  | Panic w => p = Panic w
  | UB u => p = UB u
  end.

Definition ctwin {X} (fn : string) (t : outcome (result X cerr)) (p : outcome X) : Prop :=
  match t with
  | Ret (Ok v) => p = Ret v
  | Ret (Err e) => p = Panic (W_msg fn (EC e))
  | Panic w => p = Panic w
  | UB u => p = UB u
  end.

(* what C07 demands of a checked outcome, given the plain cast's outcome on the same input and the
   validity of the elements of the plain view *)
Definition checked_outcome {V} (plain : outcome (result V perr)) (valid : V -> bool)
           (o : outcome (result V cerr)) : Prop :=
  match plain with
  | Ret (Ok pv) => if valid pv then o = Ret (Ok pv) else o = Ret (Err InvalidBitPattern)
  | Ret (Err e) => o = Ret (Err (PodCastError e))
  | Panic w => o = Panic w
  | UB u => o = UB u
  end.

