(* Spec/MustSpec.v — the compile-time acceptance of the must_ casts, read off the assertion
   constants GENERATED from src/must.rs (definitions only; the theorems are in Proofs/CastMust.v). *)
From Coq Require Import NArith List Bool String.
From BM Require Import Base.Outcome Base.Prims.
From BM.Gen Require Must.
Open Scope bool_scope.
Open Scope N_scope.

(* the three generated assertion constants, as booleans *)
Definition assert_true (c : outcome bool) : bool := match c with Ret true => true | _ => false end.
Definition must_slice_okb (A B : ty) : bool :=
  assert_true (Must.ASSERT_SIZE_MULTIPLE_OF_OR_INPUT_ZST A B) && assert_true (Must.ASSERT_ALIGN_GREATER_THAN_EQUAL A B).
Definition must_ref_okb (A B : ty) : bool :=
  assert_true (Must.ASSERT_SIZE_EQUAL A B) && assert_true (Must.ASSERT_ALIGN_GREATER_THAN_EQUAL A B).
Definition must_val_okb (A B : ty) : bool := assert_true (Must.ASSERT_SIZE_EQUAL A B).

