(* Spec/Monitor.v — executable monitors: boolean checkers over what a harness OBSERVES of the
   implementation on one concrete input, each with a soundness theorem saying the checker is
   true exactly when the property's statement holds of that observation.  Extracted and run on
   the implementation's observations, they turn "the proof or the correspondence broke" into a
   concrete failing input (or the absence of one). *)
From Coq Require Import NArith List Bool String Lia.
From BM Require Import Base.Outcome Base.Prims Base.Layout Spec.CastSpec.
Open Scope bool_scope.
Open Scope N_scope.

(* an observed result of a borrowed cast: Ok(view address, view length), Err(variant),
   a panic (with the class of its message), or something else (abort, wrong shape) *)
Inductive obs : Type :=
| OOk (a n : N)
| OErr (e : perr)
| OPanicMsg (e : anyerr)      (* "<fn>>Variant": the ordinary something_went_wrong panic *)
| OPanicOther                 (* any other panic: unreachable!(), overflow, division by zero, ... *)
| OBad.                       (* abort, malformed line *)

Definition perr_eqb (x y : perr) : bool :=
  match x, y with
  | TargetAlignmentGreaterAndInputNotAligned, TargetAlignmentGreaterAndInputNotAligned
  | OutputSliceWouldHaveSlop, OutputSliceWouldHaveSlop
  | SizeMismatch, SizeMismatch
  | AlignmentMismatch, AlignmentMismatch => true
  | _, _ => false
  end.
Lemma perr_eqb_eq x y : perr_eqb x y = true <-> x = y.
Proof. destruct x, y; cbn; split; intros H; try reflexivity; try discriminate. Qed.

(* --- slices --- *)
Definition slice_cast_okb (A B : ty) (s : slice) : bool :=
  (addr (sptr s) mod al B =? 0) && convertibleb (slen s * sz A) (sz B).

Definition slice_err_trueb (A B : ty) (s : slice) (e : perr) : bool :=
  match e with
  | TargetAlignmentGreaterAndInputNotAligned => negb (addr (sptr s) mod al B =? 0)
  | OutputSliceWouldHaveSlop => negb (convertibleb (slen s * sz A) (sz B))
  | _ => false
  end.

(* C01 + C02 on one observation of a try_ slice cast.  The view's start address is only
   constrained when the view is non-empty (C01: "same start address whenever it is non-empty"). *)
Definition mon_try_slice (A B : ty) (s : slice) (o : obs) : bool :=
  match o with
  | OOk a n => slice_cast_okb A B s && (n * sz B =? slen s * sz A) &&
               ((n * sz B =? 0) || ((a =? addr (sptr s)) && (a mod al B =? 0)))
  | OErr e => negb (slice_cast_okb A B s) && slice_err_trueb A B s e
  | _ => false
  end.

Definition mon_try_slice_stmt (A B : ty) (s : slice) (o : obs) : Prop :=
  match o with
  | OOk a n => slice_cast_ok A B s /\ n * sz B = slen s * sz A /\
               (n * sz B = 0 \/ (a = addr (sptr s) /\ a mod al B = 0))
  | OErr e => ~ slice_cast_ok A B s /\ slice_err_true A B s e
  | _ => False
  end.

Lemma slice_cast_okb_spec A B s : slice_cast_okb A B s = true <-> slice_cast_ok A B s.
Proof.
  unfold slice_cast_okb, slice_cast_ok. rewrite andb_true_iff, N.eqb_eq, convertibleb_spec. tauto.
Qed.

Lemma slice_err_trueb_spec A B s e : slice_err_trueb A B s e = true <-> slice_err_true A B s e.
Proof.
  destruct e; cbn; try (split; [discriminate | contradiction]).
  - rewrite negb_true_iff. rewrite <- N.eqb_neq. tauto.
  - rewrite negb_true_iff. rewrite <- convertibleb_spec. destruct (convertibleb _ _); split; congruence.
Qed.

Theorem mon_try_slice_sound A B s o : mon_try_slice A B s o = true <-> mon_try_slice_stmt A B s o.
Proof.
  destruct o; cbn; try (split; [discriminate | contradiction]).
  - rewrite !andb_true_iff, orb_true_iff, andb_true_iff, !N.eqb_eq, slice_cast_okb_spec. tauto.
  - rewrite andb_true_iff, negb_true_iff, slice_err_trueb_spec, <- slice_cast_okb_spec.
    destruct (slice_cast_okb A B s); split; intros [H1 H2]; split; congruence.
Qed.

(* the model's own outcome satisfies the monitor (so a correct implementation that agrees with
   the model can never trip it): every outcome accepted by the characterisation maps to an
   observation accepted by the monitor *)
Definition obs_of_slice (o : outcome (result slice perr)) : obs :=
  match o with
  | Ret (Ok v) => OOk (addr (sptr v)) (slen v)
  | Ret (Err e) => OErr e
  | Panic (W_msg _ e) => OPanicMsg e
  | Panic _ => OPanicOther
  | UB _ => OBad
  end.

Theorem mon_try_slice_complete A B s o :
  slice_outcome_ok A B s o -> mon_try_slice A B s (obs_of_slice o) = true.
Proof.
  intros H. apply mon_try_slice_sound. destruct o as [[v|e]|w|u]; cbn in *; try contradiction.
  - destruct H as [Hok (Ha & Hn & Hal & Hav)]. split; [exact Hok|]. split; [exact Hn|].
    right. split; assumption.
  - exact H.
Qed.

(* --- single references --- *)
Definition ref_cast_okb (A B : ty) (p : ptr) : bool := (addr p mod al B =? 0) && (sz A =? sz B).
Definition ref_err_trueb (A B : ty) (p : ptr) (e : perr) : bool :=
  match e with
  | TargetAlignmentGreaterAndInputNotAligned => negb (addr p mod al B =? 0)
  | SizeMismatch => negb (sz A =? sz B)
  | _ => false
  end.
Definition mon_try_ref (A B : ty) (p : ptr) (o : obs) : bool :=
  match o with
  | OOk a _ => ref_cast_okb A B p && ((sz B =? 0) || ((a =? addr p) && (a mod al B =? 0)))
  | OErr e => negb (ref_cast_okb A B p) && ref_err_trueb A B p e
  | _ => false
  end.
Definition mon_try_ref_stmt (A B : ty) (p : ptr) (o : obs) : Prop :=
  match o with
  | OOk a _ => ref_cast_ok A B p /\ (sz B = 0 \/ (a = addr p /\ a mod al B = 0))
  | OErr e => ~ ref_cast_ok A B p /\ ref_err_true A B p e
  | _ => False
  end.
Lemma ref_cast_okb_spec A B p : ref_cast_okb A B p = true <-> ref_cast_ok A B p.
Proof. unfold ref_cast_okb, ref_cast_ok. rewrite andb_true_iff, !N.eqb_eq. tauto. Qed.
Lemma ref_err_trueb_spec A B p e : ref_err_trueb A B p e = true <-> ref_err_true A B p e.
Proof.
  destruct e; cbn; try (split; [discriminate | contradiction]);
  rewrite negb_true_iff, <- N.eqb_neq; tauto.
Qed.
Theorem mon_try_ref_sound A B p o : mon_try_ref A B p o = true <-> mon_try_ref_stmt A B p o.
Proof.
  destruct o; cbn; try (split; [discriminate | contradiction]).
  - rewrite !andb_true_iff, orb_true_iff, andb_true_iff, !N.eqb_eq, ref_cast_okb_spec. tauto.
  - rewrite andb_true_iff, negb_true_iff, ref_err_trueb_spec, <- ref_cast_okb_spec.
    destruct (ref_cast_okb A B p); split; intros [H1 H2]; split; congruence.
Qed.

(* --- byte views --- *)
Definition bytes_cast_okb (T : ty) (s : slice) : bool := (addr (sptr s) mod al T =? 0) && (slen s =? sz T).
Definition bytes_err_trueb (T : ty) (s : slice) (e : perr) : bool :=
  match e with
  | TargetAlignmentGreaterAndInputNotAligned => negb (addr (sptr s) mod al T =? 0)
  | SizeMismatch => negb (slen s =? sz T)
  | _ => false
  end.
Definition mon_try_bytes (T : ty) (s : slice) (o : obs) : bool :=
  match o with
  | OOk a _ => bytes_cast_okb T s && ((sz T =? 0) || ((a =? addr (sptr s)) && (a mod al T =? 0)))
  | OErr e => negb (bytes_cast_okb T s) && bytes_err_trueb T s e
  | _ => false
  end.
Definition mon_try_bytes_stmt (T : ty) (s : slice) (o : obs) : Prop :=
  match o with
  | OOk a _ => bytes_cast_ok T s /\ (sz T = 0 \/ (a = addr (sptr s) /\ a mod al T = 0))
  | OErr e => ~ bytes_cast_ok T s /\ bytes_err_true T s e
  | _ => False
  end.
Lemma bytes_cast_okb_spec T s : bytes_cast_okb T s = true <-> bytes_cast_ok T s.
Proof. unfold bytes_cast_okb, bytes_cast_ok. rewrite andb_true_iff, !N.eqb_eq. tauto. Qed.
Lemma bytes_err_trueb_spec T s e : bytes_err_trueb T s e = true <-> bytes_err_true T s e.
Proof.
  destruct e; cbn; try (split; [discriminate | contradiction]);
  rewrite negb_true_iff, <- N.eqb_neq; tauto.
Qed.
Theorem mon_try_bytes_sound T s o : mon_try_bytes T s o = true <-> mon_try_bytes_stmt T s o.
Proof.
  destruct o; cbn; try (split; [discriminate | contradiction]).
  - rewrite !andb_true_iff, orb_true_iff, andb_true_iff, !N.eqb_eq, bytes_cast_okb_spec. tauto.
  - rewrite andb_true_iff, negb_true_iff, bytes_err_trueb_spec, <- bytes_cast_okb_spec.
    destruct (bytes_cast_okb T s); split; intros [H1 H2]; split; congruence.
Qed.

(* --- C11: the panicking twin.  Given the observation [t] of the try_ form and [p] of the
   panicking form on the same input: Ok v <-> returns v; Err e <-> ordinary panic carrying e. --- *)
Definition anyerr_eqb (x y : anyerr) : bool :=
  match x, y with
  | EP a, EP b => perr_eqb a b
  | EC (PodCastError a), EC (PodCastError b) => perr_eqb a b
  | EC InvalidBitPattern, EC InvalidBitPattern => true
  | EUnit, EUnit => true
  | _, _ => false
  end.

Definition mon_twin (wrap : perr -> anyerr) (t p : obs) : bool :=
  match t, p with
  | OOk a n, OOk a' n' => (a =? a') && (n =? n')
  | OErr e, OPanicMsg e' => anyerr_eqb (wrap e) e'
  | _, _ => false
  end.

Definition mon_twin_stmt (wrap : perr -> anyerr) (t p : obs) : Prop :=
  match t, p with
  | OOk a n, OOk a' n' => a = a' /\ n = n'
  | OErr e, OPanicMsg e' => anyerr_eqb (wrap e) e' = true
  | _, _ => False
  end.

Theorem mon_twin_sound wrap t p : mon_twin wrap t p = true <-> mon_twin_stmt wrap t p.
Proof.
  destruct t, p; cbn; try (split; [discriminate | contradiction]).
  - rewrite andb_true_iff, !N.eqb_eq. tauto.
  - tauto.
Qed.
