(* Properties/C13.v — "TransparentWrapper conversions are the identity on representation".  Thin by
   nature (the conversions are bit copies of pointers and values under size/alignment assertions);
   the assurance is mostly the allocgrid correspondence (addresses, lengths, vtables by dispatch,
   bytes, drop counts, ledger).  The container forms reuse C09 (layout W = layout Inner). *)
From Coq Require Import NArith List Bool String.
From BM Require Import Base.Outcome Base.Prims Model.Transparent Model.RcHist.
Open Scope N_scope.

Theorem C13_ref_identity : forall p, wrap_ref p = Ret p.
Proof. exact wrap_ref_id. Qed.

Theorem C13_wrap_peel_ref : forall p, (q <- wrap_ref p ;; peel_ref q) = Ret p.
Proof. exact wrap_peel_ref. Qed.

Theorem C13_slice_identity : forall I W s, sz I = sz W -> al I = al W -> addr (sptr s) mod al I = 0 -> avail (sptr s) = slen s * sz I ->
  conv_slice I W s = Ret s.
Proof. exact conv_slice_id. Qed.

Theorem C13_value_identity : forall I W v, sz I = sz W -> al I = al W -> N.of_nat (List.length v) = sz I -> conv_value I W v = Ret v.
Proof. exact conv_value_id. Qed.

Theorem C13_counts_untouched : forall s, rc_step s HCast = s.
Proof. exact rc_cast_noop. Qed.


Print Assumptions C13_ref_identity.
Print Assumptions C13_wrap_peel_ref.
Print Assumptions C13_slice_identity.
Print Assumptions C13_value_identity.
Print Assumptions C13_counts_untouched.
