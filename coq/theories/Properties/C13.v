(* Properties/C13.v — "TransparentWrapper conversions are the identity on representation".
   The C13_gen_* theorems are about the twenty default methods as the translator regenerates them
   from src/transparent.rs and src/allocation.rs on every run (Gen/Transparent.v, Gen/Alloc.v):
   under the trait's unsafe contract (same size, alignment and pointer-metadata kind) each returns
   its argument unchanged; without it the guarding assertion panics before the conversion.  The
   first five theorems are about the hand-written Model/Transparent.v the oracle runs (fat
   pointers with explicit metadata).  Bytes, vtable dispatch, drop counts and the allocator ledger
   are observed by the allocgrid correspondence run. *)
From Coq Require Import NArith List Bool String.
From BM Require Import Base.Outcome Base.Prims Base.Own Model.Transparent Model.RcHist.
From BM Require Proofs.TransparentGen.
From BM.Gen Require Transparent Alloc.
Module TG := BM.Proofs.TransparentGen.
Module GT := BM.Gen.Transparent.
Module GA := BM.Gen.Alloc.
Open Scope N_scope.

Theorem C13_ref_identity : forall p, wrap_ref p = Ret p.
Proof. exact wrap_ref_id. Qed.

Theorem C13_wrap_peel_ref : forall p, (q <- wrap_ref p ;; peel_ref q) = Ret p.
Proof. exact wrap_peel_ref. Qed.

Theorem C13_slice_identity : forall I W s, sz I = sz W -> al I = al W -> addr (sptr s) mod al I = 0 -> avail (sptr s) = slen s * sz I ->
  conv_slice I W s = Ret s.
Proof. exact conv_slice_id. Qed.

Theorem C13_value_identity : forall I W v, sz I = sz W -> al I = al W -> N.of_nat (List.length v) = sz I -> conv_value I W v = Ret v.
Proof. exact conv_value_id. Qed.

Theorem C13_counts_untouched : forall s, rc_step s HCast = s.
Proof. exact rc_cast_noop. Qed.

(* ---- the translated code ---- *)
Theorem C13_gen_refs : forall ENV W I u p, TG.tw_contract W I ->
  (valid_ref I p -> GT.wrap_ref ENV W I u u p = Ret p /\ GT.wrap_mut ENV W I u u p = Ret p) /\
  (valid_ref W p -> GT.peel_ref ENV W I u u p = Ret p /\ GT.peel_mut ENV W I u u p = Ret p).
Proof. exact TG.bundle_refs. Qed.

Theorem C13_gen_roundtrip_ref : forall ENV W I u p, TG.tw_contract W I ->
  (valid_ref I p -> (q <- GT.wrap_ref ENV W I u u p ;; GT.peel_ref ENV W I u u q) = Ret p) /\
  (valid_ref W p -> (q <- GT.peel_ref ENV W I u u p ;; GT.wrap_ref ENV W I u u q) = Ret p).
Proof. exact TG.bundle_roundtrip_ref. Qed.

Theorem C13_gen_slices : forall ENV W I s, TG.tw_contract W I ->
  (valid_slice I s -> GT.wrap_slice ENV W I s = Ret s /\ GT.wrap_slice_mut ENV W I s = Ret s) /\
  (valid_slice W s -> GT.peel_slice ENV W I s = Ret s /\ GT.peel_slice_mut ENV W I s = Ret s).
Proof. exact TG.bundle_slices. Qed.

Theorem C13_gen_values : forall ENV W I v, TG.tw_contract W I ->
  (N.of_nat (List.length v) = sz I -> GT.wrap ENV W I v = Ret v) /\
  (N.of_nat (List.length v) = sz W -> GT.peel ENV W I v = Ret v).
Proof. exact TG.bundle_values. Qed.

Theorem C13_gen_containers : forall ENV W I u c,
  GA.wrap_vec ENV W I c = Ret c /\ GA.peel_vec ENV W I c = Ret c /\
  GA.wrap_box ENV W I u u c = Ret c /\ GA.peel_box ENV W I u u c = Ret c /\
  GA.wrap_rc ENV W I u u c = Ret c /\ GA.peel_rc ENV W I u u c = Ret c /\
  GA.wrap_arc ENV W I u u c = Ret c /\ GA.peel_arc ENV W I u u c = Ret c.
Proof. exact TG.bundle_containers. Qed.

Theorem C13_gen_guards : forall ENV W I uW uI p c s v,
  (uW <> uI -> GT.wrap_ref ENV W I uW uI p = Panic W_assert /\ GT.peel_ref ENV W I uW uI p = Panic W_assert /\
               GA.wrap_box ENV W I uW uI c = Panic W_assert /\ GA.peel_rc ENV W I uW uI c = Panic W_assert) /\
  ((sz I <> sz W \/ al I <> al W) ->
      GT.wrap_slice ENV W I s = Panic W_assert /\ GT.peel_slice ENV W I s = Panic W_assert /\
      GT.wrap ENV W I v = Panic W_assert /\ GT.peel ENV W I v = Panic W_assert).
Proof. exact TG.bundle_guards. Qed.

Example C13_gen_nonvacuous :
  TG.tw_contract (mkTy 4 4) (mkTy 4 4) /\ valid_ref (mkTy 4 4) (mkPtr 4096 4) /\
  valid_slice (mkTy 4 4) (mkSlice (mkPtr 4096 12) 3) /\
  GT.wrap_slice (mkEnv (fun _ => false) (fun _ => 0) (fun _ _ => 0)) (mkTy 4 4) (mkTy 4 2) (mkSlice (mkPtr 4096 12) 3) = Panic W_assert.
Proof. unfold TG.tw_contract, valid_ref, valid_slice; cbn. repeat split; try discriminate; try reflexivity; vm_compute; congruence. Qed.

Print Assumptions C13_ref_identity.
Print Assumptions C13_wrap_peel_ref.
Print Assumptions C13_slice_identity.
Print Assumptions C13_value_identity.
Print Assumptions C13_counts_untouched.
Print Assumptions C13_gen_refs.
Print Assumptions C13_gen_roundtrip_ref.
Print Assumptions C13_gen_slices.
Print Assumptions C13_gen_values.
Print Assumptions C13_gen_containers.
Print Assumptions C13_gen_guards.
