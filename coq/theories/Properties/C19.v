(* Properties/C19.v — "offset_of! yields the true field offset and cannot be fooled".  Thin: the
   macro's run-time part is address arithmetic (Model/OffsetOf.v); that every field of a repr(C)
   layout lies inside the struct is proved of the layout model.  The two static refusals (Deref,
   under-aligned packed fields) are rustc's rules: validated by the correspondence, not verified. *)
From Coq Require Import NArith List Bool.
Import ListNotations.
From BM Require Import Base.Outcome Base.Prims Model.ReprC Model.OffsetOf.
Open Scope N_scope.

Theorem C19_direct_field : forall base off fsize size,
  off + fsize <= size -> offset_of_run base (base + off) size = Ret off.
Proof. exact offset_of_direct. Qed.

Theorem C19_fields_inside : forall packed align fs,
  Forall2 (fun f o => o + f_size f <= lc_size (layout_C packed align fs)) fs (lc_offsets (layout_C packed align fs)).
Proof. exact layout_fields_inside. Qed.

Theorem C19_result_is_the_address_difference : forall base a size r,
  offset_of_run base a size = Ret r -> a = base + r /\ r <= size.
Proof. exact offset_of_run_sound. Qed.

Theorem C19_outside_never_yields_a_number : forall base a size,
  a < base \/ base + size < a -> forall r, offset_of_run base a size <> Ret r.
Proof. exact offset_of_run_outside. Qed.

Theorem C19_offsets_aligned : forall packed align fs,
  Forall2 (fun f o => cap packed (f_align f) <> 0 -> o mod cap packed (f_align f) = 0) fs (lc_offsets (layout_C packed align fs)).
Proof. exact layout_offsets_aligned. Qed.

Theorem C19_offsets_in_declaration_order_disjoint : forall packed align fs,
  chain 0 fs (lc_offsets (layout_C packed align fs)).
Proof. exact layout_offsets_ordered. Qed.

Theorem C19_first_field_at_zero : forall packed align f fs,
  hd_error (lc_offsets (layout_C packed align (f :: fs))) = Some 0.
Proof. exact layout_first_field_at_zero. Qed.

Theorem C19_size_multiple_of_align : forall packed align fs,
  lc_size (layout_C packed align fs) mod lc_align (layout_C packed align fs) = 0.
Proof. exact layout_size_multiple_of_align. Qed.

Example C19_nonvacuous :
  lc_offsets (layout_C 0 0 [mkFld 1 1; mkFld 4 4; mkFld 2 2]) = [0; 4; 8] /\
  lc_size (layout_C 0 0 [mkFld 1 1; mkFld 4 4; mkFld 2 2]) = 12 /\
  lc_offsets (layout_C 2 0 [mkFld 1 1; mkFld 4 4; mkFld 2 2]) = [0; 2; 6] /\
  offset_of_compiles true 2 4 = false /\ offset_of_compiles true 2 2 = true.
Proof. repeat split; reflexivity. Qed.

Print Assumptions C19_direct_field.
Print Assumptions C19_fields_inside.
Print Assumptions C19_result_is_the_address_difference.
Print Assumptions C19_outside_never_yields_a_number.
Print Assumptions C19_offsets_aligned.
Print Assumptions C19_offsets_in_declaration_order_disjoint.
Print Assumptions C19_first_field_at_zero.
Print Assumptions C19_size_multiple_of_align.
