(* Properties/C19.v — "offset_of! yields the true field offset and cannot be fooled".  Thin: the
   macro's run-time part is address arithmetic (Model/OffsetOf.v); that every field of a repr(C)
   layout lies inside the struct is proved of the layout model.  The two static refusals (Deref,
   under-aligned packed fields) are rustc's rules: validated by the correspondence, not verified. *)
From Coq Require Import NArith List Bool.
Import ListNotations.
From BM Require Import Base.Outcome Base.Prims Model.ReprC Model.OffsetOf.
Open Scope N_scope.

Theorem C19_direct_field : forall base off fsize size,
  off + fsize <= size -> offset_of_run base (base + off) size = Ret off.
Proof. exact offset_of_direct. Qed.

Theorem C19_fields_inside : forall packed align fs,
  Forall2 (fun f o => o + f_size f <= lc_size (layout_C packed align fs)) fs (lc_offsets (layout_C packed align fs)).
Proof. exact layout_fields_inside. Qed.

Example C19_nonvacuous :
  lc_offsets (layout_C 0 0 [mkFld 1 1; mkFld 4 4; mkFld 2 2]) = [0; 4; 8] /\
  lc_size (layout_C 0 0 [mkFld 1 1; mkFld 4 4; mkFld 2 2]) = 12 /\
  lc_offsets (layout_C 2 0 [mkFld 1 1; mkFld 4 4; mkFld 2 2]) = [0; 2; 6] /\
  offset_of_compiles true 2 4 = false /\ offset_of_compiles true 2 2 = true.
Proof. repeat split; reflexivity. Qed.

Print Assumptions C19_direct_field.
Print Assumptions C19_fields_inside.
