(* Properties/C14.v — "must_ casts compile iff the cast can never fail, then equal the runtime
   cast".  must_*_okb are the conjunctions of the assertion constants GENERATED from src/must.rs
   (Proofs/CastMust.v); a failed constant makes the function a compile error (compile_fail).
   small_align A is rustc's bound on alignments (2^29), needed only so that a misaligned input
   exists in the address space. *)
From Coq Require Import NArith List Bool String.
From BM Require Import Base.Outcome Base.Prims Base.Layout Spec.CastSpec Spec.MustSpec.
From BM Require Import Proofs.CastValue Proofs.CastMust.
From BM.Gen Require Internal Root Must.
Open Scope N_scope.

Theorem C14_slice_iff : forall A B, wf_ty A -> wf_ty B -> small_align A ->
  (must_slice_okb A B = true <-> forall ENV s, valid_slice A s -> exists v, Root.try_cast_slice ENV A B s = Ret (Ok v)).
Proof. exact must_slice_iff. Qed.

Theorem C14_slice_mut_iff : forall A B, wf_ty A -> wf_ty B -> small_align A ->
  (must_slice_okb A B = true <-> forall ENV s, valid_slice A s -> exists v, Root.try_cast_slice_mut ENV A B s = Ret (Ok v)).
Proof. exact must_slice_mut_iff. Qed.

Theorem C14_ref_iff : forall A B, wf_ty A -> wf_ty B -> small_align A ->
  (must_ref_okb A B = true <-> forall ENV p, valid_ref A p -> exists v, Root.try_cast_ref ENV A B p = Ret (Ok v)).
Proof. exact must_ref_iff. Qed.

Theorem C14_mut_iff : forall A B, wf_ty A -> wf_ty B -> small_align A ->
  (must_ref_okb A B = true <-> forall ENV p, valid_ref A p -> exists v, Root.try_cast_mut ENV A B p = Ret (Ok v)).
Proof. exact must_mut_iff. Qed.

Theorem C14_value_iff : forall A B,
  (must_val_okb A B = true <-> forall ENV a, value_of A a -> exists b, Root.try_cast ENV A B a = Ret (Ok b)).
Proof. exact must_val_iff. Qed.

Theorem C14_slice_eq : forall ENV A B s, wf_ty A -> wf_ty B -> valid_slice A s ->
  if must_slice_okb A B
  then exists v, Must.must_cast_slice ENV A B s = Ret v /\ Root.try_cast_slice ENV A B s = Ret (Ok v)
  else compile_fail (Must.must_cast_slice ENV A B s).
Proof. exact must_cast_slice_char. Qed.

Theorem C14_slice_mut_eq : forall ENV A B s, wf_ty A -> wf_ty B -> valid_slice A s ->
  if must_slice_okb A B
  then exists v, Must.must_cast_slice_mut ENV A B s = Ret v /\ Root.try_cast_slice_mut ENV A B s = Ret (Ok v)
  else compile_fail (Must.must_cast_slice_mut ENV A B s).
Proof. exact must_cast_slice_mut_char. Qed.

Theorem C14_ref_eq : forall ENV A B p, wf_ty A -> wf_ty B -> valid_ref A p ->
  if must_ref_okb A B
  then exists v, Must.must_cast_ref ENV A B p = Ret v /\ Root.try_cast_ref ENV A B p = Ret (Ok v)
  else compile_fail (Must.must_cast_ref ENV A B p).
Proof. exact must_cast_ref_char. Qed.

Theorem C14_mut_eq : forall ENV A B p, wf_ty A -> wf_ty B -> valid_ref A p ->
  if must_ref_okb A B
  then exists v, Must.must_cast_mut ENV A B p = Ret v /\ Root.try_cast_mut ENV A B p = Ret (Ok v)
  else compile_fail (Must.must_cast_mut ENV A B p).
Proof. exact must_cast_mut_char. Qed.

Theorem C14_value_eq : forall ENV A B a, value_of A a ->
  if must_val_okb A B
  then Must.must_cast ENV A B a = Ret a /\ Root.try_cast ENV A B a = Ret (Ok a)
  else compile_fail (Must.must_cast ENV A B a) /\ Root.try_cast ENV A B a = Ret (Err SizeMismatch).
Proof. exact must_cast_char. Qed.

Theorem C14_slice_pred : forall A B, must_slice_okb A B = true <-> slice_infallible A B.
Proof. exact must_slice_okb_spec. Qed.

Theorem C14_ref_pred : forall A B, must_ref_okb A B = true <-> ref_infallible A B.
Proof. exact must_ref_okb_spec. Qed.

Example C14_nonvacuous :
  must_slice_okb (mkTy 12 4) (mkTy 4 4) = true /\ must_slice_okb (mkTy 12 4) (mkTy 8 4) = false /\
  must_slice_okb (mkTy 0 1) (mkTy 4 1) = true /\ must_slice_okb (mkTy 4 1) (mkTy 0 1) = false /\
  must_ref_okb (mkTy 4 1) (mkTy 4 4) = false /\ small_align (mkTy 12 4).
Proof. repeat split; try reflexivity. unfold small_align, MAX_ALIGN. cbn. discriminate. Qed.

Print Assumptions C14_slice_iff.
Print Assumptions C14_slice_mut_iff.
Print Assumptions C14_ref_iff.
Print Assumptions C14_mut_iff.
Print Assumptions C14_value_iff.
Print Assumptions C14_slice_eq.
Print Assumptions C14_slice_mut_eq.
Print Assumptions C14_ref_eq.
Print Assumptions C14_mut_eq.
Print Assumptions C14_value_eq.
Print Assumptions C14_slice_pred.
Print Assumptions C14_ref_pred.
