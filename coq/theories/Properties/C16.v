(* Properties/C16.v — "pod_collect_to_vec always works: rounded-up length, copied prefix, zero tail".
   C16_zst_target_refuted records the defect of the pinned tree (a zero-sized TARGET type divides by
   zero); it is kept as a theorem about the model of the pinned code path [pod_collect_to_vec] and
   is the reason C16_char carries the hypothesis sz B <> 0, exactly as the property's statement does
   for the length clause.  The repaired crate returns an empty Vec before reaching this path (see
   known_findings.json); the monitor then demands "never panics" for zero-sized targets too. *)
From Coq Require Import NArith List Bool String.
From BM Require Import Base.Outcome Base.Prims Base.Own Base.Layout Model.Alloc Proofs.AllocProofs.
Import ListNotations.
Open Scope N_scope.

Theorem C16_char : forall B src, sz B <> 0 ->
  exists n bytes, pod_collect_to_vec B src = Ret (n, bytes) /\
    n = ceil_div (N.of_nat (List.length src)) (sz B) /\
    N.of_nat (List.length bytes) = n * sz B /\
    firstn (List.length src) bytes = src /\
    skipn (List.length src) bytes = repeat 0 (N.to_nat (n * sz B) - List.length src)%nat.
Proof. exact collect_char. Qed.

Theorem C16_count : forall n s, s <> 0 -> collect_count n s = Ret (ceil_div n s).
Proof. exact collect_count_spec. Qed.

Theorem C16_zst_target_refuted : forall B src, sz B = 0 -> pod_collect_to_vec B src = Panic W_div_zero.
Proof. exact collect_zst_target_panics. Qed.

Example C16_nonvacuous : pod_collect_to_vec (mkTy 4 4) [1; 2; 3; 4; 5] = Ret (2, [1; 2; 3; 4; 5; 0; 0; 0]).
Proof. reflexivity. Qed.

Print Assumptions C16_char.
Print Assumptions C16_count.
Print Assumptions C16_zst_target_refuted.
