(* Properties/C16.v — "pod_collect_to_vec always works: rounded-up length, copied prefix, zero tail".
   The pinned tree divided by zero for a zero-sized TARGET type (genuine defect, repaired by a
   "fix:" commit, see known_findings.json): C16_unguarded_count_refuted keeps the refutation of the
   unguarded computation, C16_total states "never panics" for the repaired function. *)
From Coq Require Import NArith List Bool String.
From BM Require Import Base.Outcome Base.Prims Base.Own Base.Layout Model.Alloc Proofs.AllocProofs Proofs.CollectGen.
From BM.Gen Require Alloc.
Import ListNotations.
Open Scope N_scope.

Theorem C16_char : forall B src, sz B <> 0 ->
  exists n bytes, pod_collect_to_vec B src = Ret (n, bytes) /\
    n = ceil_div (N.of_nat (List.length src)) (sz B) /\
    N.of_nat (List.length bytes) = n * sz B /\
    firstn (List.length src) bytes = src /\
    skipn (List.length src) bytes = repeat 0 (N.to_nat (n * sz B) - List.length src)%nat.
Proof. exact collect_char. Qed.

Theorem C16_count : forall n s, s <> 0 -> collect_count n s = Ret (ceil_div n s).
Proof. exact collect_count_spec. Qed.

Theorem C16_total : forall B src, exists r, pod_collect_to_vec B src = Ret r.
Proof. exact collect_total. Qed.

Theorem C16_zst_target : forall B src, sz B = 0 -> pod_collect_to_vec B src = Ret (0, []).
Proof. exact collect_zst_target. Qed.

Theorem C16_unguarded_count_refuted : forall n, collect_count n 0 = Panic W_div_zero.
Proof. exact collect_count_unguarded_panics. Qed.

(* the function as the translator regenerates it from src/allocation.rs (Gen/Alloc.v), run on any memory:
   for every valid source slice it returns exactly the modelled vector (count, source bytes, zero tail),
   so the theorems above describe the code; without the (astronomical) size bound the only other outcome
   is vec!'s capacity-overflow panic, never undefined behaviour *)
Theorem C16_generated : forall ENV A B s, wf_ty A -> wf_ty B -> valid_slice A s -> slen s * sz A + sz B <= ISIZE_MAX ->
  Gen.Alloc.pod_collect_to_vec ENV A B s =
  (r <- pod_collect_to_vec B (read_bytes (mem ENV) (addr (sptr s)) (slen s * sz A)) ;; Ret (mkBV (fst r) (snd r))).
Proof. exact gen_pod_collect. Qed.

Theorem C16_generated_never_ub : forall ENV A B s, wf_ty A -> wf_ty B -> valid_slice A s ->
  match Gen.Alloc.pod_collect_to_vec ENV A B s with UB _ => False | _ => True end.
Proof. exact gen_pod_collect_safe. Qed.

Example C16_generated_nonvacuous :
  let E := mkEnv (fun _ => false) (fun a => a mod 7 + 1) (fun _ _ => 0) in
  Gen.Alloc.pod_collect_to_vec E (mkTy 1 1) (mkTy 4 4) (mkSlice (mkPtr 4097 5) 5) = Ret (mkBV 2 [3; 4; 5; 6; 7; 0; 0; 0]) /\
  Gen.Alloc.pod_collect_to_vec E (mkTy 2 2) (mkTy 0 1) (mkSlice (mkPtr 4096 6) 3) = Ret bvec_empty.
Proof. split; vm_compute; reflexivity. Qed.

Example C16_nonvacuous : pod_collect_to_vec (mkTy 4 4) [1; 2; 3; 4; 5] = Ret (2, [1; 2; 3; 4; 5; 0; 0; 0]).
Proof. reflexivity. Qed.

Print Assumptions C16_char.
Print Assumptions C16_count.
Print Assumptions C16_total.
Print Assumptions C16_zst_target.
Print Assumptions C16_unguarded_count_refuted.
Print Assumptions C16_generated.
Print Assumptions C16_generated_never_ub.
