(* Properties/C17.v — "Contiguous conversions are exact at and beyond the range boundaries".
   The rows (type, integer type, MIN_VALUE, MAX_VALUE) and the range test of the default
   from_integer are REGENERATED from src/contiguous.rs on every run (Gen/Tables.v); validity of
   the built-in types is the language's (Model/LangInt.v).  row_ok (Proofs/ContigProofs.v): the
   integer type has Self's width and, among ITS values, [MIN, MAX] is exactly the set of valid
   values of Self.  Derived enums: Properties/C06.v. *)
From Coq Require Import NArith ZArith List Bool String.
From BM Require Import Base.TyExpr Model.LangInt Proofs.ContigProofs.
From BM.Gen Require Tables.
Open Scope Z_scope.

Theorem C17_rows : Forall row_ok Tables.contiguous_rows_all.
Proof. exact rows_ok_all. Qed.

Theorem C17_rows_no_features : Forall row_ok Tables.contiguous_rows_none.
Proof. exact rows_ok_none. Qed.

Theorem C17_from_integer : forall r v, (exists x, from_integer r v = Some x) <-> c_min r <= v <= c_max r.
Proof. exact from_integer_iff. Qed.

Theorem C17_roundtrip : forall r v x, from_integer r v = Some x -> into_integer x = v.
Proof. exact from_into_roundtrip. Qed.

Theorem C17_exact : forall r v ilo ihi, row_ok r -> int_range (c_int r) = Some (ilo, ihi) -> ilo <= v <= ihi ->
  ((exists x, from_integer r v = Some x) <-> valid_value (c_self_name r) v = true).
Proof. exact from_integer_valid. Qed.

Theorem C17_same_under_all_features : forall mn mx v,
  Tables.contiguous_in_range_none mn mx v = Tables.contiguous_in_range_all mn mx v.
Proof. exact in_range_same. Qed.

Example C17_nonvacuous :
  valid_value "NonZeroU8" 0 = false /\ valid_value "NonZeroU8" 255 = true /\ valid_value "bool" 2 = false /\
  List.length Tables.contiguous_rows_all = 19%nat.
Proof. repeat split; reflexivity. Qed.

Print Assumptions C17_rows.
Print Assumptions C17_rows_no_features.
Print Assumptions C17_from_integer.
Print Assumptions C17_roundtrip.
Print Assumptions C17_exact.
Print Assumptions C17_same_under_all_features.
