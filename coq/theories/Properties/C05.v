(* Properties/C05.v — "Derives accept a struct or union only if it meets the trait's layout contract".
   Model/DeriveStruct.v is a hand-written model of the decision of derive/src/traits.rs INCLUDING
   what the emitted compile-time assertions mean (tie: derivefam correspondence with real rustc
   verdicts, every run); Model/ReprC.v is the reference's repr(C) layout (validated against
   size_of / align_of / offset_of! every run).
   The pinned derive emitted its padding assertion through a local helper struct whose name a user
   type could capture (genuine defect, repaired by a "fix:" commit, known_findings.json):
   C05_name_capture_refuted keeps the witness against the pinned assertion and shows the repaired
   one refuses it; C05_sound is stated without any proviso on names. *)
From Coq Require Import NArith List Bool.
From BM Require Import Model.ReprC Model.DeriveStruct.
Open Scope N_scope.

Theorem C05_sound : forall dv d sz,
  aligns_pos d -> rustc_size d sz ->
  derive_accepts dv d sz = true -> contract_ok dv d sz = true.
Proof. exact accepts_sound. Qed.

Theorem C05_complete : forall dv d sz, documented_ok dv d sz = true -> derive_accepts dv d sz = true.
Proof. exact accepts_complete. Qed.

(* the facts about repr(C) the padding assertion relies on, for every field list, packing and alignment *)
Theorem C05_size_at_least_sum : forall packed align fs, sum_sizes fs <= lc_size (layout_C packed align fs).
Proof. exact size_ge_sum. Qed.

Theorem C05_equal_size_means_no_padding : forall packed align fs,
  lc_size (layout_C packed align fs) = sum_sizes fs -> tight 0 fs (lc_offsets (layout_C packed align fs)).
Proof. exact no_padding_iff. Qed.

Theorem C05_fully_packed_has_no_padding : forall fs,
  Forall (fun f => f_align f <> 0) fs -> lc_size (layout_C 1 0 fs) = sum_sizes fs.
Proof. exact packed1_no_padding. Qed.

Theorem C05_name_capture_refuted :
  let sz := lc_size (layout_C 0 0 (map to_fld (sd_fields capture_witness))) in
  sz = 4 /\ total_size capture_witness = 3 /\
  padding_assert_passes_pinned capture_witness sz = true /\ contract_ok DPod capture_witness sz = false /\
  contract_ok DNoUninit capture_witness sz = false /\
  derive_accepts DPod capture_witness sz = false /\ derive_accepts DNoUninit capture_witness sz = false.
Proof. exact padding_name_capture_refuted. Qed.

Print Assumptions C05_sound.
Print Assumptions C05_complete.
Print Assumptions C05_size_at_least_sum.
Print Assumptions C05_equal_size_means_no_padding.
Print Assumptions C05_fully_packed_has_no_padding.
Print Assumptions C05_name_capture_refuted.
