(* Properties/C09.v — "Owning-container casts give the allocation back with its original layout".
   Model: Model/Alloc.v (hand-written from src/allocation.rs; tied by the allocgrid ledger
   correspondence) and Model/RcHist.v.  drop_layout k T c is the (size, align) the container of
   kind k will hand to the allocator when dropped (None: it owns no block). *)
From Coq Require Import NArith List Bool String.
From BM Require Import Base.Outcome Base.Prims Base.Own Base.Layout Model.Alloc Proofs.AllocProofs.
Import ListNotations.
Open Scope N_scope.
From BM Require Import Model.RcHist Proofs.AllocGen.

Theorem C09_cast_keeps_block : forall k A B c c', wf_cont k A c -> try_cast_cont k A B c = Ok c' ->
  cptr c' = cptr c /\ drop_layout k B c' = drop_layout k A c /\ cont_view_ok k A B c c'.
Proof. exact cast_keeps_block. Qed.

Theorem C09_err_identity : forall k A B c e c0, wf_cont k A c -> try_cast_cont k A B c = Err (e, c0) ->
  ~ cast_ok k A B c /\ cast_err_true k A B c e /\ c0 = c.
Proof. exact cast_err. Qed.

Theorem C09_result_wf : forall k A B c c', wf_cont k A c -> try_cast_cont k A B c = Ok c' -> wf_cont k B c'.
Proof. exact cast_wf. Qed.

Theorem C09_histories : forall ops, rc_inv (rc_run ops).
Proof. exact rc_hist_inv. Qed.

Theorem C09_cast_touches_no_count : forall s, rc_step s HCast = s.
Proof. exact rc_cast_noop. Qed.

(* the same, read off the functions the translator regenerates from src/allocation.rs on every run
   (Gen/Alloc.v): each returns (never panics) and its result keeps the block, address and validity *)
Theorem C09_generated : forall k ENV A B c, wf_cont k A c -> gen_pre k A c ->
  exists r, gen_try k ENV A B c = Ret r /\ cast_outcome_ok k A B c r /\
            (forall c', r = Ok c' -> wf_cont k B c' /\ cptr c' = cptr c).
Proof. exact gen_try_char. Qed.

Example C09_nonvacuous :
  wf_cont KVec (mkTy 4 4) (mkCont 4096 3 6) /\
  try_cast_cont KVec (mkTy 4 4) (mkTy 8 4) (mkCont 4096 2 6) = Ok (mkCont 4096 1 3) /\
  drop_layout KVec (mkTy 8 4) (mkCont 4096 1 3) = Some (mkLayout 24 4) /\
  (exists e, try_cast_cont KVec (mkTy 4 4) (mkTy 8 4) (mkCont 4096 2 5) = Err (e, mkCont 4096 2 5)).
Proof. repeat split; try (vm_compute; reflexivity). cbn. discriminate. eexists; vm_compute; reflexivity. Qed.

Print Assumptions C09_cast_keeps_block.
Print Assumptions C09_err_identity.
Print Assumptions C09_result_wf.
Print Assumptions C09_histories.
Print Assumptions C09_cast_touches_no_count.
Print Assumptions C09_generated.
