(* Properties/C20.v — "Cargo features only add: behaviour is identical across feature sets".
   Proved: (1) every translated casting function returns the same outcome whatever the feature
   flags (the alignment test is the only feature-dependent code they reach, and its two
   implementations agree; track_caller is an attribute); (2) the marker-impl table regenerated
   under a larger feature set subsumes the one under a smaller set, and every row of every
   configuration is sound (C04).  "Every sound feature combination builds" is a fact about rustc
   and the whole crate: it is decided by real builds (singles, pairs, named and seeded random
   sets) in the correspondence leg, not by a theorem — see DESIGN.md (partial). *)
From Coq Require Import NArith List Bool String.
From BM Require Import Base.Outcome Base.Prims Base.Layout Proofs.FeatureAgree.
From BM.Gen Require Internal Root Tables.
From BM Require Import Base.TyExpr Model.LangOracle Model.TraitSolver Proofs.ImplSound.
From BM Require Properties.C04.
Open Scope N_scope.

Theorem C20_alignment_test_agrees : forall E1 E2 p a, pow2 a -> Internal.is_aligned_to E1 p a = Internal.is_aligned_to E2 p a.
Proof. exact is_aligned_to_agree. Qed.
Theorem C20_try_cast_slice : forall E1 E2 A B s, pow2 (al B) -> Root.try_cast_slice E1 A B s = Root.try_cast_slice E2 A B s.
Proof. exact try_cast_slice_agree. Qed.
Theorem C20_try_cast_slice_mut : forall E1 E2 A B s, pow2 (al B) -> Root.try_cast_slice_mut E1 A B s = Root.try_cast_slice_mut E2 A B s.
Proof. exact try_cast_slice_mut_agree. Qed.
Theorem C20_try_cast_ref : forall E1 E2 A B p, pow2 (al B) -> Root.try_cast_ref E1 A B p = Root.try_cast_ref E2 A B p.
Proof. exact try_cast_ref_agree. Qed.
Theorem C20_try_cast_mut : forall E1 E2 A B p, pow2 (al B) -> Root.try_cast_mut E1 A B p = Root.try_cast_mut E2 A B p.
Proof. exact try_cast_mut_agree. Qed.
Theorem C20_try_from_bytes : forall E1 E2 T s, pow2 (al T) -> Root.try_from_bytes E1 T s = Root.try_from_bytes E2 T s.
Proof. exact try_from_bytes_agree. Qed.
Theorem C20_try_from_bytes_mut : forall E1 E2 T s, pow2 (al T) -> Root.try_from_bytes_mut E1 T s = Root.try_from_bytes_mut E2 T s.
Proof. exact try_from_bytes_mut_agree. Qed.
Theorem C20_try_cast : forall E1 E2 A B a, Root.try_cast E1 A B a = Root.try_cast E2 A B a.
Proof. exact try_cast_agree. Qed.
Theorem C20_cast_slice : forall E1 E2 A B s, pow2 (al B) -> Root.cast_slice E1 A B s = Root.cast_slice E2 A B s.
Proof. exact cast_slice_agree. Qed.
Theorem C20_cast_ref : forall E1 E2 A B p, pow2 (al B) -> Root.cast_ref E1 A B p = Root.cast_ref E2 A B p.
Proof. exact cast_ref_agree. Qed.
Theorem C20_cast_mut : forall E1 E2 A B p, pow2 (al B) -> Root.cast_mut E1 A B p = Root.cast_mut E2 A B p.
Proof. exact cast_mut_agree. Qed.
Theorem C20_bytes_of : forall E1 E2 T t, Root.bytes_of E1 T t = Root.bytes_of E2 T t.
Proof. exact bytes_of_agree. Qed.
Theorem C20_try_pod_read_unaligned : forall E1 E2 T s, same_memory E1 E2 ->
  Root.try_pod_read_unaligned E1 T s = Root.try_pod_read_unaligned E2 T s.
Proof. exact try_pod_read_unaligned_agree. Qed.

Theorem C20_impls_only_grow :
  table_grows Tables.rules_none Tables.rules_alloc = true /\ table_grows Tables.rules_alloc Tables.rules_aat = true /\
  table_grows Tables.rules_aat Tables.rules_all = true /\ table_grows Tables.rules_none Tables.rules_all = true.
Proof. exact (conj tables_grow_none_alloc (conj tables_grow_alloc_aat (conj tables_grow_aat_all tables_grow_none_all))). Qed.

(* "it only adds sound ones": whatever marker follows from the impl rows of any feature configuration — the rows
   a feature adds included — is one whose contract the language guarantees for the type (the C04 theorems,
   which are stated per configuration over the regenerated tables) *)
Theorem C20_impls_sound_in_every_configuration : forall m t,
  (derives (marker_rules Tables.rules_none) m t -> contractb m (ground_facts t) = true) /\
  (derives (marker_rules Tables.rules_alloc) m t -> contractb m (ground_facts t) = true) /\
  (derives (marker_rules Tables.rules_aat) m t -> contractb m (ground_facts t) = true) /\
  (derives (marker_rules Tables.rules_all) m t -> contractb m (ground_facts t) = true).
Proof.
  intros m t.
  exact (conj (C04.C04_sound_no_features m t) (conj (C04.C04_sound_alloc m t)
        (conj (C04.C04_sound_alloc_align_track m t) (C04.C04_sound_all_features m t)))).
Qed.

Print Assumptions C20_alignment_test_agrees.
Print Assumptions C20_try_cast_slice.
Print Assumptions C20_try_cast_slice_mut.
Print Assumptions C20_try_cast_ref.
Print Assumptions C20_try_cast_mut.
Print Assumptions C20_try_from_bytes.
Print Assumptions C20_try_from_bytes_mut.
Print Assumptions C20_try_cast.
Print Assumptions C20_cast_slice.
Print Assumptions C20_cast_ref.
Print Assumptions C20_cast_mut.
Print Assumptions C20_bytes_of.
Print Assumptions C20_try_pod_read_unaligned.
Print Assumptions C20_impls_only_grow.
Print Assumptions C20_impls_sound_in_every_configuration.
