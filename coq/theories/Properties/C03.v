(* Properties/C03.v — "By-value casts and unaligned reads preserve every bit".  Values are byte
   lists; transmute_copy of more bytes than the source has is UB in the model (Base/Prims.v), so
   "= Ret ..." also says the cast never reads beyond the smaller type. *)
From Coq Require Import NArith List Bool String.
Import ListNotations.
From BM Require Import Base.Outcome Base.Prims Base.Layout Spec.CastSpec Spec.MustSpec.
From BM Require Import Proofs.CastValue Proofs.CastChecked Proofs.CastMust Proofs.CastPanicking.
From BM.Gen Require Internal Root Checked Must.
Open Scope string_scope.
Open Scope N_scope.

Theorem C03_try_cast : forall ENV A B a, value_of A a -> Root.try_cast ENV A B a = Ret (if sz A =? sz B then Ok a else Err SizeMismatch).
Proof. exact try_cast_char. Qed.

Theorem C03_cast : forall ENV A B a, value_of A a -> Root.cast ENV A B a = if sz A =? sz B then Ret a else Panic (W_msg "cast" (EP SizeMismatch)).
Proof. exact cast_char. Qed.

Theorem C03_roundtrip : forall ENV A B a b, value_of A a -> Root.try_cast ENV A B a = Ret (Ok b) -> Root.try_cast ENV B A b = Ret (Ok a).
Proof. exact try_cast_roundtrip. Qed.

Theorem C03_try_pod_read_unaligned : forall ENV T s, avail (sptr s) = slen s ->
  Root.try_pod_read_unaligned ENV T s =
    Ret (if slen s =? sz T then Ok (read_bytes (mem ENV) (addr (sptr s)) (sz T)) else Err SizeMismatch).
Proof. exact try_pod_read_unaligned_char. Qed.

Theorem C03_pod_read_unaligned : forall ENV T s, twin "pod_read_unaligned" (Root.try_pod_read_unaligned ENV T s) (Root.pod_read_unaligned ENV T s).
Proof. exact pod_read_unaligned_twin. Qed.

Theorem C03_must_cast : forall ENV A B a, value_of A a ->
  if must_val_okb A B
  then Must.must_cast ENV A B a = Ret a /\ Root.try_cast ENV A B a = Ret (Ok a)
  else compile_fail (Must.must_cast ENV A B a) /\ Root.try_cast ENV A B a = Ret (Err SizeMismatch).
Proof. exact must_cast_char. Qed.

Theorem C03_checked_try_cast : forall ENV A (B : cty) a, wf_cty B -> value_of A a ->
  checked_outcome (Root.try_cast ENV A (c_bits B) a) (c_valid B) (Checked.try_cast ENV A B a).
Proof. exact checked_try_cast_char. Qed.

Theorem C03_checked_try_pod_read_unaligned : forall ENV (T : cty) s, wf_cty T -> avail (sptr s) = slen s ->
  checked_outcome (Root.try_pod_read_unaligned ENV (c_bits T) s) (c_valid T) (Checked.try_pod_read_unaligned ENV T s).
Proof. exact checked_try_pod_read_unaligned_char. Qed.

Example C03_nonvacuous :
  value_of (mkTy 2 2) [1; 128] /\
  Root.try_cast (mkEnv (fun _ => false) (fun _ => 0) (fun _ _ => 0)) (mkTy 2 2) (mkTy 2 1) [1; 128] = Ret (Ok [1; 128]) /\
  Root.try_cast (mkEnv (fun _ => false) (fun _ => 0) (fun _ _ => 0)) (mkTy 2 2) (mkTy 4 4) [1; 128] = Ret (Err SizeMismatch).
Proof. repeat split; reflexivity. Qed.

Print Assumptions C03_try_cast.
Print Assumptions C03_cast.
Print Assumptions C03_roundtrip.
Print Assumptions C03_try_pod_read_unaligned.
Print Assumptions C03_pod_read_unaligned.
Print Assumptions C03_must_cast.
Print Assumptions C03_checked_try_cast.
Print Assumptions C03_checked_try_pod_read_unaligned.
