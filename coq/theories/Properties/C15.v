(* Properties/C15.v — "BoxBytes always owns exactly the bytes and the layout it reports". *)
From Coq Require Import NArith List Bool String.
From BM Require Import Base.Outcome Base.Prims Base.Own Base.Layout Model.Alloc Proofs.AllocProofs Proofs.AllocGenBytes.
From BM.Gen Require Alloc.
Import ListNotations.
Open Scope N_scope.

Theorem C15_of_sized : forall T c, bb_drop (box_bytes_of_sized T c) = drop_layout KBox T c /\ bb_ptr (box_bytes_of_sized T c) = cptr c.
Proof. exact bb_of_sized_drop. Qed.

Theorem C15_of_slice : forall T c, bb_drop (box_bytes_of_slice T c) = drop_layout KBoxSlice T c /\ bb_ptr (box_bytes_of_slice T c) = cptr c.
Proof. exact bb_of_slice_drop. Qed.

Theorem C15_from_sized : forall T b, match try_from_box_bytes_sized T b with
  | Ok c => bb_sized_ok T b /\ cptr c = bb_ptr b /\ drop_layout KBox T c = bb_drop b
  | Err (e, b0) => ~ bb_sized_ok T b /\ b0 = b /\
                   match e with AlignmentMismatch => l_align (bb_layout b) <> al T
                              | SizeMismatch => l_size (bb_layout b) <> sz T | _ => False end
  end.
Proof. exact from_bb_sized_char. Qed.

Theorem C15_from_slice : forall T b, match try_from_box_bytes_slice T b with
  | Ok c => bb_slice_ok T b /\ cptr c = bb_ptr b /\ clen c * sz T = l_size (bb_layout b) /\
            drop_layout KBoxSlice T c = bb_drop b
  | Err (e, b0) => ~ bb_slice_ok T b /\ b0 = b /\
                   match e with AlignmentMismatch => l_align (bb_layout b) <> al T
                              | OutputSliceWouldHaveSlop => ~ convertible (l_size (bb_layout b)) (sz T) | _ => False end
  end.
Proof. exact from_bb_slice_char. Qed.

Theorem C15_roundtrip_sized : forall T c, clen c = 1 -> ccap c = 1 -> try_from_box_bytes_sized T (box_bytes_of_sized T c) = Ok c.
Proof. exact bb_roundtrip_sized. Qed.

Theorem C15_roundtrip_slice : forall T c, ccap c = clen c -> sz T <> 0 -> try_from_box_bytes_slice T (box_bytes_of_slice T c) = Ok c.
Proof. exact bb_roundtrip_slice. Qed.

(* the impl methods as the translator regenerates them from src/allocation.rs (Gen/Alloc.v) are the
   modelled ones, so the statements above hold of the translated code; Drop passes the allocator the
   block's own pointer with exactly the recorded layout, and nothing when the size is 0 *)
Theorem C15_generated : forall ENV T c b,
  Gen.Alloc.box_bytes_of_sized ENV T c = Ret (box_bytes_of_sized T c) /\
  Gen.Alloc.box_bytes_of_slice ENV T c = Ret (box_bytes_of_slice T c) /\
  Gen.Alloc.try_from_box_bytes_sized ENV T b = Ret (try_from_box_bytes_sized T b) /\
  Gen.Alloc.try_from_box_bytes_slice ENV T b = Ret (try_from_box_bytes_slice T b) /\
  Gen.Alloc.box_bytes_drop ENV b = Ret (match bb_drop b with Some l => Some (bb_ptr b, l) | None => None end).
Proof. exact gen_box_bytes_all. Qed.

Theorem C15_generated_drop_exact : forall ENV b,
  Gen.Alloc.box_bytes_drop ENV b =
  Ret (if l_size (bb_layout b) =? 0 then None else Some (bb_ptr b, bb_layout b)).
Proof. exact gen_box_bytes_drop_exact. Qed.

Theorem C15_generated_views : forall ENV b p l,
  Gen.Alloc.box_bytes_deref ENV b = Ret (mkSlice (mkPtr (bb_ptr b) (l_size (bb_layout b))) (l_size (bb_layout b))) /\
  Gen.Alloc.box_bytes_deref_mut ENV b = Ret (mkSlice (mkPtr (bb_ptr b) (l_size (bb_layout b))) (l_size (bb_layout b))) /\
  Gen.Alloc.box_bytes_layout ENV b = Ret (bb_layout b) /\
  Gen.Alloc.box_bytes_into_raw_parts ENV b = Ret (bb_ptr b, bb_layout b) /\
  Gen.Alloc.box_bytes_from_raw_parts ENV p l = Ret (mkBB p l) /\
  (x <- Gen.Alloc.box_bytes_into_raw_parts ENV b ;; Gen.Alloc.box_bytes_from_raw_parts ENV (fst x) (snd x)) = Ret b.
Proof. exact gen_box_bytes_views. Qed.

(* the public functions box_bytes_of / try_from_box_bytes as translated: the impl for [T] when the type
   argument is a slice (flag `u`), the impl for T otherwise — so every statement above is about them *)
Theorem C15_generated_public : forall ENV T u c b,
  Gen.Alloc.box_bytes_of ENV T u c = Ret (if u then box_bytes_of_slice T c else box_bytes_of_sized T c) /\
  Gen.Alloc.try_from_box_bytes ENV T u b = Ret (if u then try_from_box_bytes_slice T b else try_from_box_bytes_sized T b).
Proof. exact gen_box_bytes_public. Qed.

Example C15_nonvacuous :
  bb_drop (box_bytes_of_slice (mkTy 4 4) (mkCont 64 0 0)) = None /\
  bb_drop (box_bytes_of_slice (mkTy 4 4) (mkCont 64 3 3)) = Some (mkLayout 12 4).
Proof. split; reflexivity. Qed.

Print Assumptions C15_of_sized.
Print Assumptions C15_of_slice.
Print Assumptions C15_from_sized.
Print Assumptions C15_from_slice.
Print Assumptions C15_roundtrip_sized.
Print Assumptions C15_roundtrip_slice.
Print Assumptions C15_generated.
Print Assumptions C15_generated_drop_exact.
Print Assumptions C15_generated_views.
Print Assumptions C15_generated_public.
