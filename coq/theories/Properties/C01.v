(* Properties/C01.v — "Borrowed casts never reach outside the source memory and never misalign".
   Theorems only; each is closed by an exact lemma and followed by Print Assumptions.  Stated on the
   functions of the TRANSLATED src/lib.rs, src/checked.rs, src/must.rs.  In the model, making a
   reference or slice that is misaligned or larger than the extent of the pointer it is made from
   is UB (Base/Prims.v), so "the cast returns" already excludes reaching outside the source; the
   theorems state the returned view explicitly. *)
From Coq Require Import NArith List Bool String.
From BM Require Import Base.Outcome Base.Prims Base.Layout Spec.CastSpec Model.Mem Model.StdSlice.
From BM Require Import Proofs.CastPanicking Proofs.CastViews.
From BM.Gen Require Internal Root Checked Must.
Open Scope N_scope.

Theorem C01_try_cast_slice : forall ENV A B s v, wf_ty A -> wf_ty B -> valid_slice A s -> Root.try_cast_slice ENV A B s = Ret (Ok v) -> slice_view_ok A B s v.
Proof. exact v_try_cast_slice. Qed.

Theorem C01_try_cast_slice_mut : forall ENV A B s v, wf_ty A -> wf_ty B -> valid_slice A s -> Root.try_cast_slice_mut ENV A B s = Ret (Ok v) -> slice_view_ok A B s v.
Proof. exact v_try_cast_slice_mut. Qed.

Theorem C01_cast_slice : forall ENV A B s v, wf_ty A -> wf_ty B -> valid_slice A s -> Root.cast_slice ENV A B s = Ret v -> slice_view_ok A B s v.
Proof. exact v_cast_slice. Qed.

Theorem C01_cast_slice_mut : forall ENV A B s v, wf_ty A -> wf_ty B -> valid_slice A s -> Root.cast_slice_mut ENV A B s = Ret v -> slice_view_ok A B s v.
Proof. exact v_cast_slice_mut. Qed.

Theorem C01_try_cast_ref : forall ENV A B p v, wf_ty A -> wf_ty B -> valid_ref A p -> Root.try_cast_ref ENV A B p = Ret (Ok v) -> ref_view_ok B p v.
Proof. exact v_try_cast_ref. Qed.

Theorem C01_try_cast_mut : forall ENV A B p v, wf_ty A -> wf_ty B -> valid_ref A p -> Root.try_cast_mut ENV A B p = Ret (Ok v) -> ref_view_ok B p v.
Proof. exact v_try_cast_mut. Qed.

Theorem C01_cast_ref : forall ENV A B p v, wf_ty A -> wf_ty B -> valid_ref A p -> Root.cast_ref ENV A B p = Ret v -> ref_view_ok B p v.
Proof. exact v_cast_ref. Qed.

Theorem C01_cast_mut : forall ENV A B p v, wf_ty A -> wf_ty B -> valid_ref A p -> Root.cast_mut ENV A B p = Ret v -> ref_view_ok B p v.
Proof. exact v_cast_mut. Qed.

Theorem C01_try_from_bytes : forall ENV T s v, wf_ty T -> valid_slice u8_ty s -> Root.try_from_bytes ENV T s = Ret (Ok v) -> ref_view_ok T (sptr s) v.
Proof. exact v_try_from_bytes. Qed.

Theorem C01_try_from_bytes_mut : forall ENV T s v, wf_ty T -> valid_slice u8_ty s -> Root.try_from_bytes_mut ENV T s = Ret (Ok v) -> ref_view_ok T (sptr s) v.
Proof. exact v_try_from_bytes_mut. Qed.

Theorem C01_from_bytes : forall ENV T s v, wf_ty T -> valid_slice u8_ty s -> Root.from_bytes ENV T s = Ret v -> ref_view_ok T (sptr s) v.
Proof. exact v_from_bytes. Qed.

Theorem C01_from_bytes_mut : forall ENV T s v, wf_ty T -> valid_slice u8_ty s -> Root.from_bytes_mut ENV T s = Ret v -> ref_view_ok T (sptr s) v.
Proof. exact v_from_bytes_mut. Qed.

Theorem C01_bytes_of : forall ENV T t, wf_ty T -> valid_ref T t -> exists v, Root.bytes_of ENV T t = Ret v /\ bytes_view_ok T t v.
Proof. exact v_bytes_of. Qed.

Theorem C01_bytes_of_mut : forall ENV T t, wf_ty T -> valid_ref T t -> exists v, Root.bytes_of_mut ENV T t = Ret v /\ bytes_view_ok T t v.
Proof. exact v_bytes_of_mut. Qed.

Theorem C01_checked_try_cast_slice : forall ENV A (B : cty) s v, wf_ty A -> wf_cty B -> valid_slice A s -> Checked.try_cast_slice ENV A B s = Ret (Ok v) -> slice_view_ok A B s v.
Proof. exact v_checked_try_cast_slice. Qed.

Theorem C01_checked_try_cast_slice_mut : forall ENV A (B : cty) s v, wf_ty A -> wf_cty B -> valid_slice A s -> Checked.try_cast_slice_mut ENV A B s = Ret (Ok v) -> slice_view_ok A B s v.
Proof. exact v_checked_try_cast_slice_mut. Qed.

Theorem C01_checked_cast_slice : forall ENV A (B : cty) s v, wf_ty A -> wf_cty B -> valid_slice A s -> Checked.cast_slice ENV A B s = Ret v -> slice_view_ok A B s v.
Proof. exact v_checked_cast_slice. Qed.

Theorem C01_checked_cast_slice_mut : forall ENV A (B : cty) s v, wf_ty A -> wf_cty B -> valid_slice A s -> Checked.cast_slice_mut ENV A B s = Ret v -> slice_view_ok A B s v.
Proof. exact v_checked_cast_slice_mut. Qed.

Theorem C01_checked_try_cast_ref : forall ENV A (B : cty) p v, wf_ty A -> wf_cty B -> valid_ref A p -> Checked.try_cast_ref ENV A B p = Ret (Ok v) -> ref_view_ok B p v.
Proof. exact v_checked_try_cast_ref. Qed.

Theorem C01_checked_try_cast_mut : forall ENV A (B : cty) p v, wf_ty A -> wf_cty B -> valid_ref A p -> Checked.try_cast_mut ENV A B p = Ret (Ok v) -> ref_view_ok B p v.
Proof. exact v_checked_try_cast_mut. Qed.

Theorem C01_checked_cast_ref : forall ENV A (B : cty) p v, wf_ty A -> wf_cty B -> valid_ref A p -> Checked.cast_ref ENV A B p = Ret v -> ref_view_ok B p v.
Proof. exact v_checked_cast_ref. Qed.

Theorem C01_checked_cast_mut : forall ENV A (B : cty) p v, wf_ty A -> wf_cty B -> valid_ref A p -> Checked.cast_mut ENV A B p = Ret v -> ref_view_ok B p v.
Proof. exact v_checked_cast_mut. Qed.

Theorem C01_checked_try_from_bytes : forall ENV (T : cty) s v, wf_cty T -> valid_slice u8_ty s -> Checked.try_from_bytes ENV T s = Ret (Ok v) -> ref_view_ok T (sptr s) v.
Proof. exact v_checked_try_from_bytes. Qed.

Theorem C01_checked_try_from_bytes_mut : forall ENV (T : cty) s v, wf_cty T -> valid_slice u8_ty s -> Checked.try_from_bytes_mut ENV T s = Ret (Ok v) -> ref_view_ok T (sptr s) v.
Proof. exact v_checked_try_from_bytes_mut. Qed.

Theorem C01_checked_from_bytes : forall ENV (T : cty) s v, wf_cty T -> valid_slice u8_ty s -> Checked.from_bytes ENV T s = Ret v -> ref_view_ok T (sptr s) v.
Proof. exact v_checked_from_bytes. Qed.

Theorem C01_checked_from_bytes_mut : forall ENV (T : cty) s v, wf_cty T -> valid_slice u8_ty s -> Checked.from_bytes_mut ENV T s = Ret v -> ref_view_ok T (sptr s) v.
Proof. exact v_checked_from_bytes_mut. Qed.

Theorem C01_must_cast_slice : forall ENV A B s v, wf_ty A -> wf_ty B -> valid_slice A s -> Must.must_cast_slice ENV A B s = Ret v -> slice_view_ok A B s v.
Proof. exact v_must_cast_slice. Qed.

Theorem C01_must_cast_slice_mut : forall ENV A B s v, wf_ty A -> wf_ty B -> valid_slice A s -> Must.must_cast_slice_mut ENV A B s = Ret v -> slice_view_ok A B s v.
Proof. exact v_must_cast_slice_mut. Qed.

Theorem C01_must_cast_ref : forall ENV A B p v, wf_ty A -> wf_ty B -> valid_ref A p -> Must.must_cast_ref ENV A B p = Ret v -> ref_view_ok B p v.
Proof. exact v_must_cast_ref. Qed.

Theorem C01_must_cast_mut : forall ENV A B p v, wf_ty A -> wf_ty B -> valid_ref A p -> Must.must_cast_mut ENV A B p = Ret v -> ref_view_ok B p v.
Proof. exact v_must_cast_mut. Qed.

Theorem C01_footprint : forall A B s v x, slice_view_ok A B s v -> (in_footprint (addr (sptr v)) (slen v * sz B) x <-> in_footprint (addr (sptr s)) (slen s * sz A) x).
Proof. exact slice_footprint. Qed.

Theorem C01_store_slice : forall A B s v m k b, slice_view_ok A B s v -> k < slen v * sz B ->
  let m' := store m (addr (sptr v) + k) b in
  m' (addr (sptr s) + k) = b /\ in_footprint (addr (sptr s)) (slen s * sz A) (addr (sptr v) + k) /\
  (forall x, x <> addr (sptr s) + k -> m' x = m x).
Proof. exact slice_store. Qed.

Theorem C01_store_ref : forall B p v m k b, ref_view_ok B p v -> k < sz B ->
  let m' := store m (addr v + k) b in m' (addr p + k) = b /\ (forall x, x <> addr p + k -> m' x = m x).
Proof. exact ref_store. Qed.

Theorem C01_zst : forall A B s v, slice_view_ok A B s v -> sz A = 0 \/ sz B = 0 -> slen v * sz B = 0.
Proof. exact view_zst. Qed.

Theorem C01_align_to_any_offset : forall off T U base len, (off <= len -> (base + off * sz T) mod al U = 0) ->
  tiles T U base len (align_to_with off T U base len).
Proof. exact align_to_with_tiles. Qed.

Theorem C01_align_to : forall T U base len, len < USIZE_MAX -> tiles T U base len (align_to T U base len).
Proof. exact align_to_tiles. Qed.

(* pod_align_to / pod_align_to_mut as translated from src/lib.rs are exactly one call of core's
   align_to::<U> on the argument (nothing dropped, reordered or re-typed), so their three parts tile the
   source, stay inside it, and the middle one is aligned *)
Theorem C01_pod_align_to : forall ENV T U s,
  Root.pod_align_to ENV T U s = Ret (slice_align_to T U s) /\
  Root.pod_align_to_mut ENV T U s = Ret (slice_align_to T U s).
Proof. exact pod_align_to_is_align_to. Qed.

Theorem C01_pod_align_to_tiles : forall T U s, slen s < USIZE_MAX ->
  let '(p, m, q) := slice_align_to T U s in
  addr (sptr p) = addr (sptr s) /\
  avail (sptr p) = slen p * sz T /\ avail (sptr m) = slen m * sz U /\ avail (sptr q) = slen q * sz T /\
  slen p * sz T + slen m * sz U + slen q * sz T = slen s * sz T /\
  (slen m * sz U <> 0 -> addr (sptr m) = addr (sptr s) + slen p * sz T /\ addr (sptr m) mod al U = 0) /\
  (slen q * sz T <> 0 -> addr (sptr q) = addr (sptr s) + slen p * sz T + slen m * sz U).
Proof. exact slice_align_to_tiles. Qed.

(* non-vacuity: a successful cast of three 4-byte elements at 4096 to 2-byte elements yields a
   six-element view at 4096; an align-to split of seven bytes at 4097 into u32 is 3 + 1 + 0 *)
Example C01_nonvacuous :
  Root.try_cast_slice (mkEnv (fun _ => false) (fun _ => 0) (fun _ _ => 0)) (mkTy 4 4) (mkTy 2 2) (mkSlice (mkPtr 4096 12) 3)
    = Ret (Ok (mkSlice (mkPtr 4096 12) 6)) /\
  align_to (mkTy 1 1) (mkTy 4 4) 4097 7 = mkSplit 4097 3 4100 1 4104 0.
Proof. split; vm_compute; reflexivity. Qed.

Print Assumptions C01_try_cast_slice.
Print Assumptions C01_try_cast_slice_mut.
Print Assumptions C01_cast_slice.
Print Assumptions C01_cast_slice_mut.
Print Assumptions C01_try_cast_ref.
Print Assumptions C01_try_cast_mut.
Print Assumptions C01_cast_ref.
Print Assumptions C01_cast_mut.
Print Assumptions C01_try_from_bytes.
Print Assumptions C01_try_from_bytes_mut.
Print Assumptions C01_from_bytes.
Print Assumptions C01_from_bytes_mut.
Print Assumptions C01_bytes_of.
Print Assumptions C01_bytes_of_mut.
Print Assumptions C01_checked_try_cast_slice.
Print Assumptions C01_checked_try_cast_slice_mut.
Print Assumptions C01_checked_cast_slice.
Print Assumptions C01_checked_cast_slice_mut.
Print Assumptions C01_checked_try_cast_ref.
Print Assumptions C01_checked_try_cast_mut.
Print Assumptions C01_checked_cast_ref.
Print Assumptions C01_checked_cast_mut.
Print Assumptions C01_checked_try_from_bytes.
Print Assumptions C01_checked_try_from_bytes_mut.
Print Assumptions C01_checked_from_bytes.
Print Assumptions C01_checked_from_bytes_mut.
Print Assumptions C01_must_cast_slice.
Print Assumptions C01_must_cast_slice_mut.
Print Assumptions C01_must_cast_ref.
Print Assumptions C01_must_cast_mut.
Print Assumptions C01_footprint.
Print Assumptions C01_store_slice.
Print Assumptions C01_store_ref.
Print Assumptions C01_zst.
Print Assumptions C01_align_to_any_offset.
Print Assumptions C01_align_to.
Print Assumptions C01_pod_align_to.
Print Assumptions C01_pod_align_to_tiles.
