(* Properties/C18.v — "ByteEq / ByteHash give a lawful, purely byte-wise Eq and Hash" (thin). *)
From Coq Require Import NArith List Bool.
From BM Require Import Model.ByteEq.

Theorem C18_eq_iff_bytes : forall a b, byte_eq a b = true <-> a = b.
Proof. exact byte_eq_spec. Qed.
Theorem C18_reflexive : forall a, byte_eq a a = true.
Proof. exact byte_eq_refl. Qed.
Theorem C18_symmetric : forall a b, byte_eq a b = byte_eq b a.
Proof. exact byte_eq_sym. Qed.
Theorem C18_transitive : forall a b c, byte_eq a b = true -> byte_eq b c = true -> byte_eq a c = true.
Proof. exact byte_eq_trans. Qed.
Theorem C18_equal_values_hash_equally : forall state (write : state -> bytes -> state) st a b,
  byte_eq a b = true -> hash state write st a = hash state write st b.
Proof. exact eq_hash. Qed.
Theorem C18_hash_slice_bytes_only : forall state (write : state -> bytes -> state) st vs ws,
  concat vs = concat ws -> hash_slice state write st vs = hash_slice state write st ws.
Proof. exact hash_slice_bytes_only. Qed.

Print Assumptions C18_eq_iff_bytes.
Print Assumptions C18_reflexive.
Print Assumptions C18_symmetric.
Print Assumptions C18_transitive.
Print Assumptions C18_equal_values_hash_equally.
Print Assumptions C18_hash_slice_bytes_only.
