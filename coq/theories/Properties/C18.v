(* Properties/C18.v — "ByteEq / ByteHash give a lawful, purely byte-wise Eq and Hash" (thin). *)
From Coq Require Import NArith List Bool.
From BM Require Import Model.ByteEq.
Import ListNotations.

Theorem C18_eq_iff_bytes : forall a b, byte_eq a b = true <-> a = b.
Proof. exact byte_eq_spec. Qed.
Theorem C18_reflexive : forall a, byte_eq a a = true.
Proof. exact byte_eq_refl. Qed.
Theorem C18_symmetric : forall a b, byte_eq a b = byte_eq b a.
Proof. exact byte_eq_sym. Qed.
Theorem C18_transitive : forall a b c, byte_eq a b = true -> byte_eq b c = true -> byte_eq a c = true.
Proof. exact byte_eq_trans. Qed.
Theorem C18_equal_values_hash_equally : forall state (write : state -> bytes -> state) st a b,
  byte_eq a b = true -> hash state write st a = hash state write st b.
Proof. exact eq_hash. Qed.
Theorem C18_hash_slice_bytes_only : forall state (write : state -> bytes -> state) st vs ws,
  concat vs = concat ws -> hash_slice state write st vs = hash_slice state write st ws.
Proof. exact hash_slice_bytes_only. Qed.

Theorem C18_slice_compare_is_byte_equality : forall a b, slice_eq a b = true <-> a = b.
Proof. exact slice_eq_spec. Qed.
Theorem C18_derived_eq_iff_bytes : forall v w, derived_eq v w = true <-> bytes_of v = bytes_of w.
Proof. exact derived_eq_iff. Qed.
Theorem C18_derived_eq_reflexive : forall v, derived_eq v v = true.
Proof. exact derived_eq_refl. Qed.
Theorem C18_derived_eq_symmetric : forall v w, derived_eq v w = derived_eq w v.
Proof. exact derived_eq_sym. Qed.
Theorem C18_derived_eq_transitive : forall u v w, derived_eq u v = true -> derived_eq v w = true -> derived_eq u w = true.
Proof. exact derived_eq_trans. Qed.
Theorem C18_nan_reflexive_where_ieee_is_not :
  fieldwise_f32_eq nan_payload1 nan_payload1 = false /\ derived_eq nan_payload1 nan_payload1 = true.
Proof. exact nan_contrast. Qed.
Theorem C18_signed_zeros_differ_bytewise :
  fieldwise_f32_eq pos_zero neg_zero = true /\ derived_eq pos_zero neg_zero = false.
Proof. exact zero_contrast. Qed.
Theorem C18_hash_value_is_singleton_slice : forall state (write : state -> bytes -> state) st a,
  hash state write st a = hash_slice state write st [a].
Proof. exact hash_singleton. Qed.
Theorem C18_hash_sees_all_bytes : forall state (write : state -> bytes -> state) st a b,
  (forall s x y, write s x = write s y -> x = y) ->
  hash state write st a = hash state write st b -> byte_eq a b = true.
Proof. exact hash_injective_hasher. Qed.
Theorem C18_one_write_of_the_bytes : forall v, hash (list bytes) rec_write [] v = [v].
Proof. exact recording_one_write. Qed.
Theorem C18_one_write_of_the_concatenation : forall vs, hash_slice (list bytes) rec_write [] vs = [concat vs].
Proof. exact recording_one_write_slice. Qed.

Print Assumptions C18_eq_iff_bytes.
Print Assumptions C18_reflexive.
Print Assumptions C18_symmetric.
Print Assumptions C18_transitive.
Print Assumptions C18_equal_values_hash_equally.
Print Assumptions C18_hash_slice_bytes_only.
Print Assumptions C18_slice_compare_is_byte_equality.
Print Assumptions C18_derived_eq_iff_bytes.
Print Assumptions C18_derived_eq_reflexive.
Print Assumptions C18_derived_eq_symmetric.
Print Assumptions C18_derived_eq_transitive.
Print Assumptions C18_nan_reflexive_where_ieee_is_not.
Print Assumptions C18_signed_zeros_differ_bytewise.
Print Assumptions C18_hash_value_is_singleton_slice.
Print Assumptions C18_hash_sees_all_bytes.
Print Assumptions C18_one_write_of_the_bytes.
Print Assumptions C18_one_write_of_the_concatenation.
