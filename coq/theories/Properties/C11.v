(* Properties/C11.v — "Panicking API variants agree with their try_ counterparts" (borrowed and
   by-value forms; the owning-container forms are in the allocation family).
   [twin fn t p] (Spec/CastSpec.v): t = Ok v -> p returns v; t = Err e -> p is the ordinary
   something_went_wrong panic carrying e (an unwinding panic, never another outcome). *)
From Coq Require Import NArith List Bool String.
From BM Require Import Base.Outcome Base.Prims Base.Layout Spec.CastSpec.
From BM Require Import Proofs.CastValue Proofs.CastPanicking Proofs.CastChecked Proofs.RootTwins.
From BM.Gen Require Internal Root Checked.
From BM Require Import Base.Own Model.Alloc Proofs.AllocGen Proofs.AllocGenBytes.
Open Scope string_scope.
Open Scope N_scope.

Theorem C11_cast_slice : forall ENV A B s, twin "cast_slice" (Root.try_cast_slice ENV A B s) (Root.cast_slice ENV A B s).
Proof. exact root_cast_slice_twin. Qed.

Theorem C11_cast_slice_mut : forall ENV A B s, twin "cast_slice_mut" (Root.try_cast_slice_mut ENV A B s) (Root.cast_slice_mut ENV A B s).
Proof. exact root_cast_slice_mut_twin. Qed.

Theorem C11_cast_ref : forall ENV A B p, wf_ty A -> wf_ty B -> valid_ref A p -> twin "cast_ref" (Root.try_cast_ref ENV A B p) (Root.cast_ref ENV A B p).
Proof. exact root_cast_ref_twin. Qed.

Theorem C11_cast_mut : forall ENV A B p, wf_ty A -> wf_ty B -> valid_ref A p -> twin "cast_mut" (Root.try_cast_mut ENV A B p) (Root.cast_mut ENV A B p).
Proof. exact root_cast_mut_twin. Qed.

Theorem C11_from_bytes : forall ENV T s, twin "from_bytes" (Root.try_from_bytes ENV T s) (Root.from_bytes ENV T s).
Proof. exact root_from_bytes_twin. Qed.

Theorem C11_from_bytes_mut : forall ENV T s, twin "from_bytes_mut" (Root.try_from_bytes_mut ENV T s) (Root.from_bytes_mut ENV T s).
Proof. exact root_from_bytes_mut_twin. Qed.

Theorem C11_pod_read_unaligned : forall ENV T s, twin "pod_read_unaligned" (Root.try_pod_read_unaligned ENV T s) (Root.pod_read_unaligned ENV T s).
Proof. exact root_pod_read_unaligned_twin. Qed.

Theorem C11_cast : forall ENV A B a, twin "cast" (Root.try_cast ENV A B a) (Root.cast ENV A B a).
Proof. exact root_cast_twin. Qed.

Theorem C11_checked_cast_slice : forall ENV A B s, ctwin "cast_slice" (Checked.try_cast_slice ENV A B s) (Checked.cast_slice ENV A B s).
Proof. exact checked_cast_slice_twin. Qed.

Theorem C11_checked_cast_slice_mut : forall ENV A B s, ctwin "cast_slice_mut" (Checked.try_cast_slice_mut ENV A B s) (Checked.cast_slice_mut ENV A B s).
Proof. exact checked_cast_slice_mut_twin. Qed.

Theorem C11_checked_cast_ref : forall ENV A B p, ctwin "cast_ref" (Checked.try_cast_ref ENV A B p) (Checked.cast_ref ENV A B p).
Proof. exact checked_cast_ref_twin. Qed.

Theorem C11_checked_cast_mut : forall ENV A B p, ctwin "cast_mut" (Checked.try_cast_mut ENV A B p) (Checked.cast_mut ENV A B p).
Proof. exact checked_cast_mut_twin. Qed.

Theorem C11_checked_from_bytes : forall ENV T s, ctwin "from_bytes" (Checked.try_from_bytes ENV T s) (Checked.from_bytes ENV T s).
Proof. exact checked_from_bytes_twin. Qed.

Theorem C11_checked_from_bytes_mut : forall ENV T s, ctwin "from_bytes_mut" (Checked.try_from_bytes_mut ENV T s) (Checked.from_bytes_mut ENV T s).
Proof. exact checked_from_bytes_mut_twin. Qed.

Theorem C11_checked_cast : forall ENV A B a, ctwin "cast" (Checked.try_cast ENV A B a) (Checked.cast ENV A B a).
Proof. exact checked_cast_twin. Qed.

Theorem C11_checked_pod_read_unaligned : forall ENV T s, ctwin "pod_read_unaligned" (Checked.try_pod_read_unaligned ENV T s) (Checked.pod_read_unaligned ENV T s).
Proof. exact checked_pod_read_unaligned_twin. Qed.

(* owning-container forms (translated from src/allocation.rs): the panicking form returns exactly the
   container the fallible form returns, and panics (Result::unwrap, carrying the same error) exactly
   when the fallible form fails; the fallible form then hands the input back *)
Theorem C11_owned : forall k ENV A B c, gen_pre k A c ->
  exists r, gen_try k ENV A B c = Ret r /\
    match r with
    | Ok c' => gen_cast k ENV A B c = Ret c'
    | Err (e, c0) => gen_cast k ENV A B c = Panic (W_unwrap (EP e)) /\ c0 = c
    end.
Proof. exact gen_twin. Qed.

(* from_box_bytes / try_from_box_bytes (translated; `unsized_T` selects the impl for [T] or for T) *)
Theorem C11_from_box_bytes : forall ENV T u b,
  exists r, Gen.Alloc.try_from_box_bytes ENV T u b = Ret r /\
    match r with
    | Ok c => Gen.Alloc.from_box_bytes ENV T u b = Ret c
    | Err (e, b0) => Gen.Alloc.from_box_bytes ENV T u b = Panic (W_unwrap (EP e)) /\ b0 = b
    end.
Proof. exact gen_from_box_bytes_twin. Qed.

Example C11_nonvacuous :
  let E := mkEnv (fun _ => false) (fun _ => 0) (fun _ _ => 0) in
  Root.cast_ref E (mkTy 4 1) (mkTy 4 4) (mkPtr 4097 4) = Panic (W_msg "cast_ref" (EP TargetAlignmentGreaterAndInputNotAligned)) /\
  Root.cast_ref E (mkTy 4 1) (mkTy 4 4) (mkPtr 4096 4) = Ret (mkPtr 4096 4).
Proof. split; vm_compute; reflexivity. Qed.

Print Assumptions C11_from_box_bytes.
Print Assumptions C11_cast_slice.
Print Assumptions C11_cast_slice_mut.
Print Assumptions C11_cast_ref.
Print Assumptions C11_cast_mut.
Print Assumptions C11_from_bytes.
Print Assumptions C11_from_bytes_mut.
Print Assumptions C11_pod_read_unaligned.
Print Assumptions C11_cast.
Print Assumptions C11_checked_cast_slice.
Print Assumptions C11_checked_cast_slice_mut.
Print Assumptions C11_checked_cast_ref.
Print Assumptions C11_checked_cast_mut.
Print Assumptions C11_checked_from_bytes.
Print Assumptions C11_checked_from_bytes_mut.
Print Assumptions C11_checked_cast.
Print Assumptions C11_checked_pod_read_unaligned.
Print Assumptions C11_owned.
