(* Properties/C06.v — "Enum derives see each discriminant exactly as the compiler assigns it".
   Model/DeriveEnum.v: the macro's discriminant iterator, the compiler's rule, and the decisions of
   derive(Zeroable / Contiguous / NoUninit / CheckedBitPattern) on an enum.  Tie: derivefam (real
   rustc verdicts; `Variant as i128`; MIN/MAX; validity sweeps, exhaustive for 8/16-bit reprs).
   Literal SYNTAX (hex, octal, binary, underscores, suffixes, byte literals) is syn's: covered by
   the correspondence only. *)
From Coq Require Import ZArith List Bool.
Import ListNotations.
From BM Require Import Model.DeriveEnum.
Open Scope Z_scope.

Theorem C06_agree : forall vs, derive_discs vs = rustc_discs vs.
Proof. exact discs_agree. Qed.

Theorem C06_pigeonhole : forall x l, NoDup (x :: l) ->
  (lmax x l - lmin x l = Z.of_nat (length (x :: l)) - 1 <-> forall v, lmin x l <= v <= lmax x l -> In v (x :: l)).
Proof. exact pigeonhole. Qed.

Theorem C06_valid_exact : forall vs x, NoDup (derive_discs vs) -> (is_valid_fieldless vs x = true <-> In x (derive_discs vs)).
Proof. exact is_valid_exact. Qed.

Theorem C06_contiguous : forall r vs, NoDup (derive_discs vs) -> contiguous_accepts r vs = true ->
  let '(mn, mx) := contiguous_minmax vs in forall x, (mn <= x <= mx <-> In x (rustc_discs vs)).
Proof. exact contiguous_exact. Qed.

Theorem C06_zeroable : forall r vs, zeroable_accepts r vs = true -> In 0 (rustc_discs vs) /\ r <> RNone.
Proof. exact zeroable_sound. Qed.

Theorem C06_nouninit : forall r vs, nouninit_accepts r vs = true -> r = RInt /\ existsb v_has_fields vs = false.
Proof.
  intros r vs. unfold nouninit_accepts. destruct r; try discriminate. rewrite negb_true_iff. intros H. split; [reflexivity | exact H].
Qed.

Example C06_nonvacuous :
  derive_discs [mkVar (Some 5) false true; mkVar None false true; mkVar (Some (-1)) false true; mkVar None false true] = [5; 6; -1; 0] /\
  contiguous_accepts RInt [mkVar (Some 3) false true; mkVar (Some 1) false true; mkVar None false true] = true /\
  contiguous_accepts RInt [mkVar (Some 1) false true; mkVar (Some 9) false true; mkVar (Some 3) false true] = false /\
  is_valid_fieldless [mkVar (Some 1) false true; mkVar (Some 9) false true] 2 = false.
Proof. repeat split; reflexivity. Qed.

Print Assumptions C06_agree.
Print Assumptions C06_pigeonhole.
Print Assumptions C06_valid_exact.
Print Assumptions C06_contiguous.
Print Assumptions C06_zeroable.
Print Assumptions C06_nouninit.
