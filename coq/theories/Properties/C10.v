(* Properties/C10.v — "Owning-container casts succeed exactly when layout-compatible and keep bytes". *)
From Coq Require Import NArith List Bool String.
From BM Require Import Base.Outcome Base.Prims Base.Own Base.Layout Model.Alloc Proofs.AllocProofs.
Import ListNotations.
Open Scope N_scope.
From BM Require Import Model.RcHist Proofs.AllocGen Proofs.AllocGenBytes.
From BM.Gen Require Alloc.

Theorem C10_iff : forall k A B c, wf_cont k A c -> ((exists c', try_cast_cont k A B c = Ok c') <-> cast_ok k A B c).
Proof. exact cast_iff. Qed.

Theorem C10_char : forall k A B c, wf_cont k A c -> cast_outcome_ok k A B c (try_cast_cont k A B c).
Proof. exact try_cast_cont_char. Qed.

Theorem C10_err_true : forall k A B c e c0, wf_cont k A c -> try_cast_cont k A B c = Err (e, c0) ->
  ~ cast_ok k A B c /\ cast_err_true k A B c e /\ c0 = c.
Proof. exact cast_err. Qed.

Theorem C10_counts_untouched : forall s, rc_step s HCast = s.
Proof. exact rc_cast_noop. Qed.

(* the translated ladders of src/allocation.rs (Gen/Alloc.v, regenerated every run) ARE the modelled
   ladders: same decision, same error, same container *)
Theorem C10_generated_is_model : forall k ENV A B c, gen_pre k A c ->
  gen_try k ENV A B c = Ret (try_cast_cont k A B c).
Proof. exact gen_try_refines. Qed.

Theorem C10_generated_iff : forall k ENV A B c, wf_cont k A c -> gen_pre k A c ->
  ((exists c', gen_try k ENV A B c = Ret (Ok c')) <-> cast_ok k A B c).
Proof. exact gen_try_iff. Qed.

(* BoxBytes back to a Box (the owning cast whose source "element" is the recorded layout): succeeds iff the
   recorded alignment equals the target's and the size matches (exactly / as whole elements), at the same
   address, and otherwise names a condition that really failed and hands the BoxBytes back — for the
   translated try_from_box_bytes, sized and slice targets *)
Theorem C10_box_bytes_generated : forall ENV T u b,
  Gen.Alloc.try_from_box_bytes ENV T u b = Ret (if u then try_from_box_bytes_slice T b else try_from_box_bytes_sized T b).
Proof. intros ENV T u b. exact (proj2 (gen_box_bytes_public ENV T u (mkCont 0 0 0) b)). Qed.

Theorem C10_box_bytes_sized : forall T b, match try_from_box_bytes_sized T b with
  | Ok c => bb_sized_ok T b /\ cptr c = bb_ptr b /\ drop_layout KBox T c = bb_drop b
  | Err (e, b0) => ~ bb_sized_ok T b /\ b0 = b /\
                   match e with AlignmentMismatch => l_align (bb_layout b) <> al T
                              | SizeMismatch => l_size (bb_layout b) <> sz T | _ => False end
  end.
Proof. exact from_bb_sized_char. Qed.

Theorem C10_box_bytes_slice : forall T b, match try_from_box_bytes_slice T b with
  | Ok c => bb_slice_ok T b /\ cptr c = bb_ptr b /\ clen c * sz T = l_size (bb_layout b) /\
            drop_layout KBoxSlice T c = bb_drop b
  | Err (e, b0) => ~ bb_slice_ok T b /\ b0 = b /\
                   match e with AlignmentMismatch => l_align (bb_layout b) <> al T
                              | OutputSliceWouldHaveSlop => ~ convertible (l_size (bb_layout b)) (sz T) | _ => False end
  end.
Proof. exact from_bb_slice_char. Qed.

Example C10_gen_pre_nonvacuous : gen_pre KVec (mkTy 4 4) (mkCont 4096 3 6) /\ gen_pre KVec (mkTy 0 1) (mkCont 1 5 18446744073709551615).
Proof. split; vm_compute; reflexivity. Qed.

Example C10_nonvacuous :
  cast_ok KBoxSlice (mkTy 6 2) (mkTy 4 2) (mkCont 64 2 2) /\ ~ cast_ok KBoxSlice (mkTy 6 2) (mkTy 4 2) (mkCont 64 3 3).
Proof. unfold cast_ok, convertible; cbn. split; [split; reflexivity | intros [_ H]; discriminate H]. Qed.

Print Assumptions C10_iff.
Print Assumptions C10_char.
Print Assumptions C10_err_true.
Print Assumptions C10_counts_untouched.
Print Assumptions C10_generated_is_model.
Print Assumptions C10_generated_iff.
Print Assumptions C10_box_bytes_generated.
Print Assumptions C10_box_bytes_sized.
Print Assumptions C10_box_bytes_slice.
