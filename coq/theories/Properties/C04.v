(* Properties/C04.v — "Built-in marker impls exist only for types that satisfy the marker contract".
   The impl rows are REGENERATED from the macro-expanded source for each feature configuration
   (Gen/Tables.v).  [derives rules m t]: marker m follows for the ground type t from the rows
   (any instantiation of the generic rows, any nesting depth, any array length, any arity);
   [contractb m (ground_facts t)]: the language guarantees m's contract for t (Model/LangOracle.v —
   the trusted reading of the reference: zero-validity, any-bit-pattern, no padding / uninit bytes,
   Copy, no interior mutability, no pointers, the null-pointer niche).  The marker lattice is a
   consequence of the contracts being nested sets of facts.  The built-in Contiguous rows are decided by
   Proofs/ContigProofs.v (each names exactly the valid values of its type), restated at the end; their use is C17. *)
From Coq Require Import NArith List Bool String.
From BM Require Import Base.TyExpr Model.LangOracle Model.TraitSolver Proofs.ImplSound Proofs.ContigProofs.
From BM.Gen Require Tables.
Import ListNotations.
Open Scope string_scope.

Lemma ok_all : forallb rule_okb (marker_rules Tables.rules_all) = true. Proof. vm_compute. reflexivity. Qed.
Lemma ok_none : forallb rule_okb (marker_rules Tables.rules_none) = true. Proof. vm_compute. reflexivity. Qed.
Lemma ok_alloc : forallb rule_okb (marker_rules Tables.rules_alloc) = true. Proof. vm_compute. reflexivity. Qed.
Lemma ok_aat : forallb rule_okb (marker_rules Tables.rules_aat) = true. Proof. vm_compute. reflexivity. Qed.

Theorem C04_sound_all_features : forall m t,
  derives (marker_rules Tables.rules_all) m t -> contractb m (ground_facts t) = true.
Proof. exact (derives_sound _ (all_rules_sound _ ok_all)). Qed.

Theorem C04_sound_no_features : forall m t,
  derives (marker_rules Tables.rules_none) m t -> contractb m (ground_facts t) = true.
Proof. exact (derives_sound _ (all_rules_sound _ ok_none)). Qed.

Theorem C04_sound_alloc : forall m t,
  derives (marker_rules Tables.rules_alloc) m t -> contractb m (ground_facts t) = true.
Proof. exact (derives_sound _ (all_rules_sound _ ok_alloc)). Qed.

Theorem C04_sound_alloc_align_track : forall m t,
  derives (marker_rules Tables.rules_aat) m t -> contractb m (ground_facts t) = true.
Proof. exact (derives_sound _ (all_rules_sound _ ok_aat)). Qed.

(* every generic row, for EVERY instantiation that meets its bounds *)
Theorem C04_every_row_every_instantiation : Forall rule_sound (marker_rules Tables.rules_all).
Proof. exact (all_rules_sound _ ok_all). Qed.

(* the lattice: Pod implies the three weaker markers, AnyBitPattern implies Zeroable and checked *)
Theorem C04_lattice : forall f,
  (contractb "Pod" f = true -> contractb "Zeroable" f = true /\ contractb "NoUninit" f = true /\ contractb "AnyBitPattern" f = true) /\
  (contractb "AnyBitPattern" f = true -> contractb "Zeroable" f = true /\ contractb "CheckedBitPattern" f = true) /\
  (contractb "PodInOption" f = true -> contractb "ZeroableInOption" f = true).
Proof.
  intros f. unfold contractb; cbn [contract_facts String.eqb Ascii.eqb Bool.eqb forallb].
  split; [|split]; intros H0;
    repeat match goal with Hx : (_ && _) = true |- _ => apply andb_true_iff in Hx; destruct Hx end;
    repeat split; repeat (apply andb_true_iff; split); try assumption; reflexivity.
Qed.

(* the TransparentWrapper rows are the three std wrappers documented repr(transparent) *)
Theorem C04_transparent_rows : forallb tw_okb (tw_rules Tables.rules_all) = true.
Proof. vm_compute. reflexivity. Qed.

(* with unsound_ptr_pod_impl the statement is false, which is why that flag is outside the sound
   configurations: a raw pointer is not guaranteed to admit every bit pattern / is a pointer *)
Theorem C04_unsound_flag_refuted :
  rule_okb (mkRule "Pod" 1%nat [] [] (TPtr false (TVar 0)) [] false) = false.
Proof. vm_compute. reflexivity. Qed.

(* non-vacuity: two concrete rows that occur in the regenerated table derive Pod for Wrapping<u8>;
   the executable solver agrees, and rejects bool / a pointer to a trait object *)
Example C04_nonvacuous :
  let r := mkRule "Pod" 1%nat [(0%nat, "Pod")] [] (TApp "Wrapping" [TVar 0]) [] false in
  let r0 := mkRule "Pod" 0%nat [] [] (TLeaf "u8") [] false in
  occurs r Tables.rules_all = true /\ occurs r0 Tables.rules_all = true /\
  derives [r; r0] "Pod" (TApp "Wrapping" [TLeaf "u8"]) /\
  impl_holds Tables.rules_all "Pod" (TApp "Option" [TLeaf "NonZeroU8"]) = true /\
  impl_holds Tables.rules_all "Pod" (TLeaf "bool") = false /\
  impl_holds Tables.rules_all "Zeroable" (TPtr false (TLeaf "dyn")) = false.
Proof.
  cbv zeta. split; [vm_compute; reflexivity|]. split; [vm_compute; reflexivity|].
  split; [|repeat split; vm_compute; reflexivity].
  set (r := mkRule "Pod" 1%nat [(0%nat, "Pod")] [] (TApp "Wrapping" [TVar 0]) [] false).
  set (r0 := mkRule "Pod" 0%nat [] [] (TLeaf "u8") [] false).
  change (TApp "Wrapping" [TLeaf "u8"]) with (subst (fun _ => TLeaf "u8") (r_self r)).
  apply (D_rule _ r (fun _ => TLeaf "u8")); try reflexivity.
  - left; reflexivity.
  - intros i b [E|[]] _. inversion E; subst.
    change (TLeaf "u8") with (subst (fun _ => TLeaf "u8") (r_self r0)).
    apply (D_rule _ r0 (fun _ => TLeaf "u8")); try reflexivity.
    + right; left; reflexivity.
    + intros ? ? [].
    + intros ? _. split; reflexivity.
  - intros ? _. split; reflexivity.
Qed.

(* every built-in `impl Contiguous` the crate declares (with and without features): Int is the primitive of
   the same width, the default methods are not overridden, and [MIN_VALUE, MAX_VALUE] is exactly the set of
   integers that are valid values of the type *)
Theorem C04_contiguous_rows_all : Forall row_ok Tables.contiguous_rows_all.
Proof. exact rows_ok_all. Qed.

Theorem C04_contiguous_rows_none : Forall row_ok Tables.contiguous_rows_none.
Proof. exact rows_ok_none. Qed.

Print Assumptions C04_sound_all_features.
Print Assumptions C04_sound_no_features.
Print Assumptions C04_sound_alloc.
Print Assumptions C04_sound_alloc_align_track.
Print Assumptions C04_every_row_every_instantiation.
Print Assumptions C04_lattice.
Print Assumptions C04_transparent_rows.
Print Assumptions C04_unsound_flag_refuted.
Print Assumptions C04_contiguous_rows_all.
Print Assumptions C04_contiguous_rows_none.
