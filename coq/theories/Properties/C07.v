(* Properties/C07.v — "Checked casts admit a value iff its bits are valid for the target type".
   [checked_outcome plain valid o] (Spec/CastSpec.v) says: if the plain cast fails with e, o is
   Err (PodCastError e); if it succeeds with view/value pv, o is Ok pv (the same bytes) when pv is
   valid and Err InvalidBitPattern otherwise; panics and UB are propagated (and the plain casts
   have neither, C02/C03).  Validity of a slice is validity of EVERY element (all_elems). *)
From Coq Require Import NArith List Bool String.
From BM Require Import Base.Outcome Base.Prims Base.Layout Spec.CastSpec Model.LangValid.
From BM Require Import Proofs.CastValue Proofs.CastChecked.
From BM.Gen Require Internal Root Checked.
Open Scope N_scope.

Theorem C07_try_cast_slice : forall ENV A (B : cty) s, wf_ty A -> wf_cty B -> valid_slice A s ->
  checked_outcome (Root.try_cast_slice ENV A (c_bits B) s) (fun pv => all_elems ENV (c_bits B) pv (c_valid B))
                  (Checked.try_cast_slice ENV A B s).
Proof. exact checked_try_cast_slice_char. Qed.

Theorem C07_try_cast_slice_mut : forall ENV A (B : cty) s, wf_ty A -> wf_cty B -> valid_slice A s ->
  checked_outcome (Root.try_cast_slice_mut ENV A (c_bits B) s) (fun pv => all_elems ENV (c_bits B) pv (c_valid B))
                  (Checked.try_cast_slice_mut ENV A B s).
Proof. exact checked_try_cast_slice_mut_char. Qed.

Theorem C07_try_cast_ref : forall ENV A (B : cty) p, wf_ty A -> wf_cty B -> valid_ref A p ->
  checked_outcome (Root.try_cast_ref ENV A (c_bits B) p) (fun pv => c_valid B (load ENV (c_bits B) pv))
                  (Checked.try_cast_ref ENV A B p).
Proof. exact checked_try_cast_ref_char. Qed.

Theorem C07_try_cast_mut : forall ENV A (B : cty) p, wf_ty A -> wf_cty B -> valid_ref A p ->
  checked_outcome (Root.try_cast_mut ENV A (c_bits B) p) (fun pv => c_valid B (load ENV (c_bits B) pv))
                  (Checked.try_cast_mut ENV A B p).
Proof. exact checked_try_cast_mut_char. Qed.

Theorem C07_try_from_bytes : forall ENV (T : cty) s, wf_cty T -> valid_slice u8_ty s ->
  checked_outcome (Root.try_from_bytes ENV (c_bits T) s) (fun pv => c_valid T (load ENV (c_bits T) pv))
                  (Checked.try_from_bytes ENV T s).
Proof. exact checked_try_from_bytes_char. Qed.

Theorem C07_try_from_bytes_mut : forall ENV (T : cty) s, wf_cty T -> valid_slice u8_ty s ->
  checked_outcome (Root.try_from_bytes_mut ENV (c_bits T) s) (fun pv => c_valid T (load ENV (c_bits T) pv))
                  (Checked.try_from_bytes_mut ENV T s).
Proof. exact checked_try_from_bytes_mut_char. Qed.

Theorem C07_try_cast : forall ENV A (B : cty) a, wf_cty B -> value_of A a ->
  checked_outcome (Root.try_cast ENV A (c_bits B) a) (c_valid B) (Checked.try_cast ENV A B a).
Proof. exact checked_try_cast_char. Qed.

Theorem C07_try_pod_read_unaligned : forall ENV (T : cty) s, wf_cty T -> avail (sptr s) = slen s ->
  checked_outcome (Root.try_pod_read_unaligned ENV (c_bits T) s) (c_valid T) (Checked.try_pod_read_unaligned ENV T s).
Proof. exact checked_try_pod_read_unaligned_char. Qed.

Theorem C07_char_intervals : forall v, lang_valid_char v = true <-> (v <= 55295 \/ (57344 <= v /\ v <= 1114111)).
Proof. exact valid_char_intervals. Qed.

Theorem C07_from_u32_is_scalar : forall v, is_scalar_value v = lang_valid_char v.
Proof. exact is_scalar_value_spec. Qed.

Example C07_nonvacuous :
  lang_valid_char 55295 = true /\ lang_valid_char 55296 = false /\ lang_valid_char 57343 = false /\
  lang_valid_char 57344 = true /\ lang_valid_char 1114111 = true /\ lang_valid_char 1114112 = false /\
  wf_cty (mkCty (mkTy 1 1) (mkTy 1 1) (valid_kind 1)).
Proof.
  repeat split; try reflexivity; try (exists 0; reflexivity); cbn; unfold ISIZE_MAX; cbn; discriminate.
Qed.

Print Assumptions C07_try_cast_slice.
Print Assumptions C07_try_cast_slice_mut.
Print Assumptions C07_try_cast_ref.
Print Assumptions C07_try_cast_mut.
Print Assumptions C07_try_from_bytes.
Print Assumptions C07_try_from_bytes_mut.
Print Assumptions C07_try_cast.
Print Assumptions C07_try_pod_read_unaligned.
Print Assumptions C07_char_intervals.
Print Assumptions C07_from_u32_is_scalar.
