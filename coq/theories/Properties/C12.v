(* Properties/C12.v — "Zeroing APIs yield all-zero bytes, drop old values once, survive panics".
   Models: Model/ZeroGuard.v (write_zeroes / fill_zeroes with panicking destructors) and the
   try_zeroed family of Model/Alloc.v over an allocator that may fail.  The bytes themselves come
   from alloc_zeroed / write_bytes and are observed by the harness on memory pre-filled with 0xA5. *)
From Coq Require Import NArith List Bool String.
From BM Require Import Base.Outcome Base.Prims Base.Own Base.Layout Model.Alloc Model.ZeroGuard Model.DropLang Proofs.AllocProofs Proofs.AllocGenZero Proofs.ZeroGen.
From BM.Gen Require Alloc Zero.
Import ListNotations.

Theorem C12_fill_zeroes : forall panics ids,
  let r := fill_zeroes_drop panics (map Old ids) in
  match first_panic panics ids with
  | Some j => z_slots r = repeat Zeroed (S j) ++ map Old (skipn (S j) ids) /\
              z_dropped r = firstn (S j) ids /\ z_panicked r = true
  | None => z_slots r = repeat Zeroed (List.length ids) /\ z_dropped r = ids /\ z_panicked r = false
  end.
Proof. exact fill_zeroes_drop_spec. Qed.

Theorem C12_dropped_once : forall panics ids, NoDup ids -> NoDup (z_dropped (fill_zeroes_drop panics (map Old ids))).
Proof. exact fill_zeroes_drop_once. Qed.

Theorem C12_fill_zeroes_plain : forall l, z_slots (fill_zeroes_nodrop l) = repeat Zeroed (List.length l) /\
  z_dropped (fill_zeroes_nodrop l) = [] /\ z_panicked (fill_zeroes_nodrop l) = false.
Proof. exact fill_zeroes_nodrop_spec. Qed.

Theorem C12_zeroed_slice_box : forall T n ok, match try_zeroed_slice_box T n ok with
  | ZOkNoAlloc len cap => len = n /\ cap = n /\ (n * sz T = 0)%N
  | ZOkAlloc l len cap => len = n /\ cap = n /\ ok = true /\ l = mkLayout (n * sz T) (al T) /\ (n * sz T <> 0)%N /\
                          (n * sz T <= ISIZE_MAX - (al T - 1))%N
  | ZErrLayout => (n * sz T > ISIZE_MAX - (al T - 1))%N
  | ZErrNull l => ok = false /\ l = mkLayout (n * sz T) (al T)
  end.
Proof. exact zeroed_slice_box_char. Qed.

Theorem C12_zeroed_vec : forall T n ok, match try_zeroed_vec T n ok with
  | ZOkNoAlloc len cap => len = n /\ (n * sz T = 0)%N /\ (sz T <> 0%N -> cap = n)
  | ZOkAlloc l len cap => len = n /\ cap = n /\ l = mkLayout (n * sz T) (al T) /\ sz T <> 0%N
  | ZErrLayout => (n * sz T > ISIZE_MAX - (al T - 1))%N
  | ZErrNull l => ok = false
  end.
Proof. exact zeroed_vec_char. Qed.

(* the allocators as the translator regenerates them from src/allocation.rs (Gen/Alloc.v): for every
   environment — every answer the global allocator may give, null included — and every length,
   overflowing ones included, they return (no panic, no UB) exactly the modelled decision, so the two
   theorems above describe the translated code; the panicking forms are their unwrap *)
Theorem C12_generated : forall E T n,
  Gen.Alloc.try_zeroed_box E T = Ret (zres_value E (try_zeroed_box T (alloc_ok E (mkLayout (sz T) (al T))))) /\
  Gen.Alloc.try_zeroed_slice_box E T n = Ret (zres_value E (try_zeroed_slice_box T n (slice_alloc_ok E T n))) /\
  Gen.Alloc.try_zeroed_vec E T n = Ret (zres_value E (try_zeroed_vec T n (slice_alloc_ok E T n))).
Proof. exact gen_zeroed_all. Qed.

Theorem C12_generated_unwrap : forall E T n,
  Gen.Alloc.zeroed_box E T = (r <- Gen.Alloc.try_zeroed_box E T ;; unwrap_unit r) /\
  Gen.Alloc.zeroed_slice_box E T n = (r <- Gen.Alloc.try_zeroed_slice_box E T n ;; unwrap_unit r) /\
  Gen.Alloc.zeroed_vec E T n = (r <- Gen.Alloc.try_zeroed_vec E T n ;; unwrap_unit r).
Proof. exact gen_zeroed_unwrap_all. Qed.

(* write_zeroes / fill_zeroes as the translator regenerates their statements from src/lib.rs (Gen/Zero.v;
   what the statements mean — scopes, the drop guard, unwinding — is Model/DropLang.v): they compute exactly
   the modelled runs, for every destructor oracle, zero-sized element type or not, and every list of values, so C12_fill_zeroes,
   C12_dropped_once and C12_fill_zeroes_plain are about the translated code *)
Theorem C12_generated_write_zeroes : forall panics zsz s d,
  Gen.Zero.write_zeroes panics true zsz (VPtr 0) (mkZmem [cell_of s] d Running) =
  let '(s', dd, p) := write_zeroes panics s in mkZmem [cell_of s'] (d ++ dd) (status_of p).
Proof. exact gen_write_zeroes. Qed.

Theorem C12_generated_write_zeroes_plain : forall panics zsz c d,
  Gen.Zero.write_zeroes panics false zsz (VPtr 0) (mkZmem [c] d Running) = mkZmem [CZero] d Running.
Proof. exact gen_write_zeroes_nodrop. Qed.

Theorem C12_generated_fill_zeroes : forall panics zsz l,
  Gen.Zero.fill_zeroes panics true zsz (VSlice 0 (List.length l)) (mkZmem (map cell_of l) [] Running) =
  mem_of_run (fill_zeroes_drop panics l).
Proof. exact gen_fill_zeroes_drop. Qed.

Theorem C12_generated_fill_zeroes_plain : forall panics zsz l,
  Gen.Zero.fill_zeroes panics false zsz (VSlice 0 (List.length l)) (mkZmem (map cell_of l) [] Running) =
  mem_of_run (fill_zeroes_nodrop l).
Proof. exact gen_fill_zeroes_nodrop. Qed.

Theorem C12_generated_fill_zeroes_spec : forall panics zsz ids,
  let m := Gen.Zero.fill_zeroes panics true zsz (VSlice 0 (List.length ids)) (mkZmem (map COld ids) [] Running) in
  match first_panic panics ids with
  | Some j => cells m = repeat CZero (S j) ++ map COld (skipn (S j) ids) /\
              dropped m = firstn (S j) ids /\ status m = Unwinding
  | None => cells m = repeat CZero (List.length ids) /\ dropped m = ids /\ status m = Running
  end.
Proof. exact gen_fill_zeroes_spec. Qed.

Example C12_generated_zero_nonvacuous :
  Gen.Zero.fill_zeroes (fun id => Nat.eqb id 1) true false (VSlice 0 3) (mkZmem [COld 0; COld 1; COld 2] [] Running) =
  mkZmem [CZero; CZero; COld 2] [0; 1]%nat Unwinding.
Proof. vm_compute. reflexivity. Qed.

Example C12_generated_nonvacuous :
  let failing := mkEnv (fun _ => false) (fun _ => 0%N) (fun _ _ => 0%N) in
  let working := mkEnv (fun _ => false) (fun _ => 0%N) (fun _ _ => 4096%N) in
  Gen.Alloc.try_zeroed_slice_box failing (mkTy 4 4) 3 = Ret (Err tt) /\
  Gen.Alloc.try_zeroed_slice_box working (mkTy 4 4) 3 = Ret (Ok (mkCont 4096 3 3)) /\
  Gen.Alloc.try_zeroed_vec working (mkTy 0 1) 5 = Ret (Ok (mkCont DANGLING 5 USIZE_MAX)) /\
  Gen.Alloc.try_zeroed_vec working (mkTy 8 8) (2 ^ 62) = Ret (Err tt).
Proof. repeat split; vm_compute; reflexivity. Qed.

Example C12_nonvacuous :
  fill_zeroes_drop (fun id => Nat.eqb id 1) (map Old [0; 1; 2]%nat) = mkZrun [Zeroed; Zeroed; Old 2] [0; 1]%nat true.
Proof. reflexivity. Qed.

Print Assumptions C12_fill_zeroes.
Print Assumptions C12_dropped_once.
Print Assumptions C12_fill_zeroes_plain.
Print Assumptions C12_zeroed_slice_box.
Print Assumptions C12_zeroed_vec.
Print Assumptions C12_generated.
Print Assumptions C12_generated_unwrap.
Print Assumptions C12_generated_write_zeroes.
Print Assumptions C12_generated_write_zeroes_plain.
Print Assumptions C12_generated_fill_zeroes.
Print Assumptions C12_generated_fill_zeroes_plain.
Print Assumptions C12_generated_fill_zeroes_spec.
