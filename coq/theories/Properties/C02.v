(* Properties/C02.v — "Fallible borrowed casts fail exactly when documented, with a true reason".
   Theorems only; each is closed by an exact lemma, pinned with Check, and followed by
   Print Assumptions.  Stated on the public crate-root functions of the TRANSLATED src/lib.rs. *)
From Coq Require Import NArith List Bool String.
From BM Require Import Base.Outcome Base.Prims Base.Layout Spec.CastSpec.
From BM Require Import Proofs.CastDerive Proofs.RootWrappers Proofs.CastSlice Proofs.CastSliceMut Proofs.CastRef.
From BM.Gen Require Internal Root.
Open Scope N_scope.

(* ---- slices: Ok  <->  address aligned for B  /\  byte length converts exactly ---- *)
Theorem C02_slice_iff : forall ENV A B s, wf_ty A -> wf_ty B -> valid_slice A s ->
  ((exists v, Root.try_cast_slice ENV A B s = Ret (Ok v)) <-> slice_cast_ok A B s).
Proof. intros. rewrite root_try_cast_slice. apply slice_iff. apply try_cast_slice_char; assumption. Qed.

Theorem C02_slice_err_true : forall ENV A B s e, wf_ty A -> wf_ty B -> valid_slice A s ->
  Root.try_cast_slice ENV A B s = Ret (Err e) -> ~ slice_cast_ok A B s /\ slice_err_true A B s e.
Proof. intros ENV A B s e HA HB Hs. rewrite root_try_cast_slice. apply slice_err. apply try_cast_slice_char; assumption. Qed.

Theorem C02_slice_total : forall ENV A B s, wf_ty A -> wf_ty B -> valid_slice A s ->
  exists r, Root.try_cast_slice ENV A B s = Ret r.
Proof. intros. rewrite root_try_cast_slice. eapply slice_total. apply try_cast_slice_char; assumption. Qed.

Theorem C02_slice_mut_iff : forall ENV A B s, wf_ty A -> wf_ty B -> valid_slice A s ->
  ((exists v, Root.try_cast_slice_mut ENV A B s = Ret (Ok v)) <-> slice_cast_ok A B s).
Proof. intros. rewrite root_try_cast_slice_mut. apply slice_iff. apply try_cast_slice_mut_char; assumption. Qed.

Theorem C02_slice_mut_err_true : forall ENV A B s e, wf_ty A -> wf_ty B -> valid_slice A s ->
  Root.try_cast_slice_mut ENV A B s = Ret (Err e) -> ~ slice_cast_ok A B s /\ slice_err_true A B s e.
Proof. intros ENV A B s e HA HB Hs. rewrite root_try_cast_slice_mut. apply slice_err. apply try_cast_slice_mut_char; assumption. Qed.

Theorem C02_slice_mut_total : forall ENV A B s, wf_ty A -> wf_ty B -> valid_slice A s ->
  exists r, Root.try_cast_slice_mut ENV A B s = Ret r.
Proof. intros. rewrite root_try_cast_slice_mut. eapply slice_total. apply try_cast_slice_mut_char; assumption. Qed.

(* ---- single references: Ok  <->  aligned for B  /\  equal sizes ---- *)
Theorem C02_ref_iff : forall ENV A B p, wf_ty A -> wf_ty B -> valid_ref A p ->
  ((exists v, Root.try_cast_ref ENV A B p = Ret (Ok v)) <-> ref_cast_ok A B p).
Proof. intros. rewrite root_try_cast_ref. apply ref_iff. apply try_cast_ref_char; assumption. Qed.

Theorem C02_ref_err_true : forall ENV A B p e, wf_ty A -> wf_ty B -> valid_ref A p ->
  Root.try_cast_ref ENV A B p = Ret (Err e) -> ~ ref_cast_ok A B p /\ ref_err_true A B p e.
Proof. intros ENV A B p e HA HB Hp. rewrite root_try_cast_ref. apply ref_err. apply try_cast_ref_char; assumption. Qed.

Theorem C02_ref_total : forall ENV A B p, wf_ty A -> wf_ty B -> valid_ref A p ->
  exists r, Root.try_cast_ref ENV A B p = Ret r.
Proof. intros. rewrite root_try_cast_ref. eapply ref_total. apply try_cast_ref_char; assumption. Qed.

Theorem C02_mut_iff : forall ENV A B p, wf_ty A -> wf_ty B -> valid_ref A p ->
  ((exists v, Root.try_cast_mut ENV A B p = Ret (Ok v)) <-> ref_cast_ok A B p).
Proof. intros. rewrite root_try_cast_mut. apply ref_iff. apply try_cast_mut_char; assumption. Qed.

Theorem C02_mut_err_true : forall ENV A B p e, wf_ty A -> wf_ty B -> valid_ref A p ->
  Root.try_cast_mut ENV A B p = Ret (Err e) -> ~ ref_cast_ok A B p /\ ref_err_true A B p e.
Proof. intros ENV A B p e HA HB Hp. rewrite root_try_cast_mut. apply ref_err. apply try_cast_mut_char; assumption. Qed.

Theorem C02_mut_total : forall ENV A B p, wf_ty A -> wf_ty B -> valid_ref A p ->
  exists r, Root.try_cast_mut ENV A B p = Ret r.
Proof. intros. rewrite root_try_cast_mut. eapply ref_total. apply try_cast_mut_char; assumption. Qed.

(* ---- byte views: Ok  <->  aligned for T  /\  length = size_of T ---- *)
Theorem C02_bytes_iff : forall ENV T s, wf_ty T -> valid_slice u8_ty s ->
  ((exists v, Root.try_from_bytes ENV T s = Ret (Ok v)) <-> bytes_cast_ok T s).
Proof. intros. rewrite root_try_from_bytes. apply bytes_iff. apply try_from_bytes_char; assumption. Qed.

Theorem C02_bytes_err_true : forall ENV T s e, wf_ty T -> valid_slice u8_ty s ->
  Root.try_from_bytes ENV T s = Ret (Err e) -> ~ bytes_cast_ok T s /\ bytes_err_true T s e.
Proof. intros ENV T s e HT Hs. rewrite root_try_from_bytes. apply bytes_err. apply try_from_bytes_char; assumption. Qed.

Theorem C02_bytes_total : forall ENV T s, wf_ty T -> valid_slice u8_ty s ->
  exists r, Root.try_from_bytes ENV T s = Ret r.
Proof. intros. rewrite root_try_from_bytes. eapply bytes_total. apply try_from_bytes_char; assumption. Qed.

Theorem C02_bytes_mut_iff : forall ENV T s, wf_ty T -> valid_slice u8_ty s ->
  ((exists v, Root.try_from_bytes_mut ENV T s = Ret (Ok v)) <-> bytes_cast_ok T s).
Proof. intros. rewrite root_try_from_bytes_mut. apply bytes_iff. apply try_from_bytes_mut_char; assumption. Qed.

Theorem C02_bytes_mut_err_true : forall ENV T s e, wf_ty T -> valid_slice u8_ty s ->
  Root.try_from_bytes_mut ENV T s = Ret (Err e) -> ~ bytes_cast_ok T s /\ bytes_err_true T s e.
Proof. intros ENV T s e HT Hs. rewrite root_try_from_bytes_mut. apply bytes_err. apply try_from_bytes_mut_char; assumption. Qed.

Theorem C02_bytes_mut_total : forall ENV T s, wf_ty T -> valid_slice u8_ty s ->
  exists r, Root.try_from_bytes_mut ENV T s = Ret r.
Proof. intros. rewrite root_try_from_bytes_mut. eapply bytes_total. apply try_from_bytes_mut_char; assumption. Qed.

(* non-vacuity: the hypotheses are met by a concrete slice of three 4-byte elements at address
   4096, and by a concrete successful and a concrete failing cast *)
Example C02_nonvacuous :
  wf_ty (mkTy 4 4) /\ wf_ty (mkTy 8 8) /\ valid_slice (mkTy 4 4) (mkSlice (mkPtr 4096 12) 3) /\
  ~ slice_cast_ok (mkTy 4 4) (mkTy 8 8) (mkSlice (mkPtr 4096 12) 3) /\
  slice_cast_ok (mkTy 4 4) (mkTy 2 2) (mkSlice (mkPtr 4096 12) 3).
Proof.
  unfold wf_ty, valid_slice, slice_cast_ok, convertible, pow2; cbn.
  repeat split; try (now exists 2); try (now exists 3); try (now exists 1); try discriminate; try reflexivity.
  intros [_ H]. discriminate H.
Qed.

Print Assumptions C02_slice_iff.
Print Assumptions C02_slice_err_true.
Print Assumptions C02_slice_total.
Print Assumptions C02_slice_mut_iff.
Print Assumptions C02_slice_mut_err_true.
Print Assumptions C02_slice_mut_total.
Print Assumptions C02_ref_iff.
Print Assumptions C02_ref_err_true.
Print Assumptions C02_ref_total.
Print Assumptions C02_mut_iff.
Print Assumptions C02_mut_err_true.
Print Assumptions C02_mut_total.
Print Assumptions C02_bytes_iff.
Print Assumptions C02_bytes_err_true.
Print Assumptions C02_bytes_total.
Print Assumptions C02_bytes_mut_iff.
Print Assumptions C02_bytes_mut_err_true.
Print Assumptions C02_bytes_mut_total.
