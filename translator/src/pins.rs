//! Pins: the source text of the items that the development models BY HAND (the derive macros, offset_of!,
//! the zeroing guards, pod_collect_to_vec, ...).  A hand-written model transcribes one particular text;
//! `bm2coq` recomputes a digest of every such item on each run and reports the ones whose text is no
//! longer the text the model was written against (or that are new / gone).  The runner treats a changed
//! pin like an untranslatable function: the properties whose model transcribes that item are no longer
//! shown to hold for the code in the tree.
use std::collections::BTreeMap;
use std::path::Path;

use quote::ToTokens;

/// Files whose items are pinned, and whether ALL items are pinned or only the listed ones.
pub const PIN_FILES: &[(&str, Option<&[&str]>)] = &[
  ("derive/src/traits.rs", None),
  ("derive/src/lib.rs", None),
  ("src/offset_of.rs", None),
  ("src/lib.rs", Some(&["zeroed"])),
  ("src/zeroable.rs", Some(&["trait Zeroable::zeroed"])),
  ("src/allocation.rs", Some(&[
    "zeroed_rc", "zeroed_rc_slice", "zeroed_arc", "zeroed_arc_slice",
    "impl sealed::BoxBytesOf for str::box_bytes_of", "impl From<Box<T>> for BoxBytes::from",
  ])),
];

fn fnv(s: &str) -> u64 {
  let mut h: u64 = 0xcbf29ce484222325;
  for b in s.as_bytes() {
    h ^= *b as u64;
    h = h.wrapping_mul(0x100000001b3);
  }
  h
}
fn digest(s: &str) -> String {
  // two independent 64-bit digests of the normalised token text, and its length
  let rev: String = s.chars().rev().collect();
  format!("{:016x}{:016x}:{}", fnv(s), fnv(&rev), s.len())
}

fn strip_docs(attrs: &[syn::Attribute]) -> Vec<syn::Attribute> {
  attrs.iter().filter(|a| !a.path().is_ident("doc")).cloned().collect()
}
fn is_cfg_test(attrs: &[syn::Attribute]) -> bool {
  attrs.iter().any(|a| a.path().is_ident("cfg") && a.meta.to_token_stream().to_string().replace(' ', "") == "cfg(test)")
}
fn norm<T: ToTokens>(t: &T) -> String {
  t.to_token_stream().to_string()
}

/// Names bound inside a function (parameters, `let`, closure parameters, match / if-let / for patterns).
struct Binders(Vec<String>);
impl<'ast> syn::visit::Visit<'ast> for Binders {
  fn visit_pat_ident(&mut self, p: &'ast syn::PatIdent) {
    let n = p.ident.to_string();
    if !self.0.contains(&n) { self.0.push(n); }
    syn::visit::visit_pat_ident(self, p);
  }
}

/// Token text with every locally bound name replaced by a canonical one (numbered by first occurrence),
/// also inside macro invocations such as quote! (`#name`): a consistent renaming of locals leaves the
/// text unchanged, the use of a different variable does not.
fn alpha(ts: proc_macro2::TokenStream, binders: &[String], seen: &mut Vec<String>) -> String {
  let mut out = String::new();
  for tt in ts {
    match tt {
      proc_macro2::TokenTree::Ident(i) => {
        let n = i.to_string();
        if binders.contains(&n) {
          let k = match seen.iter().position(|x| *x == n) { Some(k) => k, None => { seen.push(n); seen.len() - 1 } };
          out.push_str(&format!("__v{} ", k));
        } else {
          out.push_str(&n);
          out.push(' ');
        }
      }
      proc_macro2::TokenTree::Group(g) => {
        let (o, c) = match g.delimiter() {
          proc_macro2::Delimiter::Parenthesis => ("(", ")"),
          proc_macro2::Delimiter::Brace => ("{", "}"),
          proc_macro2::Delimiter::Bracket => ("[", "]"),
          proc_macro2::Delimiter::None => ("", ""),
        };
        out.push_str(o);
        out.push(' ');
        out.push_str(&alpha(g.stream(), binders, seen));
        out.push_str(c);
        out.push(' ');
      }
      other => { out.push_str(&other.to_string()); out.push(' '); }
    }
  }
  out
}
fn norm_fn<T: ToTokens>(t: &T, binders: Vec<String>) -> String {
  alpha(t.to_token_stream(), &binders, &mut vec![])
}

fn items_of(items: &[syn::Item], prefix: &str, out: &mut BTreeMap<String, String>) {
  fn put_in(out: &mut BTreeMap<String, String>, name: String, text: String) {
    // several definitions of one name (cfg variants): concatenated in source order
    let e = out.entry(name).or_default();
    if !e.is_empty() { e.push('\n'); }
    e.push_str(&text);
  }
  macro_rules! put { ($n:expr, $t:expr) => { put_in(out, $n, $t) } }
  for it in items {
    match it {
      syn::Item::Fn(f) => {
        let mut f = f.clone();
        f.attrs = strip_docs(&f.attrs);
        let mut b = Binders(vec![]);
        syn::visit::Visit::visit_item_fn(&mut b, &f);
        put!(format!("{}{}", prefix, f.sig.ident), norm_fn(&f, b.0));
      }
      syn::Item::Macro(m) => {
        if let Some(id) = &m.ident {
          put!(format!("{}{}!", prefix, id), m.mac.tokens.to_string());
        }
      }
      syn::Item::Impl(im) => {
        let ty = norm(&*im.self_ty).replace(' ', "");
        let head = match &im.trait_ {
          Some((_, p, _)) => format!("impl {} for {}", norm(p).replace(' ', ""), ty),
          None => format!("impl {}", ty),
        };
        // the header (generics, bounds, where clause) is part of every method's pin
        let mut hdr = im.clone();
        hdr.items.clear();
        hdr.attrs = strip_docs(&hdr.attrs);
        let hdr_text = norm(&hdr);
        let mut any = false;
        for ii in &im.items {
          match ii {
            syn::ImplItem::Fn(m) => {
              let mut m = m.clone();
              m.attrs = strip_docs(&m.attrs);
              let mut b = Binders(vec![]);
              syn::visit::Visit::visit_impl_item_fn(&mut b, &m);
              put!(format!("{}{}::{}", prefix, head, m.sig.ident), format!("{} {}", hdr_text, norm_fn(&m, b.0)));
              any = true;
            }
            syn::ImplItem::Const(c) => {
              let mut c = c.clone();
              c.attrs = strip_docs(&c.attrs);
              put!(format!("{}{}::{}", prefix, head, c.ident), format!("{} {}", hdr_text, norm(&c)));
              any = true;
            }
            syn::ImplItem::Type(t) => {
              put!(format!("{}{}::{}", prefix, head, t.ident), format!("{} {}", hdr_text, norm(t)));
              any = true;
            }
            _ => {}
          }
        }
        if !any {
          put!(format!("{}{}", prefix, head), hdr_text);
        }
      }
      syn::Item::Trait(t) => {
        for ti in &t.items {
          if let syn::TraitItem::Fn(m) = ti {
            let mut m = m.clone();
            m.attrs = strip_docs(&m.attrs);
            let mut b = Binders(vec![]);
            syn::visit::Visit::visit_trait_item_fn(&mut b, &m);
            put!(format!("{}trait {}::{}", prefix, t.ident, m.sig.ident), norm_fn(&m, b.0));
          }
        }
      }
      syn::Item::Struct(s) => {
        let mut s = s.clone();
        s.attrs = strip_docs(&s.attrs);
        put!(format!("{}struct {}", prefix, s.ident), norm(&s));
      }
      syn::Item::Enum(e) => {
        let mut e = e.clone();
        e.attrs = strip_docs(&e.attrs);
        put!(format!("{}enum {}", prefix, e.ident), norm(&e));
      }
      syn::Item::Mod(m) => {
        if is_cfg_test(&m.attrs) { continue; }
        if let Some((_, inner)) = &m.content {
          items_of(inner, &format!("{}{}::", prefix, m.ident), out);
        }
      }
      _ => {}
    }
  }
}

/// (file, item) -> digest, for the pinned items as they are in the tree.
pub fn current(repo: &Path) -> BTreeMap<(String, String), String> {
  let mut out = BTreeMap::new();
  for (file, only) in PIN_FILES {
    let src = std::fs::read_to_string(repo.join(file)).unwrap_or_default();
    let parsed = match syn::parse_file(&src) {
      Ok(f) => f,
      Err(_) => {
        out.insert((file.to_string(), "<file does not parse>".to_string()), "-".to_string());
        continue;
      }
    };
    let mut items = BTreeMap::new();
    items_of(&parsed.items, "", &mut items);
    for (name, text) in items {
      if let Some(list) = only {
        if !list.contains(&name.as_str()) { continue; }
      }
      out.insert((file.to_string(), name), digest(&text));
    }
    if let Some(list) = only {
      for want in *list {
        out.entry((file.to_string(), want.to_string())).or_insert_with(|| "<missing>".to_string());
      }
    }
  }
  out
}

/// The committed pins (src/pins.txt): one `file<TAB>item<TAB>digest` per line.
pub fn committed() -> BTreeMap<(String, String), String> {
  let mut out = BTreeMap::new();
  for line in include_str!("pins.txt").lines() {
    let p: Vec<&str> = line.split('\t').collect();
    if p.len() == 3 {
      out.insert((p[0].to_string(), p[1].to_string()), p[2].to_string());
    }
  }
  out
}

pub fn render(cur: &BTreeMap<(String, String), String>) -> String {
  cur.iter().map(|((f, i), d)| format!("{}\t{}\t{}\n", f, i, d)).collect()
}

/// JSON array describing every pin: unchanged / changed / new / gone.
pub fn report_json(repo: &Path, json_str: &dyn Fn(&str) -> String) -> String {
  let cur = current(repo);
  let old = committed();
  let mut rows = vec![];
  for ((f, i), d) in &cur {
    let st = match old.get(&(f.clone(), i.clone())) {
      Some(o) if o == d => "unchanged",
      Some(_) => "changed",
      None => "new",
    };
    rows.push(format!("  {{\"file\": {}, \"item\": {}, \"status\": {}}}", json_str(f), json_str(i), json_str(st)));
  }
  for (f, i) in old.keys() {
    if !cur.contains_key(&(f.clone(), i.clone())) {
      rows.push(format!("  {{\"file\": {}, \"item\": {}, \"status\": \"gone\"}}", json_str(f), json_str(i)));
    }
  }
  format!("[\n{}\n ]", rows.join(",\n"))
}
