//! bm2coq — translates the arithmetic core of bytemuck (Rust, parsed with syn) into Gallina.
//!
//! Usage: bm2coq <repo-root> <out-dir>
//! Writes <out-dir>/<Module>.v for every module that translates, and <out-dir>/meta.json with
//! one record per item (anchor lines, cfg gates, status).  The translator FAILS CLOSED: any
//! construct outside its subset makes the item (and therefore its module) untranslated; the
//! module is then listed with status "failed" and no .v file is written for it.
mod expand;
mod pins;
mod zero;
mod expr;
mod tables;
mod types;

use std::collections::{BTreeMap, HashMap, HashSet};
use std::fmt::Write as _;
use std::path::Path;

use syn::spanned::Spanned;
use types::*;

pub struct ModuleSpec {
  pub name: &'static str,
  pub file: &'static str,
  /// free functions that are deliberately not translated (hand-modelled or vocabulary)
  pub skip: &'static [&'static str],
  /// Coq modules this one may call into
  pub imports: &'static [&'static str],
  /// hand-written theory files (models of std) whose vocabulary this module uses
  pub theories: &'static [&'static str],
}

pub const BVEC_FNS: &[&str] = &["pod_collect_to_vec"];

pub const MODULES: &[ModuleSpec] = &[
  ModuleSpec {
    name: "Internal",
    file: "src/internal.rs",
    skip: &["something_went_wrong"],
    imports: &[],
    theories: &[],
  },
  ModuleSpec {
    name: "Root",
    file: "src/lib.rs",
    // hand-modelled in Model/ZeroGuard.v and Model/StdSlice.v
    skip: &["write_zeroes", "fill_zeroes", "zeroed"],
    imports: &["Internal"],
    theories: &["Model.StdSlice"],
  },
  ModuleSpec { name: "Checked", file: "src/checked.rs", skip: &[], imports: &["Internal", "Root"], theories: &[] },
  ModuleSpec { name: "Must", file: "src/must.rs", skip: &[], imports: &[], theories: &[] },
  ModuleSpec {
    name: "Alloc",
    file: "src/allocation.rs",
    skip: &[
      // Rc/Arc::new_uninit + write_zeroes: hand-modelled (Model/ZeroGuard.v)
      "zeroed_arc", "zeroed_arc_slice", "zeroed_rc", "zeroed_rc_slice",
    ],
    imports: &["Internal", "Root"],
    theories: &[],
  },
  // the default methods of `unsafe trait TransparentWrapper<Inner: ?Sized>`
  ModuleSpec { name: "Transparent", file: "src/transparent.rs", skip: &[], imports: &[], theories: &[] },
  // write_zeroes / fill_zeroes: statements of Model/DropLang.v (zero.rs), not the outcome monad
  ModuleSpec { name: "Zero", file: "src/lib.rs", skip: &[], imports: &[], theories: &["Model.DropLang"] },
];

#[derive(Clone, Debug)]
pub struct Generic {
  pub name: String,
  pub is_cty: bool,
  /// `?Sized`: pointers to it may be fat; the model takes a flag `unsized_<name>`
  pub maybe_unsized: bool,
}

#[derive(Clone, Debug)]
pub struct FnSig {
  pub module: String,
  pub name: String,
  pub generics: Vec<Generic>,
  pub params: Vec<(String, Ty)>,
  pub ret: Ty,
}

pub struct ItemOut {
  pub name: String,
  pub kind: String,
  pub line_start: usize,
  pub line_end: usize,
  pub cfg: Vec<String>,
  pub status: String,
  pub code: String,
  pub callees: Vec<String>,
}

pub fn attr_cfgs_pub(attrs: &[syn::Attribute]) -> Vec<String> { attr_cfgs(attrs) }
fn attr_cfgs(attrs: &[syn::Attribute]) -> Vec<String> {
  let mut v = vec![];
  for a in attrs {
    if a.path().is_ident("cfg") {
      if let syn::Meta::List(l) = &a.meta {
        v.push(l.tokens.to_string());
      }
    }
  }
  v
}

pub fn json_str(s: &str) -> String {
  let mut o = String::from("\"");
  for c in s.chars() {
    match c {
      '"' => o.push_str("\\\""),
      '\\' => o.push_str("\\\\"),
      '\n' => o.push_str("\\n"),
      '\t' => o.push_str("\\t"),
      c if (c as u32) < 0x20 => {
        let _ = write!(o, "\\u{:04x}", c as u32);
      }
      c => o.push(c),
    }
  }
  o.push('"');
  o
}

/// Items of the crate that the model does not translate but gives a fixed meaning to (vocabulary):
/// their source text is pinned, so that a change to one of them makes every function that uses it
/// untranslatable (fail closed) instead of silently keeping the old meaning.
/// (module, item name as used in `callees`, normalised token text without doc comments)
pub const VOCAB: &[(&str, &str, &str)] = &[
  ("Root", "transmute!", include_str!("vocab_transmute.txt")),
  ("Internal", "something_went_wrong", include_str!("vocab_sww.txt")),
];

fn strip_docs(attrs: &mut Vec<syn::Attribute>) {
  attrs.retain(|a| !a.path().is_ident("doc"));
}

/// The normalised text of the vocabulary item `name` as it is in `file` (all definitions, in order).
pub fn vocab_text(file: &syn::File, name: &str) -> String {
  let mut out = vec![];
  for it in &file.items {
    match it {
      syn::Item::Macro(m) if name.ends_with('!') && m.ident.as_ref().map(|i| format!("{}!", i) == name).unwrap_or(false) => {
        out.push(m.mac.tokens.to_string());
      }
      syn::Item::Fn(f) if f.sig.ident == name => {
        let mut f = f.clone();
        strip_docs(&mut f.attrs);
        out.push(quote::quote!(#f).to_string());
      }
      _ => {}
    }
  }
  out.join("\n")
}

/// Collect the free functions of a file, including those wrapped in `maybe_const_fn! { .. }`.
fn collect_fns(file: &syn::File) -> Vec<(syn::ItemFn, Vec<String>)> {
  let mut out = vec![];
  for it in &file.items {
    match it {
      syn::Item::Fn(f) => out.push((f.clone(), attr_cfgs(&f.attrs))),
      syn::Item::Macro(m) if m.mac.path.is_ident("maybe_const_fn") => {
        if let Ok(f) = syn::parse2::<syn::ItemFn>(m.mac.tokens.clone()) {
          let cfgs = attr_cfgs(&f.attrs);
          // the cfg of maybe_const_fn only selects `const`, the function exists either way
          let cfgs = cfgs.into_iter().map(|c| format!("const_if({})", c)).collect();
          out.push((f, cfgs));
        } else {
          // fail closed: recorded by caller as an untranslatable macro item
          let mut fake: syn::ItemFn = syn::parse_quote! { fn __unparsed_maybe_const_fn() {} };
          fake.attrs.clear();
          out.push((fake, vec![]));
        }
      }
      _ => {}
    }
  }
  out
}

fn sig_of(module: &str, f: &syn::ItemFn) -> Result<FnSig, String> {
  let mut generics = vec![];
  for gp in &f.sig.generics.params {
    match gp {
      syn::GenericParam::Type(tp) => {
        let mut is_cty = false;
        let mut maybe_unsized = false;
        for b in &tp.bounds {
          if let syn::TypeParamBound::Trait(tb) = b {
            if tb.path.segments.last().map(|s| s.ident == "CheckedBitPattern").unwrap_or(false) {
              is_cty = true;
            }
            if matches!(tb.modifier, syn::TraitBoundModifier::Maybe(_)) {
              maybe_unsized = true;
            }
          }
        }
        generics.push(Generic { name: tp.ident.to_string(), is_cty, maybe_unsized });
      }
      syn::GenericParam::Lifetime(_) => {}
      syn::GenericParam::Const(_) => return Err("const generic".into()),
    }
  }
  let gnames: Vec<String> = generics.iter().map(|g| g.name.clone()).collect();
  let mut params = vec![];
  for inp in &f.sig.inputs {
    match inp {
      syn::FnArg::Typed(pt) => {
        let name = match &*pt.pat {
          syn::Pat::Ident(pi) => pi.ident.to_string(),
          _ => return Err("non-identifier parameter pattern".into()),
        };
        params.push((name, ty_from_syn(&pt.ty, &gnames)?));
      }
      syn::FnArg::Receiver(_) => return Err("method receiver".into()),
    }
  }
  let ret = match &f.sig.output {
    syn::ReturnType::Default => Ty::Unit,
    syn::ReturnType::Type(_, t) => ty_from_syn(t, &gnames)?,
  };
  // functions that build and fill a fresh Vec: the vector is modelled with its contents
  let (params, ret) = if BVEC_FNS.contains(&f.sig.ident.to_string().as_str()) {
    (params.into_iter().map(|(n, t)| (n, vec_with_contents(&t))).collect(), vec_with_contents(&ret))
  } else { (params, ret) };
  Ok(FnSig { module: module.to_string(), name: f.sig.ident.to_string(), generics, params, ret })
}

fn main() {
  let args: Vec<String> = std::env::args().collect();
  if args.len() == 3 && args[1] == "--pins" {
    // print the pins of the tree (maintenance: refresh src/pins.txt after reviewing the hand models)
    print!("{}", pins::render(&pins::current(Path::new(&args[2]))));
    return;
  }
  if args.len() == 3 && args[1] == "--vocab" {
    // print the current text of the vocabulary items (maintenance: refresh src/vocab_*.txt)
    let repo = Path::new(&args[2]);
    for (vm, vname, _) in VOCAB {
      let ms = MODULES.iter().find(|m| m.name == *vm).unwrap();
      let src = std::fs::read_to_string(repo.join(ms.file)).unwrap_or_default();
      if let Ok(file) = syn::parse_file(&src) {
        println!("=== {} {}\n{}", vm, vname, vocab_text(&file, vname));
      }
    }
    return;
  }
  if args.len() < 3 {
    eprintln!("usage: bm2coq <repo-root> <out-dir> [<config>=<expanded.rs> ...]");
    std::process::exit(2);
  }
  let configs: Vec<(String, String)> = args[3..].iter().filter_map(|a| a.split_once('=').map(|(k, v)| (k.to_string(), v.to_string()))).collect();
  let repo = Path::new(&args[1]);
  let out = Path::new(&args[2]);
  std::fs::create_dir_all(out).unwrap();

  // pass 1: parse all files, collect signatures
  let mut parsed: Vec<(usize, Option<syn::File>, String)> = vec![];
  let mut sigs: HashMap<(String, String), FnSig> = HashMap::new();
  for (i, ms) in MODULES.iter().enumerate() {
    let path = repo.join(ms.file);
    let src = std::fs::read_to_string(&path).unwrap_or_default();
    match syn::parse_file(&src) {
      Ok(file) => {
        for (f, _) in collect_fns(&file) {
          if ms.name == "Zero" { break; }
          if ms.skip.contains(&f.sig.ident.to_string().as_str()) {
            continue;
          }
          if let Ok(s) = sig_of(ms.name, &f) {
            sigs.insert((ms.name.to_string(), s.name.clone()), s);
          }
        }
        parsed.push((i, Some(file), String::new()));
      }
      Err(e) => parsed.push((i, None, format!("parse error: {}", e))),
    }
  }

  let mut results: Vec<(usize, Vec<ItemOut>, Option<String>)> = vec![];
  for (i, file, perr) in &parsed {
    let ms = &MODULES[*i];
    let mut items: Vec<ItemOut> = vec![];
    let mut module_error: Option<String> = None;
    if let (Some(file), "Zero") = (file, ms.name) {
      items = zero::translate(file);
      module_error = items.iter().find(|it| it.status.starts_with("failed")).map(|it| format!("fn {}: {}", it.name, it.status));
      results.push((*i, items, module_error));
      continue;
    }
    if let Some(file) = file {
      // Must: associated consts of `impl Cast<A, B>`
      if ms.name == "Must" {
        for it in &file.items {
          if let syn::Item::Impl(im) = it {
            if im.trait_.is_none() {
              match tables::translate_const_asserts(im) {
                Ok(mut v) => items.append(&mut v),
                Err(e) => module_error = Some(format!("impl Cast consts: {}", e)),
              }
            }
          }
        }
      }
      for (f, cfgs) in collect_fns(file) {
        let name = f.sig.ident.to_string();
        let ls = f.span().start().line;
        let le = f.span().end().line;
        if ms.skip.contains(&name.as_str()) {
          items.push(ItemOut {
            name, kind: "fn".into(), line_start: ls, line_end: le, cfg: cfgs,
            status: "skipped: hand-modelled or vocabulary".into(), code: String::new(), callees: vec![],
          });
          continue;
        }
        if name == "__unparsed_maybe_const_fn" {
          module_error = Some("maybe_const_fn! body does not parse as a function".into());
          continue;
        }
        match sig_of(ms.name, &f).and_then(|sig| expr::translate_fn(ms, &sig, &f, &sigs)) {
          Ok((code, callees)) => {
            // a plain-private free function is a helper of the functions around it: proofs about
            // those see through it (hint database bm_helpers, used by the generic tactics)
            let code = if matches!(f.vis, syn::Visibility::Inherited) {
              format!("{}\n#[global] Hint Unfold {} : bm_helpers.", code, name)
            } else { code };
            items.push(ItemOut {
              name, kind: "fn".into(), line_start: ls, line_end: le, cfg: cfgs,
              status: "translated".into(), code, callees,
            })
          }
          Err(e) => {
            if module_error.is_none() {
              module_error = Some(format!("fn {} (line {}): {}", name, ls, e));
            }
            items.push(ItemOut {
              name, kind: "fn".into(), line_start: ls, line_end: le, cfg: cfgs,
              status: format!("failed: {}", e), code: String::new(), callees: vec![],
            });
          }
        }
      }
      // impl-level functions that belong to the arithmetic core (BoxBytes, sealed traits)
      if ms.name == "Transparent" {
        match tables::translate_trait_methods(ms, file, &sigs, "TransparentWrapper") {
          Ok(mut v) => items.append(&mut v),
          Err(e) => {
            if module_error.is_none() {
              module_error = Some(e)
            }
          }
        }
      }
      if ms.name == "Alloc" {
        match tables::translate_alloc_impls(ms, file, &sigs) {
          Ok(mut v) => items.append(&mut v),
          Err(e) => {
            if module_error.is_none() {
              module_error = Some(e)
            }
          }
        }
      }
    } else {
      module_error = Some(perr.clone());
    }

    if let Some(file) = file {
      for (vm, vname, vtext) in VOCAB {
        if *vm == ms.name {
          let now = vocab_text(file, vname);
          let ok = now.trim() == vtext.trim();
          // drop the plain "skipped" entries of the same name: this one carries the verdict
          items.retain(|it| !(it.name == *vname && it.status.starts_with("skipped")));
          items.push(ItemOut {
            name: vname.to_string(), kind: "vocabulary".into(), line_start: 0, line_end: 0, cfg: vec![],
            status: if ok { "skipped: vocabulary (definition unchanged)".into() }
                    else { "failed: the definition of this vocabulary item changed; its fixed meaning in the model no longer applies".into() },
            code: String::new(), callees: vec![],
          });
        }
      }
    }
    results.push((*i, items, module_error));
  }

  // fail closed per item: an item that could not be translated is left out, and so is (transitively)
  // every translated item that calls one, in this or in another module; the rest of the module is
  // emitted, so that only the theorems about the missing functions stop compiling
  loop {
    let mut missing: HashSet<(String, String)> = HashSet::new();
    for (i, items, _) in &results {
      for it in items {
        if it.status != "translated" && !it.status.starts_with("skipped") {
          missing.insert((MODULES[*i].name.to_string(), it.name.clone()));
        }
      }
    }
    let mut changed = false;
    for (i, items, _) in results.iter_mut() {
      let mname = MODULES[*i].name.to_string();
      for it in items.iter_mut() {
        if it.status != "translated" { continue; }
        let bad = it.callees.iter().find(|c| match c.split_once("::") {
          Some((m, n)) => missing.contains(&(m.to_string(), n.to_string())),
          None => missing.contains(&(mname.clone(), (*c).clone())),
        }).cloned();
        if let Some(b) = bad {
          it.status = format!("failed: calls {} which is not translated", b);
          it.code = String::new();
          changed = true;
        }
      }
    }
    if !changed { break; }
  }

  let mut meta = String::from("{\n \"modules\": [\n");
  let mut first_mod = true;
  for (i, items, module_error) in &results {
    let ms = &MODULES[*i];
    // write module
    let nfailed = items.iter().filter(|it| it.status.starts_with("failed")).count();
    let unparsed = items.is_empty() && module_error.is_some();
    let status = match (module_error, nfailed) {
      (None, 0) => "translated".to_string(),
      (Some(e), _) if unparsed => format!("failed: {}", e),
      (Some(e), n) => format!("partial: {} item(s) not translated; first: {}", n, e),
      (None, n) => format!("partial: {} item(s) not translated", n),
    };
    if !unparsed {
      let code = emit_module(ms, items);
      std::fs::write(out.join(format!("{}.v", ms.name)), code).unwrap();
    } else {
      let _ = std::fs::remove_file(out.join(format!("{}.v", ms.name)));
    }
    if !first_mod {
      meta.push_str(",\n");
    }
    first_mod = false;
    let _ = write!(meta, "  {{\"module\": {}, \"file\": {}, \"status\": {}, \"items\": [\n",
      json_str(ms.name), json_str(ms.file), json_str(&status));
    for (k, it) in items.iter().enumerate() {
      let cfgs: Vec<String> = it.cfg.iter().map(|c| json_str(c)).collect();
      let cal: Vec<String> = it.callees.iter().map(|c| json_str(c)).collect();
      let _ = write!(meta,
        "   {{\"name\": {}, \"kind\": {}, \"lines\": [{}, {}], \"cfg\": [{}], \"status\": {}, \"callees\": [{}]}}{}\n",
        json_str(&it.name), json_str(&it.kind), it.line_start, it.line_end, cfgs.join(", "),
        json_str(&it.status), cal.join(", "), if k + 1 < items.len() { "," } else { "" });
    }
    meta.push_str("  ]}");
  }
  meta.push_str("\n ],\n \"pins\": ");
  meta.push_str(&pins::report_json(repo, &|x| json_str(x)));
  meta.push_str("\n}\n");
  std::fs::write(out.join("meta.json"), meta).unwrap();

  // tables: impl rules, contiguous rows, checked validity predicates — from the macro-expanded crate
  if !configs.is_empty() {
    if let Err(e) = expand::emit(&configs, out) {
      eprintln!("tables: {}", e);
      let _ = std::fs::remove_file(out.join("Tables.v"));
    }
  }
}

/// Order the items so that callees precede callers, then print the module.
fn emit_module(ms: &ModuleSpec, items: &[ItemOut]) -> String {
  let mut s = String::new();
  let _ = writeln!(s, "(* GENERATED by bm2coq from {} — do not edit.  Regenerated on every check. *)", ms.file);
  s.push_str("From Coq Require Import NArith List Bool String.\n");
  if ms.name != "Zero" {
    s.push_str("From BM Require Import Base.Outcome Base.Prims Base.Own.\n");
  }
  for th in ms.theories {
    let _ = writeln!(s, "From BM Require Import {}.", th);
  }
  for im in ms.imports {
    let _ = writeln!(s, "From BM.Gen Require {}.", im);
  }
  s.push_str("Import ListNotations.\nOpen Scope bool_scope.\nOpen Scope string_scope.\nOpen Scope N_scope.\n\n");
  let names: BTreeMap<String, usize> =
    items.iter().enumerate().filter(|(_, i)| i.status == "translated").map(|(k, i)| (i.name.clone(), k)).collect();
  let mut done: HashSet<usize> = HashSet::new();
  let mut order: Vec<usize> = vec![];
  fn visit(k: usize, items: &[ItemOut], names: &BTreeMap<String, usize>, done: &mut HashSet<usize>,
           order: &mut Vec<usize>, stack: &mut Vec<usize>) {
    if done.contains(&k) || stack.contains(&k) {
      return;
    }
    stack.push(k);
    for c in &items[k].callees {
      if let Some(&j) = names.get(c) {
        visit(j, items, names, done, order, stack);
      }
    }
    stack.pop();
    done.insert(k);
    order.push(k);
  }
  for (k, it) in items.iter().enumerate() {
    if it.status == "translated" {
      visit(k, items, &names, &mut done, &mut order, &mut vec![]);
    }
  }
  for k in order {
    let it = &items[k];
    let _ = writeln!(s, "(* {} {} : {}:{}-{}{} *)", it.kind, it.name, ms.file, it.line_start, it.line_end,
      if it.cfg.is_empty() { String::new() } else { format!("  cfg: {}", it.cfg.join(" ; ")) });
    s.push_str(&it.code);
    s.push_str("\n\n");
  }
  s
}
