//! Rust types as far as the translator needs them, and their images in the Coq model.

#[derive(Clone, Debug, PartialEq)]
pub enum Ty {
  Usize,
  Bool,
  Unit,
  U8,
  Never,
  Str,
  /// generic type parameter
  Param(String),
  /// `<T as CheckedBitPattern>::Bits`
  Bits(String),
  /// unsized `[T]`
  SliceOf(Box<Ty>),
  /// `&T`, `&mut T`, `*const T`, `*mut T`, `NonNull<T>` — all modelled as a pointer with an extent
  Ref(Box<Ty>),
  Result(Box<Ty>, Box<Ty>),
  Option(Box<Ty>),
  Tuple(Vec<Ty>),
  PErr,
  CErr,
  /// owning containers: Box<T>, Vec<T>, Rc<T>, Arc<T> (T may be SliceOf) and BoxBytes, Layout
  Box_(Box<Ty>),
  Vec_(Box<Ty>),
  Rc_(Box<Ty>),
  Arc_(Box<Ty>),
  ManuallyDrop(Box<Ty>),
  /// a raw pointer obtained from an owning container (into_raw / as_mut_ptr): still the container, for the model
  RawCont(Box<Ty>),
  /// a bare address (BoxBytes' NonNull<u8> and what is cast from it); the pointee type is kept for from_raw
  Addr(Box<Ty>),
  /// a Vec<T> together with its contents (count, bytes): used where a function fills a fresh vector
  BVec(Box<Ty>),
  /// a local closure `|x: T| body` bound by `let`: parameter types and result type (always monadic in the model)
  Fn(Vec<Ty>, Box<Ty>),
  BoxBytes,
  Layout,
  Unknown,
}

impl Ty {
  pub fn is_sliceptr(&self) -> bool {
    matches!(self, Ty::Ref(t) if matches!(**t, Ty::SliceOf(_)))
  }
  pub fn pointee(&self) -> Option<&Ty> {
    match self {
      Ty::Ref(t) => Some(t),
      _ => None,
    }
  }
  pub fn is_container(&self) -> bool {
    matches!(self, Ty::Box_(_) | Ty::Vec_(_) | Ty::Rc_(_) | Ty::Arc_(_) | Ty::ManuallyDrop(_))
  }
  /// element type of a container: `T` for `Vec<T>`, `Box<[T]>`, ...; the pointee for `Box<T>`
  pub fn cont_elem(&self) -> Option<&Ty> {
    match self {
      Ty::Vec_(e) => Some(e),
      Ty::Box_(t) | Ty::Rc_(t) | Ty::Arc_(t) | Ty::RawCont(t) => match &**t { Ty::SliceOf(e) => Some(e), other => Some(other) },
      Ty::ManuallyDrop(t) => t.cont_elem(),
      _ => None,
    }
  }
  pub fn slice_elem(&self) -> Option<&Ty> {
    match self {
      Ty::Ref(t) | Ty::Box_(t) | Ty::Rc_(t) | Ty::Arc_(t) => match &**t {
        Ty::SliceOf(e) => Some(e),
        _ => None,
      },
      Ty::Vec_(e) => Some(e),
      Ty::ManuallyDrop(t) => t.slice_elem(),
      _ => None,
    }
  }
}

fn last_seg(p: &syn::Path) -> Option<&syn::PathSegment> {
  p.segments.last()
}

fn generic_args(seg: &syn::PathSegment, generics: &[String]) -> Result<Vec<Ty>, String> {
  let mut v = vec![];
  if let syn::PathArguments::AngleBracketed(ab) = &seg.arguments {
    for a in &ab.args {
      match a {
        syn::GenericArgument::Type(t) => v.push(ty_from_syn(t, generics)?),
        syn::GenericArgument::Lifetime(_) => {}
        _ => return Err("unsupported generic argument".into()),
      }
    }
  }
  Ok(v)
}

/// Translate a `syn::Type` given the generic parameter names in scope.  Fails closed.
pub fn ty_from_syn(t: &syn::Type, generics: &[String]) -> Result<Ty, String> {
  use syn::Type as T;
  match t {
    T::Paren(p) => ty_from_syn(&p.elem, generics),
    T::Group(p) => ty_from_syn(&p.elem, generics),
    T::Never(_) => Ok(Ty::Never),
    T::Infer(_) => Ok(Ty::Unknown),
    T::Tuple(tt) => {
      if tt.elems.is_empty() {
        Ok(Ty::Unit)
      } else {
        let mut v = vec![];
        for e in &tt.elems {
          v.push(ty_from_syn(e, generics)?);
        }
        Ok(Ty::Tuple(v))
      }
    }
    T::Reference(r) => Ok(Ty::Ref(Box::new(ty_from_syn(&r.elem, generics)?))),
    T::Ptr(r) => Ok(Ty::Ref(Box::new(ty_from_syn(&r.elem, generics)?))),
    T::Slice(s) => Ok(Ty::SliceOf(Box::new(ty_from_syn(&s.elem, generics)?))),
    T::Path(tp) => {
      if let Some(q) = &tp.qself {
        // <T as CheckedBitPattern>::Bits
        let last = last_seg(&tp.path).ok_or("empty path")?;
        if last.ident == "Bits" {
          if let Ty::Param(n) = ty_from_syn(&q.ty, generics)? {
            return Ok(Ty::Bits(n));
          }
        }
        return Err(format!("unsupported qualified type {}", quote::quote!(#t)));
      }
      let seg = last_seg(&tp.path).ok_or("empty path")?;
      let id = seg.ident.to_string();
      if tp.path.segments.len() == 1 && generics.contains(&id) {
        return Ok(Ty::Param(id));
      }
      if tp.path.segments.len() == 2 && tp.path.segments[0].ident == "Self" && id == "Bits" {
        return Ok(Ty::Bits("Self".into()));
      }
      let args = generic_args(seg, generics)?;
      let one = |args: &Vec<Ty>| -> Result<Box<Ty>, String> {
        args.get(0).cloned().map(Box::new).ok_or_else(|| format!("{} needs a type argument", id))
      };
      match id.as_str() {
        "usize" => Ok(Ty::Usize),
        "bool" => Ok(Ty::Bool),
        "u8" => Ok(Ty::U8),
        "str" => Ok(Ty::Str),
        "PodCastError" => Ok(Ty::PErr),
        "CheckedCastError" => Ok(Ty::CErr),
        "Result" => {
          if args.len() != 2 {
            return Err("Result needs two arguments".into());
          }
          Ok(Ty::Result(Box::new(args[0].clone()), Box::new(args[1].clone())))
        }
        "Option" => Ok(Ty::Option(one(&args)?)),
        "Box" => Ok(Ty::Box_(one(&args)?)),
        "Vec" => Ok(Ty::Vec_(one(&args)?)),
        "Rc" => Ok(Ty::Rc_(one(&args)?)),
        "Arc" => Ok(Ty::Arc_(one(&args)?)),
        "ManuallyDrop" => Ok(Ty::ManuallyDrop(one(&args)?)),
        "NonNull" => Ok(Ty::Ref(one(&args)?)),
        "BoxBytes" => Ok(Ty::BoxBytes),
        "Layout" => Ok(Ty::Layout),
        "Self" => Ok(Ty::Param("Self".into())),
        _ => Err(format!("unsupported type {}", quote::quote!(#t))),
      }
    }
    _ => Err(format!("unsupported type {}", quote::quote!(#t))),
  }
}

/// The Coq type that models a Rust type.
pub fn coq_type(t: &Ty) -> Result<String, String> {
  Ok(match t {
    Ty::Usize => "N".into(),
    Ty::Bool => "bool".into(),
    Ty::Unit => "unit".into(),
    Ty::U8 => "N".into(),
    Ty::Never => "Empty_set".into(),
    Ty::Str => "string".into(),
    Ty::Param(_) | Ty::Bits(_) => "(list N)".into(),
    Ty::Ref(p) => match &**p {
      Ty::SliceOf(_) | Ty::Str => "slice".into(),
      _ => "ptr".into(),
    },
    Ty::SliceOf(_) => return Err("unsized slice by value".into()),
    Ty::Result(a, b) => format!("(result {} {})", coq_type(a)?, coq_type(b)?),
    Ty::Option(a) => format!("(option {})", coq_type(a)?),
    Ty::Tuple(v) => {
      let parts: Result<Vec<String>, String> = v.iter().map(coq_type).collect();
      format!("({})", parts?.join(" * "))
    }
    Ty::PErr => "perr".into(),
    Ty::CErr => "cerr".into(),
    Ty::Box_(_) | Ty::Vec_(_) | Ty::Rc_(_) | Ty::Arc_(_) | Ty::ManuallyDrop(_) | Ty::RawCont(_) => "cont".into(),
    Ty::Addr(_) => "N".into(),
    Ty::BVec(_) => "bvec".into(),
    Ty::BoxBytes => "boxbytes".into(),
    Ty::Layout => "layout".into(),
    Ty::Fn(_, _) => return Err("a closure has no first-order type in the model".into()),
    Ty::Unknown => return Err("unknown type".into()),
  })
}

/// The Coq term of type `ty` describing (size, align) of a Rust type used as a pointee / element.
pub fn ty_term(t: &Ty, cty_params: &[String]) -> Result<String, String> {
  Ok(match t {
    Ty::Param(n) => {
      if cty_params.contains(n) {
        format!("(c_self {})", n)
      } else {
        n.clone()
      }
    }
    Ty::Bits(n) => {
      if cty_params.contains(n) {
        format!("(c_bits {})", n)
      } else {
        return Err(format!("Bits of a non-checked parameter {}", n));
      }
    }
    Ty::U8 => "u8_ty".into(),
    Ty::Unit => "unit_ty".into(),
    _ => return Err(format!("no (size, align) term for type {:?}", t)),
  })
}

/// Substitute generic parameters.
pub fn subst(t: &Ty, s: &std::collections::HashMap<String, Ty>) -> Ty {
  let b = |x: &Ty| Box::new(subst(x, s));
  match t {
    Ty::Param(n) => s.get(n).cloned().unwrap_or_else(|| t.clone()),
    Ty::Bits(n) => match s.get(n) {
      Some(Ty::Param(m)) => Ty::Bits(m.clone()),
      // Bits of an any-bit-pattern type is the type itself
      Some(other) => other.clone(),
      None => t.clone(),
    },
    Ty::SliceOf(x) => Ty::SliceOf(b(x)),
    Ty::Ref(x) => Ty::Ref(b(x)),
    Ty::Result(x, y) => Ty::Result(b(x), b(y)),
    Ty::Option(x) => Ty::Option(b(x)),
    Ty::Tuple(v) => Ty::Tuple(v.iter().map(|x| subst(x, s)).collect()),
    Ty::Box_(x) => Ty::Box_(b(x)),
    Ty::Vec_(x) => Ty::Vec_(b(x)),
    Ty::Rc_(x) => Ty::Rc_(b(x)),
    Ty::Arc_(x) => Ty::Arc_(b(x)),
    Ty::ManuallyDrop(x) => Ty::ManuallyDrop(b(x)),
    Ty::RawCont(x) => Ty::RawCont(b(x)),
    Ty::Addr(x) => Ty::Addr(b(x)),
    Ty::BVec(x) => Ty::BVec(b(x)),
    _ => t.clone(),
  }
}

/// Unify a callee-side type (whose `Param`s named in `vars` are variables) with an actual type.
pub fn unify(pat: &Ty, act: &Ty, vars: &[String], s: &mut std::collections::HashMap<String, Ty>) {
  match (pat, act) {
    (_, Ty::Unknown) | (_, Ty::Never) => {}
    (Ty::Param(n), a) if vars.contains(n) => {
      s.entry(n.clone()).or_insert_with(|| a.clone());
    }
    (Ty::SliceOf(x), Ty::SliceOf(y))
    | (Ty::Ref(x), Ty::Ref(y))
    | (Ty::Option(x), Ty::Option(y))
    | (Ty::Box_(x), Ty::Box_(y))
    | (Ty::Vec_(x), Ty::Vec_(y))
    | (Ty::Rc_(x), Ty::Rc_(y))
    | (Ty::Arc_(x), Ty::Arc_(y)) => unify(x, y, vars, s),
    (Ty::Result(x1, x2), Ty::Result(y1, y2)) => {
      unify(x1, y1, vars, s);
      unify(x2, y2, vars, s);
    }
    (Ty::Tuple(xs), Ty::Tuple(ys)) if xs.len() == ys.len() => {
      for (x, y) in xs.iter().zip(ys) {
        unify(x, y, vars, s);
      }
    }
    _ => {}
  }
}

/// Vec<T> as a vector with contents, everywhere in a type.
pub fn vec_with_contents(t: &Ty) -> Ty {
  match t {
    Ty::Vec_(x) => Ty::BVec(x.clone()),
    Ty::Result(a, b) => Ty::Result(Box::new(vec_with_contents(a)), Box::new(vec_with_contents(b))),
    Ty::Tuple(v) => Ty::Tuple(v.iter().map(vec_with_contents).collect()),
    _ => t.clone(),
  }
}
