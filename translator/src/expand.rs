//! Tables read off the macro-expanded crate (one expansion per feature configuration, produced by
//! `cargo +nightly rustc -- -Zunpretty=expanded`): every `unsafe impl <marker> for <type>` row with
//! its generic parameters and bounds, the Contiguous rows with their evaluated MIN/MAX, the
//! validity predicates of the CheckedBitPattern impls, and the default methods of Contiguous.
//! Emitted as Gallina data (Gen/Tables.v).  Anything outside the recognised shapes is emitted as
//! an `ROther` row (the Coq side treats it as unproven), never silently dropped.
use std::fmt::Write as _;

const MARKERS: &[&str] = &[
  "Pod", "Zeroable", "NoUninit", "AnyBitPattern", "CheckedBitPattern", "PodInOption", "ZeroableInOption", "Contiguous",
  "TransparentWrapper",
];

fn q(s: &str) -> String {
  format!("\"{}\"", s.replace('"', "\"\""))
}

pub fn tyx(t: &syn::Type, params: &[String]) -> String {
  use syn::Type as T;
  match t {
    T::Paren(p) => tyx(&p.elem, params),
    T::Group(p) => tyx(&p.elem, params),
    T::Tuple(tt) => format!("(TTup [{}])", tt.elems.iter().map(|e| tyx(e, params)).collect::<Vec<_>>().join("; ")),
    T::Array(a) => {
      let len = match &a.len {
        syn::Expr::Lit(syn::ExprLit { lit: syn::Lit::Int(i), .. }) => format!("(Some {}%N)", i.base10_digits()),
        _ => "None".to_string(),
      };
      format!("(TArr {} {})", tyx(&a.elem, params), len)
    }
    T::Slice(s) => format!("(TSlice {})", tyx(&s.elem, params)),
    T::Ptr(p) => format!("(TPtr {} {})", if p.mutability.is_some() { "true" } else { "false" }, tyx(&p.elem, params)),
    T::Reference(r) => format!("(TRef {} {})", if r.mutability.is_some() { "true" } else { "false" }, tyx(&r.elem, params)),
    T::BareFn(f) => {
      let abi = match &f.abi {
        None => "Rust".to_string(),
        Some(a) => a.name.as_ref().map(|n| n.value()).unwrap_or_else(|| "C".to_string()),
      };
      let ret = match &f.output {
        syn::ReturnType::Default => "(TTup [])".to_string(),
        syn::ReturnType::Type(_, t) => tyx(t, params),
      };
      format!("(TFn {} {} [{}] {})", q(&abi), if f.unsafety.is_some() { "true" } else { "false" },
        f.inputs.iter().map(|a| tyx(&a.ty, params)).collect::<Vec<_>>().join("; "), ret)
    }
    T::TraitObject(_) => "(TLeaf \"dyn\")".to_string(),
    T::Never(_) => "(TLeaf \"!\")".to_string(),
    T::Path(tp) => {
      let seg = match tp.path.segments.last() { Some(s) => s, None => return "(TLeaf \"?\")".into() };
      let id = seg.ident.to_string();
      if tp.qself.is_none() && tp.path.segments.len() == 1 {
        if let Some(i) = params.iter().position(|p| *p == id) {
          return format!("(TVar {})", i);
        }
      }
      let mut args = vec![];
      if let syn::PathArguments::AngleBracketed(ab) = &seg.arguments {
        for a in &ab.args {
          match a {
            syn::GenericArgument::Type(t) => args.push(tyx(t, params)),
            syn::GenericArgument::Const(_) => args.push("(TLeaf \"const\")".to_string()),
            _ => {}
          }
        }
      }
      if args.is_empty() { format!("(TLeaf {})", q(&id)) } else { format!("(TApp {} [{}])", q(&id), args.join("; ")) }
    }
    other => format!("(TLeaf {})", q(&quote::quote!(#other).to_string())),
  }
}

fn bound_names(bounds: &syn::punctuated::Punctuated<syn::TypeParamBound, syn::Token![+]>) -> (Vec<String>, bool) {
  let mut v = vec![];
  let mut unsized_ = false;
  for b in bounds {
    if let syn::TypeParamBound::Trait(tb) = b {
      if matches!(tb.modifier, syn::TraitBoundModifier::Maybe(_)) {
        unsized_ = true;
        continue;
      }
      if let Some(s) = tb.path.segments.last() {
        v.push(s.ident.to_string());
      }
    }
  }
  (v, unsized_)
}

pub struct Collected {
  pub rules: Vec<String>,
  pub contiguous: Vec<String>,
  pub checked: Vec<String>,
  pub contiguous_defaults: Option<String>,
  pub notes: Vec<String>,
}

fn int_range(t: &str) -> Option<(i128, String, String)> {
  // (bits, min, max) as decimal strings
  let (bits, signed) = match t {
    "u8" => (8, false), "u16" => (16, false), "u32" => (32, false), "u64" | "usize" => (64, false), "u128" => (128, false),
    "i8" => (8, true), "i16" => (16, true), "i32" => (32, true), "i64" | "isize" => (64, true), "i128" => (128, true),
    _ => return None,
  };
  if signed {
    if bits == 128 {
      Some((128, "-170141183460469231731687303715884105728".into(), "170141183460469231731687303715884105727".into()))
    } else {
      let m: i128 = 1i128 << (bits - 1);
      Some((bits, format!("{}", -m), format!("{}", m - 1)))
    }
  } else if bits == 128 {
    Some((128, "0".into(), "340282366920938463463374607431768211455".into()))
  } else {
    Some((bits, "0".into(), format!("{}", (1i128 << bits) - 1)))
  }
}

/// Evaluate a MIN/MAX constant expression of an `impl Contiguous` to a decimal string.
fn const_int(e: &syn::Expr) -> Option<String> {
  match e {
    syn::Expr::Lit(syn::ExprLit { lit: syn::Lit::Int(i), .. }) => Some(i.base10_digits().to_string()),
    syn::Expr::Paren(p) => const_int(&p.expr),
    syn::Expr::Group(p) => const_int(&p.expr),
    syn::Expr::Unary(u) if matches!(u.op, syn::UnOp::Neg(_)) => const_int(&u.expr).map(|s| if s.starts_with('-') { s[1..].to_string() } else { format!("-{}", s) }),
    syn::Expr::Call(c) if c.args.is_empty() => {
      if let syn::Expr::Path(p) = &*c.func {
        let segs: Vec<String> = p.path.segments.iter().map(|s| s.ident.to_string()).collect();
        if segs.len() >= 2 {
          let (ty, f) = (&segs[segs.len() - 2], &segs[segs.len() - 1]);
          let r = int_range(ty)?;
          return match f.as_str() { "max_value" => Some(r.2), "min_value" => Some(r.1), _ => None };
        }
      }
      None
    }
    syn::Expr::Path(p) => {
      let segs: Vec<String> = p.path.segments.iter().map(|s| s.ident.to_string()).collect();
      if segs.len() >= 2 {
        let r = int_range(&segs[segs.len() - 2])?;
        return match segs[segs.len() - 1].as_str() { "MAX" => Some(r.2), "MIN" => Some(r.1), _ => None };
      }
      None
    }
    _ => None,
  }
}

/// Boolean / integer expressions over `*bits` (as the unsigned value `v` of `w` bits) and, for the
/// Contiguous default methods, over `value`, `Self::MIN_VALUE`, `Self::MAX_VALUE` (as integers).
fn bexpr(e: &syn::Expr, w: u32, env: &dyn Fn(&syn::Expr) -> Option<String>, zscope: bool) -> Result<String, String> {
  use syn::Expr as E;
  if let Some(s) = env(e) {
    return Ok(s);
  }
  let sc = if zscope { "%Z" } else { "%N" };
  match e {
    E::Paren(p) => bexpr(&p.expr, w, env, zscope),
    E::Group(p) => bexpr(&p.expr, w, env, zscope),
    E::Block(b) if b.block.stmts.len() == 1 => match &b.block.stmts[0] { syn::Stmt::Expr(x, None) => bexpr(x, w, env, zscope), _ => Err("block".into()) },
    E::Lit(syn::ExprLit { lit: syn::Lit::Bool(b), .. }) => Ok(if b.value { "true".into() } else { "false".into() }),
    E::Lit(syn::ExprLit { lit: syn::Lit::Int(i), .. }) => Ok(format!("{}{}", i.base10_digits(), sc)),
    E::Unary(u) => match u.op {
      syn::UnOp::Not(_) => Ok(format!("(negb {})", bexpr(&u.expr, w, env, zscope)?)),
      syn::UnOp::Deref(_) => bexpr(&u.expr, w, env, zscope),
      _ => Err("unary".into()),
    },
    E::Binary(b) => {
      let l = bexpr(&b.left, w, env, zscope)?;
      let r = bexpr(&b.right, w, env, zscope)?;
      use syn::BinOp as O;
      let m = if zscope { "Z" } else { "N" };
      Ok(match b.op {
        O::And(_) => format!("({} && {})", l, r),
        O::Or(_) => format!("({} || {})", l, r),
        O::Eq(_) => format!("({}.eqb {} {})", m, l, r),
        O::Ne(_) => format!("(negb ({}.eqb {} {}))", m, l, r),
        O::Lt(_) => format!("({}.ltb {} {})", m, l, r),
        O::Le(_) => format!("({}.leb {} {})", m, l, r),
        O::Gt(_) => format!("({}.ltb {} {})", m, r, l),
        O::Ge(_) => format!("({}.leb {} {})", m, r, l),
        O::BitXor(_) if !zscope => format!("(N.lxor {} {})", l, r),
        O::BitAnd(_) if !zscope => format!("(N.land {} {})", l, r),
        O::BitOr(_) if !zscope => format!("(N.lor {} {})", l, r),
        O::Sub(_) if !zscope => format!("(wsub {} {} {})", w, l, r),
        O::Add(_) if !zscope => format!("(wadd {} {} {})", w, l, r),
        _ => return Err("binary operator".into()),
      })
    }
    E::MethodCall(m) => {
      let name = m.method.to_string();
      // core::char::from_u32(x).is_some()
      if name == "is_some" && m.args.is_empty() {
        if let E::Call(c) = &*m.receiver {
          if let E::Path(p) = &*c.func {
            if p.path.segments.last().map(|s| s.ident == "from_u32").unwrap_or(false) && c.args.len() == 1 {
              return Ok(format!("(is_scalar_value {})", bexpr(&c.args[0], w, env, zscope)?));
            }
          }
        }
      }
      if (name == "wrapping_sub" || name == "wrapping_add") && m.args.len() == 1 && !zscope {
        let l = bexpr(&m.receiver, w, env, zscope)?;
        let r = bexpr(&m.args[0], w, env, zscope)?;
        return Ok(format!("({} {} {} {})", if name == "wrapping_sub" { "wsub" } else { "wadd" }, w, l, r));
      }
      Err(format!("method {}", name))
    }
    E::Match(mm) => {
      // match x { a | b => e1, _ => e2 } on integer literals
      let scrut = bexpr(&mm.expr, w, env, zscope)?;
      let mut s = format!("(match {} with", scrut);
      for arm in &mm.arms {
        if arm.guard.is_some() { return Err("match guard".into()); }
        let pat = pat_str(&arm.pat, sc)?;
        let _ = write!(s, " | {} => {}", pat, bexpr(&arm.body, w, env, zscope)?);
      }
      s.push_str(" end)");
      Ok(s)
    }
    E::Macro(mc) if mc.mac.path.is_ident("matches") => {
      let parser = |input: syn::parse::ParseStream| -> syn::Result<(syn::Expr, syn::Pat)> {
        let e: syn::Expr = input.parse()?; let _: syn::Token![,] = input.parse()?; let p = syn::Pat::parse_multi_with_leading_vert(input)?; Ok((e, p))
      };
      let (e, p) = syn::parse::Parser::parse2(parser, mc.mac.tokens.clone()).map_err(|e| e.to_string())?;
      Ok(format!("(match {} with | {} => true | _ => false end)", bexpr(&e, w, env, zscope)?, pat_str(&p, sc)?))
    }
    E::If(i) => {
      let c = bexpr(&i.cond, w, env, zscope)?;
      let t = bexpr(&E::Block(syn::ExprBlock { attrs: vec![], label: None, block: i.then_branch.clone() }), w, env, zscope)?;
      let f = match &i.else_branch { Some((_, e)) => bexpr(e, w, env, zscope)?, None => return Err("if without else".into()) };
      Ok(format!("(if {} then {} else {})", c, t, f))
    }
    _ => Err(format!("expression `{}`", quote::quote!(#e))),
  }
}

fn pat_str(p: &syn::Pat, sc: &str) -> Result<String, String> {
  match p {
    syn::Pat::Wild(_) => Ok("_".into()),
    syn::Pat::Lit(l) => match &l.lit { syn::Lit::Int(i) => Ok(format!("{}{}", i.base10_digits(), sc)), _ => Err("pattern literal".into()) },
    syn::Pat::Or(o) => Ok(o.cases.iter().map(|c| pat_str(c, sc)).collect::<Result<Vec<_>, _>>()?.join(" | ")),
    syn::Pat::Paren(pp) => pat_str(&pp.pat, sc),
    _ => Err("pattern".into()),
  }
}

fn fn_tail_expr(block: &syn::Block) -> Option<syn::Expr> {
  // the value of a function body whose statements are at most assert!(..) followed by a tail expression
  let mut tail = None;
  for st in &block.stmts {
    match st {
      syn::Stmt::Expr(e, None) => tail = Some(e.clone()),
      syn::Stmt::Macro(m) if m.mac.path.is_ident("assert") => {}
      syn::Stmt::Expr(syn::Expr::Macro(m), Some(_)) if m.mac.path.is_ident("assert") => {}
      // an expanded assert!: `if !(cond) { panic(..) };`
      syn::Stmt::Expr(syn::Expr::If(i), Some(_)) if i.else_branch.is_none() && quote::quote!(#i).to_string().contains("panic") => {}
      syn::Stmt::Expr(syn::Expr::If(_), Some(_)) => return None,
      _ => { if !matches!(st, syn::Stmt::Expr(syn::Expr::Macro(_), _)) { return None; } }
    }
  }
  tail
}

pub fn collect(file: &syn::File) -> Collected {
  let mut c = Collected { rules: vec![], contiguous: vec![], checked: vec![], contiguous_defaults: None, notes: vec![] };
  fn walk(items: &[syn::Item], c: &mut Collected) {
    for it in items {
      match it {
        syn::Item::Mod(m) => { if let Some((_, content)) = &m.content { walk(content, c); } }
        syn::Item::Trait(t) if t.ident == "Contiguous" => {
          for ti in &t.items {
            if let syn::TraitItem::Fn(f) = ti {
              if f.sig.ident == "from_integer" {
                if let Some(body) = &f.default {
                  let env = |e: &syn::Expr| -> Option<String> {
                    if let syn::Expr::Path(p) = e {
                      let s: Vec<String> = p.path.segments.iter().map(|s| s.ident.to_string()).collect();
                      if s == ["value"] { return Some("v".into()); }
                      if s == ["Self", "MIN_VALUE"] { return Some("minv".into()); }
                      if s == ["Self", "MAX_VALUE"] { return Some("maxv".into()); }
                    }
                    None
                  };
                  let cond = fn_tail_expr(body).and_then(|e| if let syn::Expr::If(i) = e { Some(i) } else { None });
                  match cond {
                    Some(i) => match bexpr(&i.cond, 0, &env, true) {
                      Ok(s) => {
                        // then-branch must be Some(transmute!(value)), else-branch None
                        let then_s = quote::quote!(#i).to_string();
                        let shape = then_s.contains("Some") && then_s.contains("None") && then_s.contains("transmute_copy") && then_s.contains("(value)");
                        if shape { c.contiguous_defaults = Some(s); } else { c.notes.push("Contiguous::from_integer: unexpected branches".into()); }
                      }
                      Err(e) => c.notes.push(format!("Contiguous::from_integer: {}", e)),
                    },
                    None => c.notes.push("Contiguous::from_integer: body is not `assert!; if .. {Some} else {None}`".into()),
                  }
                }
              }
            }
          }
        }
        syn::Item::Impl(im) => {
          let tr = match &im.trait_ { Some((_, p, _)) => p.segments.last().map(|s| s.ident.to_string()).unwrap_or_default(), None => continue };
          if !MARKERS.contains(&tr.as_str()) { continue; }
          // trait arguments (TransparentWrapper<Inner>)
          let mut params: Vec<String> = vec![];
          let mut bounds: Vec<(usize, String)> = vec![];
          let mut unsized_: Vec<usize> = vec![];
          let mut other_where = false;
          for gp in &im.generics.params {
            match gp {
              syn::GenericParam::Type(tp) => {
                params.push(tp.ident.to_string());
                let (bs, u) = bound_names(&tp.bounds);
                let i = params.len() - 1;
                for b in bs { bounds.push((i, b)); }
                if u { unsized_.push(i); }
              }
              syn::GenericParam::Const(cp) => { params.push(format!("const {}", cp.ident)); }
              syn::GenericParam::Lifetime(_) => {}
            }
          }
          if let Some(w) = &im.generics.where_clause {
            for pr in &w.predicates {
              if let syn::WherePredicate::Type(pt) = pr {
                let mut idx = None;
                if let syn::Type::Path(tp) = &pt.bounded_ty { if let Some(id) = tp.path.get_ident() { idx = params.iter().position(|p| *p == id.to_string()); } }
                match idx {
                  Some(i) => { let (bs, u) = bound_names(&pt.bounds); for b in bs { bounds.push((i, b)); } if u { unsized_.push(i); } }
                  None => other_where = true,
                }
              }
            }
          }
          let selfx = tyx(&im.self_ty, &params);
          let targs: Vec<String> = match &im.trait_ { Some((_, p, _)) => match &p.segments.last().unwrap().arguments {
            syn::PathArguments::AngleBracketed(ab) => ab.args.iter().filter_map(|a| if let syn::GenericArgument::Type(t) = a { Some(tyx(t, &params)) } else { None }).collect(),
            _ => vec![] }, None => vec![] };
          let bl: Vec<String> = bounds.iter().map(|(i, b)| format!("({}%nat, {})", i, q(b))).collect();
          let ul: Vec<String> = unsized_.iter().map(|i| format!("{}%nat", i)).collect();
          c.rules.push(format!("mkRule {} {}%nat [{}] [{}] {} [{}] {}", q(&tr), params.len(), bl.join("; "), ul.join("; "), selfx, targs.join("; "),
            if other_where { "true" } else { "false" }));
          if tr == "Contiguous" {
            let mut int = String::new(); let mut mn = None; let mut mx = None; let mut extra = false;
            for ii in &im.items {
              match ii {
                syn::ImplItem::Type(t) if t.ident == "Int" => { if let syn::Type::Path(p) = &t.ty { int = p.path.segments.last().map(|s| s.ident.to_string()).unwrap_or_default(); } }
                syn::ImplItem::Const(k) if k.ident == "MIN_VALUE" => mn = const_int(&k.expr),
                syn::ImplItem::Const(k) if k.ident == "MAX_VALUE" => mx = const_int(&k.expr),
                _ => extra = true,
              }
            }
            let selfname = quote::quote!(#im).to_string();
            let _ = selfname;
            let sname = match &*im.self_ty { syn::Type::Path(p) => p.path.segments.last().map(|s| s.ident.to_string()).unwrap_or_default(), _ => "?".into() };
            match (mn, mx) {
              (Some(a), Some(b)) if !int.is_empty() => c.contiguous.push(format!("mkCRow {} {} ({})%Z ({})%Z {}", q(&sname), q(&int), a, b, if extra { "true" } else { "false" })),
              _ => c.notes.push(format!("Contiguous for {}: MIN/MAX not evaluable", sname)),
            }
          }
          if tr == "CheckedBitPattern" {
            let sname = match &*im.self_ty { syn::Type::Path(p) => p.path.segments.last().map(|s| s.ident.to_string()).unwrap_or_default(), _ => "?".into() };
            let mut bits = String::new(); let mut body: Option<syn::Block> = None; let mut argname = "bits".to_string();
            for ii in &im.items {
              match ii {
                syn::ImplItem::Type(t) if t.ident == "Bits" => { bits = match &t.ty { syn::Type::Path(p) => p.path.segments.last().map(|s| s.ident.to_string()).unwrap_or_default(), _ => "?".into() }; }
                syn::ImplItem::Fn(f) if f.sig.ident == "is_valid_bit_pattern" => {
                  if let Some(syn::FnArg::Typed(pt)) = f.sig.inputs.first() { if let syn::Pat::Ident(pi) = &*pt.pat { argname = pi.ident.to_string(); } }
                  body = Some(f.block.clone());
                }
                _ => {}
              }
            }
            let w = int_range(&bits).map(|r| r.0 as u32).unwrap_or(0);
            let an = argname.clone();
            let env = move |e: &syn::Expr| -> Option<String> {
              if let syn::Expr::Path(p) = e { if p.path.is_ident(&an) { return Some("v".into()); } }
              None
            };
            let blanket = params.len() == 1 && selfx == "(TVar 0)";
            let def = body.as_ref().and_then(|b| fn_tail_expr(b)).ok_or_else(|| "body shape".to_string()).and_then(|e| bexpr(&e, w, &env, false));
            match def {
              Ok(d) if blanket => c.checked.push(format!("mkKRow \"<AnyBitPattern>\" \"<self>\" (fun v => {})", d)),
              Ok(d) if w > 0 => c.checked.push(format!("mkKRow {} {} (fun v => {})", q(&sname), q(&bits), d)),
              Ok(_) => c.notes.push(format!("CheckedBitPattern for {}: Bits type {} is not a primitive integer", sname, bits)),
              Err(e) => c.notes.push(format!("CheckedBitPattern for {}: is_valid_bit_pattern not translatable: {}", sname, e)),
            }
          }
        }
        _ => {}
      }
    }
  }
  walk(&file.items, &mut c);
  c
}

pub fn emit(configs: &[(String, String)], out: &std::path::Path) -> Result<(), String> {
  let mut s = String::new();
  s.push_str("(* GENERATED by bm2coq from the macro-expanded crate (cargo +nightly rustc -- -Zunpretty=expanded), one\n   table per feature configuration — do not edit.  Regenerated on every check. *)\n");
  s.push_str("From Coq Require Import NArith ZArith List Bool String.\nFrom BM Require Import Base.TyExpr Model.LangValid.\nImport ListNotations.\nOpen Scope bool_scope.\nOpen Scope string_scope.\n\n");
  let mut notes_all = vec![];
  for (name, path) in configs {
    let src = std::fs::read_to_string(path).map_err(|e| format!("{}: {}", path, e))?;
    let file = syn::parse_file(&src).map_err(|e| format!("{}: parse error: {}", path, e))?;
    let c = collect(&file);
    let _ = writeln!(s, "Definition rules_{} : list rule := [\n  {}\n].\n", name, c.rules.join(";\n  "));
    let _ = writeln!(s, "Definition contiguous_rows_{} : list crow := [\n  {}\n].\n", name, c.contiguous.join(";\n  "));
    let _ = writeln!(s, "Definition checked_rows_{} : list krow := [\n  {}\n].\n", name, c.checked.join(";\n  "));
    match &c.contiguous_defaults {
      Some(d) => { let _ = writeln!(s, "Definition contiguous_in_range_{} (minv maxv v : Z) : bool := {}.\n", name, d); }
      None => notes_all.push(format!("{}: Contiguous::from_integer not translated", name)),
    }
    for n in c.notes { notes_all.push(format!("{}: {}", name, n)); }
  }
  let _ = writeln!(s, "Definition table_notes : list string := [{}].", notes_all.iter().map(|n| q(n)).collect::<Vec<_>>().join("; "));
  std::fs::write(out.join("Tables.v"), s).map_err(|e| e.to_string())
}
