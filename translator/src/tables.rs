//! Vocabulary: std / core calls and methods mapped onto Base primitives; const assertions;
//! impl tables.
use std::collections::HashMap;
use std::path::Path;

use syn::spanned::Spanned;

use crate::expr::{vname, Ctx, Tr};
use crate::types::*;
use crate::{FnSig, ItemOut, ModuleSpec};

type R<T> = Result<T, String>;

pub fn size_of(cx: &mut Ctx, t: &Ty) -> R<Tr> {
  match t {
    // pointer types: thin pointers are one word, slice / str pointers two
    Ty::Ref(p) => Ok(Tr::pure(format!("(ptr_size {})", ptr_meta_term(cx, p)?), Ty::Usize)),
    _ => Ok(Tr::pure(format!("(sz {})", ty_term(t, &cx.cty_names())?), Ty::Usize)),
  }
}

fn ptr_meta_term(cx: &Ctx, pointee: &Ty) -> R<String> {
  match pointee {
    Ty::SliceOf(_) | Ty::Str => Ok("true".into()),
    Ty::Param(n) => {
      if cx.generics.iter().any(|g| &g.name == n && g.maybe_unsized) { Ok(format!("unsized_{}", n)) } else { Ok("false".into()) }
    }
    _ => Ok("false".into()),
  }
}

pub fn align_of(cx: &mut Ctx, t: &Ty) -> R<Tr> {
  Ok(Tr::pure(format!("(al {})", ty_term(t, &cx.cty_names())?), Ty::Usize))
}

pub fn size_of_val(cx: &mut Ctx, arg: &syn::Expr) -> R<Tr> {
  let a = cx.expr(arg, None)?;
  if a.ty.is_container() {
    // size_of_val::<[A]>(&*container): length times element size
    let elem = a.ty.cont_elem().ok_or("size_of_val of a container without element type")?.clone();
    let et = ty_term(&elem, &cx.cty_names())?;
    if !a.pure { return Err("size_of_val of an impure operand".into()); }
    return Ok(Tr::pure(format!("(clen {} * sz {})", a.code, et), Ty::Usize));
  }
  let elem = a.ty.slice_elem().ok_or_else(|| format!("size_of_val of {:?}", a.ty))?.clone();
  let et = ty_term(&elem, &cx.cty_names())?;
  let f = match &a.ty {
    Ty::Ref(_) => "size_of_val_slice",
    _ => return Err(format!("size_of_val of {:?}", a.ty)),
  };
  if !a.pure {
    return Err("size_of_val of an impure operand".into());
  }
  Ok(Tr::pure(format!("({} {} {})", f, et, a.code), Ty::Usize))
}

pub fn reborrow(cx: &mut Ctx, p: Tr, _expected: Option<&Ty>) -> R<Tr> {
  if p.ty.is_container() {
    return Ok(p); // &*container: a view of the container's own contents
  }
  let pointee = p.ty.pointee().ok_or_else(|| format!("`&*` of a non-pointer {:?}", p.ty))?.clone();
  match &pointee {
    Ty::SliceOf(_) => {
      // &*slice_ptr : a reference to the same slice (the pointer already is a validated slice)
      Ok(p)
    }
    _ => {
      let t = ty_term(&pointee, &cx.cty_names())?;
      if !p.pure {
        return Err("`&*` of an impure operand".into());
      }
      Ok(Tr::eff(format!("(deref_as {} {})", t, p.code), Ty::Ref(Box::new(pointee))))
    }
  }
}

/// transmute!(p) of a raw pointer (thin or fat) to another pointer type: a copy of the pointer's
/// words, meaningful only when both pointer types have the same size
pub fn transmute_ptr(cx: &mut Ctx, v: Tr, dst: Ty) -> R<Tr> {
  let to = match &dst { Ty::Ref(t) => (**t).clone(), other => return Err(format!("transmute! of a pointer to {:?}", other)) };
  let (from, is_cont) = match &v.ty {
    Ty::Ref(t) => ((**t).clone(), false),
    Ty::RawCont(t) => ((**t).clone(), true),
    other => return Err(format!("transmute! of {:?} to a pointer", other)),
  };
  let sw = format!("(ptr_size {})", ptr_meta_term(cx, &from)?);
  let dw = format!("(ptr_size {})", ptr_meta_term(cx, &to)?);
  let ty = if is_cont { Ty::RawCont(Box::new(to)) } else { Ty::Ref(Box::new(to)) };
  let (code, pure) = cx.seq_pub(vec![v], |n| (format!("(transmute_ptr_m {} {} {})", sw, dw, n[0]), false));
  Ok(Tr { code, ty, pure })
}

pub fn index_expr(cx: &mut Ctx, ix: &syn::ExprIndex, borrow: bool) -> R<Tr> {
  // &mut v[..] with v a vector-with-contents: the slice of all its elements
  if let (true, syn::Expr::Path(bp), syn::Expr::Range(rg)) = (borrow, &*ix.expr, &*ix.index) {
    if rg.start.is_none() && rg.end.is_none() && bp.path.segments.len() == 1 {
      let n = bp.path.segments[0].ident.to_string();
      if let Some(Ty::BVec(t)) = cx.lookup_pub(&n) {
        let tt = ty_term(&t, &cx.cty_names())?;
        return Ok(Tr::pure(format!("(bvec_slice {} {})", tt, vname(&n)), Ty::Ref(Box::new(Ty::SliceOf(t)))));
      }
    }
  }
  Err(format!("index expression `{}`", quote::quote!(#ix)))
}

pub fn field_expr(cx: &mut Ctx, f: &syn::ExprField) -> R<Tr> {
  let base = cx.expr(&f.base, None)?;
  let name = match &f.member { syn::Member::Named(i) => i.to_string(), _ => return Err("tuple field".into()) };
  if !base.pure { return Err("field of an impure operand".into()); }
  let bty = match &base.ty { Ty::ManuallyDrop(t) => (**t).clone(), t => t.clone() };
  match (&bty, name.as_str()) {
    (Ty::BoxBytes, "layout") => Ok(Tr::pure(format!("(bb_layout {})", base.code), Ty::Layout)),
    (Ty::BoxBytes, "ptr") => Ok(Tr::pure(format!("(bb_ptr {})", base.code), Ty::Addr(Box::new(Ty::U8)))),
    (t, n) => Err(format!("field .{} of {:?}", n, t)),
  }
}

pub fn struct_expr(cx: &mut Ctx, s: &syn::ExprStruct) -> R<Tr> {
  if !s.path.is_ident("BoxBytes") || s.rest.is_some() || s.fields.len() != 2 {
    return Err(format!("struct literal `{}`", quote::quote!(#s)));
  }
  let mut ptr = None;
  let mut layout = None;
  for fv in &s.fields {
    let n = match &fv.member { syn::Member::Named(i) => i.to_string(), _ => return Err("tuple field".into()) };
    let v = cx.expr(&fv.expr, None)?;
    match (n.as_str(), &v.ty) {
      ("ptr", Ty::Addr(_)) => ptr = Some(v),
      ("layout", Ty::Layout) => layout = Some(v),
      (n, t) => return Err(format!("BoxBytes field {} : {:?}", n, t)),
    }
  }
  let (p, l) = (ptr.ok_or("BoxBytes without ptr")?, layout.ok_or("BoxBytes without layout")?);
  let (code, pure) = cx.seq_pub(vec![p, l], |v| (format!("(mkBB {} {})", v[0], v[1]), true));
  Ok(Tr { code, ty: Ty::BoxBytes, pure })
}

pub fn std_call(cx: &mut Ctx, full: &str, _turbofish: &[Ty], args: &[&syn::Expr],
                _expected: Option<&Ty>) -> R<Option<Tr>> {
  match (full, args.len()) {
    ("Box::into_raw", 1) | ("Rc::into_raw", 1) | ("Arc::into_raw", 1) => {
      let x = cx.expr(args[0], None)?;
      let inner = match &x.ty {
        Ty::Box_(t) | Ty::Rc_(t) | Ty::Arc_(t) => (**t).clone(),
        other => return Err(format!("into_raw of {:?}", other)),
      };
      Ok(Some(Tr { code: x.code, ty: Ty::RawCont(Box::new(inner)), pure: x.pure }))
    }
    ("Box::from_raw", 1) | ("Rc::from_raw", 1) | ("Arc::from_raw", 1) => {
      // the pointer type the call expects (lets `transmute!(..)` know its destination)
      let want = match _expected { Some(Ty::Box_(t)) | Some(Ty::Rc_(t)) | Some(Ty::Arc_(t)) => Some(Ty::Ref(t.clone())), _ => None };
      let x = cx.expr(args[0], want.as_ref())?;
      if let (Ty::Addr(t), true) = (&x.ty, full.starts_with("Box")) {
        // Box::from_raw(address as *mut T): a Box of one T at that address
        if matches!(**t, Ty::SliceOf(_)) { return Err("Box::from_raw of a bare slice address".into()); }
        let ty = match (&**t, _expected) {
          (Ty::Unknown, Some(e @ Ty::Box_(_))) => e.clone(),
          (Ty::Unknown, _) => return Err("Box::from_raw of a pointer of unknown type".into()),
          _ => Ty::Box_(t.clone()),
        };
        let (code, pure) = cx.seq_pub(vec![x], |v| (format!("(cont_of_addr {})", v[0]), true));
        return Ok(Some(Tr { code, ty, pure }));
      }
      let mut inner = match &x.ty { Ty::RawCont(t) => (**t).clone(), other => return Err(format!("from_raw of {:?}", other)) };
      if let (Ty::SliceOf(e), Some(Ty::Box_(ex))) = (&inner, _expected) {
        if **e == Ty::Unknown { inner = (**ex).clone(); }   // a dangling pointer takes the type it is used at
      }
      let ty = if full.starts_with("Box") { Ty::Box_(Box::new(inner)) } else if full.starts_with("Rc") { Ty::Rc_(Box::new(inner)) } else { Ty::Arc_(Box::new(inner)) };
      Ok(Some(Tr { code: x.code, ty, pure: x.pure }))
    }
    ("Vec::from_raw_parts", 3) => {
      let p = cx.expr(args[0], None)?;
      let l = cx.expr(args[1], Some(&Ty::Usize))?;
      let c = cx.expr(args[2], Some(&Ty::Usize))?;
      let elem = match &p.ty { Ty::RawCont(t) => (**t).clone(), other => return Err(format!("Vec::from_raw_parts of {:?}", other)) };
      let (code, pure) = cx.seq_pub(vec![p, l, c], |v| (format!("(cont_set {} {} {})", v[0], v[1], v[2]), true));
      Ok(Some(Tr { code, ty: Ty::Vec_(Box::new(elem)), pure }))
    }
    ("Layout::new", 0) if _turbofish.len() == 1 => {
      let t = ty_term(&_turbofish[0], &cx.cty_names())?;
      Ok(Some(Tr::pure(format!("(mkLayout (sz {}) (al {}))", t, t), Ty::Layout)))
    }
    ("Layout::for_value", 1) => {
      // Layout::for_value::<[T]>(&boxed_slice)
      let mut a = args[0];
      while let syn::Expr::Reference(r) = a { a = &r.expr; }
      let x = cx.expr(a, None)?;
      if !x.pure { return Err("Layout::for_value of an impure operand".into()); }
      match &x.ty {
        Ty::Box_(t) => match &**t {
          Ty::SliceOf(e) => {
            let et = ty_term(e, &cx.cty_names())?;
            Ok(Some(Tr::pure(format!("(mkLayout (clen {} * sz {}) (al {}))", x.code, et, et), Ty::Layout)))
          }
          other => Err(format!("Layout::for_value of Box<{:?}>", other)),
        },
        other => Err(format!("Layout::for_value of {:?}", other)),
      }
    }
    ("NonNull::new_unchecked", 1) => {
      let x = cx.expr(args[0], None)?;
      match &x.ty {
        Ty::RawCont(t) => {
          let ty = Ty::Addr(t.clone());
          let (code, pure) = cx.seq_pub(vec![x], |v| (format!("(cptr {})", v[0]), true));
          Ok(Some(Tr { code, ty, pure }))
        }
        Ty::Addr(_) => Ok(Some(x)),
        other => Err(format!("NonNull::new_unchecked of {:?}", other)),
      }
    }
    ("alloc_zeroed", 1) | ("alloc::alloc::alloc_zeroed", 1) => {
      // the global allocator's answer is an oracle of the environment (0 = null = failure)
      let l = cx.expr(args[0], None)?;
      if l.ty != Ty::Layout || !l.pure { return Err("alloc_zeroed of something that is not a layout".into()); }
      Ok(Some(Tr::pure(format!("(alloc_zeroed_m ENV {})", l.code), Ty::Addr(Box::new(Ty::U8)))))
    }
    ("NonNull::dangling", 0) | ("core::ptr::NonNull::dangling", 0) | ("ptr::NonNull::dangling", 0) => {
      Ok(Some(Tr::pure("DANGLING", Ty::Addr(Box::new(Ty::Unknown)))))
    }
    ("Layout::array", 1) | ("core::alloc::Layout::array", 1) | ("alloc::Layout::array", 1) if _turbofish.len() == 1 => {
      let n = cx.expr(args[0], Some(&Ty::Usize))?;
      let t = ty_term(&_turbofish[0], &cx.cty_names())?;
      let (code, pure) = cx.seq_pub(vec![n], |v| (format!("(layout_array_m {} {})", t, v[0]), true));
      // Result<Layout, LayoutError>: the error carries no information
      Ok(Some(Tr { code, ty: Ty::Result(Box::new(Ty::Layout), Box::new(Ty::Unit)), pure }))
    }
    ("Vec::new", 0) if matches!(_expected, Some(Ty::BVec(_))) => {
      let t = match _expected { Some(Ty::BVec(t)) => (**t).clone(), _ => unreachable!() };
      Ok(Some(Tr::pure("bvec_empty", Ty::BVec(Box::new(t)))))
    }
    ("Vec::new", 0) => {
      let elem = match _expected { Some(Ty::Vec_(e)) => (**e).clone(), other => return Err(format!("Vec::new() of unknown element type ({:?})", other)) };
      let t = ty_term(&elem, &cx.cty_names())?;
      Ok(Some(Tr::pure(format!("(vec_new {})", t), Ty::Vec_(Box::new(elem)))))
    }
    ("ManuallyDrop::new", 1) => {
      let x = cx.expr(args[0], None)?;
      let ty = Ty::ManuallyDrop(Box::new(x.ty.clone()));
      Ok(Some(Tr { code: x.code, ty, pure: x.pure }))
    }
    _ => Ok(None),
  }
}

/// `match x { 0 | 1 => a, _ => b }` on an integer scrutinee.
pub fn int_match(_cx: &mut Ctx, m: &syn::ExprMatch, _expected: Option<&Ty>) -> R<Tr> {
  Err(format!("unsupported match `{}`", quote::quote!(#m)))
}

pub fn method_call(cx: &mut Ctx, m: &syn::ExprMethodCall, expected: Option<&Ty>) -> R<Tr> {
  let name = m.method.to_string();
  let args: Vec<&syn::Expr> = m.args.iter().collect();
  // x.iter().all(|p| <B as CheckedBitPattern>::is_valid_bit_pattern(p))
  if (name == "all" || name == "any") && args.len() == 1 {
    if let syn::Expr::MethodCall(inner) = &*m.receiver {
      if inner.method == "iter" && inner.args.is_empty() {
        let s = cx.expr(&inner.receiver, None)?;
        let elem = s.ty.slice_elem().ok_or("iter() on a non-slice")?.clone();
        let (b, negated) = closure_is_valid(args[0])?;
        if !cx.cty_names().contains(&b) {
          return Err("all/any closure over a non-checked parameter".into());
        }
        if elem != Ty::Bits(b.clone()) {
          return Err(format!("all/any over elements of type {:?} validated as {}", elem, b));
        }
        if !s.pure {
          return Err("iter() on an impure operand".into());
        }
        let f = if name == "all" { "all_elems" } else { "any_elems" };
        let pred = if negated { format!("(fun t_x => negb (c_valid {} t_x))", b) } else { format!("(c_valid {})", b) };
        return Ok(Tr::pure(format!("({} ENV (c_bits {}) {} {})", f, b, s.code, pred), Ty::Bool));
      }
    }
    return Err("unsupported all/any".into());
  }
  let recv = cx.expr(&m.receiver, None)?;
  let _ = expected;
  match (name.as_str(), args.len()) {
    ("len", 0) if recv.ty.is_sliceptr() => {
      if !recv.pure { return Err("len() of impure operand".into()); }
      Ok(Tr::pure(format!("(slen {})", recv.code), Ty::Usize))
    }
    ("as_ptr", 0) | ("as_mut_ptr", 0) if recv.ty.is_sliceptr() => {
      if !recv.pure { return Err("as_ptr() of impure operand".into()); }
      let elem = recv.ty.slice_elem().unwrap().clone();
      Ok(Tr::pure(format!("(sptr {})", recv.code), Ty::Ref(Box::new(elem))))
    }
    ("read_unaligned", 0) | ("read", 0) => {
      let pointee = recv.ty.pointee().ok_or("read of a non-pointer")?.clone();
      if !matches!(pointee, Ty::Param(_) | Ty::Bits(_)) {
        return Err(format!("read of pointee {:?}", pointee));
      }
      if !recv.pure { return Err("read of impure operand".into()); }
      let t = ty_term(&pointee, &cx.cty_names())?;
      let f = if name == "read" { "read_aligned" } else { "read_unaligned" };
      Ok(Tr::eff(format!("({} ENV {} {})", f, t, recv.code), pointee))
    }
    ("align_to", 0) | ("align_to_mut", 0) if recv.ty.is_sliceptr() => {
      // <[T]>::align_to::<U>(): core's split, modelled in Model/StdSlice.v
      let t = recv.ty.slice_elem().unwrap().clone();
      let mut u = None;
      if let Some(tf) = &m.turbofish {
        for a in &tf.args { if let syn::GenericArgument::Type(ty) = a { u = Some(cx.syn_ty_pub(ty)?); } }
      }
      let u = u.ok_or("align_to without a turbofish")?;
      if !recv.pure { return Err("align_to of impure operand".into()); }
      let (tt, ut) = (ty_term(&t, &cx.cty_names())?, ty_term(&u, &cx.cty_names())?);
      let st = |e: &Ty| Ty::Ref(Box::new(Ty::SliceOf(Box::new(e.clone()))));
      Ok(Tr::pure(format!("(slice_align_to {} {} {})", tt, ut, recv.code), Ty::Tuple(vec![st(&t), st(&u), st(&t)])))
    }
    ("align_offset", 1) => {
      let a = cx.expr(args[0], Some(&Ty::Usize))?;
      match recv.ty.pointee() {
        Some(Ty::Unit) => {}
        other => return Err(format!("align_offset on a pointer to {:?}", other)),
      }
      if !recv.pure || !a.pure { return Err("align_offset of impure operands".into()); }
      Ok(Tr::eff(format!("(align_offset_zst {} {})", recv.code, a.code), Ty::Usize))
    }
    _ => alloc_vocab_method(cx, m, recv, &name, &args),
  }
}

pub fn alloc_vocab_method(cx: &mut Ctx, m: &syn::ExprMethodCall, recv: Tr, name: &str,
                          args: &[&syn::Expr]) -> R<Tr> {
  if recv.ty.is_container() && args.is_empty() {
    match name {
      "len" => { if !recv.pure { return Err("len() of impure operand".into()); } return Ok(Tr::pure(format!("(clen {})", recv.code), Ty::Usize)); }
      "capacity" => { if !recv.pure { return Err("capacity() of impure operand".into()); } return Ok(Tr::pure(format!("(ccap {})", recv.code), Ty::Usize)); }
      "as_mut_ptr" | "as_ptr" => {
        let elem = recv.ty.cont_elem().ok_or("as_ptr of a container without element type")?.clone();
        return Ok(Tr { code: recv.code, ty: Ty::RawCont(Box::new(elem)), pure: recv.pure });
      }
      _ => {}
    }
  }
  // input.box_bytes_of() on a Box<T>, `T: sealed::BoxBytesOf + ?Sized`: the impl for T (sized) or for [T]
  if name == "box_bytes_of" && args.is_empty() {
    if let Ty::Box_(t) = &recv.ty {
      if let Ty::Param(tn) = &**t {
        if cx.generics.iter().any(|g| &g.name == tn && g.maybe_unsized) {
          for c in ["box_bytes_of_sized", "box_bytes_of_slice"] { cx.callees.push(c.into()); }
          let tn = tn.clone();
          let (code, _) = cx.seq_pub(vec![recv], |n| (format!(
            "(if unsized_{t} then box_bytes_of_slice ENV {t} {x} else box_bytes_of_sized ENV {t} {x})", t = tn, x = n[0]), false));
          return Ok(Tr::eff(code, Ty::BoxBytes));
        }
      }
    }
  }
  if args.len() == 1 && recv.pure {
    match (&recv.ty, name) {
      (Ty::Usize, "checked_div") | (Ty::Usize, "checked_rem") => {
        let y = cx.expr(args[0], Some(&Ty::Usize))?;
        if !y.pure { return Err("checked_div of an impure operand".into()); }
        let op = if name == "checked_div" { "/" } else { "mod" };
        return Ok(Tr::pure(format!("(if {} =? 0 then None else Some ({} {} {}))", y.code, recv.code, op, y.code), Ty::Option(Box::new(Ty::Usize))));
      }
      (Ty::Option(t), "unwrap_or") => {
        let d = cx.expr(args[0], Some(&**t))?;
        if !d.pure { return Err("unwrap_or of an impure default".into()); }
        return Ok(Tr::pure(format!("(match {} with Some t_v => t_v | None => {} end)", recv.code, d.code), (**t).clone()));
      }
      _ => {}
    }
  }
  if args.is_empty() && recv.pure {
    if let (Ty::Box_(t), "into_vec") = (&recv.ty, name) {
      if let Ty::SliceOf(e) = &**t {
        let et = ty_term(e, &cx.cty_names())?;
        return Ok(Tr::pure(format!("(box_into_vec {} {})", et, recv.code), Ty::Vec_(e.clone())));
      }
    }
    match (&recv.ty, name) {
      (Ty::Addr(_), "is_null") => return Ok(Tr::pure(format!("({} =? 0)", recv.code), Ty::Bool)),
      (Ty::Layout, "size") => return Ok(Tr::pure(format!("(l_size {})", recv.code), Ty::Usize)),
      (Ty::Layout, "align") => return Ok(Tr::pure(format!("(l_align {})", recv.code), Ty::Usize)),
      (Ty::Addr(_), "as_ptr") => return Ok(recv),
      (Ty::BoxBytes, "into_raw_parts") => {
        return Ok(Tr::pure(format!("(bb_ptr {}, bb_layout {})", recv.code, recv.code),
                           Ty::Tuple(vec![Ty::Addr(Box::new(Ty::U8)), Ty::Layout])));
      }
      _ => {}
    }
  }
  // r.unwrap_or_else(|e| something_went_wrong("f", e))
  if name == "unwrap_or_else" && args.len() == 1 {
    if let (Ty::Result(ok, err), syn::Expr::Closure(c)) = (&recv.ty, args[0]) {
      if c.inputs.len() == 1 {
        if let syn::Pat::Ident(pi) = &c.inputs[0] {
          let depth = cx.vars.len();
          cx.vars.push((pi.ident.to_string(), (**err).clone()));
          let body = cx.expr(&c.body, Some(&**ok));
          cx.vars.truncate(depth);
          let body = body?;
          let v = cx.fresh_pub("x");
          let code = format!("({} <- {} ;; match {} with Ok t_v => Ret t_v | Err {} => {} end)", v, recv.lifted(), v, vname(&pi.ident.to_string()), body.lifted());
          return Ok(Tr::eff(code, (**ok).clone()));
        }
      }
    }
  }
  // try_f(x).map_err(|(e, _v)| e).unwrap()
  if name == "unwrap" && args.is_empty() {
    if let Ty::Result(ok, err) = &recv.ty {
      if **err == Ty::Unit {
        let v = cx.fresh_pub("x");
        let code = format!("({} <- {} ;; match {} with Ok t_v => Ret t_v | Err _ => Panic (W_unwrap EUnit) end)", v, recv.lifted(), v);
        return Ok(Tr::eff(code, (**ok).clone()));
      }
      if **err == Ty::PErr {
        let v = cx.fresh_pub("x");
        let code = format!("({} <- {} ;; match {} with Ok t_v => Ret t_v | Err t_e => Panic (W_unwrap (EP t_e)) end)", v, recv.lifted(), v);
        return Ok(Tr::eff(code, (**ok).clone()));
      }
    }
  }
  if name == "map_err" && args.len() == 1 {
    // .map_err(CheckedCastError::PodCastError): the conversion `?` would apply
    if let (Ty::Result(ok, err), syn::Expr::Path(fp)) = (&recv.ty, args[0]) {
      let f: Vec<String> = fp.path.segments.iter().map(|s| s.ident.to_string()).collect();
      if **err == Ty::PErr && f.last().map(|x| x == "PodCastError").unwrap_or(false) && (f.len() == 1 || f[f.len() - 2] == "CheckedCastError") {
        let v = cx.fresh_pub("x");
        let code = format!("({} <- {} ;; Ret (match {} with Ok t_v => Ok t_v | Err t_e => Err (PodCastError t_e) end))", v, recv.lifted(), v);
        return Ok(Tr::eff(code, Ty::Result(ok.clone(), Box::new(Ty::CErr))));
      }
    }
    // .map_err(|_| ()) on a Result whose error already carries nothing
    if let (Ty::Result(_, err), syn::Expr::Closure(c)) = (&recv.ty, args[0]) {
      let unit_body = matches!(&*c.body, syn::Expr::Tuple(t) if t.elems.is_empty());
      if **err == Ty::Unit && c.inputs.len() == 1 && matches!(&c.inputs[0], syn::Pat::Wild(_)) && unit_body {
        return Ok(recv);
      }
    }
    if let (Ty::Result(ok, err), syn::Expr::Closure(c)) = (&recv.ty, args[0]) {
      // |(e, _v)| e : keep the error, drop the container that came back with it
      let is_fst = c.inputs.len() == 1 && matches!(&c.inputs[0], syn::Pat::Tuple(t) if t.elems.len() == 2
        && matches!((&t.elems[0], &*c.body), (syn::Pat::Ident(a), syn::Expr::Path(b)) if b.path.is_ident(&a.ident)));
      if let (true, Ty::Tuple(parts)) = (is_fst, &**err) {
        if parts.len() == 2 && parts[0] == Ty::PErr {
          let v = cx.fresh_pub("x");
          let code = format!("({} <- {} ;; Ret (match {} with Ok t_v => Ok t_v | Err (t_e, _) => Err t_e end))", v, recv.lifted(), v);
          return Ok(Tr::eff(code, Ty::Result(ok.clone(), Box::new(Ty::PErr))));
        }
      }
    }
  }
  Err(format!("unsupported method .{}() on {:?} in `{}`", name, recv.ty, quote::quote!(#m)))
}

fn closure_is_valid(e: &syn::Expr) -> R<(String, bool)> {
  // |p| <B as CheckedBitPattern>::is_valid_bit_pattern(p)   or its negation  |p| !<B as ..>::is_valid_bit_pattern(p)
  if let syn::Expr::Closure(c) = e {
    if c.inputs.len() == 1 {
      let mut body = &*c.body;
      let mut negated = false;
      loop {
        match body {
          syn::Expr::Paren(p) => body = &p.expr,
          syn::Expr::Unary(u) if matches!(u.op, syn::UnOp::Not(_)) => { negated = !negated; body = &u.expr; }
          _ => break,
        }
      }
      if let (syn::Pat::Ident(pi), syn::Expr::Call(call)) = (&c.inputs[0], body) {
        if let syn::Expr::Path(fp) = &*call.func {
          if let Some(q) = &fp.qself {
            let last = fp.path.segments.last().map(|s| s.ident.to_string()).unwrap_or_default();
            if last == "is_valid_bit_pattern" && call.args.len() == 1 {
              if let syn::Expr::Path(ap) = &call.args[0] {
                if ap.path.is_ident(&pi.ident) {
                  if let syn::Type::Path(tp) = &*q.ty {
                    if let Some(id) = tp.path.get_ident() {
                      return Ok((id.to_string(), negated));
                    }
                  }
                }
              }
            }
          }
        }
      }
    }
  }
  Err(format!("unsupported closure `{}`", quote::quote!(#e)))
}

/// `impl<A, B> Cast<A, B> { const NAME: () = assert!(cond); }`
pub fn translate_const_asserts(im: &syn::ItemImpl) -> R<Vec<ItemOut>> {
  let mut out = vec![];
  let mut generics = vec![];
  for gp in &im.generics.params {
    if let syn::GenericParam::Type(tp) = gp {
      generics.push(crate::Generic { name: tp.ident.to_string(), is_cty: false, maybe_unsized: false });
    }
  }
  static MS: ModuleSpec = ModuleSpec { name: "Must", file: "src/must.rs", skip: &[], imports: &[], theories: &[] };
  let sigs: HashMap<(String, String), FnSig> = HashMap::new();
  for it in &im.items {
    match it {
      syn::ImplItem::Const(c) => {
        let mac = match &c.expr {
          syn::Expr::Macro(m) if m.mac.path.is_ident("assert") => &m.mac,
          _ => {
            out.push(ItemOut { name: c.ident.to_string(), kind: "const".into(), line_start: c.span().start().line, line_end: c.span().end().line,
              cfg: vec![], status: "failed: not an assert!".into(), code: String::new(), callees: vec![] });
            continue;
          }
        };
        let parser = syn::punctuated::Punctuated::<syn::Expr, syn::Token![,]>::parse_terminated;
        let args = syn::parse::Parser::parse2(parser, mac.tokens.clone()).map_err(|e| e.to_string())?;
        let cond = args.first().ok_or("assert!()")?;
        let mut cx = Ctx {
          ms: &MS, sigs: &sigs, generics: generics.clone(), vars: vec![], ret: Ty::Unit, fresh: 0,
          callees: vec![], self_ty: None, aliases: vec![],
        };
        let t = match cx.expr(cond, Some(&Ty::Bool)) {
          Ok(t) if t.ty == Ty::Bool => t,
          other => {
            let why = match other { Err(e) => e, Ok(_) => "condition is not bool".to_string() };
            out.push(ItemOut { name: c.ident.to_string(), kind: "const".into(), line_start: c.span().start().line, line_end: c.span().end().line,
              cfg: vec![], status: format!("failed: {}", why), code: String::new(), callees: vec![] });
            continue;
          }
        };
        let binders: Vec<String> = generics.iter().map(|g| format!("({} : ty)", g.name)).collect();
        let code = format!("Definition {} {} : outcome bool :=\n  {}.", c.ident, binders.join(" "), t.lifted());
        out.push(ItemOut {
          name: c.ident.to_string(), kind: "const".into(), line_start: c.span().start().line,
          line_end: c.span().end().line, cfg: vec![], status: "translated".into(), code, callees: vec![],
        });
      }
      _ => return Err("unexpected item in impl Cast".into()),
    }
  }
  Ok(out)
}

/// The default methods of a trait `Name<Inner: ?Sized>` as functions over the type parameters
/// `Self` and `Inner`; a parameter that a method's where-clause does not make `Sized` gets a flag
/// `unsized_<P>` (its pointers may be fat).
pub fn translate_trait_methods(ms: &ModuleSpec, file: &syn::File, sigs: &HashMap<(String, String), FnSig>,
                               trait_name: &str) -> Result<Vec<ItemOut>, String> {
  let mut out = vec![];
  let tr = file.items.iter().find_map(|it| match it { syn::Item::Trait(t) if t.ident == trait_name => Some(t), _ => None })
    .ok_or_else(|| format!("trait {} not found", trait_name))?;
  let mut tparams: Vec<(String, bool)> = vec![("Self".to_string(), true)];   // (name, ?Sized)
  for gp in &tr.generics.params {
    if let syn::GenericParam::Type(tp) = gp {
      let q = tp.bounds.iter().any(|b| matches!(b, syn::TypeParamBound::Trait(tb) if matches!(tb.modifier, syn::TraitBoundModifier::Maybe(_))));
      tparams.push((tp.ident.to_string(), q));
    }
  }
  let gnames: Vec<String> = tparams.iter().map(|(n, _)| n.clone()).collect();
  for ti in &tr.items {
    let m = match ti { syn::TraitItem::Fn(m) => m, _ => continue };
    let name = m.sig.ident.to_string();
    let (ls, le) = (m.span().start().line, m.span().end().line);
    let body = match &m.default { Some(b) => b, None => return Err(format!("trait method {} has no default body", name)) };
    // where Self: Sized, Inner: Sized
    let mut sized: Vec<String> = vec![];
    if let Some(w) = &m.sig.generics.where_clause {
      for pr in &w.predicates {
        if let syn::WherePredicate::Type(pt) = pr {
          let is_sized = pt.bounds.iter().any(|b| matches!(b, syn::TypeParamBound::Trait(tb) if tb.path.is_ident("Sized")));
          if let (true, syn::Type::Path(tp)) = (is_sized, &pt.bounded_ty) {
            if let Some(id) = tp.path.get_ident() { sized.push(id.to_string()); }
          }
        }
      }
    }
    let generics: Vec<crate::Generic> = tparams.iter().map(|(n, q)| crate::Generic {
      name: n.clone(), is_cty: false, maybe_unsized: *q && !sized.contains(n) }).collect();
    let r: R<(String, Vec<String>)> = (|| {
      let mut params = vec![];
      for inp in &m.sig.inputs {
        match inp {
          syn::FnArg::Typed(pt) => {
            let n = match &*pt.pat { syn::Pat::Ident(pi) => pi.ident.to_string(), _ => return Err("non-identifier parameter".to_string()) };
            params.push((n, ty_from_syn(&pt.ty, &gnames)?));
          }
          syn::FnArg::Receiver(_) => return Err("method receiver".to_string()),
        }
      }
      let ret = match &m.sig.output { syn::ReturnType::Default => Ty::Unit, syn::ReturnType::Type(_, t) => ty_from_syn(t, &gnames)? };
      let sig = FnSig { module: ms.name.to_string(), name: name.clone(), generics: generics.clone(), params, ret };
      crate::expr::translate_fn_with(ms, &sig, body, sigs, None, &name)
    })();
    let cfg = crate::attr_cfgs_pub(&m.attrs);
    match r {
      Ok((code, callees)) => out.push(ItemOut { name, kind: "fn".into(), line_start: ls, line_end: le, cfg, status: "translated".into(), code, callees }),
      Err(e) => out.push(ItemOut { name, kind: "fn".into(), line_start: ls, line_end: le, cfg, status: format!("failed: {}", e), code: String::new(), callees: vec![] }),
    }
  }
  if out.is_empty() { return Err(format!("trait {} has no default methods", trait_name)); }
  Ok(out)
}

/// The trait-impl methods of src/allocation.rs that carry BoxBytes' arithmetic:
/// `impl BoxBytesOf for T / [T]`, `impl FromBoxBytes for T / [T]`, `impl Drop for BoxBytes`.
pub fn translate_alloc_impls(ms: &ModuleSpec, file: &syn::File,
                             sigs: &HashMap<(String, String), FnSig>) -> Result<Vec<ItemOut>, String> {
  let mut out = vec![];
  let mut seen: Vec<String> = vec![];
  for it in &file.items {
    let im = match it { syn::Item::Impl(im) => im, _ => continue };
    let tr = match &im.trait_ { Some((_, p, _)) => p.segments.last().map(|s| s.ident.to_string()).unwrap_or_default(), None => "<inherent>".to_string() };
    if !matches!(tr.as_str(), "BoxBytesOf" | "FromBoxBytes" | "Drop" | "Deref" | "DerefMut" | "<inherent>") { continue; }
    let gnames: Vec<String> = im.generics.params.iter().filter_map(|g| match g { syn::GenericParam::Type(t) => Some(t.ident.to_string()), _ => None }).collect();
    let self_ty = match ty_from_syn(&im.self_ty, &gnames) { Ok(t) => t, Err(e) => { if tr == "<inherent>" { continue; } else { return Err(e); } } };
    let suffix = match (&tr[..], &self_ty) {
      ("Drop", Ty::BoxBytes) => "",
      ("Drop", _) => continue,
      ("Deref", Ty::BoxBytes) | ("DerefMut", Ty::BoxBytes) | ("<inherent>", Ty::BoxBytes) => "",
      ("Deref", _) | ("DerefMut", _) | ("<inherent>", _) => continue,
      (_, Ty::Param(_)) => "_sized",
      (_, Ty::SliceOf(_)) => "_slice",
      (_, Ty::Str) => {
        out.push(ItemOut { name: "box_bytes_of_str".into(), kind: "fn".into(), line_start: im.span().start().line,
          line_end: im.span().end().line, cfg: vec![], status: "skipped: delegates to the [u8] impl through std's into_boxed_bytes".into(),
          code: String::new(), callees: vec![] });
        continue;
      }
      (_, other) => return Err(format!("impl {} for {:?}", tr, other)),
    };
    for ii in &im.items {
      let m = match ii { syn::ImplItem::Fn(m) => m, _ => continue };
      let base = m.sig.ident.to_string();
      let coq_name = match tr.as_str() {
        "Drop" => "box_bytes_drop".to_string(),
        "Deref" | "DerefMut" => format!("box_bytes_{}", base),
        "<inherent>" => format!("box_bytes_{}", base),
        _ => format!("{}{}", base, suffix),
      };
      let (ls, le) = (m.span().start().line, m.span().end().line);
      seen.push(coq_name.clone());
      let r = translate_impl_method(ms, sigs, &gnames, &self_ty, m, &coq_name, tr == "Drop");
      match r {
        Ok((code, callees)) => out.push(ItemOut { name: coq_name, kind: "fn".into(), line_start: ls, line_end: le, cfg: vec![],
          status: "translated".into(), code, callees }),
        Err(e) => out.push(ItemOut { name: coq_name, kind: "fn".into(), line_start: ls, line_end: le, cfg: vec![],
          status: format!("failed: {}", e), code: String::new(), callees: vec![] }),
      }
    }
  }
  match translate_trait_methods(ms, file, sigs, "TransparentWrapperAlloc") {
    Ok(mut v) => out.append(&mut v),
    Err(e) => out.push(ItemOut { name: "TransparentWrapperAlloc".into(), kind: "trait".into(), line_start: 0, line_end: 0, cfg: vec![],
      status: format!("failed: {}", e), code: String::new(), callees: vec![] }),
  }
  for need in ["box_bytes_of_sized", "box_bytes_of_slice", "try_from_box_bytes_sized", "try_from_box_bytes_slice", "box_bytes_drop"] {
    if !seen.iter().any(|s| s == need) {
      out.push(ItemOut { name: need.to_string(), kind: "fn".into(), line_start: 0, line_end: 0, cfg: vec![],
        status: "failed: expected impl method not found in src/allocation.rs".into(), code: String::new(), callees: vec![] });
    }
  }
  Ok(out)
}

fn translate_impl_method(ms: &ModuleSpec, sigs: &HashMap<(String, String), FnSig>, gnames: &[String], self_ty: &Ty,
                         m: &syn::ImplItemFn, coq_name: &str, is_drop: bool) -> R<(String, Vec<String>)> {
  let mut g: Vec<String> = gnames.to_vec();
  g.push("Self".into());
  let mut sm = HashMap::new();
  sm.insert("Self".to_string(), self_ty.clone());
  let mut params = vec![];
  for inp in &m.sig.inputs {
    match inp {
      syn::FnArg::Receiver(r) => {
        // methods of BoxBytes itself take the value (the model is functional: &self / &mut self / self alike)
        let t = if is_drop || *self_ty == Ty::BoxBytes { Ty::BoxBytes } else { subst(&ty_from_syn(&r.ty, &g)?, &sm) };
        params.push(("self".to_string(), t));
      }
      syn::FnArg::Typed(pt) => {
        let n = match &*pt.pat { syn::Pat::Ident(pi) => pi.ident.to_string(), _ => return Err("non-identifier parameter".into()) };
        params.push((n, boxbytes_view(self_ty, subst(&ty_from_syn(&pt.ty, &g)?, &sm))));
      }
    }
  }
  let generics: Vec<crate::Generic> = gnames.iter().map(|n| crate::Generic { name: n.clone(), is_cty: false, maybe_unsized: false }).collect();
  if is_drop {
    // fn drop(&mut self) { if COND { unsafe { dealloc(P, L) }; } }  ==>  the dealloc call made, if any
    let mut cx = Ctx { ms, sigs, generics: generics.clone(), vars: params.clone(), ret: Ty::Unit, fresh: 0, callees: vec![], self_ty: Some(self_ty.clone()), aliases: vec![] };
    let stmts = &m.block.stmts;
    // two shapes: `if COND { dealloc(..) }`  and  `if NCOND { return; } dealloc(..)`
    let early_return = stmts.len() == 2 && matches!(&stmts[0], syn::Stmt::Expr(syn::Expr::If(i), _)
      if i.else_branch.is_none() && i.then_branch.stmts.len() == 1
         && matches!(&i.then_branch.stmts[0], syn::Stmt::Expr(syn::Expr::Return(r), _) if r.expr.is_none()));
    if stmts.len() != 1 && !early_return { return Err("drop: expected a single `if` (or a guard returning early, then the call)".into()); }
    let ife = match &stmts[0] { syn::Stmt::Expr(syn::Expr::If(i), _) => i, _ => return Err("drop: expected a single `if`".into()) };
    if ife.else_branch.is_some() || ife.then_branch.stmts.len() != 1 { return Err("drop: unexpected shape of the `if`".into()); }
    let mut inner = if early_return {
      match &stmts[1] { syn::Stmt::Expr(e, _) => e, _ => return Err("drop: unexpected statement".into()) }
    } else {
      match &ife.then_branch.stmts[0] { syn::Stmt::Expr(e, _) => e, _ => return Err("drop: unexpected statement".into()) }
    };
    loop {
      match inner {
        syn::Expr::Unsafe(u) if u.block.stmts.len() == 1 => match &u.block.stmts[0] { syn::Stmt::Expr(e, _) => inner = e, _ => return Err("drop: unexpected unsafe block".into()) },
        syn::Expr::Paren(p) => inner = &p.expr,
        _ => break,
      }
    }
    let call = match inner { syn::Expr::Call(c) => c, _ => return Err("drop: expected a dealloc call".into()) };
    let fname = match &*call.func { syn::Expr::Path(p) => p.path.segments.last().map(|s| s.ident.to_string()).unwrap_or_default(), _ => String::new() };
    if fname != "dealloc" || call.args.len() != 2 { return Err("drop: expected dealloc(ptr, layout)".into()); }
    let c = cx.expr(&ife.cond, Some(&Ty::Bool))?;
    let p = cx.expr(&call.args[0], None)?;
    let l = cx.expr(&call.args[1], None)?;
    if c.ty != Ty::Bool || !matches!(p.ty, Ty::Addr(_)) || l.ty != Ty::Layout || !c.pure || !p.pure || !l.pure {
      return Err("drop: operands of an unexpected type".into());
    }
    let code = if early_return {
      format!("Definition {} (ENV : env) (v_self : boxbytes) : outcome (option (N * layout)) :=\n  Ret (if {} then None else Some ({}, {})).", coq_name, c.code, p.code, l.code)
    } else {
      format!("Definition {} (ENV : env) (v_self : boxbytes) : outcome (option (N * layout)) :=\n  Ret (if {} then Some ({}, {}) else None).", coq_name, c.code, p.code, l.code)
    };
    return Ok((code, vec![]));
  }
  let ret = match &m.sig.output {
    syn::ReturnType::Default => Ty::Unit,
    syn::ReturnType::Type(_, t) => {
      // `&Self::Target` / `&mut Self::Target` of Deref for BoxBytes is `[u8]`
      let txt = quote::quote!(#t).to_string().replace(' ', "");
      if *self_ty == Ty::BoxBytes && (txt == "&Self::Target" || txt == "&mutSelf::Target") {
        Ty::Ref(Box::new(Ty::SliceOf(Box::new(Ty::U8))))
      } else {
        boxbytes_view(self_ty, subst(&ty_from_syn(t, &g)?, &sm))
      }
    }
  };
  let sig = FnSig { module: ms.name.to_string(), name: coq_name.to_string(), generics, params, ret };
  crate::expr::translate_fn_with(ms, &sig, &m.block, sigs, Some(self_ty.clone()), coq_name)
}

/// Inside BoxBytes' own methods a `NonNull<u8>` is the block's address, not a reference into the model's memory.
fn boxbytes_view(self_ty: &Ty, t: Ty) -> Ty {
  if *self_ty != Ty::BoxBytes { return t; }
  match t {
    Ty::Ref(p) if *p == Ty::U8 => Ty::Addr(Box::new(Ty::U8)),
    Ty::Tuple(v) => Ty::Tuple(v.into_iter().map(|x| boxbytes_view(self_ty, x)).collect()),
    Ty::Param(ref n) if n == "Self" => Ty::BoxBytes,
    other => other,
  }
}

pub fn emit_tables(_repo: &Path, _out: &Path) {}

#[allow(dead_code)]
fn unused(_: &str) -> String {
  vname("x")
}
