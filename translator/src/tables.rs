//! Vocabulary: std / core calls and methods mapped onto Base primitives; const assertions;
//! impl tables.
use std::collections::HashMap;
use std::path::Path;

use syn::spanned::Spanned;

use crate::expr::{vname, Ctx, Tr};
use crate::types::*;
use crate::{FnSig, ItemOut, ModuleSpec};

type R<T> = Result<T, String>;

pub fn size_of(cx: &mut Ctx, t: &Ty) -> R<Tr> {
  match t {
    // pointer types: thin pointers are one word, slice / str pointers two
    Ty::Ref(p) => Ok(Tr::pure(format!("(ptr_size {})", ptr_meta_term(cx, p)?), Ty::Usize)),
    _ => Ok(Tr::pure(format!("(sz {})", ty_term(t, &cx.cty_names())?), Ty::Usize)),
  }
}

fn ptr_meta_term(_cx: &Ctx, pointee: &Ty) -> R<String> {
  match pointee {
    Ty::SliceOf(_) | Ty::Str => Ok("true".into()),
    Ty::Param(n) => Ok(format!("(unsized_{})", n)),
    _ => Ok("false".into()),
  }
}

pub fn align_of(cx: &mut Ctx, t: &Ty) -> R<Tr> {
  Ok(Tr::pure(format!("(al {})", ty_term(t, &cx.cty_names())?), Ty::Usize))
}

pub fn size_of_val(cx: &mut Ctx, arg: &syn::Expr) -> R<Tr> {
  let a = cx.expr(arg, None)?;
  let elem = a.ty.slice_elem().ok_or_else(|| format!("size_of_val of {:?}", a.ty))?.clone();
  let et = ty_term(&elem, &cx.cty_names())?;
  let f = match &a.ty {
    Ty::Ref(_) => "size_of_val_slice",
    _ => return Err(format!("size_of_val of {:?}", a.ty)),
  };
  if !a.pure {
    return Err("size_of_val of an impure operand".into());
  }
  Ok(Tr::pure(format!("({} {} {})", f, et, a.code), Ty::Usize))
}

pub fn reborrow(cx: &mut Ctx, p: Tr, _expected: Option<&Ty>) -> R<Tr> {
  let pointee = p.ty.pointee().ok_or_else(|| format!("`&*` of a non-pointer {:?}", p.ty))?.clone();
  match &pointee {
    Ty::SliceOf(_) => {
      // &*slice_ptr : a reference to the same slice (the pointer already is a validated slice)
      Ok(p)
    }
    _ => {
      let t = ty_term(&pointee, &cx.cty_names())?;
      if !p.pure {
        return Err("`&*` of an impure operand".into());
      }
      Ok(Tr::eff(format!("(deref_as {} {})", t, p.code), Ty::Ref(Box::new(pointee))))
    }
  }
}

pub fn transmute_ptr(_cx: &mut Ctx, _v: Tr, _dst: Ty) -> R<Tr> {
  Err("transmute! of a pointer".into())
}

pub fn index_expr(_cx: &mut Ctx, _ix: &syn::ExprIndex, _borrow: bool) -> R<Tr> {
  Err("index expression".into())
}

pub fn field_expr(_cx: &mut Ctx, _f: &syn::ExprField) -> R<Tr> {
  Err("field expression".into())
}

pub fn struct_expr(_cx: &mut Ctx, _s: &syn::ExprStruct) -> R<Tr> {
  Err("struct literal".into())
}

pub fn std_call(_cx: &mut Ctx, _full: &str, _turbofish: &[Ty], _args: &[&syn::Expr],
                _expected: Option<&Ty>) -> R<Option<Tr>> {
  Ok(None)
}

/// `match x { 0 | 1 => a, _ => b }` on an integer scrutinee.
pub fn int_match(_cx: &mut Ctx, m: &syn::ExprMatch, _expected: Option<&Ty>) -> R<Tr> {
  Err(format!("unsupported match `{}`", quote::quote!(#m)))
}

pub fn method_call(cx: &mut Ctx, m: &syn::ExprMethodCall, expected: Option<&Ty>) -> R<Tr> {
  let name = m.method.to_string();
  let args: Vec<&syn::Expr> = m.args.iter().collect();
  // x.iter().all(|p| <B as CheckedBitPattern>::is_valid_bit_pattern(p))
  if (name == "all" || name == "any") && args.len() == 1 {
    if let syn::Expr::MethodCall(inner) = &*m.receiver {
      if inner.method == "iter" && inner.args.is_empty() {
        let s = cx.expr(&inner.receiver, None)?;
        let elem = s.ty.slice_elem().ok_or("iter() on a non-slice")?.clone();
        let b = closure_is_valid(args[0])?;
        if !cx.cty_names().contains(&b) {
          return Err("all/any closure over a non-checked parameter".into());
        }
        if elem != Ty::Bits(b.clone()) {
          return Err(format!("all/any over elements of type {:?} validated as {}", elem, b));
        }
        if !s.pure {
          return Err("iter() on an impure operand".into());
        }
        let f = if name == "all" { "all_elems" } else { "any_elems" };
        return Ok(Tr::pure(format!("({} ENV (c_bits {}) {} (c_valid {}))", f, b, s.code, b), Ty::Bool));
      }
    }
    return Err("unsupported all/any".into());
  }
  let recv = cx.expr(&m.receiver, None)?;
  let _ = expected;
  match (name.as_str(), args.len()) {
    ("len", 0) if recv.ty.is_sliceptr() => {
      if !recv.pure { return Err("len() of impure operand".into()); }
      Ok(Tr::pure(format!("(slen {})", recv.code), Ty::Usize))
    }
    ("as_ptr", 0) | ("as_mut_ptr", 0) if recv.ty.is_sliceptr() => {
      if !recv.pure { return Err("as_ptr() of impure operand".into()); }
      let elem = recv.ty.slice_elem().unwrap().clone();
      Ok(Tr::pure(format!("(sptr {})", recv.code), Ty::Ref(Box::new(elem))))
    }
    ("read_unaligned", 0) | ("read", 0) => {
      let pointee = recv.ty.pointee().ok_or("read of a non-pointer")?.clone();
      if !matches!(pointee, Ty::Param(_) | Ty::Bits(_)) {
        return Err(format!("read of pointee {:?}", pointee));
      }
      if !recv.pure { return Err("read of impure operand".into()); }
      let t = ty_term(&pointee, &cx.cty_names())?;
      let f = if name == "read" { "read_aligned" } else { "read_unaligned" };
      Ok(Tr::eff(format!("({} ENV {} {})", f, t, recv.code), pointee))
    }
    ("align_offset", 1) => {
      let a = cx.expr(args[0], Some(&Ty::Usize))?;
      match recv.ty.pointee() {
        Some(Ty::Unit) => {}
        other => return Err(format!("align_offset on a pointer to {:?}", other)),
      }
      if !recv.pure || !a.pure { return Err("align_offset of impure operands".into()); }
      Ok(Tr::eff(format!("(align_offset_zst {} {})", recv.code, a.code), Ty::Usize))
    }
    _ => alloc_vocab_method(cx, m, recv, &name, &args),
  }
}

pub fn alloc_vocab_method(_cx: &mut Ctx, m: &syn::ExprMethodCall, recv: Tr, name: &str,
                          _args: &[&syn::Expr]) -> R<Tr> {
  Err(format!("unsupported method .{}() on {:?} in `{}`", name, recv.ty, quote::quote!(#m)))
}

fn closure_is_valid(e: &syn::Expr) -> R<String> {
  // |p| <B as CheckedBitPattern>::is_valid_bit_pattern(p)
  if let syn::Expr::Closure(c) = e {
    if c.inputs.len() == 1 {
      if let (syn::Pat::Ident(pi), syn::Expr::Call(call)) = (&c.inputs[0], &*c.body) {
        if let syn::Expr::Path(fp) = &*call.func {
          if let Some(q) = &fp.qself {
            let last = fp.path.segments.last().map(|s| s.ident.to_string()).unwrap_or_default();
            if last == "is_valid_bit_pattern" && call.args.len() == 1 {
              if let syn::Expr::Path(ap) = &call.args[0] {
                if ap.path.is_ident(&pi.ident) {
                  if let syn::Type::Path(tp) = &*q.ty {
                    if let Some(id) = tp.path.get_ident() {
                      return Ok(id.to_string());
                    }
                  }
                }
              }
            }
          }
        }
      }
    }
  }
  Err(format!("unsupported closure `{}`", quote::quote!(#e)))
}

/// `impl<A, B> Cast<A, B> { const NAME: () = assert!(cond); }`
pub fn translate_const_asserts(im: &syn::ItemImpl) -> R<Vec<ItemOut>> {
  let mut out = vec![];
  let mut generics = vec![];
  for gp in &im.generics.params {
    if let syn::GenericParam::Type(tp) = gp {
      generics.push(crate::Generic { name: tp.ident.to_string(), is_cty: false });
    }
  }
  static MS: ModuleSpec = ModuleSpec { name: "Must", file: "src/must.rs", skip: &[], imports: &[] };
  let sigs: HashMap<(String, String), FnSig> = HashMap::new();
  for it in &im.items {
    match it {
      syn::ImplItem::Const(c) => {
        let mac = match &c.expr {
          syn::Expr::Macro(m) if m.mac.path.is_ident("assert") => &m.mac,
          _ => return Err(format!("const {} is not an assert!", c.ident)),
        };
        let parser = syn::punctuated::Punctuated::<syn::Expr, syn::Token![,]>::parse_terminated;
        let args = syn::parse::Parser::parse2(parser, mac.tokens.clone()).map_err(|e| e.to_string())?;
        let cond = args.first().ok_or("assert!()")?;
        let mut cx = Ctx {
          ms: &MS, sigs: &sigs, generics: generics.clone(), vars: vec![], ret: Ty::Unit, fresh: 0,
          callees: vec![], self_ty: None,
        };
        let t = cx.expr(cond, Some(&Ty::Bool))?;
        if t.ty != Ty::Bool {
          return Err(format!("const {}: condition is not bool", c.ident));
        }
        let binders: Vec<String> = generics.iter().map(|g| format!("({} : ty)", g.name)).collect();
        let code = format!("Definition {} {} : outcome bool :=\n  {}.", c.ident, binders.join(" "), t.lifted());
        out.push(ItemOut {
          name: c.ident.to_string(), kind: "const".into(), line_start: c.span().start().line,
          line_end: c.span().end().line, cfg: vec![], status: "translated".into(), code, callees: vec![],
        });
      }
      _ => return Err("unexpected item in impl Cast".into()),
    }
  }
  Ok(out)
}

pub fn translate_alloc_impls(_ms: &ModuleSpec, _file: &syn::File,
                             _sigs: &HashMap<(String, String), FnSig>) -> Result<Vec<ItemOut>, String> {
  Ok(vec![])
}

pub fn emit_tables(_repo: &Path, _out: &Path) {}

#[allow(dead_code)]
fn unused(_: &str) -> String {
  vname("x")
}
