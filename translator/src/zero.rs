//! write_zeroes / fill_zeroes of src/lib.rs -> statements of Model/DropLang.v (Gen/Zero.v).
//!
//! These two functions are about WHEN destructors run (a drop guard that zeroes the value even if the old
//! value's destructor panics), which the `outcome` monad of the other modules cannot express.  The
//! translation here is purely syntactic: every statement becomes a constructor of `zstmt`; scopes, guard
//! liveness, moves by `drop` / `mem::forget` and unwinding are given their meaning by the interpreter in
//! Coq, not by this translator.  Anything outside the statement vocabulary fails the item (fail closed).
use std::collections::HashMap;

use syn::spanned::Spanned;

use crate::ItemOut;

pub const ZERO_FNS: &[&str] = &["write_zeroes", "fill_zeroes"];

type R<T> = Result<T, String>;

fn path_last(p: &syn::Path) -> String {
  p.segments.last().map(|s| s.ident.to_string()).unwrap_or_default()
}
fn path_full(p: &syn::Path) -> String {
  p.segments.iter().map(|s| s.ident.to_string()).collect::<Vec<_>>().join("::")
}
fn q(s: &str) -> String {
  format!("\"{}\"", s)
}

struct Z<'a> {
  /// local structs of this function that have a Drop impl: name -> translated drop body
  guards: &'a HashMap<String, String>,
  /// local tuple structs seen (with or without a Drop impl yet)
  structs: &'a [String],
  callees: Vec<String>,
}

impl<'a> Z<'a> {
  fn expr(&mut self, e: &syn::Expr) -> R<String> {
    match e {
      syn::Expr::Paren(p) => self.expr(&p.expr),
      syn::Expr::Group(g) => self.expr(&g.expr),
      syn::Expr::Unsafe(u) if u.block.stmts.len() == 1 => match &u.block.stmts[0] {
        syn::Stmt::Expr(x, None) => self.expr(x),
        _ => Err("unsafe block used as a value with statements in it".into()),
      },
      // pointer casts and reborrows do not change which cells are meant
      syn::Expr::Cast(c) => self.expr(&c.expr),
      syn::Expr::Reference(r) => self.expr(&r.expr),
      syn::Expr::Unary(u) if matches!(u.op, syn::UnOp::Deref(_)) => self.expr(&u.expr),
      syn::Expr::Path(p) if p.qself.is_none() && p.path.segments.len() == 1 => Ok(format!("(EVar {})", q(&path_last(&p.path)))),
      syn::Expr::Field(f) => match &f.member {
        syn::Member::Unnamed(i) if i.index == 0 => Ok(format!("(EField0 {})", self.expr(&f.base)?)),
        _ => Err(format!("field access `{}`", quote::quote!(#f))),
      },
      syn::Expr::MethodCall(m) if m.args.is_empty() => {
        let r = self.expr(&m.receiver)?;
        match m.method.to_string().as_str() {
          "len" => Ok(format!("(ELen {})", r)),
          "as_mut_ptr" | "as_ptr" => Ok(format!("(EAsPtr {})", r)),
          other => Err(format!("method .{}()", other)),
        }
      }
      syn::Expr::Binary(b) if matches!(b.op, syn::BinOp::Add(_) | syn::BinOp::Sub(_)) => {
        let (x, y) = (self.expr(&b.left)?, self.expr(&b.right)?);
        Ok(format!("({} {} {})", if matches!(b.op, syn::BinOp::Add(_)) { "EAdd" } else { "ESub" }, x, y))
      }
      syn::Expr::Lit(l) => match &l.lit {
        syn::Lit::Int(i) => Ok(format!("(ENum {})", i.base10_parse::<u32>().map_err(|e| e.to_string())?)),
        _ => Err("non-integer literal".into()),
      },
      _ => Err(format!("expression `{}`", quote::quote!(#e))),
    }
  }

  fn byte_lit(&self, e: &syn::Expr) -> R<String> {
    match e {
      syn::Expr::Lit(l) => match &l.lit {
        syn::Lit::Int(i) => Ok(format!("{}%N", i.base10_parse::<u8>().map_err(|e| e.to_string())?)),
        _ => Err("write_bytes with a non-integer byte".into()),
      },
      syn::Expr::Paren(p) => self.byte_lit(&p.expr),
      syn::Expr::Cast(c) => self.byte_lit(&c.expr),
      _ => Err("write_bytes with a byte that is not a literal".into()),
    }
  }

  fn block(&mut self, b: &syn::Block) -> R<String> {
    let mut out = vec![];
    for s in &b.stmts {
      if let Some(t) = self.stmt(s)? {
        out.push(t);
      }
    }
    Ok(format!("[{}]", out.join("; ")))
  }

  /// a condition on the element type: needs_drop::<T>(), size_of::<T>() ==/!= 0, and their ! && || combinations
  fn cond(&self, e: &syn::Expr) -> Option<String> {
    fn is_zero(e: &syn::Expr) -> bool {
      match e { syn::Expr::Lit(l) => matches!(&l.lit, syn::Lit::Int(i) if i.base10_digits() == "0"), syn::Expr::Paren(p) => is_zero(&p.expr), _ => false }
    }
    fn is_size_of(e: &syn::Expr) -> bool {
      match e {
        syn::Expr::Paren(p) => is_size_of(&p.expr),
        syn::Expr::Call(c) if c.args.is_empty() => matches!(&*c.func, syn::Expr::Path(p) if path_last(&p.path) == "size_of"),
        _ => false,
      }
    }
    match e {
      syn::Expr::Paren(p) => self.cond(&p.expr),
      syn::Expr::Unary(u) if matches!(u.op, syn::UnOp::Not(_)) => self.cond(&u.expr).map(|c| format!("(CNot {})", c)),
      syn::Expr::Call(c) if c.args.is_empty() => match &*c.func {
        syn::Expr::Path(p) if path_last(&p.path) == "needs_drop" => Some("CNeedsDrop".into()),
        _ => None,
      },
      syn::Expr::Binary(b) => match b.op {
        syn::BinOp::And(_) => Some(format!("(CAnd {} {})", self.cond(&b.left)?, self.cond(&b.right)?)),
        syn::BinOp::Or(_) => Some(format!("(COr {} {})", self.cond(&b.left)?, self.cond(&b.right)?)),
        syn::BinOp::Eq(_) | syn::BinOp::Ne(_) => {
          let sz = (is_size_of(&b.left) && is_zero(&b.right)) || (is_zero(&b.left) && is_size_of(&b.right));
          if !sz { return None; }
          Some(if matches!(b.op, syn::BinOp::Eq(_)) { "CSizeZero".into() } else { "(CNot CSizeZero)".into() })
        }
        _ => None,
      },
      _ => None,
    }
  }

  /// `f` or `|x| f(x)` with f one of the translated functions
  fn fn_ref(&mut self, e: &syn::Expr) -> R<String> {
    let name = match e {
      syn::Expr::Path(p) if p.qself.is_none() => path_last(&p.path),
      syn::Expr::Closure(c) if c.inputs.len() == 1 => {
        let x = match &c.inputs[0] { syn::Pat::Ident(pi) => pi.ident.to_string(), _ => return Err("closure parameter pattern".into()) };
        match &*c.body {
          syn::Expr::Call(call) if call.args.len() == 1 => {
            let ok = matches!(&call.args[0], syn::Expr::Path(ap) if ap.path.is_ident(&x));
            match (&*call.func, ok) {
              (syn::Expr::Path(p), true) => path_last(&p.path),
              _ => return Err("closure body is not a call on its parameter".into()),
            }
          }
          _ => return Err("closure body is not a call".into()),
        }
      }
      _ => return Err(format!("function argument `{}`", quote::quote!(#e))),
    };
    if !ZERO_FNS.contains(&name.as_str()) {
      return Err(format!("call of {} which is not one of the translated zeroing functions", name));
    }
    if !self.callees.contains(&name) { self.callees.push(name.clone()); }
    Ok(name)
  }

  /// the slice an iteration runs over: `s`, `s.iter_mut()`, `&mut *s`
  fn iter_source(&mut self, e: &syn::Expr) -> R<String> {
    match e {
      syn::Expr::MethodCall(m) if m.args.is_empty() && (m.method == "iter_mut" || m.method == "into_iter") => self.expr(&m.receiver),
      _ => self.expr(e),
    }
  }

  fn call_stmt(&mut self, c: &syn::ExprCall) -> R<String> {
    let (full, last) = match &*c.func {
      syn::Expr::Path(p) if p.qself.is_none() => (path_full(&p.path), path_last(&p.path)),
      _ => return Err("call of a non-path".into()),
    };
    let args: Vec<&syn::Expr> = c.args.iter().collect();
    let std_path = |name: &str, module: &str| {
      full == name || full == format!("{}::{}", module, name) || full == format!("core::{}::{}", module, name) || full == format!("std::{}::{}", module, name)
    };
    if std_path("drop_in_place", "ptr") && args.len() == 1 {
      return Ok(format!("SDropInPlace {}", self.expr(args[0])?));
    }
    if std_path("write_bytes", "ptr") && args.len() == 3 {
      return Ok(format!("SWriteBytes {} {} {}", self.expr(args[0])?, self.byte_lit(args[1])?, self.expr(args[2])?));
    }
    if (std_path("drop", "mem") || std_path("forget", "mem")) && args.len() == 1 {
      let x = match args[0] { syn::Expr::Path(p) if p.qself.is_none() && p.path.segments.len() == 1 => path_last(&p.path), _ => return Err("drop / forget of something that is not a variable".into()) };
      return Ok(format!("{} {}", if last == "drop" { "SDrop" } else { "SForget" }, q(&x)));
    }
    if ZERO_FNS.contains(&last.as_str()) && args.len() == 1 && (full == last || full == format!("crate::{}", last)) {
      if !self.callees.contains(&last) { self.callees.push(last.clone()); }
      return Ok(format!("SCall {} {}", q(&last), self.expr(args[0])?));
    }
    Err(format!("call `{}`", quote::quote!(#c)))
  }

  fn expr_stmt(&mut self, e: &syn::Expr) -> R<String> {
    match e {
      syn::Expr::Paren(p) => self.expr_stmt(&p.expr),
      syn::Expr::Unsafe(u) => Ok(format!("SBlock {}", self.block(&u.block)?)),
      syn::Expr::Block(b) if b.label.is_none() => Ok(format!("SBlock {}", self.block(&b.block)?)),
      syn::Expr::Call(c) => self.call_stmt(c),
      syn::Expr::If(i) => {
        let cnd = self.cond(&i.cond).ok_or_else(|| format!("condition `{}`", { let c = &i.cond; quote::quote!(#c) }))?;
        let a = self.block(&i.then_branch)?;
        let b = match &i.else_branch {
          None => "[]".to_string(),
          Some((_, e)) => match &**e {
            syn::Expr::Block(b) => self.block(&b.block)?,
            other => format!("[{}]", self.expr_stmt(other)?),
          },
        };
        Ok(format!("SIf {} {} {}", cnd, a, b))
      }
      syn::Expr::MethodCall(m) if m.method == "for_each" && m.args.len() == 1 => {
        let f = self.fn_ref(&m.args[0])?;
        let s = self.iter_source(&m.receiver)?;
        Ok(format!("SForEach {} {}", s, q(&f)))
      }
      syn::Expr::ForLoop(fl) if fl.label.is_none() => {
        // for x in s.iter_mut() { f(x); }
        let x = match &*fl.pat { syn::Pat::Ident(pi) => pi.ident.to_string(), _ => return Err("for-loop pattern".into()) };
        if fl.body.stmts.len() != 1 { return Err("for-loop body with more than one statement".into()); }
        let call = match &fl.body.stmts[0] { syn::Stmt::Expr(syn::Expr::Call(c), _) => c, _ => return Err("for-loop body is not a call".into()) };
        let on_x = call.args.len() == 1 && matches!(&call.args[0], syn::Expr::Path(ap) if ap.path.is_ident(&x));
        if !on_x { return Err("for-loop body does not call a function on the loop variable".into()); }
        let f = self.fn_ref(&call.func)?;
        let s = self.iter_source(&fl.expr)?;
        Ok(format!("SForEach {} {}", s, q(&f)))
      }
      _ => Err(format!("statement `{}`", quote::quote!(#e))),
    }
  }

  fn stmt(&mut self, s: &syn::Stmt) -> R<Option<String>> {
    match s {
      syn::Stmt::Item(_) => Ok(None), // local struct / impl Drop: collected beforehand
      syn::Stmt::Local(l) => {
        let x = match &l.pat {
          syn::Pat::Ident(pi) => pi.ident.to_string(),
          syn::Pat::Type(pt) => match &*pt.pat { syn::Pat::Ident(pi) => pi.ident.to_string(), _ => return Err("let pattern".into()) },
          _ => return Err("let pattern".into()),
        };
        let init = l.init.as_ref().ok_or("let without an initialiser")?;
        if init.diverge.is_some() { return Err("let-else".into()); }
        // Guard(e): a local tuple struct
        if let syn::Expr::Call(c) = &*init.expr {
          if let syn::Expr::Path(p) = &*c.func {
            let g = path_last(&p.path);
            if self.structs.contains(&g) && c.args.len() == 1 {
              let payload = self.expr(&c.args[0])?;
              return if self.guards.contains_key(&g) {
                Ok(Some(format!("SLetGuard {} {} {}", q(&x), q(&g), payload)))
              } else {
                // a local struct without a Drop impl: just a wrapper around its payload; `.0` must still work
                Err(format!("local struct {} has no Drop impl", g))
              };
            }
          }
        }
        Ok(Some(format!("SLet {} {}", q(&x), self.expr(&init.expr)?)))
      }
      syn::Stmt::Expr(e, _) => Ok(Some(self.expr_stmt(e)?)),
      syn::Stmt::Macro(m) => Err(format!("macro `{}`", { let p = &m.mac.path; quote::quote!(#p) })),
    }
  }
}

fn translate_one(f: &syn::ItemFn) -> R<(String, Vec<String>)> {
  let name = f.sig.ident.to_string();
  if f.sig.inputs.len() != 1 { return Err("expected exactly one parameter".into()); }
  let param = match &f.sig.inputs[0] {
    syn::FnArg::Typed(pt) => match &*pt.pat { syn::Pat::Ident(pi) => pi.ident.to_string(), _ => return Err("parameter pattern".into()) },
    _ => return Err("receiver".into()),
  };
  if !matches!(f.sig.output, syn::ReturnType::Default) { return Err("a return value".into()); }
  // local guard structs and their Drop impls
  let mut structs: Vec<String> = vec![];
  for s in &f.block.stmts {
    if let syn::Stmt::Item(it) = s {
      match it {
        syn::Item::Struct(st) => {
          let one = matches!(&st.fields, syn::Fields::Unnamed(u) if u.unnamed.len() == 1);
          if !one { return Err(format!("local struct {} is not a one-field tuple struct", st.ident)); }
          structs.push(st.ident.to_string());
        }
        syn::Item::Impl(_) => {}
        other => return Err(format!("local item `{}`", quote::quote!(#other).to_string().chars().take(40).collect::<String>())),
      }
    }
  }
  let mut guards: HashMap<String, String> = HashMap::new();
  let mut guard_order: Vec<String> = vec![];
  for s in &f.block.stmts {
    if let syn::Stmt::Item(syn::Item::Impl(im)) = s {
      let tr = im.trait_.as_ref().map(|(_, p, _)| path_last(p)).unwrap_or_default();
      if tr != "Drop" { return Err("local impl that is not Drop".into()); }
      let ty = match &*im.self_ty { syn::Type::Path(tp) => path_last(&tp.path), _ => return Err("Drop for a non-path type".into()) };
      if !structs.contains(&ty) { return Err(format!("Drop for {} which is not a local struct", ty)); }
      let mut body = None;
      for ii in &im.items {
        if let syn::ImplItem::Fn(m) = ii {
          if m.sig.ident == "drop" {
            let empty = HashMap::new();
            let mut z = Z { guards: &empty, structs: &[], callees: vec![] };
            body = Some(z.block(&m.block)?);
            if !z.callees.is_empty() { return Err("a Drop body that calls a translated function".into()); }
          }
        }
      }
      guards.insert(ty.clone(), body.ok_or("Drop impl without fn drop")?);
      guard_order.push(ty);
    }
  }
  let mut z = Z { guards: &guards, structs: &structs, callees: vec![] };
  let body = z.block(&f.block)?;
  let callees = z.callees.clone();
  if callees.contains(&name) { return Err("recursion".into()); }
  let glist: Vec<String> = guard_order.iter().map(|g| format!("({}, {})", q(g), guards[g])).collect();
  let clist: Vec<String> = callees.iter().map(|c| format!("({}, {})", q(c), c)).collect();
  let code = format!(
    "Definition {n}_guards : list (string * list zstmt) := [{g}].\nDefinition {n}_body : list zstmt :=\n  {b}.\nDefinition {n} : zfun := zfun_of {n}_guards [{c}] {p} {n}_body.",
    n = name, g = glist.join("; "), b = body, c = clist.join("; "), p = q(&param));
  Ok((code, callees))
}

pub fn translate(file: &syn::File) -> Vec<ItemOut> {
  let mut out = vec![];
  for want in ZERO_FNS {
    let f = file.items.iter().find_map(|it| match it { syn::Item::Fn(f) if f.sig.ident == want => Some(f), _ => None });
    match f {
      None => out.push(ItemOut { name: want.to_string(), kind: "fn".into(), line_start: 0, line_end: 0, cfg: vec![],
        status: "failed: function not found in src/lib.rs".into(), code: String::new(), callees: vec![] }),
      Some(f) => {
        let (ls, le) = (f.span().start().line, f.span().end().line);
        match translate_one(f) {
          Ok((code, callees)) => out.push(ItemOut { name: want.to_string(), kind: "fn".into(), line_start: ls, line_end: le, cfg: vec![],
            status: "translated".into(), code, callees }),
          Err(e) => out.push(ItemOut { name: want.to_string(), kind: "fn".into(), line_start: ls, line_end: le, cfg: vec![],
            status: format!("failed: {}", e), code: String::new(), callees: vec![] }),
        }
      }
    }
  }
  out
}
