//! Expression / statement translation: Rust (syn) -> Gallina over Base.Outcome / Base.Prims.
use std::collections::HashMap;

use crate::types::*;
use crate::{FnSig, Generic, ModuleSpec};

/// A translated expression.  `pure`: `code` has the model type itself; otherwise `outcome` of it.
#[derive(Clone, Debug)]
pub struct Tr {
  pub code: String,
  pub ty: Ty,
  pub pure: bool,
}

impl Tr {
  pub fn pure(code: impl Into<String>, ty: Ty) -> Tr {
    Tr { code: code.into(), ty, pure: true }
  }
  pub fn eff(code: impl Into<String>, ty: Ty) -> Tr {
    Tr { code: code.into(), ty, pure: false }
  }
  pub fn lifted(&self) -> String {
    if self.pure {
      format!("Ret ({})", self.code)
    } else {
      self.code.clone()
    }
  }
}

pub struct Ctx<'a> {
  pub ms: &'a ModuleSpec,
  pub sigs: &'a HashMap<(String, String), FnSig>,
  pub generics: Vec<Generic>,
  pub vars: Vec<(String, Ty)>,
  pub ret: Ty,
  pub fresh: usize,
  pub callees: Vec<String>,
  /// name of the `Self` type's generic (for impl-level functions), if any
  pub self_ty: Option<Ty>,
  /// byte views of a vector-with-contents: (view variable, vector variable)
  pub aliases: Vec<(String, String)>,
}

type R<T> = Result<T, String>;

pub fn vname(n: &str) -> String {
  format!("v_{}", n)
}

fn path_str(p: &syn::Path) -> String {
  p.segments.iter().map(|s| s.ident.to_string()).collect::<Vec<_>>().join("::")
}

fn err_wrap(ty: &Ty, code: &str) -> R<String> {
  match ty {
    Ty::PErr => Ok(format!("(EP {})", code)),
    Ty::CErr => Ok(format!("(EC {})", code)),
    Ty::Unit => Ok("EUnit".into()),
    _ => Err(format!("cannot use a value of type {:?} as a panic payload", ty)),
  }
}

impl<'a> Ctx<'a> {
  pub fn gnames(&self) -> Vec<String> {
    self.generics.iter().map(|g| g.name.clone()).collect()
  }
  pub fn cty_names(&self) -> Vec<String> {
    self.generics.iter().filter(|g| g.is_cty).map(|g| g.name.clone()).collect()
  }
  pub fn fresh_pub(&mut self, base: &str) -> String { self.fresh(base) }
  pub fn seq_pub(&mut self, ops: Vec<Tr>, k: impl FnOnce(&[String]) -> (String, bool)) -> (String, bool) { self.seq(ops, k) }
  fn fresh(&mut self, base: &str) -> String {
    self.fresh += 1;
    format!("t_{}{}", base, self.fresh)
  }
  pub fn lookup_pub(&self, n: &str) -> Option<Ty> { self.lookup(n) }
  fn lookup(&self, n: &str) -> Option<Ty> {
    self.vars.iter().rev().find(|(k, _)| k == n).map(|(_, t)| t.clone())
  }
  fn tyterm(&self, t: &Ty) -> R<String> {
    ty_term(t, &self.cty_names())
  }
  pub fn syn_ty_pub(&self, t: &syn::Type) -> R<Ty> { self.syn_ty(t) }
  fn syn_ty(&self, t: &syn::Type) -> R<Ty> {
    let mut g = self.gnames();
    if self.self_ty.is_some() {
      g.push("Self".into());
    }
    let ty = ty_from_syn(t, &g)?;
    Ok(self.resolve_self(ty))
  }
  fn resolve_self(&self, t: Ty) -> Ty {
    match &self.self_ty {
      Some(st) => {
        let mut m = HashMap::new();
        m.insert("Self".to_string(), st.clone());
        subst(&t, &m)
      }
      None => t,
    }
  }

  /// Sequence impure operands left to right, then build the result from their values.
  fn seq(&mut self, ops: Vec<Tr>, k: impl FnOnce(&[String]) -> (String, bool)) -> (String, bool) {
    let mut names = vec![];
    let mut binds = vec![];
    for o in &ops {
      if o.pure {
        names.push(o.code.clone());
      } else {
        let v = self.fresh("x");
        binds.push((v.clone(), o.code.clone()));
        names.push(v);
      }
    }
    let (body, body_pure) = k(&names);
    if binds.is_empty() {
      (body, body_pure)
    } else {
      let mut s = String::new();
      for (v, c) in &binds {
        s.push_str(&format!("{} <- {} ;; ", v, c));
      }
      if body_pure {
        s.push_str(&format!("Ret ({})", body));
      } else {
        s.push_str(&body);
      }
      (format!("({})", s), false)
    }
  }

  // ------------------------------------------------------------------ blocks

  pub fn block(&mut self, stmts: &[syn::Stmt], expected: Option<&Ty>) -> R<Tr> {
    let depth = self.vars.len();
    let r = self.block_inner(stmts, expected);
    self.vars.truncate(depth);
    r
  }

  fn block_inner(&mut self, stmts: &[syn::Stmt], expected: Option<&Ty>) -> R<Tr> {
    if stmts.is_empty() {
      return Ok(Tr::pure("tt", Ty::Unit));
    }
    let (first, rest) = stmts.split_first().unwrap();
    match first {
      syn::Stmt::Local(l) => self.local(l, rest, expected),
      syn::Stmt::Item(_) => Err("item inside a function body".into()),
      syn::Stmt::Macro(m) => {
        let e = syn::Expr::Macro(syn::ExprMacro { attrs: m.attrs.clone(), mac: m.mac.clone() });
        self.stmt_expr(&e, m.semi_token.is_some(), rest, expected)
      }
      syn::Stmt::Expr(e, semi) => self.stmt_expr(e, semi.is_some(), rest, expected),
    }
  }

  fn cfg_pred(&self, tokens: proc_macro2::TokenStream) -> R<String> {
    let m: syn::Meta = syn::parse2(tokens).map_err(|e| format!("cfg predicate: {}", e))?;
    self.cfg_meta(&m)
  }
  fn cfg_meta(&self, m: &syn::Meta) -> R<String> {
    match m {
      syn::Meta::NameValue(nv) if nv.path.is_ident("feature") => {
        if let syn::Expr::Lit(syn::ExprLit { lit: syn::Lit::Str(s), .. }) = &nv.value {
          Ok(format!("(feat ENV \"{}\")", s.value()))
        } else {
          Err("cfg(feature = <non-literal>)".into())
        }
      }
      syn::Meta::List(l) if l.path.is_ident("not") => {
        let inner: syn::Meta = syn::parse2(l.tokens.clone()).map_err(|e| e.to_string())?;
        Ok(format!("(negb {})", self.cfg_meta(&inner)?))
      }
      syn::Meta::List(l) if l.path.is_ident("all") || l.path.is_ident("any") => {
        let parser = syn::punctuated::Punctuated::<syn::Meta, syn::Token![,]>::parse_terminated;
        let metas = syn::parse::Parser::parse2(parser, l.tokens.clone()).map_err(|e| e.to_string())?;
        let op = if l.path.is_ident("all") { "&&" } else { "||" };
        let unit = if l.path.is_ident("all") { "true" } else { "false" };
        let mut parts = vec![];
        for x in &metas {
          parts.push(self.cfg_meta(x)?);
        }
        if parts.is_empty() {
          Ok(unit.into())
        } else {
          Ok(format!("({})", parts.join(&format!(" {} ", op))))
        }
      }
      _ => Err(format!("unsupported cfg predicate {}", quote::quote!(#m))),
    }
  }

  fn stmt_expr(&mut self, e: &syn::Expr, semi: bool, rest: &[syn::Stmt], expected: Option<&Ty>) -> R<Tr> {
    // #[cfg(p)] { block }  as a statement: the block is the value when p holds, else the rest
    if let syn::Expr::Block(b) = e {
      let cfgs: Vec<&syn::Attribute> = b.attrs.iter().filter(|a| a.path().is_ident("cfg")).collect();
      if !cfgs.is_empty() {
        if cfgs.len() != 1 || semi {
          return Err("unsupported cfg-attributed block statement".into());
        }
        let pred = match &cfgs[0].meta {
          syn::Meta::List(l) => self.cfg_pred(l.tokens.clone())?,
          _ => return Err("malformed cfg".into()),
        };
        let a = self.block(&b.block.stmts, expected)?;
        let r = if rest.is_empty() {
          Tr::eff("Panic W_nocfg", Ty::Never)
        } else {
          self.block(rest, expected)?
        };
        let ty = if a.ty == Ty::Never { r.ty.clone() } else { a.ty.clone() };
        if a.pure && r.pure {
          return Ok(Tr::pure(format!("(if {} then {} else {})", pred, a.code, r.code), ty));
        }
        return Ok(Tr::eff(format!("(if {} then {} else {})", pred, a.lifted(), r.lifted()), ty));
      }
    }
    // `view[..n].copy_from_slice(src);` where view is the byte view of a vector-with-contents: an update of the vector
    if let (true, syn::Expr::MethodCall(mc)) = (semi, e) {
      if mc.method == "copy_from_slice" && mc.args.len() == 1 {
        if let syn::Expr::Index(ix) = &*mc.receiver {
          if let (syn::Expr::Path(vp), syn::Expr::Range(rg)) = (&*ix.expr, &*ix.index) {
            let view = vp.path.segments.last().map(|s| s.ident.to_string()).unwrap_or_default();
            let target = self.aliases.iter().rev().find(|(v, _)| *v == view).map(|(_, t)| t.clone());
            if let (Some(target), None, Some(end), syn::RangeLimits::HalfOpen(_)) = (target, &rg.start, &rg.end, &rg.limits) {
              let n = self.expr(end, Some(&Ty::Usize))?;
              let src = self.expr(&mc.args[0], None)?;
              if src.ty != Ty::Ref(Box::new(Ty::SliceOf(Box::new(Ty::U8)))) {
                return Err(format!("copy_from_slice from {:?}", src.ty));
              }
              let tv = vname(&target);
              let (upd, _) = self.seq(vec![n, src], |v| (format!("(bvec_copy_prefix ENV {} {} {})", tv, v[0], v[1]), false));
              let r = self.block(rest, expected)?;
              return Ok(Tr::eff(format!("({} <- {} ;;\n   {})", tv, upd, r.lifted()), r.ty));
            }
          }
        }
      }
    }
    // `return e;`
    if let syn::Expr::Return(r) = e {
      let ret = self.ret.clone();
      return match &r.expr {
        Some(x) => self.expr(x, Some(&ret)),
        None => Ok(Tr::pure("tt", Ty::Unit)),
      };
    }
    // `if c { ...; return e; }` followed by the rest of the block
    if let syn::Expr::If(i) = e {
      if i.else_branch.is_none() && !rest.is_empty() {
        let ends_in_return = matches!(i.then_branch.stmts.last(),
          Some(syn::Stmt::Expr(syn::Expr::Return(_), _)));
        if ends_in_return {
          let c = self.expr(&i.cond, Some(&Ty::Bool))?;
          let ret = self.ret.clone();
          let a = self.block(&i.then_branch.stmts, Some(&ret))?;
          let b = self.block(rest, expected)?;
          let ty = b.ty.clone();
          let (code, pure) = self.seq(vec![c], |n| {
            (format!("(if {} then {} else {})", n[0], a.lifted(), b.lifted()), false)
          });
          return Ok(Tr { code, ty, pure });
        }
      }
    }
    if rest.is_empty() && !semi {
      return self.expr(e, expected);
    }
    // expression statement followed by more: evaluate for effect (panic / UB), then continue
    let t = self.expr(e, None)?;
    if rest.is_empty() {
      // `e;` as the last statement: value is ()
      if t.pure {
        return Ok(Tr::pure("tt", Ty::Unit));
      }
      if t.ty == Ty::Never {
        return Ok(t);
      }
      return Ok(Tr::eff(format!("(_ <- {} ;; Ret tt)", t.code), Ty::Unit));
    }
    let r = self.block(rest, expected)?;
    if t.pure {
      return Ok(r);
    }
    Ok(Tr::eff(format!("(_ <- {} ;; {})", t.code, r.lifted()), r.ty))
  }

  fn local(&mut self, l: &syn::Local, rest: &[syn::Stmt], expected: Option<&Ty>) -> R<Tr> {
    let init = l.init.as_ref().ok_or("let without initialiser")?;
    if init.diverge.is_some() {
      return Err("let-else".into());
    }
    // pattern and optional annotation
    let (pat, ann) = match &l.pat {
      syn::Pat::Type(pt) => (&*pt.pat, Some(self.syn_ty(&pt.ty)?)),
      p => (p, None),
    };
    // `let _ = Cast::<A, B>::ASSERT_X;`
    if let (syn::Pat::Wild(_), syn::Expr::Path(p)) = (pat, &*init.expr) {
      if p.path.segments.len() == 2 && p.path.segments[0].ident == "Cast" {
        let name = p.path.segments[1].ident.to_string();
        let mut targs = vec![];
        if let syn::PathArguments::AngleBracketed(ab) = &p.path.segments[0].arguments {
          for a in &ab.args {
            if let syn::GenericArgument::Type(t) = a {
              let ty = self.syn_ty(t)?;
              targs.push(self.tyterm(&ty)?);
            }
          }
        }
        self.callees.push(name.clone());
        let r = self.block(rest, expected)?;
        return Ok(Tr::eff(
          format!("(_ <- const_assert \"{}\" ({} {}) ;;\n   {})", name, name, targs.join(" "), r.lifted()),
          r.ty,
        ));
      }
    }
    // `let f = |x: T, ..| body;` : a local function (non-capturing of anything mutable: the model is pure)
    if let (syn::Expr::Closure(c), syn::Pat::Ident(pi)) = (&*init.expr, pat) {
      let mut ptys = vec![];
      let mut binders = vec![];
      let depth = self.vars.len();
      for inp in &c.inputs {
        match inp {
          syn::Pat::Type(pt) => {
            let t = self.syn_ty(&pt.ty)?;
            let b = self.bind_pat(&pt.pat, &t)?;
            binders.push(format!("({} : {})", b, coq_type(&t)?));
            ptys.push(t);
          }
          _ => { self.vars.truncate(depth); return Err("closure parameter without a type annotation".into()); }
        }
      }
      let body = self.expr(&c.body, None);
      self.vars.truncate(depth);
      let body = body?;
      let fname = pi.ident.to_string();
      self.vars.push((fname.clone(), Ty::Fn(ptys, Box::new(body.ty.clone()))));
      let r = self.block(rest, expected)?;
      let code = format!("(let {} := (fun {} => {}) in\n   {})", vname(&fname), binders.join(" "), body.lifted(), r.lifted());
      return Ok(Tr::eff(code, r.ty));
    }
    // `let x = match r { Ok(p) => e, Err(q) => return E };` (either arm order): the explicit form of `?`
    if let syn::Expr::Match(m) = &*init.expr {
      if m.arms.len() == 2 && m.arms.iter().all(|a| a.guard.is_none()) {
        let mut okarm = None;
        let mut errarm = None;
        for arm in &m.arms {
          if let syn::Pat::TupleStruct(ts) = &arm.pat {
            let n = path_str(&ts.path);
            if n == "Ok" && ts.elems.len() == 1 { okarm = Some((&ts.elems[0], &*arm.body)); }
            if n == "Err" && ts.elems.len() == 1 { errarm = Some((&ts.elems[0], &*arm.body)); }
          }
        }
        if let (Some((okp, okb)), Some((errp, syn::Expr::Return(rexp)))) = (okarm, errarm) {
          if let Some(rv) = &rexp.expr {
            let scr = self.expr(&m.expr, None)?;
            let (okty, errty) = match &scr.ty {
              Ty::Result(a, b) => ((**a).clone(), (**b).clone()),
              other => return Err(format!("Ok/Err match on non-Result {:?}", other)),
            };
            let fn_ret = self.ret.clone();
            let depth = self.vars.len();
            let errbind = self.bind_pat(errp, &errty)?;
            let early = self.expr(rv, Some(&fn_ret));
            self.vars.truncate(depth);
            let early = early?;
            let okbind = self.bind_pat(okp, &okty)?;
            let okv = self.expr(okb, ann.as_ref());
            let okv = match okv { Ok(v) => v, Err(e) => { self.vars.truncate(depth); return Err(e); } };
            self.vars.truncate(depth);
            let vty = ann.clone().unwrap_or_else(|| okv.ty.clone());
            let binder = self.bind_pat(pat, &vty)?;
            let r = self.block(rest, expected)?;
            let inner = if okv.pure {
              format!("(let {} := {} in {})", binder_let(&binder), okv.code, r.lifted())
            } else {
              format!("({} <- {} ;; {})", binder_bind(&binder), okv.code, r.lifted())
            };
            let code = format!(
              "(t_r <- {} ;;\n   match t_r with\n   | Err {} => {}\n   | Ok {} => {}\n   end)",
              scr.lifted(), pat_paren(&errbind), early.lifted(), pat_paren(&okbind), inner);
            return Ok(Tr::eff(code, r.ty));
          }
        }
      }
    }
    // `let x = e?;`
    if let syn::Expr::Try(t) = &*init.expr {
      let scr = self.expr(&t.expr, None)?;
      let (okty, errty) = match &scr.ty {
        Ty::Result(a, b) => ((**a).clone(), (**b).clone()),
        other => return Err(format!("`?` on a non-Result {:?}", other)),
      };
      let fn_err = match &self.ret {
        Ty::Result(_, e) => (**e).clone(),
        _ => return Err("`?` in a function that does not return Result".into()),
      };
      let conv = match (&errty, &fn_err) {
        (a, b) if a == b => "t_e".to_string(),
        (Ty::PErr, Ty::CErr) => "(PodCastError t_e)".to_string(),
        (a, b) => return Err(format!("no From conversion {:?} -> {:?}", a, b)),
      };
      let okty = ann.unwrap_or(okty);
      let binder = self.bind_pat(pat, &okty)?;
      let r = self.block(rest, expected)?;
      let code = format!(
        "(t_r <- {} ;;\n   match t_r with\n   | Err t_e => Ret (Err {})\n   | Ok {} => {}\n   end)",
        scr.lifted(), conv, binder, r.lifted()
      );
      return Ok(Tr::eff(code, r.ty));
    }
    let e = self.expr(&init.expr, ann.as_ref())?;
    // `let view = cast_slice_mut(&mut v[..])` with v a vector-with-contents: view is the byte view of v
    if let (Some(target), syn::Pat::Ident(pi)) = (self.byte_view_target(&init.expr), pat) {
      if e.ty == Ty::Ref(Box::new(Ty::SliceOf(Box::new(Ty::U8)))) {
        self.aliases.push((pi.ident.to_string(), target));
      }
    }
    let ty = match (ann, &e.ty) {
      // `let p: *mut B = <raw pointer out of a container>`: still that container
      (Some(Ty::Ref(t)), Ty::RawCont(_)) => Ty::RawCont(t),
      (Some(Ty::Ref(t)), Ty::Addr(_)) => Ty::Addr(t),
      (Some(a), _) => a,
      (None, _) => e.ty.clone(),
    };
    let binder = self.bind_pat(pat, &ty)?;
    let r = self.block(rest, expected)?;
    if e.pure {
      let code = format!("(let {} := {} in\n   {})", binder_let(&binder), e.code, r.code);
      Ok(Tr { code, ty: r.ty, pure: r.pure })
    } else {
      Ok(Tr::eff(format!("({} <- {} ;;\n   {})", binder_bind(&binder), e.code, r.lifted()), r.ty))
    }
  }

  /// `cast_slice_mut(&mut X[..])` with X : BVec -> Some(X)
  fn byte_view_target(&self, e: &syn::Expr) -> Option<String> {
    if let syn::Expr::Call(c) = e {
      if let syn::Expr::Path(p) = &*c.func {
        if p.path.segments.last().map(|s| s.ident == "cast_slice_mut").unwrap_or(false) && c.args.len() == 1 {
          if let syn::Expr::Reference(r) = &c.args[0] {
            if let syn::Expr::Index(ix) = &*r.expr {
              if let (syn::Expr::Path(bp), syn::Expr::Range(rg)) = (&*ix.expr, &*ix.index) {
                if rg.start.is_none() && rg.end.is_none() && bp.path.segments.len() == 1 {
                  let n = bp.path.segments[0].ident.to_string();
                  if matches!(self.lookup(&n), Some(Ty::BVec(_))) { return Some(n); }
                }
              }
            }
          }
        }
      }
    }
    None
  }

  /// Bind a pattern: identifiers, `_`, and tuples of those.  Returns the Coq binder text.
  fn bind_pat(&mut self, pat: &syn::Pat, ty: &Ty) -> R<String> {
    match pat {
      syn::Pat::Ident(pi) => {
        let n = pi.ident.to_string();
        self.vars.push((n.clone(), ty.clone()));
        Ok(vname(&n))
      }
      syn::Pat::Wild(_) => Ok("_".into()),
      syn::Pat::Tuple(pt) => {
        let tys = match ty {
          Ty::Tuple(v) if v.len() == pt.elems.len() => v.clone(),
          _ => return Err(format!("tuple pattern against {:?}", ty)),
        };
        let mut parts = vec![];
        for (p, t) in pt.elems.iter().zip(tys.iter()) {
          parts.push(self.bind_pat(p, t)?);
        }
        Ok(format!("'({})", parts.join(", ")))
      }
      _ => Err("unsupported pattern".into()),
    }
  }

  // ------------------------------------------------------------------ expressions

  pub fn expr(&mut self, e: &syn::Expr, expected: Option<&Ty>) -> R<Tr> {
    use syn::Expr as E;
    match e {
      E::Paren(p) => self.expr(&p.expr, expected),
      E::Group(p) => self.expr(&p.expr, expected),
      E::Block(b) => {
        if b.attrs.iter().any(|a| a.path().is_ident("cfg")) {
          return Err("cfg-attributed block in expression position".into());
        }
        self.block(&b.block.stmts, expected)
      }
      E::Unsafe(u) => self.block(&u.block.stmts, expected),
      E::Lit(l) => match &l.lit {
        syn::Lit::Int(i) => Ok(Tr::pure(i.base10_digits().to_string(), Ty::Usize)),
        syn::Lit::Bool(b) => Ok(Tr::pure(if b.value { "true" } else { "false" }, Ty::Bool)),
        syn::Lit::Str(s) => Ok(Tr::pure(format!("\"{}\"", s.value()), Ty::Str)),
        _ => Err("unsupported literal".into()),
      },
      E::Path(p) => self.path_expr(p, expected),
      E::If(i) => self.if_expr(i, expected),
      E::Match(m) => self.match_expr(m, expected),
      E::Binary(b) => self.binary(b),
      E::Unary(u) => match u.op {
        syn::UnOp::Not(_) => {
          let x = self.expr(&u.expr, Some(&Ty::Bool))?;
          if x.ty != Ty::Bool {
            return Err("`!` on a non-bool".into());
          }
          if x.pure {
            Ok(Tr::pure(format!("(negb {})", x.code), Ty::Bool))
          } else {
            Ok(Tr::eff(format!("(not_m {})", x.code), Ty::Bool))
          }
        }
        syn::UnOp::Deref(_) => Err("unsupported dereference".into()),
        _ => Err("unsupported unary operator".into()),
      },
      E::Cast(c) => self.cast(c),
      E::Reference(r) => self.reference(r, expected),
      E::Call(c) => self.call(c, expected),
      E::MethodCall(m) => crate::tables::method_call(self, m, expected),
      E::Macro(m) => self.macro_expr(&m.mac, expected),
      E::Tuple(t) => {
        if t.elems.is_empty() {
          return Ok(Tr::pure("tt", Ty::Unit));
        }
        let exps: Vec<Option<Ty>> = match expected {
          Some(Ty::Tuple(v)) if v.len() == t.elems.len() => v.iter().cloned().map(Some).collect(),
          _ => vec![None; t.elems.len()],
        };
        let mut parts = vec![];
        for (x, ex) in t.elems.iter().zip(exps.iter()) {
          parts.push(self.expr(x, ex.as_ref())?);
        }
        let tys: Vec<Ty> = parts.iter().map(|p| p.ty.clone()).collect();
        let (code, pure) = self.seq(parts, |n| (format!("({})", n.join(", ")), true));
        Ok(Tr { code, ty: Ty::Tuple(tys), pure })
      }
      E::Return(_) => Err("`return` in expression position".into()),
      E::Try(_) => Err("`?` outside `let x = e?;`".into()),
      E::Field(f) => crate::tables::field_expr(self, f),
      E::Struct(s) => crate::tables::struct_expr(self, s),
      other => Err(format!("unsupported expression kind: {}", quote::quote!(#other))),
    }
  }

  fn path_expr(&mut self, p: &syn::ExprPath, expected: Option<&Ty>) -> R<Tr> {
    let s = path_str(&p.path);
    if p.path.segments.len() == 1 {
      if let Some(t) = self.lookup(&s) {
        return Ok(Tr::pure(vname(&s), t));
      }
    }
    let _ = expected;
    match s.as_str() {
      "PodCastError::TargetAlignmentGreaterAndInputNotAligned"
      | "PodCastError::OutputSliceWouldHaveSlop"
      | "PodCastError::SizeMismatch"
      | "PodCastError::AlignmentMismatch" => {
        Ok(Tr::pure(p.path.segments.last().unwrap().ident.to_string(), Ty::PErr))
      }
      "CheckedCastError::InvalidBitPattern" => Ok(Tr::pure("InvalidBitPattern", Ty::CErr)),
      _ => Err(format!("unknown path {}", s)),
    }
  }

  fn if_expr(&mut self, i: &syn::ExprIf, expected: Option<&Ty>) -> R<Tr> {
    if matches!(&*i.cond, syn::Expr::Let(_)) {
      return Err("if-let".into());
    }
    let c = self.expr(&i.cond, Some(&Ty::Bool))?;
    if c.ty != Ty::Bool {
      return Err("if condition is not bool".into());
    }
    let a = self.block(&i.then_branch.stmts, expected)?;
    let b = match &i.else_branch {
      Some((_, eb)) => self.expr(eb, expected)?,
      None => Tr::pure("tt", Ty::Unit),
    };
    let ty = if a.ty == Ty::Never { b.ty.clone() } else { a.ty.clone() };
    if c.pure && a.pure && b.pure {
      return Ok(Tr::pure(format!("(if {} then {} else {})", c.code, a.code, b.code), ty));
    }
    let (al, bl) = (a.lifted(), b.lifted());
    let (code, pure) = self.seq(vec![c], |n| (format!("(if {}\n   then {}\n   else {})", n[0], al, bl), false));
    Ok(Tr { code, ty, pure })
  }

  fn match_expr(&mut self, m: &syn::ExprMatch, expected: Option<&Ty>) -> R<Tr> {
    // shape 0: Result scrutinee with `Err(e) => E`, `Ok(x) if G => A`, `Ok(..) => B` (the guarded arm first)
    if m.arms.len() == 3 {
      let mut err_arm = None;
      let mut guarded = None;
      let mut plain = None;
      let mut ok_shape = true;
      for arm in &m.arms {
        if let syn::Pat::TupleStruct(ts) = &arm.pat {
          let n = path_str(&ts.path);
          if n == "Err" && ts.elems.len() == 1 && arm.guard.is_none() && err_arm.is_none() {
            err_arm = Some((&ts.elems[0], &*arm.body));
            continue;
          }
          if n == "Ok" && ts.elems.len() == 1 {
            match (&arm.guard, guarded.is_some(), plain.is_some()) {
              (Some((_, g)), false, false) => { guarded = Some((&ts.elems[0], &**g, &*arm.body)); continue; }
              (None, true, false) => { plain = Some((&ts.elems[0], &*arm.body)); continue; }
              _ => {}
            }
          }
        }
        ok_shape = false;
        break;
      }
      if let (true, Some((errp, errb)), Some((gp, gcond, gb)), Some((pp, pb))) = (ok_shape, err_arm, guarded, plain) {
        let scr = self.expr(&m.expr, None)?;
        let (okty, errty) = match &scr.ty {
          Ty::Result(a, b) => ((**a).clone(), (**b).clone()),
          other => return Err(format!("Ok/Err match on non-Result {:?}", other)),
        };
        let depth = self.vars.len();
        // the guarded arm and the fall-through arm see the same Ok payload
        let gbind = self.bind_pat(gp, &okty)?;
        let g = self.expr(gcond, Some(&Ty::Bool))?;
        if g.ty != Ty::Bool { return Err("match guard is not bool".into()); }
        let a = self.expr(gb, expected)?;
        self.vars.truncate(depth);
        let pbind = self.bind_pat(pp, &okty)?;
        let b = self.expr(pb, expected)?;
        self.vars.truncate(depth);
        let errbind = self.bind_pat(errp, &errty)?;
        let e = self.expr(errb, expected)?;
        self.vars.truncate(depth);
        let ty = if a.ty != Ty::Never { a.ty.clone() } else if b.ty != Ty::Never { b.ty.clone() } else { e.ty.clone() };
        let (al, bl, el) = (a.lifted(), b.lifted(), e.lifted());
        let inner_b = format!("(let {} := t_ok in {})", pat_paren(&pbind), bl);
        let (gcode, _) = self.seq(vec![g], |n| (format!("(if {} then {} else {})", n[0], al, inner_b), false));
        let (code, pure) = self.seq(vec![scr], |n| {
          (format!("match {} with\n   | Ok t_ok => (let {} := t_ok in {})\n   | Err {} => {}\n   end", n[0], pat_paren(&gbind), gcode, pat_paren(&errbind), el), false)
        });
        return Ok(Tr { code: format!("({})", code), ty, pure });
      }
    }
    // shape A: `match cond { true => a, false => b }` (either order, `_` allowed for the second row)
    {
      let is_bool_pat = |p: &syn::Pat| match p {
        syn::Pat::Lit(l) => match &l.lit { syn::Lit::Bool(b) => Some(Some(b.value)), _ => None },
        syn::Pat::Wild(_) => Some(None),
        _ => None,
      };
      if m.arms.len() == 2 && m.arms.iter().all(|a| a.guard.is_none()) {
        if let (Some(Some(first)), Some(second)) = (is_bool_pat(&m.arms[0].pat), is_bool_pat(&m.arms[1].pat)) {
          if second.map(|b| b != first).unwrap_or(true) {
            let c = self.expr(&m.expr, Some(&Ty::Bool))?;
            if c.ty != Ty::Bool { return Err("match on a non-bool with boolean patterns".into()); }
            let x = self.expr(&m.arms[0].body, expected)?;
            let y = self.expr(&m.arms[1].body, expected)?;
            let (t, e) = if first { (x, y) } else { (y, x) };
            let ty = if t.ty == Ty::Never { e.ty.clone() } else { t.ty.clone() };
            if c.pure && t.pure && e.pure {
              return Ok(Tr::pure(format!("(if {} then {} else {})", c.code, t.code, e.code), ty));
            }
            let (tl, el) = (t.lifted(), e.lifted());
            let (code, pure) = self.seq(vec![c], |n| (format!("(if {}\n   then {}\n   else {})", n[0], tl, el), false));
            return Ok(Tr { code, ty, pure });
          }
        }
      }
    }
    // shape B: a tuple of boolean conditions matched against `(true, _)`-style rows, first match wins
    if let syn::Expr::Tuple(tup) = &*m.expr {
      let n = tup.elems.len();
      let rows_ok = n >= 1 && m.arms.iter().all(|a| a.guard.is_none() && match &a.pat {
        syn::Pat::Tuple(pt) => pt.elems.len() == n && pt.elems.iter().all(|e| matches!(e, syn::Pat::Wild(_))
          || matches!(e, syn::Pat::Lit(l) if matches!(&l.lit, syn::Lit::Bool(_)))),
        syn::Pat::Wild(_) => true,
        _ => false,
      });
      if rows_ok && !m.arms.is_empty() {
        let mut comps = vec![];
        for e in &tup.elems {
          let c = self.expr(e, Some(&Ty::Bool))?;
          if c.ty != Ty::Bool { return Err("tuple-of-conditions match on a non-bool".into()); }
          comps.push(c);
        }
        let mut bodies = vec![];
        for a in &m.arms { bodies.push(self.expr(&a.body, expected)?); }
        let ty = bodies.iter().map(|b| b.ty.clone()).find(|t| *t != Ty::Never).unwrap_or(Ty::Never);
        let arms: Vec<Vec<Option<bool>>> = m.arms.iter().map(|a| match &a.pat {
          syn::Pat::Tuple(pt) => pt.elems.iter().map(|e| match e {
            syn::Pat::Lit(l) => match &l.lit { syn::Lit::Bool(b) => Some(b.value), _ => None },
            _ => None }).collect(),
          _ => vec![None; n],
        }).collect();
        let lifted: Vec<String> = bodies.iter().map(|b| b.lifted()).collect();
        let (code, _) = self.seq(comps, |names| {
          // the last row is the default (rustc has checked exhaustiveness)
          let mut out = lifted[lifted.len() - 1].clone();
          for j in (0..lifted.len() - 1).rev() {
            let conds: Vec<String> = arms[j].iter().enumerate().filter_map(|(i, v)| v.map(|b| if b { names[i].clone() } else { format!("(negb {})", names[i]) })).collect();
            let cond = if conds.is_empty() { "true".to_string() } else { conds.join(" && ") };
            out = format!("(if ({}) then {} else {})", cond, lifted[j], out);
          }
          (out, false)
        });
        return Ok(Tr::eff(code, ty));
      }
    }
    // shape 1: Result scrutinee with an Ok arm and an Err arm
    let mut ok_arm = None;
    let mut err_arm = None;
    for arm in &m.arms {
      if arm.guard.is_some() {
        return Err("match guard".into());
      }
      if let syn::Pat::TupleStruct(ts) = &arm.pat {
        let n = path_str(&ts.path);
        if n == "Ok" && ts.elems.len() == 1 {
          ok_arm = Some((&ts.elems[0], &*arm.body));
          continue;
        }
        if n == "Err" && ts.elems.len() == 1 {
          err_arm = Some((&ts.elems[0], &*arm.body));
          continue;
        }
      }
      ok_arm = None;
      err_arm = None;
      break;
    }
    if let (Some((okp, okb)), Some((errp, errb)), 2) = (ok_arm, err_arm, m.arms.len()) {
      // `Ok(v) => v` lets the expected type flow into the scrutinee's Ok type
      let mut scr_expected = None;
      if let (syn::Pat::Ident(pi), syn::Expr::Path(bp)) = (okp, okb) {
        if bp.path.is_ident(&pi.ident) {
          if let Some(ex) = expected {
            scr_expected = Some(Ty::Result(Box::new(ex.clone()), Box::new(Ty::Unknown)));
          }
        }
      }
      let scr = self.expr(&m.expr, scr_expected.as_ref())?;
      let (okty, errty) = match &scr.ty {
        Ty::Result(a, b) => ((**a).clone(), (**b).clone()),
        other => return Err(format!("Ok/Err match on non-Result {:?}", other)),
      };
      let depth = self.vars.len();
      let okbind = self.bind_pat(okp, &okty)?;
      let a = self.expr(okb, expected)?;
      self.vars.truncate(depth);
      let errbind = self.bind_pat(errp, &errty)?;
      let b = self.expr(errb, expected)?;
      self.vars.truncate(depth);
      let ty = if a.ty == Ty::Never { b.ty.clone() } else { a.ty.clone() };
      let all_pure = scr.pure && a.pure && b.pure;
      let (ac, bc) = if all_pure { (a.code.clone(), b.code.clone()) } else { (a.lifted(), b.lifted()) };
      let (code, pure) = self.seq(vec![scr], |n| {
        (
          format!("match {} with\n   | Ok {} => {}\n   | Err {} => {}\n   end", n[0],
            pat_paren(&okbind), ac, pat_paren(&errbind), bc),
          all_pure,
        )
      });
      return Ok(Tr { code: format!("({})", code), ty, pure });
    }
    // shape 2: integer scrutinee, literal alternations and a wildcard
    crate::tables::int_match(self, m, expected)
  }

  fn binary(&mut self, b: &syn::ExprBinary) -> R<Tr> {
    use syn::BinOp as O;
    let l = self.expr(&b.left, None)?;
    let r = self.expr(&b.right, None)?;
    let both_n = l.ty == Ty::Usize && r.ty == Ty::Usize;
    let both_b = l.ty == Ty::Bool && r.ty == Ty::Bool;
    let cmp = |s: &str, swap: bool, neg: bool| -> Box<dyn Fn(&[String]) -> (String, bool)> {
      let s = s.to_string();
      Box::new(move |n: &[String]| {
        let (x, y) = if swap { (&n[1], &n[0]) } else { (&n[0], &n[1]) };
        let core = format!("({} {} {})", x, s, y);
        (if neg { format!("(negb {})", core) } else { core }, true)
      })
    };
    let (f, ty): (Box<dyn Fn(&[String]) -> (String, bool)>, Ty) = match b.op {
      O::Eq(_) if both_n => (cmp("=?", false, false), Ty::Bool),
      O::Ne(_) if both_n => (cmp("=?", false, true), Ty::Bool),
      O::Lt(_) if both_n => (cmp("<?", false, false), Ty::Bool),
      O::Le(_) if both_n => (cmp("<=?", false, false), Ty::Bool),
      O::Gt(_) if both_n => (cmp("<?", true, false), Ty::Bool),
      O::Ge(_) if both_n => (cmp("<=?", true, false), Ty::Bool),
      O::And(_) if both_b => {
        if l.pure && r.pure {
          return Ok(Tr::pure(format!("({} && {})", l.code, r.code), Ty::Bool));
        }
        return Ok(Tr::eff(format!("(and_m ({}) ({}))", l.lifted(), r.lifted()), Ty::Bool));
      }
      O::Or(_) if both_b => {
        if l.pure && r.pure {
          return Ok(Tr::pure(format!("({} || {})", l.code, r.code), Ty::Bool));
        }
        return Ok(Tr::eff(format!("(or_m ({}) ({}))", l.lifted(), r.lifted()), Ty::Bool));
      }
      O::Rem(_) if both_n => (Box::new(|n: &[String]| (format!("(rem_m {} {})", n[0], n[1]), false)), Ty::Usize),
      O::Div(_) if both_n => (Box::new(|n: &[String]| (format!("(div_m {} {})", n[0], n[1]), false)), Ty::Usize),
      O::Add(_) if both_n => (Box::new(|n: &[String]| (format!("(add_m {} {})", n[0], n[1]), false)), Ty::Usize),
      O::Sub(_) if both_n => (Box::new(|n: &[String]| (format!("(sub_m {} {})", n[0], n[1]), false)), Ty::Usize),
      O::Mul(_) if both_n => (Box::new(|n: &[String]| (format!("(mul_m {} {})", n[0], n[1]), false)), Ty::Usize),
      _ => {
        return Err(format!("unsupported binary operator / operand types in `{}` ({:?}, {:?})",
          quote::quote!(#b), l.ty, r.ty))
      }
    };
    let (code, pure) = self.seq(vec![l, r], |n| f(n));
    Ok(Tr { code, ty, pure })
  }

  fn cast(&mut self, c: &syn::ExprCast) -> R<Tr> {
    let x = self.expr(&c.expr, None)?;
    let target = self.syn_ty(&c.ty)?;
    match (&x.ty, &target) {
      // a raw pointer taken out of an owning container, re-typed: the same container
      (Ty::RawCont(_), Ty::Ref(to)) => Ok(Tr { code: x.code, ty: Ty::RawCont(to.clone()), pure: x.pure }),
      (Ty::Addr(_), Ty::Ref(to)) => Ok(Tr { code: x.code, ty: Ty::Addr(to.clone()), pure: x.pure }),
      // pointer-to-pointer casts (thin<->thin, slice<->slice keep the length, slice->thin keeps
      // the data pointer)
      (Ty::Ref(from), Ty::Ref(to)) => {
        let from_slice = matches!(**from, Ty::SliceOf(_) | Ty::Str);
        let to_slice = matches!(**to, Ty::SliceOf(_) | Ty::Str);
        let target = match (&**to, &**from) {
          (Ty::Unknown, f) => Ty::Ref(Box::new(f.clone())),
          _ => target.clone(),
        };
        match (from_slice, to_slice) {
          (false, false) | (true, true) => Ok(Tr { code: x.code, ty: target, pure: x.pure }),
          (true, false) => {
            let (code, pure) = self.seq(vec![x], |n| (format!("(sptr {})", n[0]), true));
            Ok(Tr { code, ty: target, pure })
          }
          (false, true) => Err("thin-to-slice pointer cast".into()),
        }
      }
      (Ty::Ref(p), Ty::Usize) if !matches!(**p, Ty::SliceOf(_)) => {
        let (code, pure) = self.seq(vec![x], |n| (format!("(addr {})", n[0]), true));
        Ok(Tr { code, ty: Ty::Usize, pure })
      }
      (Ty::Usize, Ty::Usize) => Ok(x),
      // `b as usize`
      (Ty::Bool, Ty::Usize) => {
        let (code, pure) = self.seq(vec![x], |n| (format!("(if {} then 1 else 0)", n[0]), true));
        Ok(Tr { code, ty: Ty::Usize, pure })
      }
      _ => Err(format!("unsupported cast {:?} as {:?}", x.ty, target)),
    }
  }

  fn reference(&mut self, r: &syn::ExprReference, expected: Option<&Ty>) -> R<Tr> {
    // &*p / &mut *p : make a reference out of a raw pointer
    let mut inner = &*r.expr;
    while let syn::Expr::Paren(p) = inner {
      inner = &p.expr;
    }
    if let syn::Expr::Unary(u) = inner {
      if matches!(u.op, syn::UnOp::Deref(_)) {
        let p = self.expr(&u.expr, None)?;
        return crate::tables::reborrow(self, p, expected);
      }
    }
    // &x where x is a by-value variable: a reference to a local (only is_valid_bit_pattern and
    // Layout::for_value take one; they look at the syntax themselves)
    if let syn::Expr::Path(p) = inner {
      if p.path.segments.len() == 1 {
        let n = p.path.segments[0].ident.to_string();
        if let Some(t) = self.lookup(&n) {
          return Ok(Tr::pure(format!("(*&*){}", vname(&n)), Ty::Ref(Box::new(t))));
        }
      }
    }
    // &mut dst[..]
    if let syn::Expr::Index(ix) = inner {
      return crate::tables::index_expr(self, ix, true);
    }
    Err(format!("unsupported borrow `{}`", quote::quote!(#r)))
  }

  fn macro_expr(&mut self, mac: &syn::Macro, expected: Option<&Ty>) -> R<Tr> {
    let name = path_str(&mac.path);
    match name.as_str() {
      "unreachable" => Ok(Tr::eff("Panic W_unreachable", Ty::Never)),
      "assert" => {
        let parser = syn::punctuated::Punctuated::<syn::Expr, syn::Token![,]>::parse_terminated;
        let args = syn::parse::Parser::parse2(parser, mac.tokens.clone()).map_err(|e| e.to_string())?;
        let c = self.expr(args.first().ok_or("assert!()")?, Some(&Ty::Bool))?;
        let (code, pure) = self.seq(vec![c], |n| (format!("(assert_m {})", n[0]), false));
        Ok(Tr { code, ty: Ty::Unit, pure })
      }
      "vec" => {
        // vec![T::zeroed(); n] : a fresh vector of n all-zero elements
        let parts = split_semis(mac.tokens.clone());
        if parts.len() != 2 { return Err("vec! that is not `[elem; count]`".into()); }
        let elem: syn::Expr = syn::parse2(parts[0].clone()).map_err(|e| e.to_string())?;
        let t = match &elem {
          syn::Expr::Call(c) if c.args.is_empty() => match &*c.func {
            syn::Expr::Path(p) if p.path.segments.len() == 2 && p.path.segments[1].ident == "zeroed" => {
              let id = p.path.segments[0].ident.to_string();
              if self.gnames().contains(&id) { Ty::Param(id) } else { return Err("vec! of zeroed() of a non-parameter type".into()); }
            }
            _ => return Err("vec! element is not T::zeroed()".into()),
          },
          _ => return Err("vec! element is not T::zeroed()".into()),
        };
        let cnt: syn::Expr = syn::parse2(parts[1].clone()).map_err(|e| e.to_string())?;
        let n = self.expr(&cnt, Some(&Ty::Usize))?;
        let tt = self.tyterm(&t)?;
        let (code, pure) = self.seq(vec![n], |v| (format!("(vec_zeroed {} {})", tt, v[0]), false));
        Ok(Tr { code, ty: Ty::BVec(Box::new(t)), pure })
      }
      "transmute" => {
        // transmute!(val)  |  transmute!(Src; Dst; val)
        if !self.callees.iter().any(|c| c == "Root::transmute!") { self.callees.push("Root::transmute!".into()); }
        let toks = mac.tokens.to_string();
        if toks.contains(';') {
          let parts = split_semis(mac.tokens.clone());
          if parts.len() != 3 {
            return Err("transmute! with an unexpected number of `;`".into());
          }
          let dst_ty: syn::Type = syn::parse2(parts[1].clone()).map_err(|e| e.to_string())?;
          let dst = self.syn_ty(&dst_ty)?;
          let val: syn::Expr = syn::parse2(parts[2].clone()).map_err(|e| e.to_string())?;
          let v = self.expr(&val, None)?;
          let d = self.tyterm(&dst)?;
          let (code, pure) = self.seq(vec![v], |n| (format!("(transmute_copy {} {})", d, n[0]), false));
          return Ok(Tr { code, ty: dst, pure });
        }
        let val: syn::Expr = syn::parse2(mac.tokens.clone()).map_err(|e| e.to_string())?;
        let v = self.expr(&val, None)?;
        let dst = match expected {
          Some(t @ (Ty::Param(_) | Ty::Bits(_))) => t.clone(),
          Some(t @ Ty::Ref(_)) => t.clone(),
          other => return Err(format!("transmute! with no known destination type ({:?})", other)),
        };
        if let Ty::Ref(_) = dst {
          return crate::tables::transmute_ptr(self, v, dst);
        }
        if !matches!(v.ty, Ty::Param(_) | Ty::Bits(_)) {
          return Err(format!("transmute! of a value of type {:?}", v.ty));
        }
        let d = self.tyterm(&dst)?;
        let (code, pure) = self.seq(vec![v], |n| (format!("(transmute_copy {} {})", d, n[0]), false));
        Ok(Tr { code, ty: dst, pure })
      }
      _ => Err(format!("unsupported macro {}!", name)),
    }
  }

  // ------------------------------------------------------------------ calls

  fn call(&mut self, c: &syn::ExprCall, expected: Option<&Ty>) -> R<Tr> {
    let fp = match &*c.func {
      syn::Expr::Path(p) => p,
      _ => return Err("call of a non-path".into()),
    };
    let full = path_str(&fp.path);
    let last = fp.path.segments.last().ok_or("empty path")?;
    let lname = last.ident.to_string();
    let args: Vec<&syn::Expr> = c.args.iter().collect();
    let mut turbofish: Vec<Ty> = vec![];
    if let syn::PathArguments::AngleBracketed(ab) = &last.arguments {
      for a in &ab.args {
        if let syn::GenericArgument::Type(t) = a {
          turbofish.push(self.syn_ty(t)?);
        }
      }
    }

    // a local closure bound by `let`
    if fp.qself.is_none() && fp.path.segments.len() == 1 {
      if let Some(Ty::Fn(ptys, rty)) = self.lookup(&lname) {
        if ptys.len() != args.len() { return Err("closure arity".into()); }
        let mut ts = vec![];
        for (a, t) in args.iter().zip(ptys.iter()) { ts.push(self.expr(a, Some(t))?); }
        let f = vname(&lname);
        let (code, _) = self.seq(ts, |n| (format!("({} {})", f, n.join(" ")), false));
        return Ok(Tr::eff(code, (*rty).clone()));
      }
    }
    // <[A]>::len(a)
    if let Some(q) = &fp.qself {
      if lname == "len" && args.len() == 1 && matches!(&*q.ty, syn::Type::Slice(_)) {
        let recv = self.expr(args[0], None)?;
        if recv.ty.is_sliceptr() && recv.pure {
          return Ok(Tr::pure(format!("(slen {})", recv.code), Ty::Usize));
        }
        return Err("<[T]>::len of something that is not a slice".into());
      }
    }
    // <B as CheckedBitPattern>::is_valid_bit_pattern(x)
    if let Some(q) = &fp.qself {
      if lname == "is_valid_bit_pattern" && args.len() == 1 {
        let bt = self.syn_ty(&q.ty)?;
        let b = match bt {
          Ty::Param(n) if self.cty_names().contains(&n) => n,
          _ => return Err("is_valid_bit_pattern on a type that is not a checked parameter".into()),
        };
        return self.is_valid(&b, args[0]);
      }
      return Err(format!("unsupported qualified call {}", quote::quote!(#fp)));
    }

    // T::try_from_box_bytes(x) for `T: sealed::FromBoxBytes + ?Sized`: the impl for T (sized) or for [T]
    if fp.qself.is_none() && fp.path.segments.len() == 2 && lname == "try_from_box_bytes" && args.len() == 1 {
      let tn = fp.path.segments[0].ident.to_string();
      if self.generics.iter().any(|g| g.name == tn && g.maybe_unsized) {
        let x = self.expr(args[0], Some(&Ty::BoxBytes))?;
        if x.ty != Ty::BoxBytes { return Err("try_from_box_bytes of something that is not a BoxBytes".into()); }
        for c in ["try_from_box_bytes_sized", "try_from_box_bytes_slice"] { self.callees.push(c.into()); }
        let ty = Ty::Result(Box::new(Ty::Box_(Box::new(Ty::Param(tn.clone())))), Box::new(Ty::Tuple(vec![Ty::PErr, Ty::BoxBytes])));
        let (code, _) = self.seq(vec![x], |n| (format!(
          "(if unsized_{t} then try_from_box_bytes_slice ENV {t} {x} else try_from_box_bytes_sized ENV {t} {x})", t = tn, x = n[0]), false));
        return Ok(Tr::eff(code, ty));
      }
    }
    match (full.as_str(), lname.as_str()) {
      (_, "size_of") if args.is_empty() && turbofish.len() == 1 => {
        return crate::tables::size_of(self, &turbofish[0]);
      }
      (_, "align_of") if args.is_empty() && turbofish.len() == 1 => {
        return crate::tables::align_of(self, &turbofish[0]);
      }
      (_, "size_of_val") if args.len() == 1 => {
        return crate::tables::size_of_val(self, args[0]);
      }
      ("core::slice::from_ref", _) | ("core::slice::from_mut", _) if args.len() == 1 => {
        let t = self.expr(args[0], None)?;
        let p = t.ty.pointee().ok_or("from_ref of a non-reference")?.clone();
        let (code, pure) = self.seq(vec![t], |n| (format!("(slice_from_ref {})", n[0]), true));
        return Ok(Tr { code, ty: Ty::Ref(Box::new(Ty::SliceOf(Box::new(p)))), pure });
      }
      ("core::slice::from_raw_parts", _)
      | ("core::slice::from_raw_parts_mut", _)
      | ("core::ptr::slice_from_raw_parts", _)
      | ("core::ptr::slice_from_raw_parts_mut", _)
        if args.len() == 2 =>
      {
        let p = self.expr(args[0], None)?;
        let n = self.expr(args[1], Some(&Ty::Usize))?;
        if let (Ty::Addr(e), true) = (&p.ty, full.starts_with("core::slice::") && matches!(self.self_ty, Some(Ty::BoxBytes))) {
          // Deref for BoxBytes: the block's bytes as a slice (not an owning container)
          let elem = (**e).clone();
          let (code, pure) = self.seq(vec![p, n], |v| (format!("(mkSlice (mkPtr {} {}) {})", v[0], v[1], v[1]), true));
          return Ok(Tr { code, ty: Ty::Ref(Box::new(Ty::SliceOf(Box::new(elem)))), pure });
        }
        if let Ty::Addr(e) = &p.ty {
          // a slice container made of a bare address and a length
          let elem = (**e).clone();
          let (code, pure) = self.seq(vec![p, n], |v| (format!("(mkCont {} {} {})", v[0], v[1], v[1]), true));
          return Ok(Tr { code, ty: Ty::RawCont(Box::new(Ty::SliceOf(Box::new(elem)))), pure });
        }
        if let Ty::RawCont(e) = &p.ty {
          // the container's own buffer viewed as a slice of `n` elements of the pointer's type
          let elem = (**e).clone();
          let (code, pure) = self.seq(vec![p, n], |v| (format!("(cont_resize {} {})", v[0], v[1]), true));
          return Ok(Tr { code, ty: Ty::RawCont(Box::new(Ty::SliceOf(Box::new(elem)))), pure });
        }
        let mut elem = p.ty.pointee().ok_or("from_raw_parts of a non-pointer")?.clone();
        if elem == Ty::Unknown {
          // NonNull::dangling().as_ptr(): the element type comes from the expected slice type
          if let Some(e) = expected.and_then(|t| t.slice_elem()) {
            elem = e.clone();
          }
        }
        let et = self.tyterm(&elem)?;
        let raw = full.starts_with("core::ptr::");
        let f = if raw { "raw_slice" } else { "from_raw_parts" };
        let (code, pure) = self.seq(vec![p, n], |v| (format!("({} {} {} {})", f, et, v[0], v[1]), raw));
        return Ok(Tr { code, ty: Ty::Ref(Box::new(Ty::SliceOf(Box::new(elem)))), pure });
      }
      ("CheckedCastError::PodCastError", _) if args.len() == 1 => {
        let x = self.expr(args[0], Some(&Ty::PErr))?;
        if x.ty != Ty::PErr { return Err("PodCastError(..) of a non-PodCastError".into()); }
        let (code, pure) = self.seq(vec![x], |n| (format!("(PodCastError {})", n[0]), true));
        return Ok(Tr { code, ty: Ty::CErr, pure });
      }
      ("Ok", _) if args.len() == 1 => {
        let (ea, eb) = match expected {
          Some(Ty::Result(a, b)) => (Some((**a).clone()), (**b).clone()),
          _ => (None, Ty::Unknown),
        };
        let x = self.expr(args[0], ea.as_ref())?;
        let ty = Ty::Result(Box::new(ea.unwrap_or_else(|| x.ty.clone())), Box::new(eb));
        let (code, pure) = self.seq(vec![x], |n| (format!("(Ok {})", n[0]), true));
        return Ok(Tr { code, ty, pure });
      }
      ("Err", _) if args.len() == 1 => {
        let (ea, eb) = match expected {
          Some(Ty::Result(a, b)) => ((**a).clone(), Some((**b).clone())),
          _ => (Ty::Unknown, None),
        };
        let x = self.expr(args[0], eb.as_ref())?;
        let ty = Ty::Result(Box::new(ea), Box::new(eb.unwrap_or_else(|| x.ty.clone())));
        let (code, pure) = self.seq(vec![x], |n| (format!("(Err {})", n[0]), true));
        return Ok(Tr { code, ty, pure });
      }
      (_, "something_went_wrong") if args.len() == 2 => {
        if !self.callees.iter().any(|c| c == "Internal::something_went_wrong") { self.callees.push("Internal::something_went_wrong".into()); }
        let f = self.expr(args[0], None)?;
        let e = self.expr(args[1], None)?;
        let ety = e.ty.clone();
        let mut wrap_err = None;
        let (code, pure) = self.seq(vec![f, e], |n| match err_wrap(&ety, &n[1]) {
          Ok(w) => (format!("(something_went_wrong {} {})", n[0], w), false),
          Err(x) => {
            wrap_err = Some(x);
            (String::new(), false)
          }
        });
        if let Some(x) = wrap_err {
          return Err(x);
        }
        return Ok(Tr { code, ty: Ty::Never, pure });
      }
      _ => {}
    }
    if let Some(t) = crate::tables::std_call(self, &full, &turbofish, &args, expected)? {
      return Ok(t);
    }
    self.user_call(&full, &lname, &turbofish, &args, expected)
  }

  fn is_valid(&mut self, b: &str, arg: &syn::Expr) -> R<Tr> {
    // `&pod` with pod by value, or `pod` a reference to Bits
    if let syn::Expr::Reference(r) = arg {
      let v = self.expr(&r.expr, None)?;
      if v.ty != Ty::Bits(b.to_string()) {
        return Err(format!("is_valid_bit_pattern(&x) with x : {:?}", v.ty));
      }
      let (code, pure) = self.seq(vec![v], |n| (format!("(c_valid {} {})", b, n[0]), true));
      return Ok(Tr { code, ty: Ty::Bool, pure });
    }
    let v = self.expr(arg, None)?;
    match &v.ty {
      Ty::Ref(p) if **p == Ty::Bits(b.to_string()) => {
        let (code, pure) =
          self.seq(vec![v], |n| (format!("(c_valid {} (load ENV (c_bits {}) {}))", b, b, n[0]), true));
        Ok(Tr { code, ty: Ty::Bool, pure })
      }
      other => Err(format!("is_valid_bit_pattern on {:?}", other)),
    }
  }

  pub fn user_call(&mut self, full: &str, lname: &str, turbofish: &[Ty], args: &[&syn::Expr],
                   expected: Option<&Ty>) -> R<Tr> {
    // resolve the module
    let candidates: Vec<String> = if full.starts_with("internal::") {
      vec!["Internal".into()]
    } else if full.starts_with("crate::") {
      vec!["Root".into()]
    } else if full.contains("::") {
      return Err(format!("unknown function {}", full));
    } else {
      let mut v = vec![self.ms.name.to_string()];
      for i in self.ms.imports.iter().rev() {
        v.push(i.to_string());
      }
      v
    };
    let mut sig = None;
    for m in candidates {
      if let Some(s) = self.sigs.get(&(m, lname.to_string())) {
        sig = Some(s.clone());
        break;
      }
    }
    let sig = sig.ok_or_else(|| format!("unknown function {}", full))?;
    if sig.params.len() != args.len() {
      return Err(format!("arity mismatch calling {}", full));
    }
    let vars: Vec<String> = sig.generics.iter().map(|g| g.name.clone()).collect();
    let mut s: HashMap<String, Ty> = HashMap::new();
    if !turbofish.is_empty() {
      if turbofish.len() != vars.len() {
        return Err(format!("turbofish arity mismatch calling {}", full));
      }
      for (v, t) in vars.iter().zip(turbofish) {
        if *t != Ty::Unknown {
          s.insert(v.clone(), t.clone());
        }
      }
    }
    let mut targs = vec![];
    for ((_, pty), a) in sig.params.iter().zip(args) {
      let pexp = subst(pty, &s);
      let has_var = format!("{:?}", pexp).contains("Param(") && vars.iter().any(|v| format!("{:?}", pexp).contains(&format!("Param(\"{}\")", v)));
      let t = self.expr(a, if has_var { None } else { Some(&pexp) })?;
      unify(pty, &t.ty, &vars, &mut s);
      targs.push(t);
    }
    if let Some(ex) = expected {
      unify(&sig.ret, ex, &vars, &mut s);
    }
    // same-name default for what is still unresolved
    let caller_g = self.generics.clone();
    for g in &sig.generics {
      if !s.contains_key(&g.name) {
        if let Some(cg) = caller_g.iter().find(|c| c.name == g.name) {
          if cg.is_cty && !g.is_cty {
            s.insert(g.name.clone(), Ty::Bits(cg.name.clone()));
          } else {
            s.insert(g.name.clone(), Ty::Param(cg.name.clone()));
          }
        } else {
          return Err(format!("cannot infer type parameter {} of {}", g.name, full));
        }
      }
    }
    let mut gterms = vec![];
    for g in &sig.generics {
      let t = &s[&g.name];
      if g.is_cty {
        match t {
          Ty::Param(n) if self.cty_names().contains(n) => gterms.push(n.clone()),
          _ => return Err(format!("checked type parameter {} of {} instantiated with {:?}", g.name, full, t)),
        }
      } else {
        gterms.push(self.tyterm(t)?);
      }
    }
    // `?Sized` parameters of the callee: the flag of the caller's parameter it is instantiated with
    for g in &sig.generics {
      if g.maybe_unsized {
        match &s[&g.name] {
          Ty::Param(n) if self.generics.iter().any(|c| &c.name == n && c.maybe_unsized) => gterms.push(format!("unsized_{}", n)),
          Ty::SliceOf(_) | Ty::Str => return Err(format!("{} instantiated with an unsized type", full)),
          _ => gterms.push("false".into()),
        }
      }
    }
    let ret = subst(&sig.ret, &s);
    if sig.module != self.ms.name {
      self.callees.push(format!("{}::{}", sig.module, sig.name));
    }
    if sig.module == self.ms.name {
      self.callees.push(sig.name.clone());
    }
    let qual = if sig.module == self.ms.name { sig.name.clone() } else { format!("{}.{}", sig.module, sig.name) };
    let (code, pure) = self.seq(targs, |n| {
      (format!("({} ENV {} {})", qual, gterms.join(" "), n.join(" ")).replace("  ", " "), false)
    });
    Ok(Tr { code, ty: ret, pure })
  }
}

fn pat_paren(b: &str) -> String {
  if b.starts_with('\'') {
    b[1..].to_string()
  } else {
    b.to_string()
  }
}
fn binder_let(b: &str) -> String {
  b.to_string()
}
fn binder_bind(b: &str) -> String {
  b.to_string()
}

fn split_semis(ts: proc_macro2::TokenStream) -> Vec<proc_macro2::TokenStream> {
  let mut out = vec![proc_macro2::TokenStream::new()];
  for tt in ts {
    match &tt {
      proc_macro2::TokenTree::Punct(p) if p.as_char() == ';' => out.push(proc_macro2::TokenStream::new()),
      _ => out.last_mut().unwrap().extend(std::iter::once(tt)),
    }
  }
  out
}

/// Translate one free function.  Returns the Coq definition and the same-module callees.
pub fn translate_fn(ms: &ModuleSpec, sig: &FnSig, f: &syn::ItemFn,
                    sigs: &HashMap<(String, String), FnSig>) -> R<(String, Vec<String>)> {
  translate_fn_with(ms, sig, &f.block, sigs, None, &sig.name)
}

pub fn translate_fn_with(ms: &ModuleSpec, sig: &FnSig, body: &syn::Block,
                         sigs: &HashMap<(String, String), FnSig>, self_ty: Option<Ty>,
                         coq_name: &str) -> R<(String, Vec<String>)> {
  let mut cx = Ctx {
    ms, sigs, generics: sig.generics.clone(), vars: vec![], ret: sig.ret.clone(), fresh: 0,
    callees: vec![], self_ty, aliases: vec![],
  };
  for (n, t) in &sig.params {
    cx.vars.push((n.clone(), t.clone()));
  }
  let ret = sig.ret.clone();
  let body = cx.block(&body.stmts, Some(&ret))?;
  let mut binders = String::from("(ENV : env)");
  for g in &sig.generics {
    binders.push_str(&format!(" ({} : {})", g.name, if g.is_cty { "cty" } else { "ty" }));
  }
  for g in &sig.generics {
    if g.maybe_unsized {
      binders.push_str(&format!(" (unsized_{} : bool)", g.name));
    }
  }
  for (n, t) in &sig.params {
    binders.push_str(&format!(" ({} : {})", vname(n), coq_type(t)?));
  }
  let rty = coq_type(&sig.ret)?;
  let code = format!("Definition {} {} : outcome {} :=\n  {}.", coq_name, binders, rty, body.lifted());
  Ok((code, cx.callees))
}
