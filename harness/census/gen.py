#!/usr/bin/env python3
"""Generate the census harness crate: for every type of a closed universe, ask rustc's trait solver
whether each marker trait is implemented (inherent-const-over-trait-const trick) and print one line
per type:  410 0 0 0 0 0 0 0 <cfg> <type-encoding> ; V pod zeroable nouninit anybits checked podinopt zeroinopt ; - ; 3
usage: gen.py <out-dir> <quick|thorough> <cfg-index>"""
import itertools
import os
import sys

INTS = ["u8", "i8", "u16", "i16", "u32", "i32", "u64", "i64", "u128", "i128", "usize", "isize"]
NZ = ["NonZeroU8", "NonZeroI8", "NonZeroU16", "NonZeroI16", "NonZeroU32", "NonZeroI32", "NonZeroU64", "NonZeroI64",
      "NonZeroU128", "NonZeroI128", "NonZeroUsize", "NonZeroIsize"]
ATOM = ["AtomicBool", "AtomicU8", "AtomicI8", "AtomicU16", "AtomicI16", "AtomicU32", "AtomicI32", "AtomicU64", "AtomicI64",
        "AtomicUsize", "AtomicIsize"]
SIMD = ["__m128i", "__m128", "__m128d", "__m256i", "__m256", "__m256d", "__m512", "__m512d", "__m512i"]


def leaf(rust, name):
    return (rust, "L." + name)


LEAVES = ([("()", "T.0"), leaf("bool", "bool"), leaf("char", "char"), leaf("f32", "f32"), leaf("f64", "f64")] +
          [leaf(i, i) for i in INTS] + [leaf("core::num::" + n, n) for n in NZ] +
          [leaf("core::sync::atomic::" + a, a) for a in ATOM] + [leaf("core::marker::PhantomPinned", "PhantomPinned")] +
          [leaf("core::arch::x86_64::" + s, s) for s in SIMD] + [leaf("NotAnything", "NotAnything")])
UNSIZED = [("str", "L.str"), ("dyn core::fmt::Debug", "L.dyn"), ("[u8]", "S/L.u8"), ("[bool]", "S/L.bool")]
REP = ["()", "bool", "u8", "u32", "f64", "core::num::NonZeroU8", "core::num::NonZeroI64", "core::sync::atomic::AtomicU32",
       "core::arch::x86_64::__m128", "char", "usize", "NotAnything"]


def app(c, rustc):
    return lambda t: ("%s<%s>" % (rustc, t[0]), "A.%s.1/%s" % (c, t[1]))


UNARY = {
    "Wrapping": app("Wrapping", "core::num::Wrapping"), "Saturating": app("Saturating", "core::num::Saturating"),
    "Reverse": app("Reverse", "core::cmp::Reverse"), "ManuallyDrop": app("ManuallyDrop", "core::mem::ManuallyDrop"),
    "MaybeUninit": app("MaybeUninit", "core::mem::MaybeUninit"), "Cell": app("Cell", "core::cell::Cell"),
    "UnsafeCell": app("UnsafeCell", "core::cell::UnsafeCell"), "PhantomData": app("PhantomData", "core::marker::PhantomData"),
    "Option": app("Option", "Option"), "NonNull": app("NonNull", "core::ptr::NonNull"), "Box": app("Box", "Box"),
    "AtomicPtr": app("AtomicPtr", "core::sync::atomic::AtomicPtr"),
    "cptr": lambda t: ("*const %s" % t[0], "P.0/" + t[1]), "mptr": lambda t: ("*mut %s" % t[0], "P.1/" + t[1]),
    "ref": lambda t: ("&'static %s" % t[0], "F.0/" + t[1]), "mref": lambda t: ("&'static mut %s" % t[0], "F.1/" + t[1]),
    "arr0": lambda t: ("[%s; 0]" % t[0], "Y.0/" + t[1]), "arr1": lambda t: ("[%s; 1]" % t[0], "Y.1/" + t[1]),
    "arr4": lambda t: ("[%s; 4]" % t[0], "Y.4/" + t[1]), "arr33": lambda t: ("[%s; 33]" % t[0], "Y.33/" + t[1]),
    "arr37": lambda t: ("[%s; 37]" % t[0], "Y.37/" + t[1]), "arr4096": lambda t: ("[%s; 4096]" % t[0], "Y.4096/" + t[1]),
    "tup1": lambda t: ("(%s,)" % t[0], "T.1/" + t[1]),
}
UNSIZED_OK = {"PhantomData", "NonNull", "Box", "cptr", "mptr", "ref", "mref"}   # constructors that accept ?Sized arguments


def fn_types():
    out = []
    for abi, rabi in (("Rust", ""), ("C", 'extern "C" '), ("system", 'extern "system" '), ("C-unwind", 'extern "C-unwind" '),
                      ("system-unwind", 'extern "system-unwind" ')):
        for uns in (0, 1):
            for nargs in (0, 1, 3, 13, 14):
                args = ["u8"] * nargs
                rust = "%s%sfn(%s) -> u32" % ("unsafe " if uns else "", rabi, ", ".join(args))
                enc = "N.%s.%d.%d/%s" % (abi, uns, nargs, "/".join(["L.u8"] * nargs + ["L.u32"]))
                out.append((rust, enc))
    return out


def universe(tier):
    by_rust = {}

    def add(t):
        by_rust.setdefault(t[0], t)

    for t in LEAVES:
        add(t)
    for t in UNSIZED:
        add(t)
    for name, f in UNARY.items():
        for t in LEAVES:
            add(f(t))
        if name in UNSIZED_OK:
            for t in UNSIZED:
                add(f(t))
    reps = [t for t in LEAVES if t[0] in REP]
    names = list(UNARY.keys())
    outer = names if tier == "thorough" else ["Wrapping", "ManuallyDrop", "MaybeUninit", "Cell", "PhantomData", "Option", "cptr", "arr4", "arr37", "tup1", "Reverse"]
    inner = names if tier == "thorough" else ["Wrapping", "ManuallyDrop", "MaybeUninit", "Option", "cptr", "ref", "arr0", "arr4", "NonNull", "Box", "UnsafeCell"]
    for o in outer:
        for i in inner:
            for t in reps:
                add(UNARY[o](UNARY[i](t)))
            if i in UNSIZED_OK:
                for t in UNSIZED[:2]:
                    add(UNARY[o](UNARY[i](t)))
    # tuples of 2..9 elements
    pool = [t for t in LEAVES if t[0] in ("u8", "bool", "f32", "core::num::NonZeroU16", "()", "NotAnything", "u64")]
    for n in range(2, 10):
        for k in range(len(pool)):
            elems = [pool[(k + j * (k % 3 + 1)) % len(pool)] for j in range(n)]
            add(("(%s)" % ", ".join(e[0] for e in elems), "T.%d/%s" % (n, "/".join(e[1] for e in elems))))
        allz = [pool[0]] * n
        add(("(%s)" % ", ".join(e[0] for e in allz), "T.%d/%s" % (n, "/".join(e[1] for e in allz))))
    for t in fn_types():
        add(t)
        add(UNARY["Option"](t))
    return list(by_rust.values())


MAIN = r'''#![allow(unused, clippy::all, improper_ctypes_definitions)]
use std::io::Write;
#[derive(Clone, Copy)] pub struct NotAnything(u8);
pub struct P<T: ?Sized>(core::marker::PhantomData<T>);
macro_rules! probe_trait { ($tr:ident, $path:path, $c:ident) => {
  pub trait $tr { const $c: bool = false; } impl<T: ?Sized> $tr for P<T> {}
  impl<T: ?Sized + $path> P<T> { pub const $c: bool = true; }
} }
probe_trait!(NPod, bytemuck::Pod, POD);
probe_trait!(NZer, bytemuck::Zeroable, ZER);
probe_trait!(NNou, bytemuck::NoUninit, NOU);
probe_trait!(NAny, bytemuck::AnyBitPattern, ANY);
probe_trait!(NChk, bytemuck::checked::CheckedBitPattern, CHK);
probe_trait!(NPio, bytemuck::PodInOption, PIO);
probe_trait!(NZio, bytemuck::ZeroableInOption, ZIO);
macro_rules! row { ($out:expr, $cfg:expr, $enc:expr, $t:ty) => {
  writeln!($out, "410 0 0 0 0 0 0 0 {} {} ; V {} {} {} {} {} {} {} ; - ; 3", $cfg, $enc,
    <P<$t>>::POD as u8, <P<$t>>::ZER as u8, <P<$t>>::NOU as u8, <P<$t>>::ANY as u8, <P<$t>>::CHK as u8, <P<$t>>::PIO as u8, <P<$t>>::ZIO as u8).unwrap();
} }
mod rows;
fn main() {
  let mut out = std::io::BufWriter::with_capacity(1 << 20, std::io::stdout());
  rows::run(&mut out);
  out.flush().unwrap();
}
'''

FEATURES = {0: [], 1: ["extern_crate_alloc"], 2: ["extern_crate_alloc", "align_offset", "track_caller"],
            3: ["extern_crate_alloc", "extern_crate_std", "latest_stable_rust"]}


def gen(out, tier, cfg):
    os.makedirs(os.path.join(out, "src"), exist_ok=True)
    feats = ", ".join('"%s"' % f for f in FEATURES[cfg])
    open(os.path.join(out, "Cargo.toml"), "w").write('''[package]
name = "census"
version = "0.1.0"
edition = "2021"

[workspace]

[dependencies]
bytemuck = { path = "/repo", features = [%s] }

[profile.dev]
opt-level = 0
debug = 0
incremental = false
''' % feats)
    open(os.path.join(out, "src", "main.rs"), "w").write(MAIN)
    rows = ["use super::*;", "pub fn run<W: Write>(out: &mut W) {"]
    types = universe(tier)
    chunk = 400
    for k in range(0, len(types), chunk):
        rows.append("  part%d(out);" % (k // chunk))
    rows.append("}")
    for k in range(0, len(types), chunk):
        rows.append("#[inline(never)] fn part%d<W: Write>(out: &mut W) {" % (k // chunk))
        for (rust, enc) in types[k:k + chunk]:
            rows.append('  row!(out, %d, "%s", %s);' % (cfg, enc, rust))
        rows.append("}")
    open(os.path.join(out, "src", "rows.rs"), "w").write("\n".join(rows) + "\n")
    return len(types)


if __name__ == "__main__":
    print(gen(sys.argv[1], sys.argv[2], int(sys.argv[3])))
