#!/usr/bin/env python3
"""Generate the contig harness crate: every built-in Contiguous impl and a family of derived enums
(with hand-implemented twins that use the trait's default methods), probed with integer values.
usage: gen.py <out-dir> <quick|thorough> <seed>
line:  401 0 <bits> <signed> 0 0 0 0 0 - ; V <type-index> <value> <is_some> <roundtrip_ok>
       402 0 <bits> <signed> 0 0 0 0 0 - ; V <min> <max> <value> <derived_some> <default_some> <derived_rt> <default_rt> <minmax_ok>"""
import os
import random
import sys

BUILTIN = [("bool", "u8"), ("u8", "u8"), ("u16", "u16"), ("u32", "u32"), ("u64", "u64"), ("u128", "u128"), ("usize", "usize"),
           ("i8", "i8"), ("i16", "i16"), ("i32", "i32"), ("i64", "i64"), ("i128", "i128"), ("isize", "isize"),
           ("core::num::NonZeroU8", "u8"), ("core::num::NonZeroU16", "u16"), ("core::num::NonZeroU32", "u32"),
           ("core::num::NonZeroU64", "u64"), ("core::num::NonZeroU128", "u128"), ("core::num::NonZeroUsize", "usize")]


def table_rows():
    """The built-in Contiguous impls as the table extractor found them in the crate (coq/Gen/Tables.v, regenerated from
    rustc's macro expansion before this generator runs): impls added to the crate are probed as well."""
    import re
    path = os.path.join(os.path.dirname(os.path.abspath(__file__)), "..", "..", "coq", "Gen", "Tables.v")
    try:
        txt = open(path).read()
    except OSError:
        return []
    m = re.search(r"Definition contiguous_rows_all : list crow := \[(.*?)\]\.", txt, flags=re.S)
    if not m:
        return []
    return re.findall(r'mkCRow "(\w+)" "(\w+)"', m.group(1))


def rust_path(name):
    if name == "bool" or name in BITS:
        return name
    if name.startswith("NonZero"):
        return "core::num::" + name
    return None


def builtins():
    out = list(BUILTIN)
    have = set(b[0].split("::")[-1] for b in out)
    for name, it in table_rows():
        if name in have or it not in BITS:
            continue
        rp = rust_path(name)
        if rp is None:
            continue
        out.append((rp, it))
        have.add(name)
    return out

BITS = {"u8": 8, "i8": 8, "u16": 16, "i16": 16, "u32": 32, "i32": 32, "u64": 64, "i64": 64, "usize": 64, "isize": 64, "u128": 128, "i128": 128}

MAIN = r'''#![allow(unused, clippy::all)]
use bytemuck::Contiguous;
use std::io::Write;
mod enums;
fn probes_wide(min: i128, max: i128, lo: i128, hi: i128) -> Vec<i128> {
  let mut v = vec![lo, lo.saturating_add(1), hi, hi.saturating_sub(1), 0, -1, 1, min, max,
    min.saturating_sub(1), min.saturating_add(1), max.saturating_sub(1), max.saturating_add(1)];
  v.retain(|x| *x >= lo && *x <= hi); v.sort(); v.dedup(); v
}
macro_rules! builtin { ($out:expr, $idx:expr, $t:ty, $int:ty, $bits:expr, $signed:expr, $umax:expr, $name:expr) => {{
  let lo: i128 = <$int>::MIN as i128; let hi: i128 = if $umax { i128::MAX } else { <$int>::MAX as i128 };
  let vals: Vec<$int> = if $bits <= 16 { (<$int>::MIN..=<$int>::MAX).collect() } else {
    let mut v: Vec<$int> = vec![<$int>::MIN, <$int>::MIN + 1, <$int>::MAX, <$int>::MAX - 1, 0 as $int, 1 as $int, 2 as $int, (0 as $int).wrapping_sub(1),
      <$t as Contiguous>::MIN_VALUE, <$t as Contiguous>::MAX_VALUE, <$t as Contiguous>::MIN_VALUE.wrapping_sub(1), <$t as Contiguous>::MIN_VALUE.wrapping_add(1),
      <$t as Contiguous>::MAX_VALUE.wrapping_sub(1), <$t as Contiguous>::MAX_VALUE.wrapping_add(1)]; v.sort(); v.dedup(); v };
  for v in vals {
    let r = <$t as Contiguous>::from_integer(v);
    let some = r.is_some();
    let rt = match r { Some(x) => x.into_integer() == v, None => true };
    writeln!($out, "401 0 {} {} 0 0 0 0 0 {} ; V {} {} {} {} {} {} ; - ; 3", $bits, $signed as u8, $name, $idx, v, some as u8, rt as u8,
      <$t as Contiguous>::MIN_VALUE, <$t as Contiguous>::MAX_VALUE).unwrap();
  }
}} }
fn main() {
  let mut out = std::io::BufWriter::with_capacity(1 << 20, std::io::stdout());
__BUILTINS__
  enums::run(&mut out);
  out.flush().unwrap();
}
'''


def gen(out, tier, seed):
    rnd = random.Random(seed)
    os.makedirs(os.path.join(out, "src"), exist_ok=True)
    open(os.path.join(out, "Cargo.toml"), "w").write('''[package]
name = "contig"
version = "0.1.0"
edition = "2021"

[workspace]

[dependencies]
bytemuck = { path = "/repo", features = ["derive"] }

[profile.dev]
opt-level = 0
debug = 0
incremental = false
overflow-checks = true
debug-assertions = false
''')
    b = []
    for i, (t, it) in enumerate(builtins()):
        hexname = t.split("::")[-1].encode().hex()
        b.append("  builtin!(out, %d, %s, %s, %d, %s, %s, \"%s\");" % (i, t, it, BITS[it], "true" if it.startswith("i") else "false", "true" if it == "u128" else "false", hexname))
    open(os.path.join(out, "src", "main.rs"), "w").write(MAIN.replace("__BUILTINS__", "\n".join(b)))
    # derived enums + twins
    reprs = ["u8", "i8", "u16", "i16", "u32", "i32", "u64", "i64", "usize", "isize", "u128", "i128"]
    e = ["#![allow(unused, non_camel_case_types)]", "use bytemuck::Contiguous;", "use std::io::Write;"]
    runs = []
    n_per = 3 if tier == "quick" else 8
    k = 0
    for r in reprs:
        signed = r.startswith("i")
        bits = BITS[r]
        lo = -(1 << (bits - 1)) if signed else 0
        hi = (1 << (bits - 1)) - 1 if signed else (1 << bits) - 1
        # the derive parses literals through i128: keep the family inside what it accepts
        # (a literal above i128::MAX, or i128::MIN written as -(2^127), is refused by the derive)
        if bits == 128:
            lo = lo + 1 if signed else lo
            hi = (1 << 127) - 1
        shapes = []
        shapes.append((0, 1))                      # one variant at 0
        shapes.append((lo, 3))                     # starting at the type's minimum
        shapes.append((hi - 2, 3))                 # ending at the type's maximum
        if signed:
            shapes.append((-2, 5))
        for _ in range(n_per):
            cnt = rnd.randint(1, 6)
            start = rnd.randint(max(lo, -40), min(hi - cnt, 40))
            shapes.append((start, cnt))
        for (start, cnt) in shapes:
            k += 1
            vals = list(range(start, start + cnt))
            order = vals[:]
            if k % 3 == 1:
                order.reverse()
            elif k % 3 == 2:
                rnd.shuffle(order)
            def lit(v):
                return "%d" % v
            variants = ", ".join("V%d = %s" % (i, lit(v)) for i, v in enumerate(order))
            e.append("#[derive(Clone, Copy, Debug, PartialEq, Contiguous)] #[repr(%s)] pub enum D%d { %s }" % (r, k, variants))
            e.append("#[derive(Clone, Copy, Debug, PartialEq)] #[repr(%s)] pub enum H%d { %s }" % (r, k, variants))
            e.append("unsafe impl Contiguous for H%d { type Int = %s; const MIN_VALUE: %s = %s; const MAX_VALUE: %s = %s; }" % (k, r, r, lit(vals[0]), r, lit(vals[-1])))
            runs.append("  probe!(out, D%d, H%d, %s, %d, %s, %s, %s);" % (k, k, r, bits, "true" if signed else "false", lit(vals[0]), lit(vals[-1])))
    e.append(r'''
macro_rules! probe { ($out:expr, $d:ty, $h:ty, $int:ty, $bits:expr, $signed:expr, $min:expr, $max:expr) => {{
  let mn: $int = $min; let mx: $int = $max;
  let mm = (<$d as Contiguous>::MIN_VALUE == mn) && (<$d as Contiguous>::MAX_VALUE == mx);
  let vals: Vec<$int> = if $bits <= 16 { (<$int>::MIN..=<$int>::MAX).collect() } else {
    let mut v: Vec<$int> = vec![<$int>::MIN, <$int>::MIN + 1, <$int>::MAX, <$int>::MAX - 1, 0 as $int, 1 as $int, (0 as $int).wrapping_sub(1),
      mn, mx, mn.wrapping_sub(1), mn.wrapping_add(1), mx.wrapping_sub(1), mx.wrapping_add(1)];
    for x in mn..=mx { v.push(x); } v.sort(); v.dedup(); v };
  for v in vals {
    let d = <$d as Contiguous>::from_integer(v); let h = <$h as Contiguous>::from_integer(v);
    let (ds, hs) = (d.is_some(), h.is_some());
    let drt = match d { Some(x) => x.into_integer() == v, None => true };
    let hrt = match h { Some(x) => x.into_integer() == v, None => true };
    writeln!($out, "402 0 {} {} 0 0 0 0 0 - ; V {} {} {} {} {} {} {} {} ; - ; 3", $bits, $signed as u8, mn, mx, v, ds as u8, hs as u8, drt as u8, hrt as u8, mm as u8).unwrap();
  }
}} }
pub fn run<W: Write>(out: &mut W) {
''' + "\n".join(runs) + "\n}\n")
    open(os.path.join(out, "src", "enums.rs"), "w").write("\n".join(e))


if __name__ == "__main__":
    gen(sys.argv[1], sys.argv[2], int(sys.argv[3]) if len(sys.argv) > 3 else 1)
