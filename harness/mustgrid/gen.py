#!/usr/bin/env python3
"""Generate the mustgrid crate: five binaries, one per must_ function, each instantiating the
function for every ordered pair of grid types.  `cargo build --bin m14x` fails with one
post-monomorphisation error per rejected instantiation; the runner parses them into compile
verdicts (C14).  usage: gen.py <out-dir> <quick|thorough>"""
import os
import sys
sys.path.insert(0, os.path.join(os.path.dirname(os.path.abspath(__file__)), "..", "castgrid"))
from gen import QUICK_TYPES, all_types, tname  # noqa: E402

CALLS = {
    141: "let _ = bytemuck::must_cast_ref::<{A}, {B}>(&<{A} as bytemuck::Zeroable>::zeroed());",
    142: "let _ = bytemuck::must_cast_mut::<{A}, {B}>(&mut <{A} as bytemuck::Zeroable>::zeroed());",
    143: "let _ = bytemuck::must_cast_slice::<{A}, {B}>(&[<{A} as bytemuck::Zeroable>::zeroed()]);",
    144: "let _ = bytemuck::must_cast_slice_mut::<{A}, {B}>(&mut [<{A} as bytemuck::Zeroable>::zeroed()]);",
    145: "let _: {B} = bytemuck::must_cast::<{A}, {B}>(<{A} as bytemuck::Zeroable>::zeroed());",
}


def gen(out, tier):
    types = QUICK_TYPES if tier == "quick" else all_types()
    os.makedirs(os.path.join(out, "src", "bin"), exist_ok=True)
    with open(os.path.join(out, "Cargo.toml"), "w") as f:
        f.write('''[package]
name = "mustgrid"
version = "0.1.0"
edition = "2021"

[workspace]

[dependencies]
bytemuck = { path = "/repo", features = ["must_cast", "must_cast_extra"] }

[profile.dev]
opt-level = 0
debug = 0
incremental = false
''')
    t = []
    for (s, a) in types:
        n = tname(s, a)
        t.append("#[derive(Clone, Copy)] #[repr(C, align(%d))] pub struct %s(pub [u8; %d]);" % (a, n, s))
        t.append("unsafe impl bytemuck::Zeroable for %s {} unsafe impl bytemuck::Pod for %s {}" % (n, n))
    with open(os.path.join(out, "src", "lib.rs"), "w") as f:
        f.write("#![allow(unused)]\n" + "\n".join(t) + "\n")
    for fn, call in CALLS.items():
        lines = ["#![allow(unused)]", "use mustgrid::*;", "fn main() {"]
        for (s, a) in types:
            lines.append("  row_%s();" % tname(s, a))
        lines.append("}")
        for (s, a) in types:
            lines.append("#[inline(never)] fn row_%s() {" % tname(s, a))
            for (s2, a2) in types:
                lines.append("  " + call.format(A=tname(s, a), B=tname(s2, a2)))
            lines.append("}")
        with open(os.path.join(out, "src", "bin", "m%d.rs" % fn), "w") as f:
            f.write("\n".join(lines) + "\n")


if __name__ == "__main__":
    gen(sys.argv[1], sys.argv[2])
