#!/usr/bin/env python3
"""Generate the castgrid harness crate (Rust) into a build directory.

castgrid links the working tree of /repo by path and runs every borrowed / by-value / checked
cast of the public API over the type grid, printing one line per call in the oracle's line
protocol (see oracle/driver.ml).  usage: gen.py <out-dir> <quick|thorough>
"""
import os
import sys

QUICK_TYPES = [(0, 1), (1, 1), (2, 1), (3, 1), (4, 1), (6, 1), (8, 1), (12, 1), (16, 1),
               (0, 2), (2, 2), (4, 2), (6, 2), (12, 2),
               (0, 4), (4, 4), (8, 4), (12, 4), (24, 4),
               (0, 8), (8, 8), (16, 8), (24, 8),
               (0, 16), (16, 16), (32, 16)]


def all_types():
    out = []
    for a in (1, 2, 4, 8, 16):
        for s in range(0, 33):
            if s % a == 0:
                out.append((s, a))
    return out


def tname(s, a):
    return "S%dA%d" % (s, a)


MAIN = r'''
#![allow(unused, clippy::all)]
use bytemuck::checked::{self, CheckedCastError};
use bytemuck::{Pod, PodCastError, Zeroable};
use std::any::Any;
use std::io::Write;
use std::panic::{catch_unwind, AssertUnwindSafe};

mod types;
use types::*;

pub trait G: Pod {
  const SZ: usize;
  const AL: usize;
}
// a constant value with a recognisable byte pattern, for the const-context must_ casts
pub trait GP: G { const PAT: Self; }

const ARENA: usize = 1024;
const SRC0: usize = 256;
const BASE: usize = 4096;

#[repr(C, align(64))]
struct Arena([u8; ARENA]);

static mut AR: Arena = Arena([0u8; ARENA]);

fn bg(i: usize) -> u8 { (i as u8).wrapping_mul(31).wrapping_add(7) }
fn mark(k: usize) -> u8 { (k as u8).wrapping_mul(13).wrapping_add(0x81) }
fn ar() -> *mut u8 { unsafe { core::ptr::addr_of_mut!(AR) as *mut u8 } }
static mut DIRTY: bool = true;
static mut WIN_HI: usize = ARENA;
// the arena is refilled only after a call wrote to it; the integrity check looks at the window
// [SRC0-128, source end + 128) around the source (128 canary bytes on each side)
fn fill() { unsafe { if DIRTY { for i in 0..ARENA { *ar().add(i) = bg(i) } DIRTY = false; } } }
fn intact_except(lo: usize, hi: usize) -> bool {
  let whi = unsafe { WIN_HI };
  let ok = (SRC0 - 128..whi).all(|i| (i >= lo && i < hi) || unsafe { *ar().add(i) } == bg(i));
  if !ok || lo != hi { unsafe { DIRTY = true; } }
  ok
}
// canonical address: arena-relative (+BASE) inside or near the arena; anything else is "foreign
// memory", reported as 2^40 + (address mod 4096) so that transcripts are deterministic
fn canon<T>(p: *const T) -> usize {
  let d = (p as usize).wrapping_sub(ar() as usize).wrapping_add(BASE);
  if d < BASE + ARENA + BASE { d } else { (1usize << 40) + (p as usize % 4096) }
}
fn hex(off: usize, n: usize) -> String {
  if n == 0 { return "-".into(); }
  (0..n).map(|i| format!("{:02x}", unsafe { *ar().add(off + i) })).collect()
}
fn hexs(b: &[u8]) -> String {
  if b.is_empty() { return "-".into(); }
  b.iter().map(|x| format!("{:02x}", x)).collect()
}

fn pe(e: PodCastError) -> u32 {
  match e {
    PodCastError::TargetAlignmentGreaterAndInputNotAligned => 0,
    PodCastError::OutputSliceWouldHaveSlop => 1,
    PodCastError::SizeMismatch => 2,
    PodCastError::AlignmentMismatch => 3,
  }
}
fn ce(e: CheckedCastError) -> u32 {
  match e {
    CheckedCastError::PodCastError(p) => 10 + pe(p),
    CheckedCastError::InvalidBitPattern => 14,
  }
}
fn variant_code(s: &str) -> Option<u32> {
  Some(match s {
    "TargetAlignmentGreaterAndInputNotAligned" => 0,
    "OutputSliceWouldHaveSlop" => 1,
    "SizeMismatch" => 2,
    "AlignmentMismatch" => 3,
    "PodCastError(TargetAlignmentGreaterAndInputNotAligned)" => 10,
    "PodCastError(OutputSliceWouldHaveSlop)" => 11,
    "PodCastError(SizeMismatch)" => 12,
    "PodCastError(AlignmentMismatch)" => 13,
    "InvalidBitPattern" => 14,
    _ => return None,
  })
}
fn panic_obs(p: Box<dyn Any + Send>) -> String {
  let msg: String = if let Some(s) = p.downcast_ref::<String>() { s.clone() }
    else if let Some(s) = p.downcast_ref::<&str>() { s.to_string() } else { String::new() };
  if let Some(i) = msg.find('>') {
    if let Some(c) = variant_code(&msg[i + 1..]) { return format!("PMSG {}", c); }
  }
  "POTHER".into()
}

static mut CFG: u32 = 0;
static mut OUT: Option<std::io::BufWriter<std::io::Stdout>> = None;
fn emit(fnid: u32, sa: usize, aa: usize, sb: usize, ab: usize, len: usize, addr: usize, kind: u32,
        hexb: &str, obs: &str, twin: &str, flags: u32) {
  unsafe {
    let o = OUT.as_mut().unwrap();
    writeln!(o, "{} {} {} {} {} {} {} {} {} {} ; {} ; {} ; {}", fnid, CFG, sa, aa, sb, ab, len, addr, kind,
      hexb, obs, twin, flags).unwrap();
  }
}

// observe a shared slice view
fn so<B>(r: Result<&[B], u32>) -> String {
  match r { Ok(v) => format!("OK {} {}", canon(v.as_ptr()), v.len()), Err(c) => format!("ERR {}", c) }
}
fn ro<B>(r: Result<&B, u32>) -> String {
  match r { Ok(v) => format!("OK {} 1", canon(v as *const B)), Err(c) => format!("ERR {}", c) }
}
// write through a mutable view of `vb` bytes starting at `vp`; the source occupies [off, off+nbytes).
// returns flags: bit0 everything outside the source footprint intact, bit1 view == footprint and
// every written byte landed on the corresponding source byte
fn write_through(vp: *mut u8, vb: usize, off: usize, nbytes: usize) -> u32 {
  let voff = (vp as usize).wrapping_sub(ar() as usize);
  unsafe { DIRTY = true; }
  let mut inside = true;
  for k in 0..vb {
    let idx = voff.wrapping_add(k);
    if idx < ARENA { unsafe { vp.add(k).write_volatile(mark(k)) } } else { inside = false; }
  }
  let same = vb == nbytes && (vb == 0 || voff == off);
  let landed = (0..nbytes).all(|k| unsafe { *ar().add(off + k) } == if same { mark(k) } else { 0 } || !same);
  let b0 = intact_except(off, off + nbytes) && inside;
  let b1 = same && landed && (0..nbytes).all(|k| unsafe { *ar().add(off + k) } == mark(k));
  (b0 as u32) | ((b1 as u32) << 1)
}
fn smo<B: G>(r: Result<&mut [B], u32>, off: usize, nbytes: usize) -> (String, u32) {
  match r {
    Ok(v) => {
      let s = format!("OK {} {}", canon(v.as_ptr()), v.len());
      let f = write_through(v.as_mut_ptr() as *mut u8, v.len() * B::SZ, off, nbytes);
      (s, f)
    }
    Err(c) => (format!("ERR {}", c), (intact_except(0, 0) as u32) | 2),
  }
}
fn rmo<B: G>(r: Result<&mut B, u32>, off: usize, nbytes: usize) -> (String, u32) {
  match r {
    Ok(v) => {
      let s = format!("OK {} 1", canon(v as *const B));
      let f = write_through(v as *mut B as *mut u8, B::SZ, off, nbytes);
      (s, f)
    }
    Err(c) => (format!("ERR {}", c), (intact_except(0, 0) as u32) | 2),
  }
}
fn ro_flags() -> u32 { (intact_except(0, 0) as u32) | 2 }

fn residues(al: usize) -> Vec<usize> { (0..16).filter(|r| r % al == 0).collect() }

#[inline(never)]
fn run_slices<A: G, B: G>(maxlen: usize) {
  let (sa, aa, sb, ab) = (A::SZ, A::AL, B::SZ, B::AL);
  for r in residues(aa) {
    for len in 0..=maxlen {
      let off = SRC0 + r;
      let nbytes = len * sa;
      let addr = BASE + off;
      let p = unsafe { ar().add(off) };
      macro_rules! shared { () => { unsafe { core::slice::from_raw_parts(p as *const A, len) } } }
      macro_rules! muts { () => { unsafe { core::slice::from_raw_parts_mut(p as *mut A, len) } } }
      // 1 try_cast_slice
      fill();
      let t1 = so(bytemuck::try_cast_slice::<A, B>(shared!()).map_err(pe));
      emit(1, sa, aa, sb, ab, len, addr, 0, "-", &t1, "-", ro_flags());
      // 3 cast_slice
      fill();
      let o = match catch_unwind(AssertUnwindSafe(|| so(Ok(bytemuck::cast_slice::<A, B>(shared!()))))) {
        Ok(s) => s, Err(p) => panic_obs(p) };
      emit(3, sa, aa, sb, ab, len, addr, 0, "-", &o, &t1, ro_flags());
      // 2 try_cast_slice_mut
      fill();
      let (t2, f) = smo(bytemuck::try_cast_slice_mut::<A, B>(muts!()).map_err(pe), off, nbytes);
      emit(2, sa, aa, sb, ab, len, addr, 0, "-", &t2, "-", f);
      // 4 cast_slice_mut
      fill();
      let (o, f) = match catch_unwind(AssertUnwindSafe(|| smo(Ok(bytemuck::cast_slice_mut::<A, B>(muts!())), off, nbytes))) {
        Ok(x) => x, Err(p) => (panic_obs(p), ro_flags()) };
      emit(4, sa, aa, sb, ab, len, addr, 0, "-", &o, &t2, f);
      // 21..24 checked module, any-bit-pattern target
      fill();
      let t21 = so(checked::try_cast_slice::<A, B>(shared!()).map_err(ce));
      emit(21, sa, aa, sb, ab, len, addr, 0, "-", &t21, "-", ro_flags());
      fill();
      let o = match catch_unwind(AssertUnwindSafe(|| so(Ok(checked::cast_slice::<A, B>(shared!()))))) {
        Ok(s) => s, Err(p) => panic_obs(p) };
      emit(23, sa, aa, sb, ab, len, addr, 0, "-", &o, &t21, ro_flags());
      fill();
      let (t22, f) = smo(checked::try_cast_slice_mut::<A, B>(muts!()).map_err(ce), off, nbytes);
      emit(22, sa, aa, sb, ab, len, addr, 0, "-", &t22, "-", f);
      fill();
      let (o, f) = match catch_unwind(AssertUnwindSafe(|| smo(Ok(checked::cast_slice_mut::<A, B>(muts!())), off, nbytes))) {
        Ok(x) => x, Err(p) => (panic_obs(p), ro_flags()) };
      emit(24, sa, aa, sb, ab, len, addr, 0, "-", &o, &t22, f);
      // 15 pod_align_to / 16 pod_align_to_mut
      fill();
      let (p0, m0, s0) = bytemuck::pod_align_to::<A, B>(shared!());
      let o = format!("SPLIT {} {} {} {} {} {}", canon(p0.as_ptr()), p0.len(), if m0.is_empty() { 0 } else { canon(m0.as_ptr()) }, m0.len(), if s0.is_empty() { 0 } else { canon(s0.as_ptr()) }, s0.len());
      emit(15, sa, aa, sb, ab, len, addr, 0, "-", &o, "-", ro_flags());
      fill();
      let (p1, m1, s1) = bytemuck::pod_align_to_mut::<A, B>(muts!());
      let o = format!("SPLIT {} {} {} {} {} {}", canon(p1.as_ptr()), p1.len(), if m1.is_empty() { 0 } else { canon(m1.as_ptr()) }, m1.len(), if s1.is_empty() { 0 } else { canon(s1.as_ptr()) }, s1.len());
      let parts = [(p1.as_mut_ptr() as *mut u8, p1.len() * sa), (m1.as_mut_ptr() as *mut u8, m1.len() * sb), (s1.as_mut_ptr() as *mut u8, s1.len() * sa)];
      let f = write_through_parts(&parts, off, nbytes);
      emit(16, sa, aa, sb, ab, len, addr, 0, "-", &o, "-", f);
    }
  }
}

// write mark(k) to the k-th byte of the concatenation of the parts; the source occupies [off, off+nbytes)
fn write_through_parts(parts: &[(*mut u8, usize)], off: usize, nbytes: usize) -> u32 {
  unsafe { DIRTY = true; }
  let mut k = 0usize;
  let mut inside = true;
  for &(vp, vb) in parts {
    let voff = (vp as usize).wrapping_sub(ar() as usize);
    for j in 0..vb {
      let idx = voff.wrapping_add(j);
      if idx < ARENA { unsafe { vp.add(j).write_volatile(mark(k)) } } else { inside = false; }
      k += 1;
    }
  }
  let b0 = intact_except(off, off + nbytes) && inside;
  let b1 = k == nbytes && (0..nbytes).all(|i| unsafe { *ar().add(off + i) } == mark(i));
  (b0 as u32) | ((b1 as u32) << 1)
}

#[inline(never)]
fn run_refs<A: G, B: G>() {
  let (sa, aa, sb, ab) = (A::SZ, A::AL, B::SZ, B::AL);
  for r in residues(aa) {
    let off = SRC0 + r;
    let addr = BASE + off;
    let p = unsafe { ar().add(off) };
    macro_rules! shared { () => { unsafe { &*(p as *const A) } } }
    macro_rules! muts { () => { unsafe { &mut *(p as *mut A) } } }
    fill();
    let t5 = ro(bytemuck::try_cast_ref::<A, B>(shared!()).map_err(pe));
    emit(5, sa, aa, sb, ab, 1, addr, 0, "-", &t5, "-", ro_flags());
    fill();
    let o = match catch_unwind(AssertUnwindSafe(|| ro(Ok(bytemuck::cast_ref::<A, B>(shared!()))))) {
      Ok(s) => s, Err(p) => panic_obs(p) };
    emit(7, sa, aa, sb, ab, 1, addr, 0, "-", &o, &t5, ro_flags());
    fill();
    let (t6, f) = rmo(bytemuck::try_cast_mut::<A, B>(muts!()).map_err(pe), off, sa);
    emit(6, sa, aa, sb, ab, 1, addr, 0, "-", &t6, "-", f);
    fill();
    let (o, f) = match catch_unwind(AssertUnwindSafe(|| rmo(Ok(bytemuck::cast_mut::<A, B>(muts!())), off, sa))) {
      Ok(x) => x, Err(p) => (panic_obs(p), ro_flags()) };
    emit(8, sa, aa, sb, ab, 1, addr, 0, "-", &o, &t6, f);
    fill();
    let t25 = ro(checked::try_cast_ref::<A, B>(shared!()).map_err(ce));
    emit(25, sa, aa, sb, ab, 1, addr, 0, "-", &t25, "-", ro_flags());
    fill();
    let o = match catch_unwind(AssertUnwindSafe(|| ro(Ok(checked::cast_ref::<A, B>(shared!()))))) {
      Ok(s) => s, Err(p) => panic_obs(p) };
    emit(27, sa, aa, sb, ab, 1, addr, 0, "-", &o, &t25, ro_flags());
    fill();
    let (t26, f) = rmo(checked::try_cast_mut::<A, B>(muts!()).map_err(ce), off, sa);
    emit(26, sa, aa, sb, ab, 1, addr, 0, "-", &t26, "-", f);
    fill();
    let (o, f) = match catch_unwind(AssertUnwindSafe(|| rmo(Ok(checked::cast_mut::<A, B>(muts!())), off, sa))) {
      Ok(x) => x, Err(p) => (panic_obs(p), ro_flags()) };
    emit(28, sa, aa, sb, ab, 1, addr, 0, "-", &o, &t26, f);
  }
}

// by-value casts: the value is built from a byte pattern; the result is reported as bytes
fn pattern(seed: usize, n: usize) -> Vec<u8> {
  (0..n).map(|i| ((i * 37 + seed * 101 + 11) % 251) as u8 ^ if seed % 2 == 1 { 0x80 } else { 0 }).collect()
}
#[inline(never)]
fn run_values<A: G, B: G>() {
  let (sa, aa, sb, ab) = (A::SZ, A::AL, B::SZ, B::AL);
  for seed in 0..2usize {
    let pat = pattern(seed, sa);
    let a: A = if sa == 0 { A::zeroed() } else { unsafe { core::ptr::read_unaligned(pat.as_ptr() as *const A) } };
    let hx = hexs(&pat);
    fill();
    let t = match bytemuck::try_cast::<A, B>(a) { Ok(b) => format!("VAL {}", hexs(bytemuck::bytes_of(&b))), Err(e) => format!("ERR {}", pe(e)) };
    emit(51, sa, aa, sb, ab, 1, BASE, 0, &hx, &t, "-", ro_flags());
    let o = match catch_unwind(AssertUnwindSafe(|| { let b = bytemuck::cast::<A, B>(a); format!("VAL {}", hexs(bytemuck::bytes_of(&b))) })) {
      Ok(s) => s, Err(p) => panic_obs(p) };
    emit(52, sa, aa, sb, ab, 1, BASE, 0, &hx, &o, &t, ro_flags());
    let tc = match checked::try_cast::<A, B>(a) { Ok(b) => format!("VAL {}", hexs(bytemuck::bytes_of(&b))), Err(e) => format!("ERR {}", ce(e)) };
    emit(61, sa, aa, sb, ab, 1, BASE, 0, &hx, &tc, "-", ro_flags());
    let o = match catch_unwind(AssertUnwindSafe(|| { let b = checked::cast::<A, B>(a); format!("VAL {}", hexs(bytemuck::bytes_of(&b))) })) {
      Ok(s) => s, Err(p) => panic_obs(p) };
    emit(62, sa, aa, sb, ab, 1, BASE, 0, &hx, &o, &tc, ro_flags());
  }
}

// per type: byte views, bytes_of, unaligned reads — at every byte offset 0..16
#[inline(never)]
fn run_single<T: G>() {
  let (st, at) = (T::SZ, T::AL);
  let mut lens = vec![0usize, st, st + 1, 2 * st];
  if st > 0 { lens.push(st - 1); }
  lens.sort(); lens.dedup();
  for r in 0..16usize {
    for &len in &lens {
      let off = SRC0 + r;
      let addr = BASE + off;
      let p = unsafe { ar().add(off) };
      macro_rules! shared { () => { unsafe { core::slice::from_raw_parts(p as *const u8, len) } } }
      macro_rules! muts { () => { unsafe { core::slice::from_raw_parts_mut(p, len) } } }
      fill();
      let t9 = ro(bytemuck::try_from_bytes::<T>(shared!()).map_err(pe));
      emit(9, 1, 1, st, at, len, addr, 0, "-", &t9, "-", ro_flags());
      fill();
      let o = match catch_unwind(AssertUnwindSafe(|| ro(Ok(bytemuck::from_bytes::<T>(shared!()))))) { Ok(s) => s, Err(p) => panic_obs(p) };
      emit(11, 1, 1, st, at, len, addr, 0, "-", &o, &t9, ro_flags());
      fill();
      let (t10, f) = rmo(bytemuck::try_from_bytes_mut::<T>(muts!()).map_err(pe), off, len);
      emit(10, 1, 1, st, at, len, addr, 0, "-", &t10, "-", f);
      fill();
      let (o, f) = match catch_unwind(AssertUnwindSafe(|| rmo(Ok(bytemuck::from_bytes_mut::<T>(muts!())), off, len))) { Ok(x) => x, Err(p) => (panic_obs(p), ro_flags()) };
      emit(12, 1, 1, st, at, len, addr, 0, "-", &o, &t10, f);
      fill();
      let t29 = ro(checked::try_from_bytes::<T>(shared!()).map_err(ce));
      emit(29, 1, 1, st, at, len, addr, 0, "-", &t29, "-", ro_flags());
      fill();
      let o = match catch_unwind(AssertUnwindSafe(|| ro(Ok(checked::from_bytes::<T>(shared!()))))) { Ok(s) => s, Err(p) => panic_obs(p) };
      emit(31, 1, 1, st, at, len, addr, 0, "-", &o, &t29, ro_flags());
      fill();
      let (t30, f) = rmo(checked::try_from_bytes_mut::<T>(muts!()).map_err(ce), off, len);
      emit(30, 1, 1, st, at, len, addr, 0, "-", &t30, "-", f);
      fill();
      let (o, f) = match catch_unwind(AssertUnwindSafe(|| rmo(Ok(checked::from_bytes_mut::<T>(muts!())), off, len))) { Ok(x) => x, Err(p) => (panic_obs(p), ro_flags()) };
      emit(32, 1, 1, st, at, len, addr, 0, "-", &o, &t30, f);
      // unaligned reads
      fill();
      let hx = hex(off, len);
      let t53 = match bytemuck::try_pod_read_unaligned::<T>(shared!()) { Ok(v) => format!("VAL {}", hexs(bytemuck::bytes_of(&v))), Err(e) => format!("ERR {}", pe(e)) };
      emit(53, 1, 1, st, at, len, addr, 0, &hx, &t53, "-", ro_flags());
      let o = match catch_unwind(AssertUnwindSafe(|| { let v = bytemuck::pod_read_unaligned::<T>(shared!()); format!("VAL {}", hexs(bytemuck::bytes_of(&v))) })) { Ok(s) => s, Err(p) => panic_obs(p) };
      emit(54, 1, 1, st, at, len, addr, 0, &hx, &o, &t53, ro_flags());
      let t63 = match checked::try_pod_read_unaligned::<T>(shared!()) { Ok(v) => format!("VAL {}", hexs(bytemuck::bytes_of(&v))), Err(e) => format!("ERR {}", ce(e)) };
      emit(63, 1, 1, st, at, len, addr, 0, &hx, &t63, "-", ro_flags());
      let o = match catch_unwind(AssertUnwindSafe(|| { let v = checked::pod_read_unaligned::<T>(shared!()); format!("VAL {}", hexs(bytemuck::bytes_of(&v))) })) { Ok(s) => s, Err(p) => panic_obs(p) };
      emit(64, 1, 1, st, at, len, addr, 0, &hx, &o, &t63, ro_flags());
    }
  }
  // bytes_of / bytes_of_mut at every valid residue
  for r in residues(at) {
    let off = SRC0 + r;
    let addr = BASE + off;
    let p = unsafe { ar().add(off) };
    fill();
    let o = so(Ok(bytemuck::bytes_of::<T>(unsafe { &*(p as *const T) })));
    emit(13, st, at, 1, 1, 1, addr, 0, "-", &o, "-", ro_flags());
    fill();
    let (o, f) = smo::<U8>(Ok(unsafe { core::mem::transmute::<&mut [u8], &mut [U8]>(bytemuck::bytes_of_mut::<T>(&mut *(p as *mut T))) }), off, st);
    emit(14, st, at, 1, 1, 1, addr, 0, "-", &o, "-", f);
  }
}

// ---- checked targets with real validity predicates (C07) ----
pub trait CK: checked::CheckedBitPattern + bytemuck::NoUninit + Copy {
  const KIND: u32; const SZ: usize; const AL: usize;
  fn valid() -> Vec<u8>;
  fn invalid() -> Vec<Vec<u8>>;
  fn to_bytes(v: &Self) -> Vec<u8> {
    let p = v as *const Self as *const u8;
    (0..Self::SZ).map(|i| unsafe { *p.add(i) }).collect()
  }
}
macro_rules! ck_nz { ($t:ty, $n:expr) => {
  impl CK for $t { const KIND: u32 = 3; const SZ: usize = $n; const AL: usize = core::mem::align_of::<$t>();
    fn valid() -> Vec<u8> { let mut v = vec![0u8; $n]; v[$n - 1] = 0x80; v }
    fn invalid() -> Vec<Vec<u8>> { vec![vec![0u8; $n]] } }
} }
ck_nz!(core::num::NonZeroU8, 1); ck_nz!(core::num::NonZeroI8, 1); ck_nz!(core::num::NonZeroU16, 2); ck_nz!(core::num::NonZeroI16, 2);
ck_nz!(core::num::NonZeroU32, 4); ck_nz!(core::num::NonZeroI32, 4); ck_nz!(core::num::NonZeroU64, 8); ck_nz!(core::num::NonZeroI64, 8);
ck_nz!(core::num::NonZeroU128, 16); ck_nz!(core::num::NonZeroI128, 16); ck_nz!(core::num::NonZeroUsize, 8); ck_nz!(core::num::NonZeroIsize, 8);
impl CK for bool { const KIND: u32 = 1; const SZ: usize = 1; const AL: usize = 1;
  fn valid() -> Vec<u8> { vec![1] }
  fn invalid() -> Vec<Vec<u8>> { vec![vec![2], vec![255], vec![0x80]] } }
impl CK for char { const KIND: u32 = 2; const SZ: usize = 4; const AL: usize = 4;
  fn valid() -> Vec<u8> { 0x10FFFFu32.to_le_bytes().to_vec() }
  fn invalid() -> Vec<Vec<u8>> { vec![0xD800u32.to_le_bytes().to_vec(), 0xDFFFu32.to_le_bytes().to_vec(),
    0x110000u32.to_le_bytes().to_vec(), 0xFFFFFFFFu32.to_le_bytes().to_vec(), 0x0100_0041u32.to_le_bytes().to_vec()] } }

fn put(off: usize, b: &[u8]) { unsafe { DIRTY = true; for (i, x) in b.iter().enumerate() { *ar().add(off + i) = *x; } } }
fn restore(off: usize, n: usize) { unsafe { for i in 0..n { *ar().add(off + i) = bg(off + i); } } }
fn intact_with(off: usize, b: &[u8]) -> u32 {
  let same = b.iter().enumerate().all(|(i, x)| unsafe { *ar().add(off + i) } == *x);
  ((intact_except(off, off + b.len()) && same) as u32) | 2
}
fn cso<B>(r: Result<&[B], u32>) -> String { so(r) }

#[inline(never)]
fn run_checked<A: G, B: CK>(maxlen: usize) {
  let (sa, aa, sb, ab) = (A::SZ, A::AL, B::SZ, B::AL);
  let kind = B::KIND;
  for r in residues(aa) {
    for len in 0..=maxlen {
      let off = SRC0 + r; let nbytes = len * sa; let addr = BASE + off;
      let p = unsafe { ar().add(off) };
      let m = if sb != 0 && nbytes % sb == 0 { nbytes / sb } else { 0 };
      // images: all valid; exactly one invalid element at each position (each invalid pattern in turn)
      let mut images: Vec<Vec<u8>> = vec![];
      let mut allv = vec![]; for i in 0..nbytes { allv.push(B::valid()[i % sb.max(1)]); }
      images.push(allv.clone());
      let inv = B::invalid();
      for j in 0..m { let mut im = allv.clone(); let pat = &inv[(j + len) % inv.len()]; im[j * sb..(j + 1) * sb].copy_from_slice(pat); images.push(im); }
      if m >= 2 { let mut im = allv.clone(); for j in 0..m { im[j * sb..(j + 1) * sb].copy_from_slice(&inv[0]); } images.push(im); }
      for im in &images {
        let hx = hexs(im);
        macro_rules! shared { () => { unsafe { core::slice::from_raw_parts(p as *const A, len) } } }
        macro_rules! muts { () => { unsafe { core::slice::from_raw_parts_mut(p as *mut A, len) } } }
        fill(); put(off, im);
        let t21 = match checked::try_cast_slice::<A, B>(shared!()) { Ok(v) => format!("OK {} {}", canon(v.as_ptr()), v.len()), Err(e) => format!("ERR {}", ce(e)) };
        emit(21, sa, aa, sb, ab, len, addr, kind, &hx, &t21, "-", intact_with(off, im));
        let o = match catch_unwind(AssertUnwindSafe(|| { let v = checked::cast_slice::<A, B>(shared!()); format!("OK {} {}", canon(v.as_ptr()), v.len()) })) { Ok(s) => s, Err(p) => panic_obs(p) };
        emit(23, sa, aa, sb, ab, len, addr, kind, &hx, &o, &t21, intact_with(off, im));
        let t22 = match checked::try_cast_slice_mut::<A, B>(muts!()) { Ok(v) => format!("OK {} {}", canon(v.as_ptr()), v.len()), Err(e) => format!("ERR {}", ce(e)) };
        emit(22, sa, aa, sb, ab, len, addr, kind, &hx, &t22, "-", intact_with(off, im));
        let o = match catch_unwind(AssertUnwindSafe(|| { let v = checked::cast_slice_mut::<A, B>(muts!()); format!("OK {} {}", canon(v.as_ptr()), v.len()) })) { Ok(s) => s, Err(p) => panic_obs(p) };
        emit(24, sa, aa, sb, ab, len, addr, kind, &hx, &o, &t22, intact_with(off, im));
        if len == 1 {
          let t25 = match checked::try_cast_ref::<A, B>(unsafe { &*(p as *const A) }) { Ok(v) => format!("OK {} 1", canon(v as *const B)), Err(e) => format!("ERR {}", ce(e)) };
          emit(25, sa, aa, sb, ab, 1, addr, kind, &hx, &t25, "-", intact_with(off, im));
          let o = match catch_unwind(AssertUnwindSafe(|| { let v = checked::cast_ref::<A, B>(unsafe { &*(p as *const A) }); format!("OK {} 1", canon(v as *const B)) })) { Ok(s) => s, Err(p) => panic_obs(p) };
          emit(27, sa, aa, sb, ab, 1, addr, kind, &hx, &o, &t25, intact_with(off, im));
          let t26 = match checked::try_cast_mut::<A, B>(unsafe { &mut *(p as *mut A) }) { Ok(v) => format!("OK {} 1", canon(v as *const B)), Err(e) => format!("ERR {}", ce(e)) };
          emit(26, sa, aa, sb, ab, 1, addr, kind, &hx, &t26, "-", intact_with(off, im));
          let o = match catch_unwind(AssertUnwindSafe(|| { let v = checked::cast_mut::<A, B>(unsafe { &mut *(p as *mut A) }); format!("OK {} 1", canon(v as *const B)) })) { Ok(s) => s, Err(p) => panic_obs(p) };
          emit(28, sa, aa, sb, ab, 1, addr, kind, &hx, &o, &t26, intact_with(off, im));
          // by value
          let a: A = unsafe { core::ptr::read_unaligned(p as *const A) };
          let tc = match checked::try_cast::<A, B>(a) { Ok(b) => format!("VAL {}", hexs(&B::to_bytes(&b))), Err(e) => format!("ERR {}", ce(e)) };
          emit(61, sa, aa, sb, ab, 1, BASE, kind, &hx, &tc, "-", intact_with(off, im));
          let o = match catch_unwind(AssertUnwindSafe(|| { let b = checked::cast::<A, B>(a); format!("VAL {}", hexs(&B::to_bytes(&b))) })) { Ok(s) => s, Err(p) => panic_obs(p) };
          emit(62, sa, aa, sb, ab, 1, BASE, kind, &hx, &o, &tc, intact_with(off, im));
        }
        restore(off, nbytes);
      }
    }
  }
}

// byte views and unaligned reads into a checked target, at every byte offset
#[inline(never)]
fn run_checked_single<T: CK>() {
  let (st, at) = (T::SZ, T::AL);
  let kind = T::KIND;
  let mut lens = vec![0usize, st, st + 1]; if st > 0 { lens.push(st - 1); } lens.sort(); lens.dedup();
  let mut pats = vec![T::valid()]; pats.extend(T::invalid());
  for r in 0..16usize {
    for &len in &lens {
      for pat in &pats {
        let off = SRC0 + r; let addr = BASE + off; let p = unsafe { ar().add(off) };
        let im: Vec<u8> = (0..len).map(|i| pat[i % st.max(1)]).collect();
        let hx = hexs(&im);
        macro_rules! shared { () => { unsafe { core::slice::from_raw_parts(p as *const u8, len) } } }
        macro_rules! muts { () => { unsafe { core::slice::from_raw_parts_mut(p, len) } } }
        fill(); put(off, &im);
        let t29 = match checked::try_from_bytes::<T>(shared!()) { Ok(v) => format!("OK {} 1", canon(v as *const T)), Err(e) => format!("ERR {}", ce(e)) };
        emit(29, 1, 1, st, at, len, addr, kind, &hx, &t29, "-", intact_with(off, &im));
        let o = match catch_unwind(AssertUnwindSafe(|| { let v = checked::from_bytes::<T>(shared!()); format!("OK {} 1", canon(v as *const T)) })) { Ok(s) => s, Err(p) => panic_obs(p) };
        emit(31, 1, 1, st, at, len, addr, kind, &hx, &o, &t29, intact_with(off, &im));
        let t30 = match checked::try_from_bytes_mut::<T>(muts!()) { Ok(v) => format!("OK {} 1", canon(v as *const T)), Err(e) => format!("ERR {}", ce(e)) };
        emit(30, 1, 1, st, at, len, addr, kind, &hx, &t30, "-", intact_with(off, &im));
        let o = match catch_unwind(AssertUnwindSafe(|| { let v = checked::from_bytes_mut::<T>(muts!()); format!("OK {} 1", canon(v as *const T)) })) { Ok(s) => s, Err(p) => panic_obs(p) };
        emit(32, 1, 1, st, at, len, addr, kind, &hx, &o, &t30, intact_with(off, &im));
        let t63 = match checked::try_pod_read_unaligned::<T>(shared!()) { Ok(v) => format!("VAL {}", hexs(&T::to_bytes(&v))), Err(e) => format!("ERR {}", ce(e)) };
        emit(63, 1, 1, st, at, len, addr, kind, &hx, &t63, "-", intact_with(off, &im));
        let o = match catch_unwind(AssertUnwindSafe(|| { let v = checked::pod_read_unaligned::<T>(shared!()); format!("VAL {}", hexs(&T::to_bytes(&v))) })) { Ok(s) => s, Err(p) => panic_obs(p) };
        emit(64, 1, 1, st, at, len, addr, kind, &hx, &o, &t63, intact_with(off, &im));
        restore(off, len);
      }
    }
  }
}

// exhaustive / boundary bit patterns through the by-value casts (C03, C07)
macro_rules! prim_g { ($($t:ty),*) => { $( impl G for $t { const SZ: usize = core::mem::size_of::<$t>(); const AL: usize = core::mem::align_of::<$t>(); } )* } }
prim_g!(u8, i8, u16, i16, u32, i32, f32, u64, i64, f64, u128, i128, [u8; 2], [u8; 4], [u8; 8], [u8; 16], [u16; 2], [u32; 2]);

fn wide_patterns(n: usize) -> Vec<Vec<u8>> {
  let mut v: Vec<Vec<u8>> = vec![vec![0u8; n], vec![0xFFu8; n]];
  for bit in 0..(n * 8) { let mut a = vec![0u8; n]; a[bit / 8] |= 1 << (bit % 8); v.push(a.clone()); let b: Vec<u8> = a.iter().map(|x| !x).collect(); v.push(b); }
  // float classes (little-endian images): +-0, +-inf, quiet / signalling NaNs with distinct payloads, denormals
  if n == 4 { for x in [0x8000_0000u32, 0x7F80_0000, 0xFF80_0000, 0x7FC0_0000, 0x7FC0_0001, 0x7FA0_0000, 0xFFC1_2345, 0x7F80_0001, 0x0000_0001, 0x807F_FFFF] { v.push(x.to_le_bytes().to_vec()); } }
  if n == 8 { for x in [0x8000_0000_0000_0000u64, 0x7FF0_0000_0000_0000, 0xFFF0_0000_0000_0000, 0x7FF8_0000_0000_0000, 0x7FF8_0000_0000_0001, 0x7FF4_0000_0000_0000, 0xFFF8_1234_5678_9ABC, 0x7FF0_0000_0000_0001, 1, 0x800F_FFFF_FFFF_FFFF] { v.push(x.to_le_bytes().to_vec()); } }
  let mut x: u64 = 0x9E37_79B9_7F4A_7C15 ^ (n as u64);
  for _ in 0..24 { let mut a = vec![0u8; n]; for b in a.iter_mut() { x ^= x << 13; x ^= x >> 7; x ^= x << 17; *b = (x >> 24) as u8; } v.push(a); }
  v
}
#[inline(never)]
fn run_prim_value<A: G, B: G>(exhaustive: bool) {
  let (sa, aa, sb, ab) = (A::SZ, A::AL, B::SZ, B::AL);
  let pats: Vec<Vec<u8>> = if exhaustive && sa == 1 { (0..=255u8).map(|x| vec![x]).collect() }
    else if exhaustive && sa == 2 { (0..=65535u32).map(|x| (x as u16).to_le_bytes().to_vec()).collect() }
    else { wide_patterns(sa) };
  for pat in &pats {
    let a: A = unsafe { core::ptr::read_unaligned(pat.as_ptr() as *const A) };
    let hx = hexs(pat);
    let t = match bytemuck::try_cast::<A, B>(a) { Ok(b) => format!("VAL {}", hexs(bytemuck::bytes_of(&b))), Err(e) => format!("ERR {}", pe(e)) };
    emit(51, sa, aa, sb, ab, 1, BASE, 0, &hx, &t, "-", 3);
    if !exhaustive || sa == 1 {
      let o = match catch_unwind(AssertUnwindSafe(|| { let b = bytemuck::cast::<A, B>(a); format!("VAL {}", hexs(bytemuck::bytes_of(&b))) })) { Ok(s) => s, Err(p) => panic_obs(p) };
      emit(52, sa, aa, sb, ab, 1, BASE, 0, &hx, &o, &t, 3);
    }
    // and back again: the round trip returns the original bit pattern
    if let Ok(b) = bytemuck::try_cast::<A, B>(a) {
      let back = match bytemuck::try_cast::<B, A>(b) { Ok(a2) => format!("VAL {}", hexs(bytemuck::bytes_of(&a2))), Err(e) => format!("ERR {}", pe(e)) };
      emit(51, sb, ab, sa, aa, 1, BASE, 0, &hx, &back, "-", 3);
    }
  }
}
#[inline(never)]
fn run_prim_checked<A: G, B: CK>(pats: Vec<Vec<u8>>) {
  let (sa, aa, sb, ab) = (A::SZ, A::AL, B::SZ, B::AL);
  for pat in &pats {
    let a: A = unsafe { core::ptr::read_unaligned(pat.as_ptr() as *const A) };
    let hx = hexs(pat);
    let tc = match checked::try_cast::<A, B>(a) { Ok(b) => format!("VAL {}", hexs(&B::to_bytes(&b))), Err(e) => format!("ERR {}", ce(e)) };
    emit(61, sa, aa, sb, ab, 1, BASE, B::KIND, &hx, &tc, "-", 3);
  }
}
fn all8() -> Vec<Vec<u8>> { (0..=255u8).map(|x| vec![x]).collect() }
fn all16() -> Vec<Vec<u8>> { (0..=65535u32).map(|x| (x as u16).to_le_bytes().to_vec()).collect() }
fn char_bounds() -> Vec<Vec<u8>> {
  let mut v = vec![];
  for c in [0u32, 1, 0x41, 0x7F, 0x80, 0xD7FE, 0xD7FF, 0xD800, 0xD801, 0xDBFF, 0xDC00, 0xDFFE, 0xDFFF, 0xE000, 0xE001, 0xFFFF, 0x10000,
            0x10FFFE, 0x10FFFF, 0x110000, 0x110001, 0x11D7FF, 0x11D800, 0x11DFFF, 0x11E000, 0x1FFFFF, 0x200000, 0x00FF_FFFF, 0x0100_0000,
            0x7FFF_FFFF, 0x8000_0000, 0x8000_0041, 0xFFFF_FFFE, 0xFFFF_FFFF] { v.push(c.to_le_bytes().to_vec()); }
  let mut x: u64 = 0x1234_5678_9ABC_DEF1;
  for _ in 0..200 { x ^= x << 13; x ^= x >> 7; x ^= x << 17; v.push(((x >> 16) as u32 & 0x3F_FFFF).to_le_bytes().to_vec()); }
  v
}
fn nz_bounds(n: usize) -> Vec<Vec<u8>> {
  let mut v = vec![vec![0u8; n], vec![0xFFu8; n]];
  for i in 0..n { let mut a = vec![0u8; n]; a[i] = 1; v.push(a.clone()); a[i] = 0x80; v.push(a); }
  let mut mx = vec![0xFFu8; n]; mx[n - 1] = 0x7F; v.push(mx);
  v
}
pub fn run_prims(thorough: bool) {
  run_prim_value::<u8, i8>(true); run_prim_value::<i8, u8>(true); run_prim_value::<u8, [u8; 2]>(true);
  run_prim_value::<u16, i16>(true); run_prim_value::<u16, [u8; 2]>(true); run_prim_value::<[u8; 2], i16>(true); run_prim_value::<u16, u32>(thorough);
  run_prim_value::<u32, f32>(false); run_prim_value::<f32, u32>(false); run_prim_value::<f32, [u8; 4]>(false); run_prim_value::<f32, i32>(false);
  run_prim_value::<f32, [u16; 2]>(false); run_prim_value::<f32, f64>(false);
  run_prim_value::<u64, f64>(false); run_prim_value::<f64, u64>(false); run_prim_value::<f64, [u8; 8]>(false); run_prim_value::<f64, [u32; 2]>(false);
  run_prim_value::<u128, i128>(false); run_prim_value::<u128, [u8; 16]>(false); run_prim_value::<i128, f64>(false);
  run_prim_checked::<u8, bool>(all8()); run_prim_checked::<u8, core::num::NonZeroU8>(all8()); run_prim_checked::<i8, core::num::NonZeroI8>(all8());
  run_prim_checked::<u16, core::num::NonZeroU16>(all16()); run_prim_checked::<i16, core::num::NonZeroI16>(all16());
  run_prim_checked::<u32, char>(char_bounds()); run_prim_checked::<[u8; 4], char>(char_bounds());
  run_prim_checked::<u32, core::num::NonZeroU32>(nz_bounds(4)); run_prim_checked::<i32, core::num::NonZeroI32>(nz_bounds(4));
  run_prim_checked::<u64, core::num::NonZeroU64>(nz_bounds(8)); run_prim_checked::<i64, core::num::NonZeroI64>(nz_bounds(8));
  run_prim_checked::<u128, core::num::NonZeroU128>(nz_bounds(16)); run_prim_checked::<i128, core::num::NonZeroI128>(nz_bounds(16));
  run_prim_checked::<u64, core::num::NonZeroUsize>(nz_bounds(8)); run_prim_checked::<i64, core::num::NonZeroIsize>(nz_bounds(8));
  run_prim_checked::<u16, bool>(vec![vec![1, 0]]);
}

// ---- must_ casts (feature mustrun): only instantiated for the pairs the compile-verdict run accepted ----
#[cfg(feature = "mustrun")]
pub mod mustrun {
  use super::*;
  #[inline(never)]
  pub fn must_slices<A: GP, B: G>(maxlen: usize) {
    let (sa, aa, sb, ab) = (A::SZ, A::AL, B::SZ, B::AL);
    for r in residues(aa) {
      for len in 0..=maxlen {
        let off = SRC0 + r; let nbytes = len * sa; let addr = BASE + off;
        let p = unsafe { ar().add(off) };
        macro_rules! shared { () => { unsafe { core::slice::from_raw_parts(p as *const A, len) } } }
        macro_rules! muts { () => { unsafe { core::slice::from_raw_parts_mut(p as *mut A, len) } } }
        fill();
        let t1 = so(bytemuck::try_cast_slice::<A, B>(shared!()).map_err(pe));
        let o = so::<B>(Ok(bytemuck::must_cast_slice::<A, B>(shared!())));
        emit(43, sa, aa, sb, ab, len, addr, 0, "-", &o, &t1, ro_flags());
        fill();
        let (t2, _) = smo(bytemuck::try_cast_slice_mut::<A, B>(muts!()).map_err(pe), off, nbytes);
        fill();
        let (o, f) = smo::<B>(Ok(bytemuck::must_cast_slice_mut::<A, B>(muts!())), off, nbytes);
        emit(44, sa, aa, sb, ab, len, addr, 0, "-", &o, &t2, f);
      }
    }
  }
  // const context: the must_ cast was evaluated by the compiler (see mustpairs.rs)
  pub fn const_slice<A: GP, B: G>(src: &'static [A], dst: &'static [B]) {
    let t = so(bytemuck::try_cast_slice::<A, B>(src).map_err(pe));
    emit(43, A::SZ, A::AL, B::SZ, B::AL, src.len(), canon(src.as_ptr()), 0, "-", &so::<B>(Ok(dst)), &t, 3);
  }
  pub fn const_ref<A: GP, B: G>(src: &'static A, dst: &'static B) {
    let t = ro(bytemuck::try_cast_ref::<A, B>(src).map_err(pe));
    emit(41, A::SZ, A::AL, B::SZ, B::AL, 1, canon(src as *const A), 0, "-", &ro::<B>(Ok(dst)), &t, 3);
  }
  pub fn const_value<A: GP, B: G>(a: A, b: B) {
    let t = match bytemuck::try_cast::<A, B>(a) { Ok(b) => format!("VAL {}", hexs(bytemuck::bytes_of(&b))), Err(e) => format!("ERR {}", pe(e)) };
    emit(45, A::SZ, A::AL, B::SZ, B::AL, 1, BASE, 0, &hexs(bytemuck::bytes_of(&a)), &format!("VAL {}", hexs(bytemuck::bytes_of(&b))), &t, 3);
  }
  #[inline(never)]
  pub fn must_refs<A: GP, B: G>() {
    let (sa, aa, sb, ab) = (A::SZ, A::AL, B::SZ, B::AL);
    for r in residues(aa) {
      let off = SRC0 + r; let addr = BASE + off;
      let p = unsafe { ar().add(off) };
      fill();
      let t5 = ro(bytemuck::try_cast_ref::<A, B>(unsafe { &*(p as *const A) }).map_err(pe));
      let o = ro::<B>(Ok(bytemuck::must_cast_ref::<A, B>(unsafe { &*(p as *const A) })));
      emit(41, sa, aa, sb, ab, 1, addr, 0, "-", &o, &t5, ro_flags());
      fill();
      let (t6, _) = rmo(bytemuck::try_cast_mut::<A, B>(unsafe { &mut *(p as *mut A) }).map_err(pe), off, sa);
      fill();
      let (o, f) = rmo::<B>(Ok(bytemuck::must_cast_mut::<A, B>(unsafe { &mut *(p as *mut A) })), off, sa);
      emit(42, sa, aa, sb, ab, 1, addr, 0, "-", &o, &t6, f);
    }
  }
  #[inline(never)]
  pub fn must_values<A: GP, B: G>() {
    let (sa, aa, sb, ab) = (A::SZ, A::AL, B::SZ, B::AL);
    for seed in 0..2usize {
      let pat = pattern(seed, sa);
      let a: A = if sa == 0 { A::zeroed() } else { unsafe { core::ptr::read_unaligned(pat.as_ptr() as *const A) } };
      let hx = hexs(&pat);
      let t = match bytemuck::try_cast::<A, B>(a) { Ok(b) => format!("VAL {}", hexs(bytemuck::bytes_of(&b))), Err(e) => format!("ERR {}", pe(e)) };
      let b: B = bytemuck::must_cast::<A, B>(a);
      emit(45, sa, aa, sb, ab, 1, BASE, 0, &hx, &format!("VAL {}", hexs(bytemuck::bytes_of(&b))), &t, 3);
    }
  }
}
#[cfg(feature = "mustrun")]
mod mustpairs;
#[cfg(feature = "mustconst")]
mod mustconst;

#[derive(Clone, Copy)]
#[repr(transparent)]
pub struct U8(u8);
unsafe impl Zeroable for U8 {}
unsafe impl Pod for U8 {}
impl G for U8 { const SZ: usize = 1; const AL: usize = 1; }

fn main() {
  // an unwinding panic is caught by the call site; a non-unwinding one (abort) is attributed to the
  // call that followed the last emitted line
  std::panic::set_hook(Box::new(|info| {
    let msg = info.to_string();
    if msg.contains("unsafe precondition") || msg.contains("cannot unwind") || msg.contains("non-unwinding") {
      unsafe {
        if let Some(o) = OUT.as_mut() {
          let _ = writeln!(o, "ABORT after-line-above non-unwinding-panic");
          let _ = o.flush();
        }
      }
    }
  }));
  let args: Vec<String> = std::env::args().collect();
  let cfg: u32 = args.get(1).map(|s| s.parse().unwrap()).unwrap_or(0);
  let maxlen: usize = args.get(2).map(|s| s.parse().unwrap()).unwrap_or(6);
  unsafe {
    WIN_HI = (SRC0 + 16 + maxlen * 32 + 128).min(ARENA);
    CFG = cfg;
    OUT = Some(std::io::BufWriter::with_capacity(1 << 20, std::io::stdout()));
  }
  let mode = args.get(3).map(|s| s.as_str()).unwrap_or("all");
  if mode == "must" {
    #[cfg(all(feature = "mustrun", not(feature = "mustconst")))]
    mustpairs::run_must(maxlen);
    #[cfg(feature = "mustconst")]
    mustconst::run_must_const();
  } else {
    #[cfg(not(feature = "mustrun"))]
    types::run_all(maxlen);
    run_prims(maxlen > 6);
  }
  unsafe { OUT.as_mut().unwrap().flush().unwrap(); }
}
'''


def gen(out, tier, pairs_file=None):
    types = QUICK_TYPES if tier == "quick" else all_types()
    os.makedirs(os.path.join(out, "src"), exist_ok=True)
    with open(os.path.join(out, "Cargo.toml"), "w") as f:
        f.write('''[package]
name = "castgrid"
version = "0.1.0"
edition = "2021"

[workspace]

[dependencies]
bytemuck = { path = "/repo" }

[features]
align_offset = ["bytemuck/align_offset"]
track_caller = ["bytemuck/track_caller"]
extern_crate_alloc = ["bytemuck/extern_crate_alloc"]
extern_crate_std = ["bytemuck/extern_crate_std"]
min_const_generics = ["bytemuck/min_const_generics"]
must_cast = ["bytemuck/must_cast"]
must_cast_extra = ["bytemuck/must_cast_extra"]
mustrun = ["bytemuck/must_cast", "bytemuck/must_cast_extra"]
mustconst = ["mustrun"]
all_stable = ["bytemuck/latest_stable_rust", "bytemuck/extern_crate_alloc", "bytemuck/extern_crate_std"]

[profile.dev]
opt-level = 0
debug = 0
incremental = false
overflow-checks = true
# std's own precondition checks (from_raw_parts etc.) would abort the harness on the first
# misaligned view; the harness observes and reports such views itself
debug-assertions = false

[profile.release]
opt-level = 2
debug = 0
incremental = false
''')
    with open(os.path.join(out, "src", "main.rs"), "w") as f:
        f.write(MAIN)
    t = ["use super::*;", ""]
    for (s, a) in types:
        n = tname(s, a)
        t.append("#[derive(Clone, Copy)] #[repr(C, align(%d))] pub struct %s([u8; %d]);" % (a, n, s))
        t.append("unsafe impl Zeroable for %s {} unsafe impl Pod for %s {}" % (n, n))
        t.append("impl G for %s { const SZ: usize = %d; const AL: usize = %d; }" % (n, s, a))
        t.append("impl GP for %s { const PAT: Self = %s([%s]); }" % (n, n, ", ".join(str((i * 29 + s * 7 + 3) % 256) for i in range(s))))
    t.append("")
    # pair runners are split into chunks so that rustc can codegen them in parallel units
    t.append("#[cfg(not(feature = \"mustrun\"))]")
    t.append("pub fn run_all(maxlen: usize) {")
    for (s, a) in types:
        t.append("  run_single::<%s>();" % tname(s, a))
    for (s, a) in types:
        t.append("  row_%s(maxlen);" % tname(s, a))
    cks = ["bool", "char", "core::num::NonZeroU8", "core::num::NonZeroI8", "core::num::NonZeroU16", "core::num::NonZeroI16",
           "core::num::NonZeroU32", "core::num::NonZeroI32", "core::num::NonZeroU64", "core::num::NonZeroI64",
           "core::num::NonZeroU128", "core::num::NonZeroI128", "core::num::NonZeroUsize", "core::num::NonZeroIsize"]
    csrc = [(0, 1), (1, 1), (2, 2), (3, 1), (4, 1), (4, 4), (8, 8), (16, 16), (12, 4), (6, 2)]
    for c in cks:
        t.append("  run_checked_single::<%s>();" % c)
    for (s, a) in csrc:
        for c in cks:
            t.append("  run_checked::<%s, %s>(maxlen.min(6));" % (tname(s, a), c))
    t.append("}")
    for (s, a) in types:
        t.append("#[cfg(not(feature = \"mustrun\"))]")
        t.append("#[inline(never)] fn row_%s(maxlen: usize) {" % tname(s, a))
        for (s2, a2) in types:
            t.append("  run_slices::<%s, %s>(maxlen); run_refs::<%s, %s>(); run_values::<%s, %s>();"
                     % ((tname(s, a), tname(s2, a2)) * 3))
        t.append("}")
    with open(os.path.join(out, "src", "types.rs"), "w") as f:
        f.write("\n".join(t) + "\n")
    # must_ runs: exactly the instantiations the compile-verdict run accepted (file of "fn sa aa sb ab" lines)
    m = ["use super::*;", "use super::mustrun::*;", "pub fn run_must(maxlen: usize) {"]
    mc = ["use super::*;", "use super::mustrun::*;", "pub fn run_must_const() {"]
    if pairs_file and os.path.exists(pairs_file):
        acc = {}
        for line in open(pairs_file):
            w = line.split()
            if len(w) == 5:
                acc.setdefault((int(w[1]), int(w[2]), int(w[3]), int(w[4])), set()).add(int(w[0]))
        for (sa, aa, sb, ab), fns in sorted(acc.items()):
            A, B = tname(sa, aa), tname(sb, ab)
            if {141, 142} <= fns:
                m.append("  must_refs::<%s, %s>();" % (A, B))
                mc.append("  { const S: &%s = &<%s as GP>::PAT; const D: &%s = bytemuck::must_cast_ref::<%s, %s>(S); const_ref::<%s, %s>(S, D); }" % (A, A, B, A, B, A, B))
            if {143, 144} <= fns:
                m.append("  must_slices::<%s, %s>(maxlen);" % (A, B))
                mc.append("  { const S: &[%s] = &[<%s as GP>::PAT; 3]; const D: &[%s] = bytemuck::must_cast_slice::<%s, %s>(S); const_slice::<%s, %s>(S, D); }" % (A, A, B, A, B, A, B))
            if 145 in fns:
                m.append("  must_values::<%s, %s>();" % (A, B))
                mc.append("  { const S: %s = <%s as GP>::PAT; const D: %s = bytemuck::must_cast::<%s, %s>(S); const_value::<%s, %s>(S, D); }" % (A, A, B, A, B, A, B))
    m.append("}")
    mc.append("}")
    with open(os.path.join(out, "src", "mustpairs.rs"), "w") as f:
        f.write("\n".join(m) + "\n")
    with open(os.path.join(out, "src", "mustconst.rs"), "w") as f:
        f.write("\n".join(mc) + "\n")


if __name__ == "__main__":
    gen(sys.argv[1], sys.argv[2], sys.argv[3] if len(sys.argv) > 3 else None)
