#!/usr/bin/env python3
"""Generate the castgrid harness crate (Rust) into a build directory.

castgrid links the working tree of /repo by path and runs every borrowed / by-value / checked
cast of the public API over the type grid, printing one line per call in the oracle's line
protocol (see oracle/driver.ml).  usage: gen.py <out-dir> <quick|thorough>
"""
import os
import sys

QUICK_TYPES = [(0, 1), (1, 1), (2, 1), (3, 1), (4, 1), (6, 1), (8, 1), (12, 1), (16, 1),
               (0, 2), (2, 2), (4, 2), (6, 2), (12, 2),
               (0, 4), (4, 4), (8, 4), (12, 4), (24, 4),
               (0, 8), (8, 8), (16, 8), (24, 8),
               (0, 16), (16, 16), (32, 16)]


def all_types():
    out = []
    for a in (1, 2, 4, 8, 16):
        for s in range(0, 33):
            if s % a == 0:
                out.append((s, a))
    return out


def tname(s, a):
    return "S%dA%d" % (s, a)


MAIN = r'''
#![allow(unused, clippy::all)]
use bytemuck::checked::{self, CheckedCastError};
use bytemuck::{Pod, PodCastError, Zeroable};
use std::any::Any;
use std::io::Write;
use std::panic::{catch_unwind, AssertUnwindSafe};

mod types;
use types::*;

pub trait G: Pod {
  const SZ: usize;
  const AL: usize;
}

const ARENA: usize = 1024;
const SRC0: usize = 256;
const BASE: usize = 4096;

#[repr(C, align(64))]
struct Arena([u8; ARENA]);

static mut AR: Arena = Arena([0u8; ARENA]);

fn bg(i: usize) -> u8 { (i as u8).wrapping_mul(31).wrapping_add(7) }
fn mark(k: usize) -> u8 { (k as u8).wrapping_mul(13).wrapping_add(0x81) }
fn ar() -> *mut u8 { unsafe { core::ptr::addr_of_mut!(AR) as *mut u8 } }
static mut DIRTY: bool = true;
static mut WIN_HI: usize = ARENA;
// the arena is refilled only after a call wrote to it; the integrity check looks at the window
// [SRC0-128, source end + 128) around the source (128 canary bytes on each side)
fn fill() { unsafe { if DIRTY { for i in 0..ARENA { *ar().add(i) = bg(i) } DIRTY = false; } } }
fn intact_except(lo: usize, hi: usize) -> bool {
  let whi = unsafe { WIN_HI };
  let ok = (SRC0 - 128..whi).all(|i| (i >= lo && i < hi) || unsafe { *ar().add(i) } == bg(i));
  if !ok || lo != hi { unsafe { DIRTY = true; } }
  ok
}
fn canon<T>(p: *const T) -> usize { (p as usize).wrapping_sub(ar() as usize).wrapping_add(BASE) }
fn hex(off: usize, n: usize) -> String {
  if n == 0 { return "-".into(); }
  (0..n).map(|i| format!("{:02x}", unsafe { *ar().add(off + i) })).collect()
}
fn hexs(b: &[u8]) -> String {
  if b.is_empty() { return "-".into(); }
  b.iter().map(|x| format!("{:02x}", x)).collect()
}

fn pe(e: PodCastError) -> u32 {
  match e {
    PodCastError::TargetAlignmentGreaterAndInputNotAligned => 0,
    PodCastError::OutputSliceWouldHaveSlop => 1,
    PodCastError::SizeMismatch => 2,
    PodCastError::AlignmentMismatch => 3,
  }
}
fn ce(e: CheckedCastError) -> u32 {
  match e {
    CheckedCastError::PodCastError(p) => 10 + pe(p),
    CheckedCastError::InvalidBitPattern => 14,
  }
}
fn variant_code(s: &str) -> Option<u32> {
  Some(match s {
    "TargetAlignmentGreaterAndInputNotAligned" => 0,
    "OutputSliceWouldHaveSlop" => 1,
    "SizeMismatch" => 2,
    "AlignmentMismatch" => 3,
    "PodCastError(TargetAlignmentGreaterAndInputNotAligned)" => 10,
    "PodCastError(OutputSliceWouldHaveSlop)" => 11,
    "PodCastError(SizeMismatch)" => 12,
    "PodCastError(AlignmentMismatch)" => 13,
    "InvalidBitPattern" => 14,
    _ => return None,
  })
}
fn panic_obs(p: Box<dyn Any + Send>) -> String {
  let msg: String = if let Some(s) = p.downcast_ref::<String>() { s.clone() }
    else if let Some(s) = p.downcast_ref::<&str>() { s.to_string() } else { String::new() };
  if let Some(i) = msg.find('>') {
    if let Some(c) = variant_code(&msg[i + 1..]) { return format!("PMSG {}", c); }
  }
  "POTHER".into()
}

static mut CFG: u32 = 0;
static mut OUT: Option<std::io::BufWriter<std::io::Stdout>> = None;
fn emit(fnid: u32, sa: usize, aa: usize, sb: usize, ab: usize, len: usize, addr: usize, kind: u32,
        hexb: &str, obs: &str, twin: &str, flags: u32) {
  unsafe {
    let o = OUT.as_mut().unwrap();
    writeln!(o, "{} {} {} {} {} {} {} {} {} {} ; {} ; {} ; {}", fnid, CFG, sa, aa, sb, ab, len, addr, kind,
      hexb, obs, twin, flags).unwrap();
  }
}

// observe a shared slice view
fn so<B>(r: Result<&[B], u32>) -> String {
  match r { Ok(v) => format!("OK {} {}", canon(v.as_ptr()), v.len()), Err(c) => format!("ERR {}", c) }
}
fn ro<B>(r: Result<&B, u32>) -> String {
  match r { Ok(v) => format!("OK {} 1", canon(v as *const B)), Err(c) => format!("ERR {}", c) }
}
// write through a mutable view of `vb` bytes starting at `vp`; the source occupies [off, off+nbytes).
// returns flags: bit0 everything outside the source footprint intact, bit1 view == footprint and
// every written byte landed on the corresponding source byte
fn write_through(vp: *mut u8, vb: usize, off: usize, nbytes: usize) -> u32 {
  let voff = (vp as usize).wrapping_sub(ar() as usize);
  unsafe { DIRTY = true; }
  let mut inside = true;
  for k in 0..vb {
    let idx = voff.wrapping_add(k);
    if idx < ARENA { unsafe { vp.add(k).write_volatile(mark(k)) } } else { inside = false; }
  }
  let same = vb == nbytes && (vb == 0 || voff == off);
  let landed = (0..nbytes).all(|k| unsafe { *ar().add(off + k) } == if same { mark(k) } else { 0 } || !same);
  let b0 = intact_except(off, off + nbytes) && inside;
  let b1 = same && landed && (0..nbytes).all(|k| unsafe { *ar().add(off + k) } == mark(k));
  (b0 as u32) | ((b1 as u32) << 1)
}
fn smo<B: G>(r: Result<&mut [B], u32>, off: usize, nbytes: usize) -> (String, u32) {
  match r {
    Ok(v) => {
      let s = format!("OK {} {}", canon(v.as_ptr()), v.len());
      let f = write_through(v.as_mut_ptr() as *mut u8, v.len() * B::SZ, off, nbytes);
      (s, f)
    }
    Err(c) => (format!("ERR {}", c), (intact_except(0, 0) as u32) | 2),
  }
}
fn rmo<B: G>(r: Result<&mut B, u32>, off: usize, nbytes: usize) -> (String, u32) {
  match r {
    Ok(v) => {
      let s = format!("OK {} 1", canon(v as *const B));
      let f = write_through(v as *mut B as *mut u8, B::SZ, off, nbytes);
      (s, f)
    }
    Err(c) => (format!("ERR {}", c), (intact_except(0, 0) as u32) | 2),
  }
}
fn ro_flags() -> u32 { (intact_except(0, 0) as u32) | 2 }

fn residues(al: usize) -> Vec<usize> { (0..16).filter(|r| r % al == 0).collect() }

#[inline(never)]
fn run_slices<A: G, B: G>(maxlen: usize) {
  let (sa, aa, sb, ab) = (A::SZ, A::AL, B::SZ, B::AL);
  for r in residues(aa) {
    for len in 0..=maxlen {
      let off = SRC0 + r;
      let nbytes = len * sa;
      let addr = BASE + off;
      let p = unsafe { ar().add(off) };
      macro_rules! shared { () => { unsafe { core::slice::from_raw_parts(p as *const A, len) } } }
      macro_rules! muts { () => { unsafe { core::slice::from_raw_parts_mut(p as *mut A, len) } } }
      // 1 try_cast_slice
      fill();
      let t1 = so(bytemuck::try_cast_slice::<A, B>(shared!()).map_err(pe));
      emit(1, sa, aa, sb, ab, len, addr, 0, "-", &t1, "-", ro_flags());
      // 3 cast_slice
      fill();
      let o = match catch_unwind(AssertUnwindSafe(|| so(Ok(bytemuck::cast_slice::<A, B>(shared!()))))) {
        Ok(s) => s, Err(p) => panic_obs(p) };
      emit(3, sa, aa, sb, ab, len, addr, 0, "-", &o, &t1, ro_flags());
      // 2 try_cast_slice_mut
      fill();
      let (t2, f) = smo(bytemuck::try_cast_slice_mut::<A, B>(muts!()).map_err(pe), off, nbytes);
      emit(2, sa, aa, sb, ab, len, addr, 0, "-", &t2, "-", f);
      // 4 cast_slice_mut
      fill();
      let (o, f) = match catch_unwind(AssertUnwindSafe(|| smo(Ok(bytemuck::cast_slice_mut::<A, B>(muts!())), off, nbytes))) {
        Ok(x) => x, Err(p) => (panic_obs(p), ro_flags()) };
      emit(4, sa, aa, sb, ab, len, addr, 0, "-", &o, &t2, f);
      // 21..24 checked module, any-bit-pattern target
      fill();
      let t21 = so(checked::try_cast_slice::<A, B>(shared!()).map_err(ce));
      emit(21, sa, aa, sb, ab, len, addr, 0, "-", &t21, "-", ro_flags());
      fill();
      let o = match catch_unwind(AssertUnwindSafe(|| so(Ok(checked::cast_slice::<A, B>(shared!()))))) {
        Ok(s) => s, Err(p) => panic_obs(p) };
      emit(23, sa, aa, sb, ab, len, addr, 0, "-", &o, &t21, ro_flags());
      fill();
      let (t22, f) = smo(checked::try_cast_slice_mut::<A, B>(muts!()).map_err(ce), off, nbytes);
      emit(22, sa, aa, sb, ab, len, addr, 0, "-", &t22, "-", f);
      fill();
      let (o, f) = match catch_unwind(AssertUnwindSafe(|| smo(Ok(checked::cast_slice_mut::<A, B>(muts!())), off, nbytes))) {
        Ok(x) => x, Err(p) => (panic_obs(p), ro_flags()) };
      emit(24, sa, aa, sb, ab, len, addr, 0, "-", &o, &t22, f);
    }
  }
}

#[inline(never)]
fn run_refs<A: G, B: G>() {
  let (sa, aa, sb, ab) = (A::SZ, A::AL, B::SZ, B::AL);
  for r in residues(aa) {
    let off = SRC0 + r;
    let addr = BASE + off;
    let p = unsafe { ar().add(off) };
    macro_rules! shared { () => { unsafe { &*(p as *const A) } } }
    macro_rules! muts { () => { unsafe { &mut *(p as *mut A) } } }
    fill();
    let t5 = ro(bytemuck::try_cast_ref::<A, B>(shared!()).map_err(pe));
    emit(5, sa, aa, sb, ab, 1, addr, 0, "-", &t5, "-", ro_flags());
    fill();
    let o = match catch_unwind(AssertUnwindSafe(|| ro(Ok(bytemuck::cast_ref::<A, B>(shared!()))))) {
      Ok(s) => s, Err(p) => panic_obs(p) };
    emit(7, sa, aa, sb, ab, 1, addr, 0, "-", &o, &t5, ro_flags());
    fill();
    let (t6, f) = rmo(bytemuck::try_cast_mut::<A, B>(muts!()).map_err(pe), off, sa);
    emit(6, sa, aa, sb, ab, 1, addr, 0, "-", &t6, "-", f);
    fill();
    let (o, f) = match catch_unwind(AssertUnwindSafe(|| rmo(Ok(bytemuck::cast_mut::<A, B>(muts!())), off, sa))) {
      Ok(x) => x, Err(p) => (panic_obs(p), ro_flags()) };
    emit(8, sa, aa, sb, ab, 1, addr, 0, "-", &o, &t6, f);
    fill();
    let t25 = ro(checked::try_cast_ref::<A, B>(shared!()).map_err(ce));
    emit(25, sa, aa, sb, ab, 1, addr, 0, "-", &t25, "-", ro_flags());
    fill();
    let o = match catch_unwind(AssertUnwindSafe(|| ro(Ok(checked::cast_ref::<A, B>(shared!()))))) {
      Ok(s) => s, Err(p) => panic_obs(p) };
    emit(27, sa, aa, sb, ab, 1, addr, 0, "-", &o, &t25, ro_flags());
    fill();
    let (t26, f) = rmo(checked::try_cast_mut::<A, B>(muts!()).map_err(ce), off, sa);
    emit(26, sa, aa, sb, ab, 1, addr, 0, "-", &t26, "-", f);
    fill();
    let (o, f) = match catch_unwind(AssertUnwindSafe(|| rmo(Ok(checked::cast_mut::<A, B>(muts!())), off, sa))) {
      Ok(x) => x, Err(p) => (panic_obs(p), ro_flags()) };
    emit(28, sa, aa, sb, ab, 1, addr, 0, "-", &o, &t26, f);
  }
}

// by-value casts: the value is built from a byte pattern; the result is reported as bytes
fn pattern(seed: usize, n: usize) -> Vec<u8> {
  (0..n).map(|i| ((i * 37 + seed * 101 + 11) % 251) as u8 ^ if seed % 2 == 1 { 0x80 } else { 0 }).collect()
}
#[inline(never)]
fn run_values<A: G, B: G>() {
  let (sa, aa, sb, ab) = (A::SZ, A::AL, B::SZ, B::AL);
  for seed in 0..2usize {
    let pat = pattern(seed, sa);
    let a: A = if sa == 0 { A::zeroed() } else { unsafe { core::ptr::read_unaligned(pat.as_ptr() as *const A) } };
    let hx = hexs(&pat);
    fill();
    let t = match bytemuck::try_cast::<A, B>(a) { Ok(b) => format!("VAL {}", hexs(bytemuck::bytes_of(&b))), Err(e) => format!("ERR {}", pe(e)) };
    emit(51, sa, aa, sb, ab, 1, BASE, 0, &hx, &t, "-", ro_flags());
    let o = match catch_unwind(AssertUnwindSafe(|| { let b = bytemuck::cast::<A, B>(a); format!("VAL {}", hexs(bytemuck::bytes_of(&b))) })) {
      Ok(s) => s, Err(p) => panic_obs(p) };
    emit(52, sa, aa, sb, ab, 1, BASE, 0, &hx, &o, &t, ro_flags());
    let tc = match checked::try_cast::<A, B>(a) { Ok(b) => format!("VAL {}", hexs(bytemuck::bytes_of(&b))), Err(e) => format!("ERR {}", ce(e)) };
    emit(61, sa, aa, sb, ab, 1, BASE, 0, &hx, &tc, "-", ro_flags());
    let o = match catch_unwind(AssertUnwindSafe(|| { let b = checked::cast::<A, B>(a); format!("VAL {}", hexs(bytemuck::bytes_of(&b))) })) {
      Ok(s) => s, Err(p) => panic_obs(p) };
    emit(62, sa, aa, sb, ab, 1, BASE, 0, &hx, &o, &tc, ro_flags());
  }
}

// per type: byte views, bytes_of, unaligned reads — at every byte offset 0..16
#[inline(never)]
fn run_single<T: G>() {
  let (st, at) = (T::SZ, T::AL);
  let mut lens = vec![0usize, st, st + 1, 2 * st];
  if st > 0 { lens.push(st - 1); }
  lens.sort(); lens.dedup();
  for r in 0..16usize {
    for &len in &lens {
      let off = SRC0 + r;
      let addr = BASE + off;
      let p = unsafe { ar().add(off) };
      macro_rules! shared { () => { unsafe { core::slice::from_raw_parts(p as *const u8, len) } } }
      macro_rules! muts { () => { unsafe { core::slice::from_raw_parts_mut(p, len) } } }
      fill();
      let t9 = ro(bytemuck::try_from_bytes::<T>(shared!()).map_err(pe));
      emit(9, 1, 1, st, at, len, addr, 0, "-", &t9, "-", ro_flags());
      fill();
      let o = match catch_unwind(AssertUnwindSafe(|| ro(Ok(bytemuck::from_bytes::<T>(shared!()))))) { Ok(s) => s, Err(p) => panic_obs(p) };
      emit(11, 1, 1, st, at, len, addr, 0, "-", &o, &t9, ro_flags());
      fill();
      let (t10, f) = rmo(bytemuck::try_from_bytes_mut::<T>(muts!()).map_err(pe), off, len);
      emit(10, 1, 1, st, at, len, addr, 0, "-", &t10, "-", f);
      fill();
      let (o, f) = match catch_unwind(AssertUnwindSafe(|| rmo(Ok(bytemuck::from_bytes_mut::<T>(muts!())), off, len))) { Ok(x) => x, Err(p) => (panic_obs(p), ro_flags()) };
      emit(12, 1, 1, st, at, len, addr, 0, "-", &o, &t10, f);
      fill();
      let t29 = ro(checked::try_from_bytes::<T>(shared!()).map_err(ce));
      emit(29, 1, 1, st, at, len, addr, 0, "-", &t29, "-", ro_flags());
      fill();
      let o = match catch_unwind(AssertUnwindSafe(|| ro(Ok(checked::from_bytes::<T>(shared!()))))) { Ok(s) => s, Err(p) => panic_obs(p) };
      emit(31, 1, 1, st, at, len, addr, 0, "-", &o, &t29, ro_flags());
      fill();
      let (t30, f) = rmo(checked::try_from_bytes_mut::<T>(muts!()).map_err(ce), off, len);
      emit(30, 1, 1, st, at, len, addr, 0, "-", &t30, "-", f);
      fill();
      let (o, f) = match catch_unwind(AssertUnwindSafe(|| rmo(Ok(checked::from_bytes_mut::<T>(muts!())), off, len))) { Ok(x) => x, Err(p) => (panic_obs(p), ro_flags()) };
      emit(32, 1, 1, st, at, len, addr, 0, "-", &o, &t30, f);
      // unaligned reads
      fill();
      let hx = hex(off, len);
      let t53 = match bytemuck::try_pod_read_unaligned::<T>(shared!()) { Ok(v) => format!("VAL {}", hexs(bytemuck::bytes_of(&v))), Err(e) => format!("ERR {}", pe(e)) };
      emit(53, 1, 1, st, at, len, addr, 0, &hx, &t53, "-", ro_flags());
      let o = match catch_unwind(AssertUnwindSafe(|| { let v = bytemuck::pod_read_unaligned::<T>(shared!()); format!("VAL {}", hexs(bytemuck::bytes_of(&v))) })) { Ok(s) => s, Err(p) => panic_obs(p) };
      emit(54, 1, 1, st, at, len, addr, 0, &hx, &o, &t53, ro_flags());
      let t63 = match checked::try_pod_read_unaligned::<T>(shared!()) { Ok(v) => format!("VAL {}", hexs(bytemuck::bytes_of(&v))), Err(e) => format!("ERR {}", ce(e)) };
      emit(63, 1, 1, st, at, len, addr, 0, &hx, &t63, "-", ro_flags());
      let o = match catch_unwind(AssertUnwindSafe(|| { let v = checked::pod_read_unaligned::<T>(shared!()); format!("VAL {}", hexs(bytemuck::bytes_of(&v))) })) { Ok(s) => s, Err(p) => panic_obs(p) };
      emit(64, 1, 1, st, at, len, addr, 0, &hx, &o, &t63, ro_flags());
    }
  }
  // bytes_of / bytes_of_mut at every valid residue
  for r in residues(at) {
    let off = SRC0 + r;
    let addr = BASE + off;
    let p = unsafe { ar().add(off) };
    fill();
    let o = so(Ok(bytemuck::bytes_of::<T>(unsafe { &*(p as *const T) })));
    emit(13, st, at, 1, 1, 1, addr, 0, "-", &o, "-", ro_flags());
    fill();
    let (o, f) = smo::<U8>(Ok(unsafe { core::mem::transmute::<&mut [u8], &mut [U8]>(bytemuck::bytes_of_mut::<T>(&mut *(p as *mut T))) }), off, st);
    emit(14, st, at, 1, 1, 1, addr, 0, "-", &o, "-", f);
  }
}

#[derive(Clone, Copy)]
#[repr(transparent)]
pub struct U8(u8);
unsafe impl Zeroable for U8 {}
unsafe impl Pod for U8 {}
impl G for U8 { const SZ: usize = 1; const AL: usize = 1; }

fn main() {
  std::panic::set_hook(Box::new(|_| {}));
  let args: Vec<String> = std::env::args().collect();
  let cfg: u32 = args.get(1).map(|s| s.parse().unwrap()).unwrap_or(0);
  let maxlen: usize = args.get(2).map(|s| s.parse().unwrap()).unwrap_or(6);
  unsafe {
    WIN_HI = (SRC0 + 16 + maxlen * 32 + 128).min(ARENA);
    CFG = cfg;
    OUT = Some(std::io::BufWriter::with_capacity(1 << 20, std::io::stdout()));
  }
  types::run_all(maxlen);
  unsafe { OUT.as_mut().unwrap().flush().unwrap(); }
}
'''


def gen(out, tier):
    types = QUICK_TYPES if tier == "quick" else all_types()
    os.makedirs(os.path.join(out, "src"), exist_ok=True)
    with open(os.path.join(out, "Cargo.toml"), "w") as f:
        f.write('''[package]
name = "castgrid"
version = "0.1.0"
edition = "2021"

[workspace]

[dependencies]
bytemuck = { path = "/repo" }

[features]
align_offset = ["bytemuck/align_offset"]
track_caller = ["bytemuck/track_caller"]
extern_crate_alloc = ["bytemuck/extern_crate_alloc"]
extern_crate_std = ["bytemuck/extern_crate_std"]
min_const_generics = ["bytemuck/min_const_generics"]
must_cast = ["bytemuck/must_cast"]
must_cast_extra = ["bytemuck/must_cast_extra"]
all_stable = ["bytemuck/latest_stable_rust", "bytemuck/extern_crate_alloc", "bytemuck/extern_crate_std"]

[profile.dev]
opt-level = 0
debug = 0
incremental = false
overflow-checks = true

[profile.release]
opt-level = 2
debug = 0
incremental = false
''')
    with open(os.path.join(out, "src", "main.rs"), "w") as f:
        f.write(MAIN)
    t = ["use super::*;", ""]
    for (s, a) in types:
        n = tname(s, a)
        t.append("#[derive(Clone, Copy)] #[repr(C, align(%d))] pub struct %s([u8; %d]);" % (a, n, s))
        t.append("unsafe impl Zeroable for %s {} unsafe impl Pod for %s {}" % (n, n))
        t.append("impl G for %s { const SZ: usize = %d; const AL: usize = %d; }" % (n, s, a))
    t.append("")
    # pair runners are split into chunks so that rustc can codegen them in parallel units
    t.append("pub fn run_all(maxlen: usize) {")
    for (s, a) in types:
        t.append("  run_single::<%s>();" % tname(s, a))
    for (s, a) in types:
        t.append("  row_%s(maxlen);" % tname(s, a))
    t.append("}")
    for (s, a) in types:
        t.append("#[inline(never)] fn row_%s(maxlen: usize) {" % tname(s, a))
        for (s2, a2) in types:
            t.append("  run_slices::<%s, %s>(maxlen); run_refs::<%s, %s>(); run_values::<%s, %s>();"
                     % ((tname(s, a), tname(s2, a2)) * 3))
        t.append("}")
    with open(os.path.join(out, "src", "types.rs"), "w") as f:
        f.write("\n".join(t) + "\n")


if __name__ == "__main__":
    gen(sys.argv[1], sys.argv[2])
