#!/usr/bin/env python3
"""Generate the allocgrid harness crate.  usage: gen.py <out-dir> <quick|thorough>"""
import os
import sys
HERE = os.path.dirname(os.path.abspath(__file__))

QUICK = [(0, 1), (1, 1), (2, 1), (3, 1), (4, 1), (6, 1), (8, 1), (12, 1), (0, 2), (2, 2), (4, 2), (6, 2),
         (0, 4), (4, 4), (8, 4), (12, 4), (0, 8), (8, 8), (16, 8), (0, 16), (16, 16), (32, 16)]


def all_types():
    return [(s, a) for a in (1, 2, 4, 8, 16) for s in range(0, 33) if s % a == 0]


def tname(s, a, fam="S"):
    return "%s%dA%d" % (fam, s, a)


CARGO = '''[package]
name = "allocgrid"
version = "0.1.0"
edition = "2021"

[workspace]

[dependencies]
bytemuck = { path = "/repo", features = ["extern_crate_alloc"] }

[features]
uninit = ["bytemuck/alloc_uninit", "bytemuck/zeroable_maybe_uninit"]
track_caller = ["bytemuck/track_caller"]

[profile.dev]
opt-level = 0
debug = 0
incremental = false
overflow-checks = true
debug-assertions = false
'''


def gen(out, tier):
    types = QUICK if tier == "quick" else all_types()
    os.makedirs(os.path.join(out, "src"), exist_ok=True)
    open(os.path.join(out, "Cargo.toml"), "w").write(CARGO)
    open(os.path.join(out, "src", "main.rs"), "w").write(open(os.path.join(HERE, "main_rs.txt")).read())
    t = ["use super::*;", ""]
    for fam in ("S", "R"):
        for (s, a) in types:
            n = tname(s, a, fam)
            t.append("#[derive(Clone, Copy, PartialEq)] #[repr(C, align(%d))] pub struct %s(pub [u8; %d]);" % (a, n, s))
            t.append("unsafe impl Zeroable for %s {} unsafe impl Pod for %s {}" % (n, n))
            t.append("impl G for %s { const SZ: usize = %d; const AL: usize = %d; fn pat(i: usize) -> Self { let mut b = [0u8; %d]; "
                     "for (k, x) in b.iter_mut().enumerate() { *x = (k as u8).wrapping_mul(29).wrapping_add((i as u8).wrapping_mul(7)).wrapping_add(%d) | 1; } %s(b) } }"
                     % (n, s, a, s, (s * 3 + a) % 200, n))
            t.append("impl ZT for %s { const SZ: usize = %d; const AL: usize = %d; }" % (n, s, a))
    # padded / over-aligned / zero-sized zeroable types for the zeroing APIs
    t.append("#[repr(C)] pub struct Padded(pub u8, pub u32, pub u16); unsafe impl Zeroable for Padded {} impl ZT for Padded { const SZ: usize = 12; const AL: usize = 4; }")
    t.append("#[repr(C, align(64))] pub struct Over(pub u8); unsafe impl Zeroable for Over {} impl ZT for Over { const SZ: usize = 64; const AL: usize = 64; }")
    t.append("#[repr(C, align(32))] pub struct ZstOver; unsafe impl Zeroable for ZstOver {} impl ZT for ZstOver { const SZ: usize = 0; const AL: usize = 32; }")
    t.append("impl ZT for (u8, u64) { const SZ: usize = 16; const AL: usize = 8; }")
    t.append("")
    t.append("pub fn run_all(thorough: bool, seed: u64) {")
    t.append("  let maxlen = if thorough { 8 } else { 5 }; let maxspare = if thorough { 4 } else { 2 };")
    t.append("  let big: Vec<usize> = vec![0, 1, 2, 3, 5, 8, 16, usize::MAX, usize::MAX / 2, isize::MAX as usize, (isize::MAX as usize) / 2 + 1];")
    for (s, a) in types:
        n = tname(s, a)
        t.append("  run_bb_of::<%s>(maxlen); run_transparent::<%s>(if thorough { 8 } else { 3 });" % (n, n))
        ovf = "" if s == 0 else ", (isize::MAX as usize) / %d + 1, (isize::MAX as usize) / %d, (isize::MAX as usize - %d) / %d + 1" % (s, s, a - 1, s)
        t.append("  { let mut l = big.clone(); l.extend([4usize, 16%s]); run_zeroed::<%s>(&l); #[cfg(feature = \"uninit\")] run_zeroed_rc::<%s>(&[0, 1, 2, 5, 16]); }" % (ovf, n, n))
    for z in ("Padded", "Over", "ZstOver", "(u8, u64)"):
        t.append("  run_zeroed::<%s>(&big); #[cfg(feature = \"uninit\")] run_zeroed_rc::<%s>(&[0, 1, 2, 5, 16]);" % (z, z))
    t.append("  run_bb_str(maxlen); run_transparent_unsized(8); run_zero_guard(if thorough { 16 } else { 7 }); run_zero_guard_zst(if thorough { 16 } else { 7 });")
    for (s, a) in types:
        t.append("  row_%s(maxlen, maxspare);" % tname(s, a))
    # histories over same-layout pairs (S family <-> R family) and one pair with a different layout
    t.append("  let hs = histories(if thorough { 5 } else { 3 }, if thorough { 20000 } else { 300 }, seed);")
    t.append("  for h in &hs { hist_rc::<S4A4, R4A4>(h); hist_rc::<S0A1, R0A1>(h); }")
    t.append("  for h in hs.iter().step_by(if thorough { 7 } else { 3 }) { hist_arc::<S8A8, R8A8>(h); hist_rc::<S4A4, R8A4>(h); }")
    t.append("}")
    for (s, a) in types:
        t.append("#[inline(never)] fn row_%s(maxlen: usize, maxspare: usize) {" % tname(s, a))
        for fam in ("S", "R"):
            for (s2, a2) in types:
                if fam == "R" and not (s2 == s and a2 == a):
                    continue
                A, B = tname(s, a), tname(s2, a2, fam)
                t.append("  run_box::<%s, %s>(); run_slice_box::<%s, %s>(maxlen); run_vec::<%s, %s>(maxlen, maxspare); run_rc::<%s, %s>(); run_slice_rc::<%s, %s>(maxlen); "
                         "run_arc::<%s, %s>(); run_slice_arc::<%s, %s>(maxlen); run_bb_from::<%s, %s>(maxlen.min(4)); run_collect::<%s, %s>(if maxlen > 5 { 12 } else { 7 });"
                         % ((A, B) * 9))
        t.append("}")
    open(os.path.join(out, "src", "types.rs"), "w").write("\n".join(t) + "\n")


if __name__ == "__main__":
    gen(sys.argv[1], sys.argv[2])
