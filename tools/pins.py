"""Pins (translator/src/pins.rs): which hand-modelled source items the model of each property transcribes.
A pinned item whose text changed (or that is gone) means the hand model was written against another text:
the properties listed for it are no longer shown to hold for the code in the tree."""
import json
import os
import re

INFRA = ["C05", "C06", "C08", "C17"]
RULES = [   # (file regex, item regex, properties); first match wins
    (r"derive/src/lib\.rs", r"derive_byte_(eq|hash)$", ["C18"]),
    (r"derive/src/lib\.rs", r"derive_contiguous$", ["C06", "C17"]),
    (r"derive/src/lib\.rs", r"derive_transparent$|derive_pod$|derive_anybitpattern$|derive_maybe_pod$", ["C05"]),
    (r"derive/src/lib\.rs", r"derive_zeroable$|derive_no_uninit$", ["C05", "C06"]),
    (r"derive/src/lib\.rs", r".*", INFRA + ["C18"]),
    (r"derive/src/traits\.rs", r"bytemuck_crate_name$", INFRA + ["C18"]),
    (r"derive/src/traits\.rs", r"parse_int_expr$|VariantDiscriminantIterator|enum_has_fields$|get_enum_variants$", ["C06", "C08", "C17"]),
    (r"derive/src/traits\.rs", r"Contiguous", ["C06", "C17"]),
    (r"derive/src/traits\.rs", r"generate_checked_bit_pattern_enum_without_fields$", ["C06", "C08"]),
    (r"derive/src/traits\.rs", r"generate_checked_bit_pattern_enum$", ["C06", "C08"]),
    (r"derive/src/traits\.rs", r"generate_checked_bit_pattern_(struct|enum_with_fields)$", ["C08"]),
    (r"derive/src/traits\.rs", r"CheckedBitPattern::(asserts|trait_impl)$", ["C08"]),
    (r"derive/src/traits\.rs", r"CheckedBitPattern", ["C06", "C08"]),
    (r"derive/src/traits\.rs", r"get_zero_variant$", ["C06"]),
    (r"derive/src/traits\.rs", r"(Zeroable|NoUninit)::check_attributes$", ["C05", "C06"]),
    (r"derive/src/traits\.rs", r"Pod|AnyBitPattern|Zeroable|NoUninit|TransparentWrapper|generate_assert_no_padding$|generate_fields_are_trait$|"
                               r"get_struct_fields$|get_fields$|get_field_types$", ["C05"]),
    (r"derive/src/traits\.rs", r".*", INFRA),
    (r"src/offset_of\.rs", r".*", ["C19"]),
    (r"src/lib\.rs", r"zeroed$", ["C12"]),
    (r"src/zeroable\.rs", r".*", ["C12"]),
    (r"src/allocation\.rs", r"zeroed_(rc|arc)", ["C12"]),
    (r"src/allocation\.rs", r"pod_collect_to_vec$", ["C16"]),
    (r"src/allocation\.rs", r".*", ["C15"]),
]


def props_of(file, item):
    for fre, ire, props in RULES:
        if re.search(fre, file) and re.search(ire, item):
            return props
    return []


def broken_for(prop, gen_dir):
    """[(file, item, status)] of the pins relevant to `prop` that no longer hold; None when the
    translator did not report pins at all."""
    try:
        meta = json.load(open(os.path.join(gen_dir, "meta.json")))
    except (OSError, ValueError):
        return None
    pins = meta.get("pins")
    if pins is None:
        return None
    out = []
    for p in pins:
        if p["status"] in ("changed", "gone") and prop in props_of(p["file"], p["item"]):
            out.append((p["file"], p["item"], p["status"]))
        if p["item"] == "<file does not parse>" and prop in props_of(p["file"], ""):
            out.append((p["file"], p["item"], "unparsable"))
    return out


def summary(gen_dir):
    try:
        pins = json.load(open(os.path.join(gen_dir, "meta.json"))).get("pins", [])
    except (OSError, ValueError):
        return {}
    s = {}
    for p in pins:
        s[p["status"]] = s.get(p["status"], 0) + 1
    return s
