"""The cast family (C01 C02 C03 C07 C11 C14-runtime, and the transcripts C20 compares): castgrid
harness transcripts, the oracle run over them, and the per-property selection of findings."""
import json
import os
import re
import shutil
import sys
import time
from collections import Counter

from common import (CACHE, REPO, VERIF, build_oracle, log, machinery_hash, repo_hash, sh)

FN_NAMES = {
    1: "try_cast_slice", 2: "try_cast_slice_mut", 3: "cast_slice", 4: "cast_slice_mut",
    5: "try_cast_ref", 6: "try_cast_mut", 7: "cast_ref", 8: "cast_mut",
    9: "try_from_bytes", 10: "try_from_bytes_mut", 11: "from_bytes", 12: "from_bytes_mut",
    13: "bytes_of", 14: "bytes_of_mut",
    21: "checked::try_cast_slice", 22: "checked::try_cast_slice_mut", 23: "checked::cast_slice",
    24: "checked::cast_slice_mut", 25: "checked::try_cast_ref", 26: "checked::try_cast_mut",
    27: "checked::cast_ref", 28: "checked::cast_mut", 29: "checked::try_from_bytes",
    30: "checked::try_from_bytes_mut", 31: "checked::from_bytes", 32: "checked::from_bytes_mut",
    41: "must_cast_ref", 42: "must_cast_mut", 43: "must_cast_slice", 44: "must_cast_slice_mut",
    45: "must_cast", 15: "pod_align_to", 16: "pod_align_to_mut",
    141: "must_cast_ref (compile verdict)", 142: "must_cast_mut (compile verdict)",
    143: "must_cast_slice (compile verdict)", 144: "must_cast_slice_mut (compile verdict)",
    145: "must_cast (compile verdict)", 200: "char::is_valid_bit_pattern (2^32 scan)",
    51: "try_cast", 52: "cast", 53: "try_pod_read_unaligned", 54: "pod_read_unaligned",
    61: "checked::try_cast", 62: "checked::cast", 63: "checked::try_pod_read_unaligned",
    64: "checked::pod_read_unaligned",
}

VIEW_FNS = set(range(1, 17)) | set(range(21, 33)) | {41, 42, 43, 44}
TRY_BORROWED = {1, 2, 5, 6, 9, 10, 21, 22, 25, 26, 29, 30}
VALUE_FNS = {45, 51, 52, 53, 54, 61, 62, 63, 64}
CHECKED_FNS = set(range(21, 33)) | {61, 62, 63, 64}
PANICKING = {3, 4, 7, 8, 11, 12, 23, 24, 27, 28, 31, 32, 52, 54, 62, 64}
MUST_FNS = {41, 42, 43, 44, 45, 141, 142, 143, 144, 145}

# property -> (functions whose correspondence it owns, predicate on a MON line (prop tag, fn, what))
PROPS = {
    "C01": (VIEW_FNS, lambda tag, fn, what: tag == "C01"),
    "C02": (TRY_BORROWED, lambda tag, fn, what: tag == "C02" or (
        tag == "C01" and fn in TRY_BORROWED and what == "memory-outside-footprint-modified")),
    "C03": (VALUE_FNS, lambda tag, fn, what: tag == "C03"),
    "C07": (CHECKED_FNS | {200}, lambda tag, fn, what: tag == "C07" or (
        tag == "C01" and fn in CHECKED_FNS and what == "memory-outside-footprint-modified")),
    "C11": (PANICKING, lambda tag, fn, what: tag == "C11"),
    "C14": (MUST_FNS, lambda tag, fn, what: tag == "C14" or (tag in ("C01", "C03") and fn in MUST_FNS)),
}

CFGS = {  # cfg bits as understood by Extract/Driver.v feat_of  ->  cargo features of the harness
    0: [],
    1: ["align_offset"],
    3: ["align_offset", "track_caller"],
    "must": ["mustrun"],
    "mustconst": ["mustconst"],
}


def must_verdicts(tier, cdir):
    """Build the five mustgrid binaries; return (path of the verdict transcript, accepted-pairs file, error)."""
    import re as _re
    sys_path = os.path.join(VERIF, "harness", "mustgrid", "gen.py")
    d = os.path.join(CACHE, "mustgrid-%s" % tier)
    rc, out = sh(["python3", sys_path, d + ".new", tier])
    if rc != 0:
        return None, None, "mustgrid generator failed: " + out[-500:]
    for root, _, files in os.walk(d + ".new"):
        for fn in files:
            src = os.path.join(root, fn)
            dst = os.path.join(d, os.path.relpath(src, d + ".new"))
            os.makedirs(os.path.dirname(dst), exist_ok=True)
            new = open(src).read()
            try:
                old = open(dst).read()
            except OSError:
                old = None
            if new != old:
                with open(dst, "w") as f:
                    f.write(new)
    shutil.rmtree(d + ".new", ignore_errors=True)
    shutil.copy(os.path.join(REPO, "Cargo.lock"), os.path.join(d, "Cargo.lock"))
    sys.path.insert(0, os.path.join(VERIF, "harness", "castgrid"))
    import gen as cg
    types = cg.QUICK_TYPES if tier == "quick" else cg.all_types()
    target = os.path.join(CACHE, "target-mustgrid-%s" % tier)
    vpath = os.path.join(cdir, "must-verdict.txt")
    apath = os.path.join(harness_dir(tier), "accepted-pairs.txt")
    os.makedirs(harness_dir(tier), exist_ok=True)
    t0 = time.time()
    with open(vpath, "w") as vf, open(apath + ".new", "w") as af:
        for fn in (141, 142, 143, 144, 145):
            rc, out = sh(["cargo", "build", "--offline", "--bin", "m%d" % fn], cwd=d,
                         env={"CARGO_TARGET_DIR": target}, timeout=1500)
            rejected = set()
            for m in _re.finditer(r"instantiating `fn (?:\w+::)*must_cast\w*::<(?:\w+::)*S(\d+)A(\d+), (?:\w+::)*S(\d+)A(\d+)>`", out):
                rejected.add(tuple(int(x) for x in m.groups()))
            nerr = _re.search(r"due to (\d+) previous error", out)
            if rc != 0 and not rejected:
                return None, None, "mustgrid m%d does not build: %s" % (fn, out[-1200:])
            if rc == 0 and rejected:
                return None, None, "mustgrid m%d: inconsistent build output" % fn
            for (sa, aa) in types:
                for (sb, ab) in types:
                    ok = (sa, aa, sb, ab) not in rejected
                    vf.write("%d 0 %d %d %d %d 0 0 0 - ; %s ; - ; 3\n" % (fn, sa, aa, sb, ab, "COMPILES" if ok else "CFAIL"))
                    if ok:
                        af.write("%d %d %d %d %d\n" % (fn, sa, aa, sb, ab))
    new = open(apath + ".new").read()
    try:
        old = open(apath).read()
    except OSError:
        old = None
    if new != old:
        os.replace(apath + ".new", apath)
    else:
        os.remove(apath + ".new")
    log("mustgrid %s: compile verdicts in %.1fs" % (tier, time.time() - t0))
    return vpath, apath, None


VALSCAN_MAIN = """use bytemuck::checked::CheckedBitPattern;
fn main() {
  // maximal intervals of u32 on which <char as CheckedBitPattern>::is_valid_bit_pattern is true
  let mut start: Option<u32> = None;
  let mut v: u32 = 0;
  loop {
    let ok = <char as CheckedBitPattern>::is_valid_bit_pattern(&v);
    match (ok, start) {
      (true, None) => start = Some(v),
      (false, Some(s)) => { println!("CHARSCAN {} {}", s, v - 1); start = None; }
      _ => {}
    }
    if v == u32::MAX { break; }
    v += 1;
  }
  if let Some(s) = start { println!("CHARSCAN {} {}", s, u32::MAX); }
}
"""


def valscan(cdir):
    """All 2^32 bit patterns through char's validity predicate (release build, a few seconds)."""
    d = os.path.join(CACHE, "valscan")
    os.makedirs(os.path.join(d, "src"), exist_ok=True)
    from common import write_if_changed
    write_if_changed(os.path.join(d, "Cargo.toml"), """[package]
name = "valscan"
version = "0.1.0"
edition = "2021"

[workspace]

[dependencies]
bytemuck = { path = "/repo" }

[profile.release]
opt-level = 3
debug = 0
incremental = false
""")
    write_if_changed(os.path.join(d, "src", "main.rs"), VALSCAN_MAIN)
    shutil.copy(os.path.join(REPO, "Cargo.lock"), os.path.join(d, "Cargo.lock"))
    target = os.path.join(CACHE, "target-valscan")
    rc, out = sh(["cargo", "build", "--offline", "--release"], cwd=d, env={"CARGO_TARGET_DIR": target}, timeout=900)
    if rc != 0:
        return None, "valscan does not build: " + out[-1200:]
    rc, out = sh([os.path.join(target, "release", "valscan")], timeout=600)
    if rc != 0:
        return None, "valscan failed: " + out[-300:]
    iv = [tuple(int(x) for x in l.split()[1:3]) for l in out.split("\n") if l.startswith("CHARSCAN ")]
    with open(os.path.join(cdir, "charscan.txt"), "w") as f:
        f.write(out)
    return iv, None


def harness_dir(tier):
    return os.path.join(CACHE, "castgrid-%s" % tier)


def build_harness(tier, cfg, pairs_file=None):
    """(Re)generate and build castgrid for a tier and feature set from /repo's working tree."""
    d = harness_dir(tier)
    if pairs_file is None:
        pairs_file = os.path.join(d, "accepted-pairs.txt")
    rc, out = sh(["python3", os.path.join(VERIF, "harness", "castgrid", "gen.py"), d + ".new", tier, pairs_file])
    if rc != 0:
        raise RuntimeError("castgrid generator failed: " + out)
    # keep mtimes stable when nothing changed so cargo does not rebuild
    os.makedirs(os.path.join(d, "src"), exist_ok=True)
    for rel in ("Cargo.toml", "src/main.rs", "src/types.rs", "src/mustpairs.rs", "src/mustconst.rs"):
        new = open(os.path.join(d + ".new", rel)).read()
        try:
            old = open(os.path.join(d, rel)).read()
        except OSError:
            old = None
        if new != old:
            with open(os.path.join(d, rel), "w") as f:
                f.write(new)
    shutil.rmtree(d + ".new", ignore_errors=True)
    shutil.copy(os.path.join(REPO, "Cargo.lock"), os.path.join(d, "Cargo.lock"))
    feats = CFGS[cfg]
    target = os.path.join(CACHE, "target-castgrid-%s-%s" % (tier, cfg))
    cmd = ["cargo", "build", "--offline"]
    if feats:
        cmd += ["--features", ",".join(feats)]
    t0 = time.time()
    rc, out = sh(cmd, cwd=d, env={"CARGO_TARGET_DIR": target}, timeout=1500)
    if rc != 0:
        return None, out
    log("castgrid %s cfg=%s built in %.1fs" % (tier, cfg, time.time() - t0))
    return os.path.join(target, "debug", "castgrid"), out


def transcripts(tier):
    """Build + run castgrid for the tier's feature sets; run the oracle over each transcript.
    Cached by the content hash of /repo and of the machinery.  Returns a dict."""
    key = repo_hash()[:16] + "-" + machinery_hash(["harness/castgrid", "harness/mustgrid", "oracle", "coq/theories", "translator/src",
                                                   "tools/fam_cast.py", "tools/common.py"])[:16]
    cdir = os.path.join(CACHE, "transcripts", "cast-%s-%s" % (tier, key))
    done = os.path.join(cdir, "result.json")
    if os.path.exists(done):
        with open(done) as f:
            r = json.load(f)
        r["cached"] = True
        return r
    os.makedirs(cdir, exist_ok=True)
    oracle, oerr = build_oracle()
    cfgs = [0, 1] if tier == "quick" else [0, 1, 3]
    maxlen = 6 if tier == "quick" else 12
    res = {"tier": tier, "key": key, "cfgs": {}, "oracle_error": oerr, "dir": cdir, "cached": False}
    vpath, apath, verr = must_verdicts(tier, cdir)
    res["must_error"] = verr
    iv, serr = valscan(cdir)
    res["charscan"] = iv
    res["charscan_error"] = serr
    if vpath:
        entry = {"features": ["must_cast", "must_cast_extra"], "transcript": vpath, "run_rc": 0}
        res["cfgs"]["must-verdict"] = entry
        if oracle is not None:
            opath = os.path.join(cdir, "oracle-must-verdict.txt")
            with open(vpath) as fin, open(opath, "w") as fout:
                import subprocess
                p = subprocess.run([oracle], stdin=fin, stdout=fout, stderr=subprocess.PIPE, timeout=1500)
                entry["oracle_rc"] = p.returncode
            entry["oracle_out"] = opath
        cfgs = cfgs + ["must", "mustconst"]
    for cfg in cfgs:
        exe, out = build_harness(tier, cfg)
        entry = {"features": CFGS[cfg]}
        res["cfgs"][str(cfg)] = entry
        if exe is None:
            entry["build_error"] = out[-3000:]
            continue
        tpath = os.path.join(cdir, "cast-%s.txt" % cfg)
        t0 = time.time()
        with open(tpath, "w") as f:
            import subprocess
            try:
                argv = [exe, "0", str(maxlen), "must"] if str(cfg).startswith("must") else [exe, str(cfg), str(maxlen), "all"]
                p = subprocess.run(argv, stdout=f, stderr=subprocess.PIPE, timeout=1500)
                entry["run_rc"] = p.returncode
                entry["run_stderr"] = p.stderr.decode("utf-8", "replace")[-1000:]
            except subprocess.TimeoutExpired:
                entry["run_rc"] = 124
        entry["run_s"] = round(time.time() - t0, 1)
        entry["transcript"] = tpath
        if oracle is None:
            continue
        opath = os.path.join(cdir, "oracle-%s.txt" % cfg)
        with open(tpath) as fin, open(opath, "w") as fout:
            import subprocess
            p = subprocess.run([oracle], stdin=fin, stdout=fout, stderr=subprocess.PIPE, timeout=1500)
            entry["oracle_rc"] = p.returncode
        entry["oracle_out"] = opath
    # prune old transcript directories (keep the 6 most recent)
    troot = os.path.join(CACHE, "transcripts")
    ds = sorted((os.path.join(troot, x) for x in os.listdir(troot)), key=os.path.getmtime)
    for old in ds[:-6]:
        shutil.rmtree(old, ignore_errors=True)
    # a run in which the oracle or a harness could not be built is never cached
    if not oerr and not res.get("must_error") and not res.get("charscan_error") and not any("build_error" in e for e in res["cfgs"].values()):
        with open(done, "w") as f:
            json.dump(res, f, indent=1)
    return res


LINE_RE = re.compile(r"^(CORR|MON) ")


def parse_case(line):
    """'<fn> <cfg> ... ; obs ; twin ; flags' -> dict"""
    parts = [x.strip() for x in line.split(";")]
    c = parts[0].split()
    d = {"fn": int(c[0]), "fn_name": FN_NAMES.get(int(c[0]), "?"), "cfg": int(c[1]),
         "size_A": int(c[2]), "align_A": int(c[3]), "size_B": int(c[4]), "align_B": int(c[5]),
         "len": int(c[6]), "addr": int(c[7]), "kind": int(c[8]), "bytes": c[9]}
    if len(parts) > 1:
        d["observed"] = parts[1]
    if len(parts) > 2:
        d["twin_observed"] = parts[2]
    if len(parts) > 3:
        d["flags"] = parts[3]
    d["line"] = line.strip()
    return d


def findings(res, prop):
    """Select from the oracle output what concerns `prop`.
    Returns (monitor_violations, correspondence_mismatches, stats)."""
    fns, pred = PROPS[prop]
    mons, corrs = [], []
    stats = {"evaluations": 0, "by_fn": Counter(), "by_outcome": Counter(), "distinct": set(), "samples": [],
             "harness_errors": []}
    stats["notes"] = []
    if res.get("must_error"):
        (stats["harness_errors"] if prop == "C14" else stats["notes"]).append("must stage: " + res["must_error"])
    if res.get("charscan_error"):
        (stats["harness_errors"] if prop == "C07" else stats["notes"]).append("char scan: " + res["charscan_error"])
    if prop == "C07" and res.get("charscan") is not None:
        want = [(0, 0xD7FF), (0xE000, 0x10FFFF)]
        got = [tuple(x) for x in res["charscan"]]
        stats["evaluations"] += 1 << 32
        stats["by_fn"]["char::is_valid_bit_pattern (all 2^32 patterns)"] += 1 << 32
        stats["distinct"].add(("charscan", str(got)))
        if got != want:
            # first bit pattern on which the predicate differs from the language's definition
            def member(iv, v):
                return any(lo <= v <= hi for lo, hi in iv)
            cands = sorted(set([0] + [x for lo, hi in got + want for x in (lo - 1, lo, hi, hi + 1) if 0 <= x < (1 << 32)]))
            bad = [v for v in cands if member(got, v) != member(want, v)]
            mons.append({"fn": 200, "fn_name": FN_NAMES[200], "bits": bad[0] if bad else None, "bits_hex": hex(bad[0]) if bad else None,
                         "accepted_intervals": got, "valid_intervals": want, "monitor": "C07",
                         "clause_violated": "char-validity-differs-from-unicode-scalar-values",
                         "observed": "is_valid_bit_pattern(&%s) = %s" % (hex(bad[0]) if bad else "?", member(got, bad[0]) if bad else "?")})
    for cfg, entry in sorted(res["cfgs"].items(), key=lambda kv: str(kv[0])):
        must_cfg = str(cfg).startswith("must")
        if "build_error" in entry:
            (stats["harness_errors"] if (prop == "C14" or not must_cfg) else stats["notes"]).append(
                "castgrid cfg=%s does not build: %s" % (cfg, entry["build_error"][-600:]))
            continue
        if entry.get("run_rc", 0) != 0:
            # the harness died (abort / signal): attribute it to the call that followed the last emitted case
            last = None
            tp0 = entry.get("transcript")
            if tp0 and os.path.exists(tp0):
                with open(tp0, "rb") as f:
                    f.seek(max(0, os.path.getsize(tp0) - 4000))
                    tail = f.read().decode("utf-8", "replace").split("\n")
                for line in reversed(tail):
                    if re.match(r"^\d+ ", line) and line.count(";") == 3:
                        last = line
                        break
            attributed = False
            if last is not None:
                try:
                    case = parse_case(last)
                    if case["fn"] in fns or (case["fn"] + 1) in fns or (case["fn"] + 2) in fns:
                        case["monitor"] = prop
                        case["clause_violated"] = ("harness-process-died-(rc=%s)-in-the-call-following-this-case: %s" % (
                            entry.get("run_rc"), entry.get("run_stderr", "").strip()[-160:]))
                        mons.append(case)
                    attributed = True
                except Exception:
                    pass
            if not attributed:
                (stats["harness_errors"] if (prop == "C14" or not must_cfg) else stats["notes"]).append(
                    "castgrid cfg=%s exited with %s: %s" % (cfg, entry.get("run_rc"), entry.get("run_stderr", "")[-300:]))
        tp = entry.get("transcript")
        if tp and os.path.exists(tp):
            with open(tp) as f:
                for line in f:
                    sp = line.split(" ", 1)
                    try:
                        fn = int(sp[0])
                    except ValueError:
                        continue
                    if fn not in fns:
                        continue
                    stats["evaluations"] += 1
                    stats["by_fn"][FN_NAMES.get(fn, str(fn))] += 1
                    parts = line.split(";")
                    obs = parts[1].split()[0] if len(parts) > 1 and parts[1].split() else "?"
                    stats["by_outcome"][obs] += 1
                    # distinct non-trivial: distinct (fn, types, len, residue mod 16, outcome) with len>0 or a ZST involved
                    c = parts[0].split()
                    if len(c) >= 8:
                        keyt = (c[0], c[2], c[3], c[4], c[5], c[6], str(int(c[7]) % 16), c[9][:8], obs)
                        stats["distinct"].add(keyt)
                    if len(stats["samples"]) < 4 and stats["evaluations"] % 9973 == 1:
                        stats["samples"].append(line.strip())
        op = entry.get("oracle_out")
        if op and os.path.exists(op):
            with open(op) as f:
                for line in f:
                    if line.startswith("CORR "):
                        m = re.match(r"CORR (\d+) (\S+(?: \S+)*?) :: (.*)$", line.strip())
                        if not m:
                            continue
                        try:
                            case = parse_case(m.group(3))
                        except Exception:
                            continue
                        if case["fn"] in fns:
                            case["model"] = m.group(2)
                            corrs.append(case)
                    elif line.startswith("MON "):
                        m = re.match(r"MON (\S+) (\d+) (\S+) :: (.*)$", line.strip())
                        if not m:
                            continue
                        try:
                            case = parse_case(m.group(4))
                        except Exception:
                            continue
                        if pred(m.group(1), case["fn"], m.group(3)):
                            case["monitor"] = m.group(1)
                            case["clause_violated"] = m.group(3)
                            mons.append(case)
    return mons, corrs, stats
