"""The table family (C17 Contiguous; C04 census): harness transcripts, oracle run, findings."""
import json
import os
import re
import shutil
import subprocess
import time
from collections import Counter

from common import (CACHE, REPO, VERIF, build_oracle, log, machinery_hash, repo_hash, sh)

FN_NAMES = {401: "built-in Contiguous impl: from_integer / into_integer", 402: "derived Contiguous enum vs default-method twin",
            410: "trait census row"}
PROPS = {"C17": {401, 402}, "C04": {410, 401}}


def sync(src, dst, rels):
    for rel in rels:
        new = open(os.path.join(src, rel)).read()
        try:
            old = open(os.path.join(dst, rel)).read()
        except OSError:
            old = None
        if new != old:
            os.makedirs(os.path.dirname(os.path.join(dst, rel)), exist_ok=True)
            with open(os.path.join(dst, rel), "w") as f:
                f.write(new)


def contig_transcript(tier, seed, cdir, oracle):
    d = os.path.join(CACHE, "contig-%s" % tier)
    rc, out = sh(["python3", os.path.join(VERIF, "harness", "contig", "gen.py"), d + ".new", tier, str(seed)])
    entry = {"features": ["derive"]}
    if rc != 0:
        entry["build_error"] = "generator: " + out[-600:]
        return entry
    sync(d + ".new", d, ("Cargo.toml", "src/main.rs", "src/enums.rs"))
    shutil.rmtree(d + ".new", ignore_errors=True)
    shutil.copy(os.path.join(REPO, "Cargo.lock"), os.path.join(d, "Cargo.lock"))
    target = os.path.join(CACHE, "target-contig-%s" % tier)
    t0 = time.time()
    rc, out = sh(["cargo", "build", "--offline"], cwd=d, env={"CARGO_TARGET_DIR": target}, timeout=1800)
    if rc != 0:
        entry["build_error"] = out[-3000:]
        return entry
    log("contig %s built in %.1fs" % (tier, time.time() - t0))
    tpath = os.path.join(cdir, "contig.txt")
    with open(tpath, "w") as f:
        try:
            p = subprocess.run([os.path.join(target, "debug", "contig")], stdout=f, stderr=subprocess.PIPE, timeout=1800)
            entry["run_rc"] = p.returncode
            entry["run_stderr"] = p.stderr.decode("utf-8", "replace")[-600:]
        except subprocess.TimeoutExpired:
            entry["run_rc"] = 124
    entry["transcript"] = tpath
    if oracle:
        opath = os.path.join(cdir, "oracle-contig.txt")
        with open(tpath) as fin, open(opath, "w") as fout:
            p = subprocess.run([oracle], stdin=fin, stdout=fout, stderr=subprocess.PIPE, timeout=1800)
            entry["oracle_rc"] = p.returncode
        entry["oracle_out"] = opath
    return entry


def transcripts(tier, seed=1, which=("contig",)):
    key = repo_hash()[:16] + "-" + machinery_hash(["harness/contig", "harness/census", "oracle", "coq/theories", "translator/src",
                                                   "tools/fam_tables.py", "tools/common.py"])[:16] + "-%d-%s" % (seed, "+".join(which))
    cdir = os.path.join(CACHE, "transcripts", "tables-%s-%s" % (tier, key))
    done = os.path.join(cdir, "result.json")
    if os.path.exists(done):
        r = json.load(open(done))
        r["cached"] = True
        return r
    os.makedirs(cdir, exist_ok=True)
    oracle, oerr = build_oracle()
    res = {"tier": tier, "key": key, "cfgs": {}, "oracle_error": oerr, "dir": cdir, "cached": False}
    if "contig" in which:
        res["cfgs"]["contig"] = contig_transcript(tier, seed, cdir, oracle)
    if "census" in which:
        import census
        for name, entry in census.transcripts(tier, cdir, oracle).items():
            res["cfgs"][name] = entry
    troot = os.path.join(CACHE, "transcripts")
    ds = sorted((os.path.join(troot, x) for x in os.listdir(troot) if x.startswith("tables-")), key=os.path.getmtime)
    for old in ds[:-4]:
        shutil.rmtree(old, ignore_errors=True)
    if not oerr and not any("build_error" in e for e in res["cfgs"].values()):
        json.dump(res, open(done, "w"), indent=1)
    return res


def parse_case(line):
    parts = [x.strip() for x in line.split(";")]
    c = parts[0].split()
    d = {"fn": int(c[0]), "fn_name": FN_NAMES.get(int(c[0]), "?"), "bits": int(c[2]), "signed": int(c[3]), "text": c[9],
         "observed": parts[1] if len(parts) > 1 else "", "line": line.strip()}
    if d["fn"] == 401 and c[9] != "-":
        try:
            d["type_name"] = bytes.fromhex(c[9]).decode()
        except ValueError:
            pass
    return d


def findings(res, prop):
    fns = PROPS[prop]
    mons, corrs = [], []
    stats = {"evaluations": 0, "by_fn": Counter(), "by_outcome": Counter(), "distinct": set(), "samples": [],
             "harness_errors": [], "notes": []}
    if res.get("oracle_error"):
        stats["harness_errors"].append("oracle: " + res["oracle_error"])
    for cfg, entry in sorted(res["cfgs"].items()):
        if "build_error" in entry:
            stats["harness_errors"].append("%s harness does not build: %s" % (cfg, entry["build_error"][-1200:]))
            continue
        tp = entry.get("transcript")
        last = None
        if tp and os.path.exists(tp):
            with open(tp) as f:
                for line in f:
                    sp = line.split(" ", 1)
                    try:
                        fn = int(sp[0])
                    except ValueError:
                        continue
                    if fn not in fns:
                        continue
                    last = line
                    stats["evaluations"] += 1
                    stats["by_fn"][FN_NAMES.get(fn, str(fn))] += 1
                    stats["distinct"].add(hash(line))
                    if len(stats["samples"]) < 4 and stats["evaluations"] % 49999 == 1:
                        stats["samples"].append(line.strip())
        if entry.get("run_rc", 0) != 0:
            if last is not None:
                case = parse_case(last)
                case["monitor"] = prop
                case["clause_violated"] = "harness-process-died-(rc=%s)-after-this-case: %s" % (entry.get("run_rc"), entry.get("run_stderr", "").strip()[-200:])
                mons.append(case)
            else:
                stats["harness_errors"].append("%s harness exited with %s: %s" % (cfg, entry.get("run_rc"), entry.get("run_stderr", "")[-300:]))
        op = entry.get("oracle_out")
        if op and os.path.exists(op):
            with open(op) as f:
                for line in f:
                    if line.startswith("CORR "):
                        m = re.match(r"CORR (\d+) (\S+(?: \S+)*?) :: (.*)$", line.strip())
                        if m:
                            try:
                                case = parse_case(m.group(3))
                            except Exception:
                                continue
                            if case["fn"] in fns:
                                case["model"] = m.group(2)
                                case["cfg"] = cfg
                                corrs.append(case)
                    elif line.startswith("MON "):
                        m = re.match(r"MON (\S+) (\d+) (\S+) :: (.*)$", line.strip())
                        if m and m.group(1) == prop:
                            try:
                                case = parse_case(m.group(4))
                            except Exception:
                                continue
                            if case["fn"] in fns:
                                case["monitor"] = prop
                                case["cfg"] = cfg
                                case["clause_violated"] = m.group(3)
                                mons.append(case)
    stats["distinct"] = set(list(stats["distinct"]))
    return mons, corrs, stats
