#!/bin/bash
# developer tool: apply a behaviour-preserving patch to /repo, run the checks of the properties that the
# touched file feeds, report any alarm (a false alarm, unless marked no-failing-input-found), undo.
# usage: neutral_check.sh <patch.diff>
p=$(realpath "$1")
cd /verif
git -C /repo apply "$p" 2>/dev/null || { echo "$(basename $p): patch does not apply"; exit 2; }
files=$(grep '^+++ b/' "$p" | sed 's#+++ b/##')
ids=""
for f in $files; do
  case $f in
    src/internal.rs) ids="$ids C01 C02 C03 C07 C11 C14";;
    src/lib.rs) ids="$ids C01 C02 C03 C11 C12";;
    src/checked.rs) ids="$ids C01 C07 C11";;
    src/must.rs) ids="$ids C01 C03 C14";;
    src/allocation.rs) ids="$ids C09 C10 C11 C12 C13 C15 C16";;
    src/transparent.rs) ids="$ids C13";;
    derive/*) ids="$ids C05 C06 C08 C17 C18";;
    *) ids="$ids C04 C17 C20";;
  esac
done
ids=$(echo $ids | tr ' ' '\n' | sort -u | tr '\n' ' ')
for id in $ids; do
  out=$(python3 tools/bmv.py check $id --tier quick 2>/dev/null | grep -E "VIOLATION|KNOWN-FINDING" | head -2)
  echo "$(basename $p) $id :: ${out:-ok}"
done
git -C /repo reset -q --hard HEAD
