"""Census harness runs (C04; the rows are also what C20 compares across feature sets)."""
import os
import shutil
import subprocess
import time

from common import CACHE, REPO, VERIF, log, sh


def transcripts(tier, cdir, oracle):
    import fam_tables
    out = {}
    cfgs = [0, 3] if tier == "quick" else [0, 1, 2, 3]
    for cfg in cfgs:
        name = "census-%d" % cfg
        entry = {"features": cfg}
        out[name] = entry
        d = os.path.join(CACHE, "census-%s-%d" % (tier, cfg))
        rc, o = sh(["python3", os.path.join(VERIF, "harness", "census", "gen.py"), d + ".new", tier, str(cfg)])
        if rc != 0:
            entry["build_error"] = "generator: " + o[-600:]
            continue
        fam_tables.sync(d + ".new", d, ("Cargo.toml", "src/main.rs", "src/rows.rs"))
        shutil.rmtree(d + ".new", ignore_errors=True)
        shutil.copy(os.path.join(REPO, "Cargo.lock"), os.path.join(d, "Cargo.lock"))
        target = os.path.join(CACHE, "target-census-%s-%d" % (tier, cfg))
        t0 = time.time()
        rc, o = sh(["cargo", "build", "--offline"], cwd=d, env={"CARGO_TARGET_DIR": target}, timeout=2400)
        if rc != 0:
            entry["build_error"] = o[-3000:]
            continue
        log("census %s cfg=%d built in %.1fs" % (tier, cfg, time.time() - t0))
        tpath = os.path.join(cdir, "%s.txt" % name)
        with open(tpath, "w") as f:
            p = subprocess.run([os.path.join(target, "debug", "census")], stdout=f, stderr=subprocess.PIPE, timeout=600)
            entry["run_rc"] = p.returncode
            entry["run_stderr"] = p.stderr.decode("utf-8", "replace")[-400:]
        entry["transcript"] = tpath
        if oracle:
            opath = os.path.join(cdir, "oracle-%s.txt" % name)
            with open(tpath) as fin, open(opath, "w") as fout:
                p = subprocess.run([oracle], stdin=fin, stdout=fout, stderr=subprocess.PIPE, timeout=600)
                entry["oracle_rc"] = p.returncode
            entry["oracle_out"] = opath
    return out


def load_rows(path):
    """{type encoding: [7 marker bits]}"""
    rows = {}
    with open(path) as f:
        for line in f:
            parts = line.split(";")
            c = parts[0].split()
            if len(c) >= 10 and c[0] == "410":
                rows[c[9]] = [int(x) for x in parts[1].split()[1:]]
    return rows
