#!/bin/sh
# developer convenience: show the goals of coq/<file> just before line <n>
# usage: tools/dbg.sh theories/Proofs/X.v 57
cd /verif/coq
head -n $(($2 - 1)) "$1" > /tmp/dbg_$$.v
echo "Show." >> /tmp/dbg_$$.v
coqc -Q theories BM -Q Gen BM.Gen /tmp/dbg_$$.v 2>&1 | grep -v "pending proofs" | head -${3:-60}
rm -f /tmp/dbg_$$.v /tmp/dbg_$$.vo /tmp/dbg_$$.glob /tmp/.dbg_$$.aux
