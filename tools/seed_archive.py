#!/usr/bin/env python3
"""developer tool: archive a validated seeded change under /verif/seeded/<name>/.
usage: seed_archive.py <seed-dir> "<validation line>" "<check result>" ..."""
import json, os, shutil, sys
src = sys.argv[1].rstrip("/")
name = os.path.basename(src)
dst = os.path.join(os.path.dirname(os.path.dirname(os.path.abspath(__file__))), "seeded", name)
shutil.rmtree(dst, ignore_errors=True)
os.makedirs(dst)
shutil.copy(os.path.join(src, "patch.diff"), dst)
shutil.copytree(os.path.join(src, "demo"), os.path.join(dst, "demo"), ignore=shutil.ignore_patterns("target", "work", "Cargo.lock"))
meta = json.load(open(os.path.join(src, "meta.json")))
meta["validated"] = {"how": "tools/seed_validate.sh in a scratch worktree: demo on the clean tree, existing test suite with the change, demo with the change",
                     "result": sys.argv[2]}
meta["checks_run"] = sys.argv[3:]
json.dump(meta, open(os.path.join(dst, "meta.json"), "w"), indent=1)
print("archived", dst)
