#!/usr/bin/env python3
"""developer tool: re-run a property's check against archived seeded changes and record the result.
usage: seed_recheck.py <name> [...]   (names under seeded/, e.g. C09c)"""
import json, os, subprocess, sys
V = os.path.dirname(os.path.dirname(os.path.abspath(__file__)))
for name in sys.argv[1:]:
    d = os.path.join(V, "seeded", name)
    out = subprocess.run([os.path.join(V, "tools", "seed_check.sh"), d, name[:3]], stdout=subprocess.PIPE, stderr=subprocess.DEVNULL).stdout.decode()
    line = [l for l in out.split("\n") if l.startswith(name)][-1:]
    m = json.load(open(os.path.join(d, "meta.json")))
    prev = m.get("checks_run", [])
    m["checks_history"] = m.get("checks_history", []) + [p for p in prev if p not in m.get("checks_history", [])]
    m["checks_run"] = line
    json.dump(m, open(os.path.join(d, "meta.json"), "w"), indent=1)
    print(line[0] if line else name + ": no result")
