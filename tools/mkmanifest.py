#!/usr/bin/env python3
"""Writes MANIFEST.json from the table below (single source of truth for the claimed checks)."""
import json, os
VERIF = os.path.dirname(os.path.dirname(os.path.abspath(__file__)))
props = [json.loads(l) for l in open(os.path.join(VERIF, "properties.jsonl"))]

CLAIMED = {
 "C02": dict(
   technique="Coq theorems (unbounded) over the Gallina model regenerated from src/internal.rs + src/lib.rs by the bm2coq translator; extracted-model correspondence and Coq-verified monitor over the castgrid harness",
   text="Proof: Ok <-> (address aligned for the target /\\ byte length converts exactly), truthful error variant, and totality (no panic, no UB) are Coq theorems for all sizes, power-of-two alignments, lengths and addresses, for both implementations of the alignment test, stated on the functions the translator regenerates from the working tree on every run. The tie to the code is translation plus an exact correspondence run (real crate vs extracted model on the type grid) and a monitor, proved equivalent to the statement, evaluated on every observation of the real crate.",
   note="Trusted: Coq kernel; translator on its subset (fail-closed, cross-checked by correspondence); ExtrOcamlBasic extraction + OCaml driver; harness; Base/Prims.v reading of core primitives. Not modelled: provenance/aliasing. 'never modifies the source' is observed on the grid, and holds of the model by construction (no store primitive occurs in the generated definitions).",
   ref="5/C02"),
 "C01": dict(
   technique="Coq theorems (unbounded) over the Gallina model regenerated from src/internal.rs, lib.rs, checked.rs, must.rs by the bm2coq translator; hand model of core's align_to with a tiling theorem; extracted-model correspondence and Coq-verified monitors (view, write-through, align-to tiling) over the castgrid harness",
   text="Proof: for every flavour of borrowed cast (plain, panicking, checked, must_; shared and mutable; slice, reference, byte view, bytes_of) a returned view has the source's start address, exactly the source's byte length, the target's alignment and an extent equal to its own size, for all sizes, power-of-two alignments, lengths and addresses and both alignment tests; footprint equality and the store lemma give 'a write changes exactly the corresponding source byte'; the align-to split tiles the source for every admissible element offset. The theorems are stated on the definitions regenerated from the working tree on every run; the correspondence run observes the real crate (addresses, lengths, canaries, write-through maps, align_to splits) on the type grid and checks each observation with the extracted monitor and against the extracted model.",
   note="Trusted: Coq kernel; translator on its subset; extraction + OCaml driver; harness; Base/Prims.v (creating a misaligned or over-long reference/slice is UB in the model). slice::align_to is core's: modelled (Model/StdSlice.v), validated by correspondence, not verified. Not modelled: provenance/aliasing.",
   ref="5/C01"),
 "C03": dict(
   technique="Coq theorems (unbounded) over the translated by-value casts and unaligned reads; extracted-model correspondence over exhaustive 8/16-bit patterns, float/NaN/boundary patterns and every read offset",
   text="Proof: try_cast returns exactly the source bytes when the sizes agree and SizeMismatch otherwise, cast panics exactly then, the round trip returns the original bytes, an unaligned read of exactly size_of::<T>() bytes returns those bytes at any address and any other length is SizeMismatch; none of them reads past the source (that is UB in the model, and the theorems say the outcome is a normal return). Stated on the regenerated definitions; the real crate is run on all 2^8 and 2^16 patterns of 1- and 2-byte types, float classes, walking bits and seeded random wider patterns, and reads at every offset 0..16.",
   note="Trusted: as C02. 'read' in place of 'read_unaligned' is distinguished by the translator vocabulary (UB on misaligned addresses in the model), not by the correspondence on x86-64.",
   ref="5/C03"),
 "C07": dict(
   technique="Coq theorems (unbounded) over the translated src/checked.rs: checked outcome = plain outcome followed by validity of every element; exhaustive scan of all 2^32 patterns through the crate's char predicate; extracted-model correspondence with real bool/char/NonZero targets",
   text="Proof: each of the eight checked try_ forms returns Err(PodCastError e) when the plain cast returns Err e, Ok of the SAME view/bytes when the plain cast succeeds and every element is valid, InvalidBitPattern otherwise, for every validity predicate, all sizes, alignments, lengths and addresses. The validity predicates of bool/char/NonZero are the language's (Model/LangValid.v; char = the two scalar-value intervals, proved). The real crate is run with bool, char and all twelve NonZero targets: slices with exactly one invalid element at each position, every residue and length, all 2^8/2^16 patterns of the small targets, the char boundaries, and all 2^32 patterns of char's is_valid_bit_pattern (release build, each run).",
   note="Trusted: as C02; Model/LangValid.v is the transcription of the language's validity rules.",
   ref="5/C07"),
 "C11": dict(
   technique="Coq theorems (unbounded) over the translated panicking forms: each is the twin of its try_ form (incl. unreachability of unreachable!() in cast_ref/cast_mut/bytes_of); correspondence + monitor under catch_unwind on the castgrid harness and, for the owning-container and BoxBytes forms, on the allocgrid harness (input freed exactly once after the caught panic)",
   text="Proof: for every borrowed and by-value panicking form (root and checked) the outcome is Ret v exactly when the try_ form is Ok v and the something_went_wrong panic carrying e exactly when it is Err e; the duplicated fast paths of cast_ref/cast_mut are proved consistent with try_cast_ref/_mut (their unreachable!() is unreachable for every valid reference). The real crate's panicking forms are run under catch_unwind next to their try_ forms on every grid case; the monitor compares the pair; source bytes are compared before/after. Owning-container forms are covered by the allocation harness (ledger after the caught panic).",
   note="Trusted: as C02. Panics are observed as unwinding (catch_unwind) with the message class parsed; abort would terminate the harness and is reported as a harness error.",
   ref="5/C11"),
 "C14": dict(
   technique="Coq theorems (unbounded) over the assertion constants and must_ functions regenerated from src/must.rs: assertions hold iff the runtime cast succeeds on every valid input, and then must_ = try_; real rustc compile verdicts for every ordered pair of grid types and each of the five functions; run-time and const-context results of every accepted instantiation",
   text="Proof: for each of the five must_ functions the conjunction of its generated compile-time assertions is true if and only if the corresponding try_ cast returns Ok for every valid input of those types (both directions, using an explicit misaligned witness), and when it is true the must_ function returns exactly what the try_ function returns (no overflow in len * (size A / size B), no division by zero). The tie: one rustc run per function over all ordered pairs gives the real compile verdict of every instantiation, compared with the model's verdict and with the code-independent infallibility predicate; every accepted instantiation is then executed at run time (all lengths, residues) and in a const context next to the try_ form.",
   note="Trusted: as C02; rustc's const evaluation of the assertions (post-monomorphisation errors parsed from the build output).",
   ref="5/C14"),
 "C09": dict(
   technique="Coq theorems (unbounded) over a hand-written model of src/allocation.rs and of std's allocation layouts; invariant by induction over all Rc/Arc handle histories; ledger correspondence under a recording global allocator",
   text="Proof: for every container kind (Box, Box<[T]>, Vec, Rc, Rc<[T]>, Arc, Arc<[T]>) and all sizes, alignments, lengths and capacities, a successful cast yields a container with the same data pointer whose drop hands the allocator exactly the (size, align) the original would have, and a failed cast returns the input unchanged; for every history of clone/downgrade/upgrade/cast/drop over the handles of one Rc/Arc allocation the block is freed exactly once and exactly when the last handle goes. The model is tied to the code by correspondence: the real crate runs on the type grid under a recording allocator and every observation vector (decision, pointer, length, capacity, allocator events inside the call, the layout passed to dealloc versus the layout allocated, leaks, counts) is compared with the extracted model and checked by the monitor.",
   note="Trusted: Coq kernel; extraction + OCaml driver; harness and its recording allocator; Model/Alloc.v is hand-written (correspondence is the only tie); std's Box/Vec/Rc/Arc layouts and reference counting are modelled, not verified; Arc atomics assumed linearisable (partial: no model here exhibits a weak-memory execution).",
   ref="5/C09"),
 "C10": dict(
   technique="Coq theorems (unbounded) over the hand-written ladders of Model/Alloc.v: Ok iff equal alignment and exactly convertible byte length (and byte capacity for Vec), truthful error, same address, preserved byte length/capacity; ledger correspondence",
   text="Proof: for every container kind and all sizes, alignments, lengths and capacities the cast returns Ok iff the alignments are equal and the byte length (for Vec also the byte capacity) converts exactly (a zero-sized target only for zero bytes), otherwise an error whose named condition really failed, with the input handed back; on success the address is unchanged and length/capacity are the byte counts divided by the new element size; a cast does not touch the reference counts. Tie: correspondence run as for C09 (decision, error variant, pointer, length, capacity, bytes, strong/weak counts compared exactly).",
   note="As C09.",
   ref="5/C10"),
 "C12": dict(
   technique="Coq theorems over hand models of write_zeroes/fill_zeroes with panicking destructors (all slices, all panic positions) and of the try_zeroed family over a failing allocator; correspondence with drop-counting, panic-on-drop elements, dirty memory and injected allocation failure",
   text="Proof: fill_zeroes over any slice with the first panicking destructor at any position j leaves slots 0..=j zeroed (the panicking value's slot included), later slots untouched, runs destructors 0..=j exactly once in order and unwinds iff some destructor panicked; without drop glue every slot is zeroed; try_zeroed_slice_box/vec return the requested length (and capacity for non-zero-sized elements), refuse a layout overflow without calling the allocator and report a null allocation as Err. Tie: the real crate on memory pre-filled with 0xA5 (heap and in place), padded/over-aligned/zero-sized types, lengths incl. the overflow boundaries, every panic position, injected (and genuine) allocation failure; every byte including padding checked for zero; vectors compared with the extracted model and the monitor.",
   note="Hand models (correspondence is the tie). By-value Zeroable::zeroed() of a padded type: padding of a moved value is not guaranteed by the language; padding is checked for in-place and heap APIs only.",
   ref="5/C12"),
 "C13": dict(
   technique="Coq theorems (thin) over a pointer-with-metadata model of the wrapper conversions; correspondence over all twenty methods incl. unsized inners (slice, str, dyn Trait by dispatch), drop counters and the allocator ledger",
   text="Proof (thin by nature): each reference/slice/value conversion is the identity on (address, metadata) / bytes under its size and alignment assertions, wrap followed by peel is the identity, and the container forms do not touch reference counts; the layout identity of wrapper and inner is the trait's contract. The assurance is mostly the correspondence: all ten reference/slice methods and all ten container methods on wrappers over every grid type (with zero-sized extra fields), Drop-carrying inners (moved exactly once), [T], str and dyn Trait (vtable checked by dispatch), lengths 0..=8, spare capacities, counts and ledger.",
   note="Partial: theorems are identity functions; correspondence carries the assurance.",
   ref="5/C13"),
 "C15": dict(
   technique="Coq theorems (unbounded) over the hand-written BoxBytes model: recorded layout = the box's drop layout, drop frees iff size != 0 with that layout, conversion back iff alignment equal and size matching, failure returns the BoxBytes unchanged; ledger correspondence",
   text="Proof: box_bytes_of records exactly the (size, align) the Box would have freed and the same pointer; dropping a BoxBytes frees with that layout iff the size is non-zero; try_from_box_bytes succeeds iff the alignment equals the recorded one and the size matches (exactly / a whole number of elements, zero-sized element only for zero bytes), returns the same address and a box whose drop layout is the recorded layout, and otherwise returns the BoxBytes unchanged with a truthful error; converting there and back is the identity. Tie: every grid type as value, slice 0..=L and str, every target type, raw-parts round trip, panicking forms; pointer, reported layout, bytes, dealloc layout vs alloc layout, leaks compared exactly.",
   note="As C09.",
   ref="5/C15"),
 "C16": dict(
   technique="Coq theorems over the hand-written model of pod_collect_to_vec (ceil-division length, prefix = source bytes, zero tail) plus a refutation theorem for the zero-sized-target defect; correspondence at every alignment residue under the recording allocator",
   text="Proof: for every source byte string and every target of non-zero size the result has length ceil(bytes / size), its leading bytes are the source bytes, the rest are zero, and the count computation neither divides by zero nor overflows; for a zero-sized target the pinned code path divides by zero (C16_zst_target_refuted) - the genuine defect recorded in known_findings.json. Tie: all ordered pairs of grid types incl. zero-sized sources and targets, lengths 0..=L, every residue, catch_unwind; length, prefix, tail, alignment of the new buffer, layout of its allocation, leaks.",
   note="Hand model (correspondence is the tie). The monitor demands 'never panics' for every target incl. zero-sized ones.",
   ref="5/C16"),
 "C17": dict(
   technique="Coq theorems over the Contiguous rows and the default from_integer range test REGENERATED from the macro-expanded source on every run: every row's [MIN, MAX] is exactly the valid-value set of its type within an integer type of the same width (row-wise decision procedure proved sound, re-run on the regenerated table); correspondence with exhaustive 8/16-bit probes",
   text="Proof: for every built-in row (19 at the pinned tree; the table is re-read from the expanded source each run) the integer type has the width of Self and, among its values, MIN_VALUE..=MAX_VALUE is exactly the set of valid values of Self (bool 0..1, integers all, unsigned NonZero all but 0); from_integer returns Some exactly on [MIN_VALUE, MAX_VALUE] (the translated range test, all integers) and into_integer(from_integer v) = v; the range test is identical under every feature set. Tie: every built-in impl probed with every value of 8- and 16-bit types and MIN-1..MAX+1/0/-1/extremes of wider ones; derived enums of every integer repr (ascending, descending, shuffled; at the type's extremes; single-variant) probed the same way against hand-implemented twins that use the default methods.",
   note="Trusted: Coq kernel; nightly rustc's -Zunpretty=expanded + the table extractor (bm2coq/expand.rs); Model/LangInt.v (validity of built-in types); harness. Derived enums: the derive logic itself is modelled in C06.",
   ref="5/C17"),
 "C04": dict(
   technique="Coq theorem by induction on derivations over the impl table REGENERATED from the macro-expanded source per feature configuration: every row is sound for every instantiation (monotone language oracle + least-facts check proved sound, re-run on the regenerated table); exact correspondence of an executable trait solver over that table with rustc's trait solver on a closed type universe (census)",
   text="Proof: for each of the four feature configurations, whenever a marker follows for a ground type from the regenerated impl rows (any instantiation of the generic rows, to any nesting depth, array length or arity), the language oracle guarantees that marker's contract for the type; the proof is generic (oracle monotone in the parameters' facts, contracts are conjunctions of facts) plus a per-row computation that is re-run on the table extracted from the current source, so an added or weakened row that is not sound makes the theorem fail; the lattice is a theorem about the contracts; the unsound_ptr_pod_impl row is refuted. Tie: rustc's own answer (inherent-const-over-trait-const probe) for ~3000 (thorough ~9000) types x 7 markers per configuration - all leaves, every constructor over every leaf, two-level applications, arrays of listed/unlisted/zero length, tuples 1..9, raw/fat pointers, references, fn pointers of every ABI - compared exactly (presence AND absence) with the executable solver over the regenerated table, and every reported impl checked against the oracle by the monitor.",
   note="Trusted: Coq kernel; Model/LangOracle.v - the reading of the Rust reference/std docs (DESIGN.md section 4.1) is the specification here; nightly rustc -Zunpretty=expanded and the table extractor; that a rustc impl is a derivation from the rows (semantics of trait resolution; the census validates it on the universe); host target x86-64 only (SIMD, atomics).",
   ref="5/C04"),
 "C20": dict(
   technique="Coq theorems (unbounded): every translated casting function is independent of the feature flags (the two alignment tests agree), and the regenerated impl table under a larger feature set subsumes the one under a smaller set; real builds of feature sets, line-by-line transcript equality across feature sets, census monotonicity",
   text="Proof: is_aligned_to returns the same result under both implementations for every address and power-of-two alignment, hence every translated try_/panicking cast returns the same outcome under any two feature configurations (track_caller does not occur in any translated body); the marker-impl tables extracted from the macro-expanded source under none / alloc / alloc+align_offset+track_caller / all-stable-sound each subsume the previous one, and every row of each is sound (C04). Decided by the correspondence leg, not by a theorem (partial): 'every sound feature combination builds' - cargo check of every single feature, every pair with extern_crate_alloc, the named sets and seeded random subsets (thorough: all pairs); full castgrid transcripts under both alignment tests (and track_caller in the thorough tier) and allocgrid transcripts with and without alloc_uninit are identical line for line; for every census type the markers under the smaller set are implied by those under the larger.",
   note="Partial: buildability is a fact about rustc and the whole crate and is explored (not all 2^20 subsets), not proved. nightly_* features and unsound_ptr_pod_impl are outside the property. Trusted: as C02/C04.",
   ref="5/C20"),
 "C05": dict(
   technique="Coq theorems over a hand-written model of the derive decision for structs/unions (incl. the meaning of the emitted compile-time assertions) and of the reference's repr(C) layout: soundness w.r.t. each trait's contract, completeness w.r.t. the documented requirements, padding <-> size arithmetic for all field lists; correspondence with real rustc verdicts and layouts on a generated family",
   text="Proof: for every definition description (any number of fields, any sizes/alignments/marker facts, any merged repr, generics, unions) whatever derive(Pod/NoUninit/AnyBitPattern/Zeroable/TransparentWrapper) accepts and rustc lays out by the reference's rules meets the trait's contract (defined layout, size = sum of field sizes i.e. no padding, every field qualifying, single wrapped field with 1-aligned zero-sized Zeroable extras) - under the proviso that the type's name does not capture the padding assertion's helper type; without it the statement is refuted by a witness (the genuine defect, known_findings.json); whatever meets the documented requirements is accepted; a repr(C) struct is never smaller than the sum of its fields and equal size means every field starts where the previous ended; fully packed structs have no padding. Tie (the model is hand-written, correspondence is the only tie): a seeded family of definitions (fixed corpus first: the known shape, macro-internal names, split/reordered repr attributes, packed(N), align(N), named/tuple/unit/union, type/const/lifetime generics, 24 leaf types) x 5 derives (+ #[transparent(T)] variants), each compiled by the real rustc with the real macro; verdicts compared exactly with the model, accepted ones judged against the contract on the COMPILER's size_of, layout model compared with size_of/align_of/offset_of!.",
   note="Partial: tie is correspondence only (sampled family; ~1900 verdicts quick). Trusted: leaf facts table of the generator (consistent with the C04 census), rustc, cargo diagnostics-to-module attribution. Definitions rustc itself rejects are outside the family.",
   ref="5/C05"),
 "C19": dict(
   technique="Coq theorems (thin) over the address arithmetic of offset_of! and the repr(C) layout model (every field lies inside the struct); correspondence: both macro forms vs core::mem::offset_of! for every field of every struct of the family, and compile verdicts for Deref-reached and under-aligned packed fields",
   text="Proof (thin): with the field at base + off and its extent inside the struct, checked_sub succeeds, the sanity assertion holds and both forms return off; every field of a repr(C) layout (any packing/alignment) lies inside the struct. The two static refusals are rustc's rules. Tie: for every struct of the C05 family (named and tuple, every repr) and every field, a module evaluates bytemuck::offset_of!(T, f), offset_of!(instance, T, f) (under catch_unwind) and core::mem::offset_of!(T, f): all three must agree; modules for packed structs with a field aligned above the packing, and for fields reachable only through Deref (struct, tuple, boxed target; both forms), must fail to compile.",
   note="Partial: theorems are thin; the correspondence carries the assurance. rustc's E0793 / field-pattern rules are trusted.",
   ref="5/C19"),
}

checks = []
for p in props:
    pid = p["id"]
    if pid in CLAIMED:
        c = CLAIMED[pid]
        checks.append({
            "property_id": pid,
            "quick_cmd": "python3 tools/bmv.py check %s --tier quick" % pid,
            "thorough_cmd": "python3 tools/bmv.py check %s --tier thorough" % pid,
            "evidence_file": "evidence/%s.json" % pid,
            "replay_cmd_template": "python3 tools/bmv.py replay {path}",
            "engine": "bmv",
            "level_claimed": {"category": "proof", "text": c["text"], "design_ref": c["ref"]},
            "level_note": c["note"],
            "technique": c["technique"],
        })
na = [{"property_id": p["id"], "reason": "check not built yet in this session (planned, see DESIGN.md section 5); not a claim that the technique cannot apply"}
      for p in props if p["id"] not in CLAIMED]
m = {
 "version": 1,
 "setup_cmd": "python3 tools/bmv.py setup",
 "hooks": {"guard": "bytemuck_verif", "enable": "no source hooks are needed: harnesses use the public API, a recording allocator in the harness process, or #[path]-mount a source file of the working tree",
           "baseline_off_cmd": "cd /repo && cargo test --workspace --no-fail-fast --offline",
           "source_commits": [], "add_only": True},
 "engines": [{"name": "bmv", "path": "tools/bmv.py", "serves_properties": sorted(CLAIMED.keys()),
              "kind_free_text": "Coq 8.16 proofs over a model regenerated from the Rust source by a syn-based translator, plus extracted-model correspondence and verified spec monitors over Rust harness observations"}],
 "checks": checks,
 "not_applicable": na,
 "notes": "All checks share build trees under /verif/.cache and serialise on a lock; transcripts are cached by the content hash of /repo's sources and of the machinery.",
}
json.dump(m, open(os.path.join(VERIF, "MANIFEST.json"), "w"), indent=1)
print("claimed:", sorted(CLAIMED.keys()))
