#!/usr/bin/env python3
"""Writes MANIFEST.json from the table below (single source of truth for the claimed checks)."""
import json, os
VERIF = os.path.dirname(os.path.dirname(os.path.abspath(__file__)))
props = [json.loads(l) for l in open(os.path.join(VERIF, "properties.jsonl"))]

CLAIMED = {
 "C02": dict(
   technique="Coq theorems (unbounded) over the Gallina model regenerated from src/internal.rs + src/lib.rs by the bm2coq translator; extracted-model correspondence and Coq-verified monitor over the castgrid harness",
   text="Proof: Ok <-> (address aligned for the target /\\ byte length converts exactly), truthful error variant, and totality (no panic, no UB) are Coq theorems for all sizes, power-of-two alignments, lengths and addresses, for both implementations of the alignment test, stated on the functions the translator regenerates from the working tree on every run. The tie to the code is translation plus an exact correspondence run (real crate vs extracted model on the type grid) and a monitor, proved equivalent to the statement, evaluated on every observation of the real crate.",
   note="Trusted: Coq kernel; translator on its subset (fail-closed, cross-checked by correspondence); ExtrOcamlBasic extraction + OCaml driver; harness; Base/Prims.v reading of core primitives. Not modelled: provenance/aliasing. 'never modifies the source' is observed on the grid, and holds of the model by construction (no store primitive occurs in the generated definitions).",
   ref="5/C02"),
}

checks = []
for p in props:
    pid = p["id"]
    if pid in CLAIMED:
        c = CLAIMED[pid]
        checks.append({
            "property_id": pid,
            "quick_cmd": "python3 tools/bmv.py check %s --tier quick" % pid,
            "thorough_cmd": "python3 tools/bmv.py check %s --tier thorough" % pid,
            "evidence_file": "evidence/%s.json" % pid,
            "replay_cmd_template": "python3 tools/bmv.py replay {path}",
            "engine": "bmv",
            "level_claimed": {"category": "proof", "text": c["text"], "design_ref": c["ref"]},
            "level_note": c["note"],
            "technique": c["technique"],
        })
na = [{"property_id": p["id"], "reason": "check not built yet in this session (planned, see DESIGN.md section 5); not a claim that the technique cannot apply"}
      for p in props if p["id"] not in CLAIMED]
m = {
 "version": 1,
 "setup_cmd": "python3 tools/bmv.py setup",
 "hooks": {"guard": "bytemuck_verif", "enable": "no source hooks are needed: harnesses use the public API, a recording allocator in the harness process, or #[path]-mount a source file of the working tree",
           "baseline_off_cmd": "cd /repo && cargo test --workspace --no-fail-fast --offline",
           "source_commits": [], "add_only": True},
 "engines": [{"name": "bmv", "path": "tools/bmv.py", "serves_properties": sorted(CLAIMED.keys()),
              "kind_free_text": "Coq 8.16 proofs over a model regenerated from the Rust source by a syn-based translator, plus extracted-model correspondence and verified spec monitors over Rust harness observations"}],
 "checks": checks,
 "not_applicable": na,
 "notes": "All checks share build trees under /verif/.cache and serialise on a lock; transcripts are cached by the content hash of /repo's sources and of the machinery.",
}
json.dump(m, open(os.path.join(VERIF, "MANIFEST.json"), "w"), indent=1)
print("claimed:", sorted(CLAIMED.keys()))
