#!/usr/bin/env python3
"""bmv — runner of the bytemuck proof-based checks.

  bmv.py setup                       build translator, golden-equal model, Coq tree, oracle, harnesses
  bmv.py check <ID> [--tier quick|thorough]
  bmv.py replay <replay.json>
  bmv.py regen-golden                (maintenance) copy the regenerated model to coq/golden/Gen

Exit status of `check`: 0 = property held on everything explored; 1 = a VIOLATION line was printed.
"""
import json
import os
import sys
import time

sys.path.insert(0, os.path.dirname(os.path.abspath(__file__)))
import common as C  # noqa: E402

FAMILY = {
    "C01": "cast", "C02": "cast", "C03": "cast", "C07": "cast", "C11": "cast+alloc", "C14": "cast",
    "C20": "features", "C05": "derive", "C19": "derive", "C06": "derive", "C08": "derive", "C18": "derive", "C17": "tables:contig", "C04": "tables:census+contig",
    "C09": "alloc", "C10": "alloc", "C12": "alloc", "C13": "alloc", "C15": "alloc", "C16": "alloc",
}


def match_known(prop, case, known):
    """A known finding matches when every key of its `match` dict equals the case's value."""
    for k in known:
        if k.get("property") != prop or k.get("status") != "open":
            continue
        if all(str(case.get(f)) == str(v) for f, v in k.get("match", {}).items()):
            return k
    return None


def verdict(prop, tier, seed, t0, proof, model_status, mons, corrs, stats, extra_assumptions=None,
            level_text=None, harness_errors=None):
    """The verdict protocol of DESIGN.md §2.3.  Prints VIOLATION / KNOWN-FINDING lines, writes the
    evidence file, returns the exit status."""
    known = C.load_known()
    rc = 0
    violations = 0
    known_hits = {}
    # (S) spec monitor on the implementation's observations
    unlisted = []
    for m in mons:
        k = match_known(prop, m, known)
        if k is not None:
            known_hits[k["id"]] = k
        else:
            unlisted.append(m)
    for kid, k in sorted(known_hits.items()):
        print("KNOWN-FINDING: property=%s %s" % (prop, k["what"]))
    if unlisted:
        first = unlisted[0]
        path = C.write_replay(prop, {
            "property": prop, "leg": "spec-monitor", "case": first, "count_like_this": len(unlisted),
            "clause_violated": first.get("clause_violated"), "tree_hash": C.repo_hash()[:16], "tier": tier,
            "seed": seed, "repro": "python3 tools/bmv.py replay <this file>"})
        print("VIOLATION property=%s replay=%s" % (prop, os.path.relpath(path, C.VERIF)))
        violations += len(unlisted)
        rc = 1
    # harness could not be built / run: the tie is not shown
    if rc == 0 and harness_errors:
        path = C.write_replay(prop, {"property": prop, "leg": "correspondence", "what": "harness did not build or run",
                                     "errors": harness_errors, "tree_hash": C.repo_hash()[:16]})
        print("VIOLATION property=%s replay=%s no-failing-input-found" % (prop, os.path.relpath(path, C.VERIF)))
        violations += 1
        rc = 1
    # (P) proof leg
    if rc == 0 and not proof["ok"]:
        path = C.write_replay(prop, {
            "property": prop, "leg": "proof", "theorem_file": "coq/theories/Properties/%s.v" % prop,
            "failed_lemma": proof.get("failed_lemma"), "failed_at": proof.get("error"),
            "model_status": model_status, "searched": stats.get("evaluations", 0),
            "note": "the property's theorems no longer check against the model regenerated from the "
                    "working tree; no observed input violates the property's monitor",
            "tree_hash": C.repo_hash()[:16]})
        print("VIOLATION property=%s replay=%s no-failing-input-found" % (prop, os.path.relpath(path, C.VERIF)))
        violations += 1
        rc = 1
    # (T) correspondence: implementation vs translated model
    if rc == 0 and corrs:
        first = corrs[0]
        path = C.write_replay(prop, {
            "property": prop, "leg": "correspondence", "case": first, "count_like_this": len(corrs),
            "note": "implementation and model disagree on this input; both satisfy the property's monitor",
            "tree_hash": C.repo_hash()[:16]})
        print("VIOLATION property=%s replay=%s no-failing-input-found" % (prop, os.path.relpath(path, C.VERIF)))
        violations += len(corrs)
        rc = 1
    nth = len(proof.get("theorems", []))
    cov = {
        "obligations": max(nth, 1),
        "discharged": nth,
        "checker_cmd": "cd coq && make -j theories/Properties/%s.vo  (coqc 8.16.1, full .vo build; Print Assumptions "
                       "parsed; textual scan for Admitted/Axiom/...)" % prop,
        "trusted_base": C.TRUSTED_BASE,
        "theorems": proof.get("theorems", []),
        "print_assumptions_closed": proof.get("closed", 0),
        "axioms": proof.get("axioms", []),
        "proof_error": proof.get("error"),
        "coqchk": proof.get("coqchk", "not run in this tier"),
        "proof_wall_s": proof.get("wall_s"),
        "model": model_status,
        "evaluations": stats.get("evaluations", 0),
        "distinct_nontrivial": stats.get("distinct_nontrivial", 0),
        "rule": stats.get("rule", ""),
        "samples": stats.get("samples", []) or ["(none)"],
        "distribution": stats.get("distribution", {}),
        "monitor_violations": len(mons),
        "correspondence_mismatches": len(corrs),
        "known_findings_hit": sorted(known_hits.keys()),
        "exhaustive": False,
    }
    if not proof["ok"]:
        # nothing of this property's theorem file was accepted by the kernel on this run: the proof keys
        # are withheld (the exploration counts of the same run remain)
        del cov["discharged"]
        cov["obligations_discharged"] = 0
    ev = {"property_id": prop, "tier": tier, "seed": seed, "level": "proof", "coverage": cov,
          "assumptions": (extra_assumptions or []), "wall_s": round(time.time() - t0, 1),
          "violations": violations}
    C.write_evidence(prop, ev)
    return rc


def check(prop, tier, seed):
    t0 = time.time()
    fam = FAMILY.get(prop)
    if fam is None:
        print("unknown property %s" % prop)
        return 2
    with C.Lock():
        model_status = C.regen_model()
        proof = C.prove(prop, tier)
        # a module of the model that the property's theorems are about could not be regenerated at all
        # (the source does not parse): the theorems were checked against the committed model, not the code
        stale = [m for m in (C.gen_deps(prop) or []) if model_status.get(m, {}).get("status") in ("golden-fallback", "absent")]
        if proof["ok"] and stale:
            proof["ok"] = False
            proof["error"] = "the model module(s) %s could not be regenerated from the working tree (%s): the theorems were " \
                             "checked against the committed model only" % (", ".join(stale), "; ".join(
                                 str(model_status[m].get("reason", ""))[:200] for m in stale))
        # hand-modelled source items whose text is no longer the text the model transcribes
        import pins
        bp = pins.broken_for(prop, C.GEN)
        if proof["ok"] and bp is None:
            proof["ok"] = False
            proof["error"] = "the translator reported no pins: the hand-written models cannot be tied to the source"
        elif proof["ok"] and bp:
            proof["ok"] = False
            proof["failed_lemma"] = "hand model of " + ", ".join("%s (%s)" % (i, f) for f, i, _ in bp[:4])
            proof["error"] = "the hand-written model of this property transcribes source items whose text has changed: " + \
                "; ".join("%s in %s: %s" % (i, f, st) for f, i, st in bp[:8])
        model_status["pins"] = {"status": "checked", "summary": pins.summary(C.GEN), "broken_for_this_property": bp or []}
        mons, corrs, herr, notes = [], [], [], []
        evals, distinct, samples, dist, rules = 0, 0, [], {}, []
        if "cast" in fam:
            import fam_cast
            res = fam_cast.transcripts(tier)
            m, c, st = fam_cast.findings(res, prop)
            mons += m; corrs += c; herr += list(st["harness_errors"]); notes += st.get("notes", [])
            if res.get("oracle_error"):
                herr.append("oracle: " + res["oracle_error"])
            evals += st["evaluations"]; distinct += len(st["distinct"]); samples += st["samples"]
            dist["castgrid_by_function"] = dict(st["by_fn"]); dist["castgrid_by_outcome"] = dict(st["by_outcome"])
            dist["castgrid_transcripts_cached"] = res.get("cached", False)
            rules.append("castgrid: every ordered pair of grid types x lengths x every valid address residue mod 16 x "
                         "feature sets %s (plus real bool/char/NonZero targets, exhaustive 8/16-bit patterns, must_ compile verdicts); "
                         "one evaluation = one call of one public function on the real crate, compared with the extracted "
                         "translated model and checked by the verified monitor; distinct = distinct (function, sizes, "
                         "alignments, length, residue, bytes, outcome) tuples" % sorted(str(k) for k in res["cfgs"].keys()))
        if "alloc" in fam:
            import fam_alloc
            res = fam_alloc.transcripts(tier, seed)
            m, c, st = fam_alloc.findings(res, prop)
            mons += m; corrs += c; herr += list(st["harness_errors"]); notes += st.get("notes", [])
            evals += st["evaluations"]; distinct += len(st["distinct"]); samples += st["samples"]
            dist["allocgrid_by_function"] = dict(st["by_fn"]); dist["allocgrid_by_outcome"] = dict(st["by_outcome"])
            dist["allocgrid_transcripts_cached"] = res.get("cached", False)
            rules.append("allocgrid: every ordered pair of grid types (plus a second same-layout family) x lengths x spare "
                         "capacities x container kinds under a recording global allocator (exact layouts of every alloc/dealloc, "
                         "live-block table, injected allocation failure, panicking destructors, seeded Rc/Arc handle histories); "
                         "one evaluation = one call sequence on the real crate, its observation vector compared with the "
                         "extracted model and checked by the monitor; distinct = distinct (case, observation) pairs")
        if fam.startswith("tables"):
            import fam_tables
            which = tuple(fam.split(":")[1].split("+"))
            res = fam_tables.transcripts(tier, seed, which)
            m, c, st = fam_tables.findings(res, prop)
            mons += m; corrs += c; herr += list(st["harness_errors"]); notes += st.get("notes", [])
            evals += st["evaluations"]; distinct += len(st["distinct"]); samples += st["samples"]
            dist["tables_by_function"] = dict(st["by_fn"]); dist["tables_transcripts_cached"] = res.get("cached", False)
            rules.append("table harnesses (%s): built-in Contiguous impls probed with every value of 8/16-bit integer types and the "
                         "boundaries/extremes of wider ones, derived enums against default-method twins; trait census over the closed "
                         "type universe per feature configuration; one evaluation = one probe of the real crate compared with the "
                         "model over the REGENERATED tables and checked by the monitor; distinct = distinct transcript lines" % ", ".join(which))
        if fam == "derive" or prop in ("C17", "C13"):
            import fam_derive
            sets = fam_derive.SETS[prop]
            for which in (sets if isinstance(sets, tuple) else (sets,)):
                res = fam_derive.transcripts(tier, seed, which)
                m, c, st = fam_derive.findings(res, prop)
                mons += m; corrs += c; herr += list(st["harness_errors"]); notes += st.get("notes", [])
                evals += st["evaluations"]; distinct += len(st["distinct"]); samples += st["samples"]
                dist.setdefault("derivefam_by_line_kind", {}).update(dict(st["by_fn"]))
                dist.setdefault("derivefam", {}).update({"%s:%s" % (which, k): v for k, v in dict(st["by_outcome"]).items()})
                dist["derivefam_transcripts_cached"] = res.get("cached", False)
            rules.append("derivefam: a seeded family of type definitions (fixed corpus first), each (definition, derive) pair in its own "
                         "module; the real rustc + derive macro give the compile verdict of every pair (iterated cargo check, errors "
                         "attributed by span), a facts binary gives the compiler's layout and run-time behaviour; each observation is "
                         "compared with the hand-written model of the macro and checked against the trait contract by the monitor; "
                         "distinct = distinct observation vectors")
        if fam == "features":
            import fam_features
            m, st = fam_features.run(tier, seed)
            mons += m; herr += list(st["harness_errors"]); notes += st.get("notes", [])
            evals += st["evaluations"]; distinct += len(st["distinct"]) + st["by"].get("feature sets built", 0); samples += st["samples"]
            dist["features"] = dict(st["by"])
            rules.append("C20: cargo check of every single sound stable feature, every pair with extern_crate_alloc, the named sets and "
                         "seeded random subsets (thorough: all pairs); castgrid transcripts under feature sets compared line by line "
                         "(cfg column ignored); allocgrid transcripts with and without alloc_uninit compared; census rows of each type "
                         "under the smaller set implied by those under the larger; distinct = distinct feature sets + compared transcripts")
        stats = {"evaluations": evals, "distinct_nontrivial": distinct, "rule": " || ".join(rules), "samples": samples,
                 "distribution": dist}
        if notes:
            stats["distribution"]["notes"] = notes[:6]
        assumptions = [
            "memory is flat bytes: pointer provenance, aliasing and uninitialised-memory UB are not modelled",
            "the grid instantiates sizes 0..=32 and alignments 1..=16; the theorems are unbounded",
        ]
        if "alloc" in fam:
            assumptions.append("std's allocation layouts (Box, Vec, Rc/Arc header of two words) and reference counting are "
                               "modelled, validated by the ledger correspondence, not verified; Arc atomics assumed linearisable")
        return verdict(prop, tier, seed, t0, proof, model_status, mons, corrs, stats,
                       extra_assumptions=assumptions, harness_errors=herr)
    return 2


def setup():
    t0 = time.time()
    with C.Lock():
        C.build_translator()
        st = C.regen_model()
        C.log("model: " + ", ".join("%s=%s" % (k, v["status"]) for k, v in st.items()))
        rc, out = C.coq_make([])
        if rc != 0:
            print(out[-4000:])
            print("setup: Coq build failed")
            return 1
        exe, err = C.build_oracle()
        if exe is None:
            print("setup: oracle failed: %s" % err)
            return 1
        import fam_cast
        r = fam_cast.transcripts("quick")
        for cfg, e in r["cfgs"].items():
            if "build_error" in e:
                print("setup: castgrid cfg=%s failed to build:\n%s" % (cfg, e["build_error"]))
                return 1
    C.log("setup done in %.0fs" % (time.time() - t0))
    return 0


def regen_golden():
    import shutil
    with C.Lock():
        st = C.regen_model()
        os.makedirs(C.GOLDEN, exist_ok=True)
        for mod, info in st.items():
            if info["status"] == "regenerated":
                shutil.copy(os.path.join(C.GEN, mod + ".v"), os.path.join(C.GOLDEN, mod + ".v"))
                print("golden <- %s" % mod)
            else:
                print("not regenerated: %s (%s)" % (mod, info.get("reason")))
    return 0


def replay(path):
    with open(path) as f:
        r = json.load(f)
    print(json.dumps(r, indent=1))
    prop = r["property"]
    print("re-running the quick check of %s against the current tree ..." % prop)
    return check(prop, r.get("tier", "quick"), r.get("seed", 1))


def main(argv):
    if len(argv) < 2:
        print(__doc__)
        return 2
    cmd = argv[1]
    if cmd == "setup":
        return setup()
    if cmd == "regen-golden":
        return regen_golden()
    if cmd == "replay":
        return replay(argv[2])
    if cmd == "check":
        prop = argv[2]
        tier = os.environ.get("VERIF_TIER", "quick")
        if "--tier" in argv:
            tier = argv[argv.index("--tier") + 1]
        seed = int(os.environ.get("VERIF_SEED", "1"))
        return check(prop, tier, seed)
    print(__doc__)
    return 2


if __name__ == "__main__":
    sys.exit(main(sys.argv))
