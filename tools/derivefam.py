"""derivefam — generated families of type definitions compiled by the real rustc with the real
derive macros.  Each definition lives in its own module; one `cargo check --message-format=json`
run reports every failing module (by the line spans of its diagnostics); failing modules are
removed and the rest recompiled until the crate builds (macro errors hide type errors), which
gives the compile VERDICT of every (definition, derive) pair; a final binary prints run-time facts
(sizes, alignments, offsets, validity sweeps) for the accepted ones and for the derive-free twin
of every definition (the compiler's ground-truth layout)."""
import json
import os
import random
import re
import shutil
import subprocess
import time

from common import CACHE, REPO, VERIF, log, sh

# leaf field types: (rust, size, align, pod, zeroable, nouninit, anybits, copy)
LEAVES = [
    ("u8", 1, 1, 1, 1, 1, 1, 1), ("i16", 2, 2, 1, 1, 1, 1, 1), ("u32", 4, 4, 1, 1, 1, 1, 1), ("u64", 8, 8, 1, 1, 1, 1, 1),
    ("u128", 16, 16, 1, 1, 1, 1, 1), ("f32", 4, 4, 1, 1, 1, 1, 1), ("[u8; 3]", 3, 1, 1, 1, 1, 1, 1), ("[u16; 2]", 4, 2, 1, 1, 1, 1, 1),
    ("()", 0, 1, 1, 1, 1, 1, 1), ("core::marker::PhantomData<u8>", 0, 1, 1, 1, 1, 1, 1), ("[u32; 0]", 0, 4, 1, 1, 1, 1, 1),
    ("bool", 1, 1, 0, 1, 1, 0, 1), ("char", 4, 4, 0, 1, 1, 0, 1), ("core::num::NonZeroU8", 1, 1, 0, 0, 1, 0, 1),
    ("Option<core::num::NonZeroU32>", 4, 4, 1, 1, 1, 1, 1), ("*const u8", 8, 8, 0, 1, 0, 0, 1), ("&'static u8", 8, 8, 0, 0, 0, 0, 1),
    ("core::mem::MaybeUninit<u8>", 1, 1, 0, 1, 0, 1, 1), ("(u8, u16)", 4, 2, 0, 1, 0, 0, 1), ("core::num::Wrapping<u16>", 2, 2, 1, 1, 1, 1, 1),
    ("super::Over16", 16, 16, 1, 1, 1, 1, 1), ("super::Pad", 8, 4, 0, 1, 0, 0, 1), ("super::NotAnything", 1, 1, 0, 0, 0, 0, 1),
    ("super::Zst16", 0, 16, 1, 1, 1, 1, 1),
]
PRELUDE = '''#![allow(unused, dead_code, non_camel_case_types, non_snake_case, clippy::all)]
#[derive(Clone, Copy)] #[repr(C, align(16))] pub struct Over16(pub [u8; 16]);
unsafe impl bytemuck::Zeroable for Over16 {} unsafe impl bytemuck::Pod for Over16 {}
#[derive(Clone, Copy)] #[repr(C)] pub struct Pad(pub u8, pub u32);
unsafe impl bytemuck::Zeroable for Pad {}
#[derive(Clone, Copy)] pub struct NotAnything(pub u8);
pub struct Tok<T>(core::marker::PhantomData<T>);   // a zero-sized token type that is NOT Zeroable
impl<T> Clone for Tok<T> { fn clone(&self) -> Self { *self } } impl<T> Copy for Tok<T> {}
#[derive(Clone, Copy)] #[repr(C, align(16))] pub struct Zst16;
unsafe impl bytemuck::Zeroable for Zst16 {} unsafe impl bytemuck::Pod for Zst16 {}
'''
NAMES = ["Plain", "TypeWithoutPadding", "AssertWrappedIsWrapped", "check", "assert_impl", "assert_zeroable", "T", "Z"]
REPRS = [   # (attribute lists, C, transparent, packed, align)
    ([], 0, 0, 0, 0), ([["C"]], 1, 0, 0, 0), ([["transparent"]], 0, 1, 0, 0), ([["packed"]], 0, 0, 1, 0), ([["packed(2)"]], 0, 0, 2, 0),
    ([["C", "packed"]], 1, 0, 1, 0), ([["C", "packed(2)"]], 1, 0, 2, 0), ([["C", "packed(4)"]], 1, 0, 4, 0), ([["C"], ["packed(2)"]], 1, 0, 2, 0),
    ([["packed"], ["C"]], 1, 0, 1, 0), ([["C", "align(8)"]], 1, 0, 0, 8), ([["C"], ["align(2)"]], 1, 0, 0, 2), ([["align(16)", "C"]], 1, 0, 0, 16),
    ([["align(2)"], ["C"], ["align(8)"]], 1, 0, 0, 8), ([["align(4)"]], 0, 0, 0, 4),
]
DERIVES = ["Pod", "NoUninit", "AnyBitPattern", "Zeroable", "TransparentWrapper"]


def struct_family(tier, seed):
    rnd = random.Random(seed * 7919 + 13)
    n = 260 if tier == "quick" else 1500
    defs = []
    # a fixed corpus first: the known-finding shape, the documented compile_fail cases, edge reprs
    corpus = [
        dict(kind=0, name=1, repr=1, fields=[0, 1], gen=0),            # TypeWithoutPadding {u8, i16} repr(C): padded
        dict(kind=0, name=0, repr=1, fields=[0, 1], gen=0),            # same, plain name
        dict(kind=0, name=0, repr=1, fields=[2, 5], gen=0), dict(kind=0, name=0, repr=6, fields=[0, 1], gen=0),
        dict(kind=0, name=0, repr=6, fields=[0, 2], gen=0), dict(kind=0, name=0, repr=5, fields=[0, 2], gen=0),
        dict(kind=1, name=0, repr=2, fields=[2], gen=0), dict(kind=1, name=0, repr=2, fields=[2, 8], gen=0),
        dict(kind=1, name=0, repr=2, fields=[2, 23], gen=0), dict(kind=1, name=2, repr=2, fields=[2, 9], gen=0),
        dict(kind=0, name=0, repr=1, fields=[11, 0], gen=0), dict(kind=0, name=0, repr=0, fields=[0, 0], gen=0),
        dict(kind=2, name=0, repr=1, fields=[], gen=0), dict(kind=3, name=0, repr=1, fields=[0, 2], gen=0),
        dict(kind=3, name=0, repr=0, fields=[11, 22], gen=0), dict(kind=0, name=0, repr=10, fields=[2, 2], gen=0),
        dict(kind=0, name=0, repr=10, fields=[3], gen=0), dict(kind=0, name=0, repr=1, fields=[2], gen=1),
        dict(kind=1, name=0, repr=2, fields=[], gen=1), dict(kind=0, name=0, repr=5, fields=[0], gen=1),
        dict(kind=0, name=6, repr=1, fields=[2, 2], gen=0), dict(kind=0, name=7, repr=2, fields=[2, 8], gen=0),
        dict(kind=0, name=0, repr=1, fields=[20, 0], gen=0), dict(kind=0, name=1, repr=1, fields=[20, 0], gen=0),
        dict(kind=0, name=1, repr=6, fields=[0, 2], gen=0), dict(kind=0, name=0, repr=1, fields=[14, 2], gen=0),
        dict(kind=0, name=0, repr=2, fields=[2], gen=4), dict(kind=1, name=0, repr=2, fields=[3], gen=5),
        dict(kind=1, name=0, repr=2, fields=[2, 9], gen=4), dict(kind=0, name=0, repr=2, fields=[], gen=4),
    ]
    for c in corpus:
        defs.append(c)
    while len(defs) < n:
        kind = rnd.choice([0, 0, 0, 1, 1, 2, 3])
        nf = 0 if kind == 2 else rnd.randint(1 if kind == 3 else 0, 4)
        fields = [rnd.randrange(len(LEAVES)) if rnd.random() < 0.45 else rnd.choice([0, 1, 2, 3, 5, 6, 7, 8, 9, 19]) for _ in range(nf)]
        name = rnd.randrange(len(NAMES)) if rnd.random() < 0.2 else 0
        repr_ = rnd.randrange(len(REPRS))
        gen = rnd.choice([0, 0, 0, 0, 0, 0, 1, 2, 3, 4, 5])
        defs.append(dict(kind=kind, name=name, repr=repr_, fields=fields, gen=gen))
    return defs


def render_struct(d, idx, derive, tw_attr=None, alias=False):
    """Rust text of the definition; derive None = the derive-free twin.  alias: every field type is spelled
    through a one-identifier type alias W<k> (the #[transparent(..)] attribute only takes an identifier)."""
    name = NAMES[d["name"]] if d["name"] else "S"
    attrs, _, _, _, _ = REPRS[d["repr"]]
    lines = []
    ders = ["Clone", "Copy"]
    extra = ""
    if derive == "Pod":
        ders += ["bytemuck::Pod", "bytemuck::Zeroable"]
    elif derive is not None:
        ders += ["bytemuck::" + derive]
    lines.append("#[derive(%s)]" % ", ".join(ders))
    for a in attrs:
        lines.append("#[repr(%s)]" % ", ".join(a))
    if derive == "TransparentWrapper" and tw_attr is not None:
        lines.append("#[transparent(%s)]" % tw_attr)
    gen = {0: "", 1: "<G>", 2: "<const N: usize>", 3: "<'a>", 4: "<G>", 5: "<G>"}[d["gen"]]
    ftys = [LEAVES[f][0] for f in d["fields"]]
    if d["gen"] == 1:
        ftys = ftys + ["G"]
    elif d["gen"] == 2:
        ftys = ftys + ["[u8; N]"]
    elif d["gen"] == 3:
        ftys = ftys + ["core::marker::PhantomData<&'a u8>"]
    elif d["gen"] == 4:
        ftys = ftys + ["super::Tok<G>"]
    elif d["gen"] == 5:
        ftys = ftys + ["core::marker::PhantomData<G>"]
    kw = "union" if d["kind"] == 3 else "struct"
    if d["kind"] == 2 and not ftys:
        body = ";"
    elif d["kind"] == 1:
        body = "(%s);" % ", ".join("pub " + t for t in ftys)
    else:
        body = " { %s }" % ", ".join("pub f%d: %s" % (i, t) for i, t in enumerate(ftys))
    if alias:
        al = ["type W%d = %s;" % (k, t) for k, t in enumerate(ftys)]
        wt = ["W%d" % k for k in range(len(ftys))]
        if d["kind"] == 1:
            body = "(%s);" % ", ".join("pub " + t for t in wt)
        elif not (d["kind"] == 2 and not ftys):
            body = " { %s }" % ", ".join("pub f%d: %s" % (i, t) for i, t in enumerate(wt))
        lines = al + lines
    lines.append("pub %s %s%s%s" % (kw, name, gen, body))
    return "\n".join(lines), name, ftys


# ----------------------------------------------------------------------------- verdict engine
CARGO_TOML = '''[package]
name = "derivefam"
version = "0.1.0"
edition = "2021"

[workspace]

[dependencies]
bytemuck = { path = "/repo", features = ["derive", "extern_crate_alloc", "min_const_generics", "zeroable_maybe_uninit"] }

[profile.dev]
opt-level = 0
debug = 0
incremental = false
debug-assertions = false
'''


SHARD = 900          # modules per generated crate: rustc's memory and time grow faster than linearly
SHARDS_IN_PARALLEL = 4


def compile_verdicts(name, prelude, modules, max_rounds=8):
    """modules: list of (modname, rust text of the module body incl. `pub fn facts() -> String`).
    Returns (verdicts {modname: None | first error text}, facts {modname: str}, error or None).
    Large families are split over several crates (same prelude), a few built at a time."""
    if len(modules) <= SHARD:
        return _compile_verdicts_one(name, prelude, modules, max_rounds)
    from concurrent.futures import ThreadPoolExecutor
    chunks = [modules[k:k + SHARD] for k in range(0, len(modules), SHARD)]
    with ThreadPoolExecutor(max_workers=SHARDS_IN_PARALLEL) as ex:
        results = list(ex.map(lambda kc: _compile_verdicts_one("%s-p%d" % (name, kc[0]), prelude, kc[1], max_rounds), enumerate(chunks)))
    verdicts, facts = {}, {}
    for k, (v, f, err) in enumerate(results):
        if err:
            return verdicts, facts, "shard %d of %d: %s" % (k, len(chunks), err)
        verdicts.update(v)
        facts.update(f)
    return verdicts, facts, None


def _compile_verdicts_one(name, prelude, modules, max_rounds=8):
    d = os.path.join(CACHE, "derivefam-" + name)
    os.makedirs(os.path.join(d, "src"), exist_ok=True)
    with open(os.path.join(d, "Cargo.toml"), "w") as f:
        f.write(CARGO_TOML)
    shutil.copy(os.path.join(REPO, "Cargo.lock"), os.path.join(d, "Cargo.lock"))
    target = os.path.join(CACHE, "target-derivefam-" + name)
    active = [m for m, _ in modules]
    text = dict(modules)
    verdicts = {}
    t0 = time.time()
    for rnd in range(max_rounds):
        lines = prelude.rstrip("\n").split("\n")
        ranges = []
        for m in active:
            body = text[m].rstrip("\n").split("\n")
            start = len(lines) + 1
            lines.append("pub mod %s { use super::*;" % m)
            lines += body
            lines.append("}")
            ranges.append((start, len(lines), m))
        lines.append("pub fn all_facts() -> Vec<(&'static str, String)> { vec![")
        lines += ['  ("%s", std::panic::catch_unwind(|| %s::facts()).unwrap_or_else(|_| String::from("PANICKED"))),' % (m, m) for m in active]
        lines.append("] }")
        with open(os.path.join(d, "src", "lib.rs"), "w") as f:
            f.write("\n".join(lines) + "\n")
        with open(os.path.join(d, "src", "main.rs"), "w") as f:
            f.write('fn main() { std::panic::set_hook(Box::new(|_| {})); for (m, s) in derivefam::all_facts() { println!("{} {}", m, s); } }\n')
        rc, out = sh(["cargo", "check", "--offline", "--lib", "--message-format=json"], cwd=d,
                     env={"CARGO_TARGET_DIR": target}, timeout=1800)
        failing = {}
        unattributed = []
        for line in out.split("\n"):
            if not line.startswith("{"):
                continue
            try:
                j = json.loads(line)
            except ValueError:
                continue
            if j.get("reason") != "compiler-message":
                continue
            msg = j["message"]
            if msg.get("level") != "error":
                continue
            code = (msg.get("code") or {}).get("code") or "macro"
            hit = None

            def spans_of(sp):
                out_ = [sp]
                e = sp.get("expansion")
                while e:
                    out_.append(e["span"])
                    e = e["span"].get("expansion")
                return out_
            for sp in msg.get("spans", []):
                for s2 in spans_of(sp):
                    if s2.get("file_name", "").endswith("src/lib.rs"):
                        ln = s2["line_start"]
                        for (a, b, m) in ranges:
                            if a <= ln <= b:
                                hit = m
                                break
                    if hit:
                        break
                if hit:
                    break
            if hit:
                failing.setdefault(hit, "%s: %s" % (code, msg.get("message", "")[:160]))
            elif "aborting due to" not in msg.get("message", ""):
                unattributed.append("%s: %s" % (code, msg.get("message", "")[:200]))
        if not failing:
            if rc != 0:
                return verdicts, {}, "crate does not build and no error is attributable to a module: %s" % (unattributed[:3] or out[-600:])
            break
        for m, e in failing.items():
            verdicts[m] = e
        active = [m for m in active if m not in failing]
    else:
        return verdicts, {}, "verdict rounds did not converge"
    for m in active:
        verdicts[m] = None
    rc, out = sh(["cargo", "run", "--offline", "-q"], cwd=d, env={"CARGO_TARGET_DIR": target}, timeout=1800)
    facts = {}
    if rc != 0:
        return verdicts, facts, "facts binary failed: " + out[-800:]
    for line in out.split("\n"):
        sp = line.split(" ", 1)
        if len(sp) == 2 and sp[0] in text:
            facts[sp[0]] = sp[1]
    log("derivefam %s: %d modules, %d accepted, %.1fs" % (name, len(modules), len(active), time.time() - t0))
    return verdicts, facts, None


def struct_modules(defs):
    mods = []
    for i, d in enumerate(defs):
        txt, name, ftys = render_struct(d, i, None)
        inst = {0: name, 1: name + "<u32>", 2: name + "<3>", 3: name + "<'static>", 4: name + "<u32>", 5: name + "<u32>"}[d["gen"]]
        offs = []
        if d["kind"] in (0, 1):
            for k in range(len(ftys)):
                fname = ("f%d" % k) if d["kind"] == 0 else str(k)
                offs.append("core::mem::offset_of!(%s, %s)" % (inst, fname))
        def conc(t):
            if t == "G":
                return "u32"
            return t.replace("<G>", "<u32>").replace("[u8; N]", "[u8; 3]").replace("'a", "'static")
        fsz = ["core::mem::size_of::<%s>()" % conc(t) for t in ftys]
        body = txt + "\npub fn facts() -> String { let o: Vec<usize> = vec![%s]; let s: Vec<usize> = vec![%s]; format!(\"{} {} {:?} {:?}\", core::mem::size_of::<%s>(), core::mem::align_of::<%s>(), o, s) }" % (
            ", ".join(offs), ", ".join(fsz), inst, inst)
        mods.append(("s%d_plain" % i, body))
        for der in DERIVES:
            if der == "TransparentWrapper":
                variants = [("", None)]
                if len(ftys) >= 2:
                    variants.append(("a0", ftys[0]))
                    variants.append(("a1", ftys[1]))
                    if d["gen"] == 0:
                        # the attribute naming each field in turn through an identifier alias (zero-sized ones included)
                        variants.append(("b0", "W0"))
                        variants.append(("b1", "W1"))
                for tag, attr in variants:
                    t2, _, _ = render_struct(d, i, der, attr, alias=tag.startswith("b"))
                    mods.append(("s%d_%s%s" % (i, der, tag), t2 + "\npub fn facts() -> String { String::from(\"ok\") }"))
            else:
                t2, _, _ = render_struct(d, i, der)
                mods.append(("s%d_%s" % (i, der), t2 + "\npub fn facts() -> String { String::from(\"ok\") }"))
    return mods


# value expressions for the leaves (to build an instance for offset_of!)
LEAF_VALUES = ["1u8", "2i16", "3u32", "4u64", "5u128", "6.0f32", "[1u8, 2, 3]", "[1u16, 2]", "()", "core::marker::PhantomData", "[]",
               "true", "'x'", "core::num::NonZeroU8::new(1).unwrap()", "None", "core::ptr::null()", "&super::STATIC_U8",
               "core::mem::MaybeUninit::new(1u8)", "(1u8, 2u16)", "core::num::Wrapping(7u16)", "super::Over16([0; 16])", "super::Pad(1, 2)",
               "super::NotAnything(1)", "super::Zst16"]
PRELUDE_OFF = PRELUDE + "pub static STATIC_U8: u8 = 9;\n"

DEREF_CASES = [
    # (module name, text, field expression, must_compile)
    ("deref_outer_y", "#[derive(Default)] pub struct Inner { pub x: u32, pub y: u32 }\n#[derive(Default)] pub struct Outer { pub tag: u64, pub inner: Inner }\n"
     "impl core::ops::Deref for Outer { type Target = Inner; fn deref(&self) -> &Inner { &self.inner } }\n"
     "pub fn facts() -> String { format!(\"{}\", bytemuck::offset_of!(Outer, y)) }", 0),
    ("deref_outer_x3", "#[derive(Default)] pub struct Inner { pub x: u32, pub y: u32 }\n#[derive(Default)] pub struct Outer { pub tag: u64, pub inner: Inner }\n"
     "impl core::ops::Deref for Outer { type Target = Inner; fn deref(&self) -> &Inner { &self.inner } }\n"
     "pub fn facts() -> String { format!(\"{}\", bytemuck::offset_of!(Outer::default(), Outer, x)) }", 0),
    ("deref_tuple", "#[derive(Default)] pub struct In3(pub u8, pub u16, pub u32);\n#[derive(Default)] pub struct Sh(pub u64, pub In3);\n"
     "impl core::ops::Deref for Sh { type Target = In3; fn deref(&self) -> &In3 { &self.1 } }\n"
     "pub fn facts() -> String { format!(\"{}\", bytemuck::offset_of!(Sh, 2)) }", 0),
    ("deref_box", "#[derive(Default)] pub struct Far { pub a: u32, pub b: u32 }\n#[derive(Default)] pub struct Holder { pub p: Box<Far> }\n"
     "impl core::ops::Deref for Holder { type Target = Far; fn deref(&self) -> &Far { &self.p } }\n"
     "pub fn facts() -> String { format!(\"{}\", bytemuck::offset_of!(Holder, b)) }", 0),
]


# offset_of! at a generic call site, evaluated for one instantiation and then for another in the same process: the
# value reported is that of the SECOND instantiation (anything the expansion keeps between evaluations would show)
RUST_TUPLE_CASES = [
    # (module, definition, type, field, alignment of the field): default-repr tuple structs, whose fields the compiler reorders
    ("rtup_pair0", "#[derive(Default)] pub struct RP(pub u8, pub u32);", "RP", "0", 1),
    ("rtup_pair1", "#[derive(Default)] pub struct RP(pub u8, pub u32);", "RP", "1", 4),
    ("rtup_trip0", "#[derive(Default)] pub struct RT(pub u16, pub u64, pub u8);", "RT", "0", 2),
    ("rtup_trip2", "#[derive(Default)] pub struct RT(pub u16, pub u64, pub u8);", "RT", "2", 1),
    ("rtup_gen0", "#[derive(Default)] pub struct RG<T>(pub u8, pub T);", "RG::<u64>", "0", 1),
    ("rnamed_a", "#[derive(Default)] pub struct RN { pub a: u8, pub b: u64, pub c: u16 }", "RN", "a", 1),
]


# the three-argument form with an instance expression that reaches the struct through deref coercion (Box, Rc, a wrapper
# with Deref<Target = the struct>): base and field address must come from the same object
COERCED_CASES = [("coer_a", "a", 4), ("coer_b", "b", 8), ("coer_c", "c", 2)]


def coerced_module(field):
    return ("#[derive(Default)] #[repr(C)] pub struct BN { pub a: u32, pub b: u64, pub c: u16 }\n"
            "pub struct Hold { pub tag: u32, pub inner: BN }\n"
            "impl core::ops::Deref for Hold { type Target = BN; fn deref(&self) -> &BN { &self.inner } }\n"
            "pub fn facts() -> String {\n"
            "  let a = bytemuck::offset_of!(BN, F) as i64;\n"
            "  let b1 = std::panic::catch_unwind(|| { let bx: Box<BN> = Box::new(BN::default()); bytemuck::offset_of!(bx, BN, F) as i64 }).unwrap_or(-2);\n"
            "  let b2 = std::panic::catch_unwind(|| { let h = Hold { tag: 1, inner: BN::default() }; bytemuck::offset_of!(h, BN, F) as i64 }).unwrap_or(-2);\n"
            "  let b3 = std::panic::catch_unwind(|| { let r: std::rc::Rc<BN> = std::rc::Rc::new(BN::default()); bytemuck::offset_of!(r, BN, F) as i64 }).unwrap_or(-2);\n"
            "  let b = if b1 == b2 && b2 == b3 { b1 } else { -3 };\n"
            "  format!(\"{} {} {}\", a, b, core::mem::offset_of!(BN, F)) }").replace("F)", field + ")")


def rust_tuple_module(defn, ty, field):
    cty = ty.replace("::<", "<")
    return (defn + "\npub fn facts() -> String {\n"
            "  let a = bytemuck::offset_of!(%s, %s) as i64;\n"
            "  let b = bytemuck::offset_of!(<%s as Default>::default(), %s, %s) as i64;\n"
            "  format!(\"{} {} {}\", a, b, core::mem::offset_of!(%s, %s)) }" % (ty, field, ty, ty, field, cty, field))


GENERIC_OFFSET_CASES = [
    # (module, first instantiation, second instantiation, alignment of the probed field in the second)
    ("goff_u8_u64", "u8", "u64", 8), ("goff_u64_u16", "u64", "u16", 2), ("goff_u32_u8", "u32", "u8", 1), ("goff_u16_u128", "u16", "u128", 16),
]


def generic_offset_module(first, second):
    return ("#[derive(Default)] #[repr(C)] pub struct GPair<T> { pub a: u8, pub value: T }\n"
            "#[derive(Default)] pub struct GTrip<A, B>(pub A, pub u8, pub B);\n"
            "fn two<T: Default>() -> usize { bytemuck::offset_of!(GPair::<T>, value) }\n"
            "fn three<T: Default>() -> usize { bytemuck::offset_of!(GPair::<T>::default(), GPair::<T>, value) }\n"
            "fn two_t<A: Default, B: Default>() -> usize { bytemuck::offset_of!(GTrip::<A, B>, 2) }\n"
            "pub fn facts() -> String {\n"
            "  let _ = (two::<%s>(), three::<%s>(), two_t::<%s, %s>());\n"
            "  let a = two::<%s>() as i64; let b = three::<%s>() as i64; let c = core::mem::offset_of!(GPair<%s>, value) as i64;\n"
            "  let t = two_t::<%s, %s>() as i64; let tc = core::mem::offset_of!(GTrip<%s, %s>, 2) as i64;\n"
            "  // the tuple-struct probe folds into the first number: any disagreement there shows as -4\n"
            "  format!(\"{} {} {}\", if t == tc { a } else { -4 }, b, c) }"
            % (first, first, first, second, second, second, second, second, first, second, first))


def offset_modules(defs):
    """One module per (definition, field): both forms of bytemuck::offset_of! next to core::mem::offset_of!."""
    mods = []
    for i, d in enumerate(defs):
        if d["kind"] not in (0, 1) or d["gen"] != 0 or not d["fields"]:
            continue
        txt, name, ftys = render_struct(d, i, None)
        txt = txt.replace("#[derive(Clone, Copy)]", "")   # not Copy: the macro must not move out of its instance argument
        vals = [LEAF_VALUES[f] for f in d["fields"]]
        if d["kind"] == 0:
            inst = "%s { %s }" % (name, ", ".join("f%d: %s" % (k, v) for k, v in enumerate(vals)))
        else:
            inst = "%s(%s)" % (name, ", ".join(vals))
        dflt = "impl Default for %s { fn default() -> Self { %s } }" % (name, inst)
        for k in range(len(ftys)):
            fname = ("f%d" % k) if d["kind"] == 0 else str(k)
            body = (txt + "\n" + dflt + "\npub fn facts() -> String {\n"
                    "  let a = std::panic::catch_unwind(|| bytemuck::offset_of!(%s, %s) as i64).unwrap_or(-2);\n"
                    "  let b = std::panic::catch_unwind(|| { let x = bytemuck::offset_of!(<%s as Default>::default(), %s, %s) as i64;\n"
                    "    // the three-argument form borrows its instance: a named instance is usable again, also through a reference\n"
                    "    let inst = <%s as Default>::default(); let r = &inst;\n"
                    "    let y = bytemuck::offset_of!(inst, %s, %s) as i64; let z = bytemuck::offset_of!(*r, %s, %s) as i64; let w = bytemuck::offset_of!(inst, %s, %s) as i64;\n"
                    "    if x == y && y == z && z == w { x } else { -3 } }).unwrap_or(-2);\n"
                    "  format!(\"{} {} {}\", a, b, core::mem::offset_of!(%s, %s)) }" % (name, fname, name, name, fname, name, name, fname, name, fname, name, fname, name, fname))
            mods.append(("s%d_off%d" % (i, k), body))
    for (m, text, must) in DEREF_CASES:
        mods.append((m, text))
    for (m, first, second, _) in GENERIC_OFFSET_CASES:
        mods.append((m, generic_offset_module(first, second)))
    for (m, defn, ty, field, _) in RUST_TUPLE_CASES:
        mods.append((m, rust_tuple_module(defn, ty, field)))
    for (m, field, _) in COERCED_CASES:
        mods.append((m, coerced_module(field)))
    return mods


MASK = {"pod": 1, "zer": 2, "nou": 4, "any": 8}


def field_descr(d, wrapped_ty=None):
    out = []
    for f in d["fields"]:
        rust, size, align, pod, zer, nou, anyb, cp = LEAVES[f]
        m = pod * 1 + zer * 2 + nou * 4 + anyb * 8
        out.append([rust, size, align, m])
    if d["gen"] == 1:
        out.append(["G", 4, 4, 16])
    elif d["gen"] == 2:
        out.append(["[u8; N]", 3, 1, 15])
    elif d["gen"] == 3:
        out.append(["core::marker::PhantomData<&'a u8>", 0, 1, 15 + 32])
    elif d["gen"] == 4:
        out.append(["super::Tok<G>", 0, 1, 0])
    elif d["gen"] == 5:
        out.append(["core::marker::PhantomData<G>", 0, 1, 15])
    return out


def struct_lines(defs, verdicts, facts):
    """Transcript lines 501 / 502 / 503 / 504 from the compile verdicts and the facts binary."""
    lines = []
    skipped = 0
    for i, d in enumerate(defs):
        pm = "s%d_plain" % i
        if verdicts.get(pm, "x") is not None or pm not in facts:
            skipped += 1
            continue   # rustc rejects the definition itself: outside the family
        fw = facts[pm].split(" ", 2)
        size_obs, align_obs = int(fw[0]), int(fw[1])
        m = re.match(r"\[(.*?)\] \[(.*?)\]", fw[2])
        offs = [int(x) for x in m.group(1).split(",") if x.strip()] if m else []
        fsz = [int(x) for x in m.group(2).split(",") if x.strip()] if m else []
        attrs, C, tr, packed, align = REPRS[d["repr"]]
        fd = field_descr(d)
        # generic instantiations change the sizes of the extra field: use the compiler's
        for k, sz in enumerate(fsz):
            if k < len(fd):
                fd[k][1] = sz
        capture = 1 if NAMES[d["name"]] == "TypeWithoutPadding" else 0
        for di, der in enumerate(DERIVES):
            variants = [("", None)]
            if der == "TransparentWrapper" and len(fd) >= 2:
                variants += [("a0", fd[0][0]), ("a1", fd[1][0]), ("b0", 0), ("b1", 1)]
            for tag, attr in variants:
                mod = "s%d_%s%s" % (i, der, tag)
                if mod not in verdicts:
                    continue
                obs = 1 if verdicts[mod] is None else 0
                wrapped = attr if attr is not None else (fd[0][0] if len(fd) == 1 else None)
                v = [obs, di, d["kind"], C, tr, packed, align, 1 if d["gen"] else 0, capture, 1 if attr is not None else 0, size_obs, len(fd)]
                for fk, (rust, sz, al, mask) in enumerate(fd):
                    is_w = (fk == wrapped) if isinstance(wrapped, int) else (wrapped is not None and rust == wrapped)
                    v += [sz, al, mask + (64 if (der == "TransparentWrapper" and is_w) else 0)]
                lines.append("501 0 0 0 0 0 0 0 %d - ; V %s ; %s ; 3" % (i, " ".join(str(x) for x in v), mod))
        if (C or tr) and d["kind"] in (0, 1, 2) and not tr and len(offs) == len(fd):
            v = [C, tr, packed, align, size_obs, align_obs, len(fd)]
            for (rust, sz, al, mask), o in zip(fd, offs):
                v += [sz, al, o]
            lines.append("502 0 0 0 0 0 0 0 %d - ; V %s ; %s ; 3" % (i, " ".join(str(x) for x in v), pm))
        if d["kind"] in (0, 1) and d["gen"] == 0:
            for k in range(len(d["fields"])):
                mod = "s%d_off%d" % (i, k)
                if mod not in verdicts:
                    continue
                falign = LEAVES[d["fields"][k]][2]
                if verdicts[mod] is None and mod in facts:
                    a, b, c = [int(x) for x in facts[mod].split()]
                    v = [1, packed, falign, a, b, c]
                else:
                    v = [0, packed, falign, -1, -1, offs[k] if k < len(offs) else -1]
                lines.append("503 0 0 0 0 0 0 0 %d - ; V %s ; %s ; 3" % (i, " ".join(str(x) for x in v), mod))
    for (m, text, must) in DEREF_CASES:
        if m in verdicts:
            lines.append("504 0 0 0 0 0 0 0 0 - ; V %d ; %s ; 3" % (1 if verdicts[m] is None else 0, m))
    for (m, first, second, falign) in GENERIC_OFFSET_CASES:
        if m in verdicts:
            if verdicts[m] is None and m in facts:
                a, b, c = [int(x) for x in facts[m].split()]
                v = [1, 0, falign, a, b, c]
            else:
                v = [0, 0, falign, -1, -1, falign]
            lines.append("503 0 0 0 0 0 0 0 0 - ; V %s ; %s ; 3" % (" ".join(str(x) for x in v), m))
    for (m, defn, ty, field, falign) in RUST_TUPLE_CASES + [(m0, None, None, f0, al0) for (m0, f0, al0) in COERCED_CASES]:
        if m in verdicts:
            if verdicts[m] is None and m in facts:
                a, b, c = [int(x) for x in facts[m].split()]
                v = [1, 0, falign, a, b, c]
            else:
                v = [0, 0, falign, -1, -1, falign]
            lines.append("503 0 0 0 0 0 0 0 0 - ; V %s ; %s ; 3" % (" ".join(str(x) for x in v), m))
    return lines, skipped


# ----------------------------------------------------------------------------- enum family (C06)
INT_TYPES = {"u8": (8, 0), "i8": (8, 1), "u16": (16, 0), "i16": (16, 1), "u32": (32, 0), "i32": (32, 1), "u64": (64, 0), "i64": (64, 1),
             "usize": (64, 0), "isize": (64, 1), "u128": (128, 0), "i128": (128, 1)}
ENUM_DERIVES = ["Contiguous", "CheckedBitPattern", "Zeroable", "NoUninit"]


def int_bounds(t):
    bits, signed = INT_TYPES[t]
    return (-(1 << (bits - 1)), (1 << (bits - 1)) - 1) if signed else (0, (1 << bits) - 1)


def literal(rnd, v, ty, allow_suffix=True, form=None):
    """A Rust literal expression denoting v, in a randomly chosen syntactic form."""
    neg = v < 0
    a = -v if neg else v
    signed = ty.startswith("i")
    if form == "dneg" or (form is None and signed and rnd.random() < 0.12):
        # two extra negations (`- -5`, `- - -5`): the derive's expression evaluator recurses through each
        inner = literal(rnd, v, ty, allow_suffix=False, form="dec")
        return "- -" + inner if signed else inner
    forms = ["dec", "hex", "oct", "bin", "und"]
    if allow_suffix:
        forms.append("suf")
    if ty == "u8" and 32 < a < 127 and not neg and chr(a) not in "'\\":
        forms.append("byte")
    f = form if form in forms else rnd.choice(forms)
    if f == "dec":
        s = str(a)
    elif f == "hex":
        s = "0x%X" % a
    elif f == "oct":
        s = "0o%o" % a
    elif f == "bin":
        s = "0b" + bin(a)[2:]
    elif f == "und":
        d = str(a)
        s = d[0] + "_" + d[1:] if len(d) > 1 else d + "_"
    elif f == "suf":
        s = "%d%s" % (a, ty)
    else:
        s = "b'%s'" % chr(a)
    return ("-" + s) if neg else s


def enum_family(tier, seed):
    rnd = random.Random(seed * 104729 + 7)
    n = 180 if tier == "quick" else 1200
    defs = []
    reprs = [(k, t) for k in ("int",) for t in INT_TYPES] * 3 + [("C", None), ("none", None)] + [("Cint", t) for t in ("u8", "i16", "u32", "i64")]
    # corpus: the shapes the seeded changes of this kind need
    corpus = [
        ("int", "i8", [(None, 0), (None, 1), (None, 2)]), ("int", "i16", [("e", 0), (None, 1), ("e", 2)]),
        ("int", "u8", [("e", 1), ("e", 9), ("e", 3)]), ("int", "u8", [("e", 3), ("e", 2), ("e", 1)]),
        ("int", "i16", [("e", 1), (None, 2), ("e", -1), (None, 0)]), ("int", "u8", [("e", 5), (None, 6), (None, 7)]),
        ("int", "u8", [("e", 7)]), ("int", "i32", [("e", -10), (None, -9), (None, -8)]), ("int", "u8", [("e", 1), ("e", 2)]),
        ("C", None, [(None, 0), (None, 1)]), ("none", None, [(None, 0), (None, 1)]), ("Cint", "u8", [("e", 0), ("e", 2)]),
        ("int", "u16", [("e", 65535), ("e", 65534)]), ("int", "i8", [("e", -128), (None, -127)]), ("int", "u8", [("e", 254), (None, 255)]),
        ("int", "u64", [("e", 0), ("e", 1 << 40)]), ("int", "i128", [("e", -1), (None, 0), (None, 1)]),
        # doubly negated discriminants, with implicit ones after them
        ("int", "i8", [("dneg", 1), (None, 2)]), ("int", "i16", [("e", -3), ("dneg", 5), (None, 6)]),
        ("int", "i32", [("dneg", -2), (None, -1), (None, 0)]), ("int", "i64", [("dneg", 0), (None, 1)]),
    ]
    for (k, t, vs) in corpus:
        defs.append(dict(rk=k, ty=t, variants=[dict(explicit=(e is not None), value=v, fields=[], **({"form": e} if e == "dneg" else {})) for (e, v) in vs]))
    while len(defs) < n:
        rk, ty = rnd.choice(reprs)
        dty = ty or "isize"
        lo, hi = int_bounds(dty)
        if dty in ("u128", "i128"):
            lo, hi = max(lo, -(1 << 100)), min(hi, 1 << 100)
        nv = rnd.randint(1, 6)
        base = rnd.choice([0, 0, 1, lo, hi - nv * 4, rnd.randint(max(lo, -50), min(hi - 30, 50))])
        base = max(lo, min(base, hi - nv * 4))
        vals = []
        cur = base
        for _ in range(nv):
            vals.append(cur)
            cur += rnd.choice([1, 1, 1, 2, 3, 4])
        order = rnd.choice(["asc", "desc", "shuf"])
        if order == "desc":
            vals.reverse()
        elif order == "shuf":
            rnd.shuffle(vals)
        variants = []
        prev = None
        for v in vals:
            implicit_ok = (prev is None and v == 0) or (prev is not None and v == prev + 1)
            explicit = not (implicit_ok and rnd.random() < 0.6)
            fields = []
            variants.append(dict(explicit=explicit, value=v, fields=fields))
            prev = v
        if rnd.random() < 0.15 and rk != "none":
            # some enums with fields (Zeroable's zero-variant rule; the others must refuse)
            for vv in variants:
                if rnd.random() < 0.6:
                    vv["fields"] = [rnd.choice([0, 2, 11, 13, 22]) for _ in range(rnd.randint(1, 2))]
        defs.append(dict(rk=rk, ty=ty, variants=variants))
    return defs


def render_enum(d, derive, rnd):
    attrs = {"int": "#[repr(%s)]" % d["ty"], "C": "#[repr(C)]", "none": "", "Cint": "#[repr(C, %s)]" % d["ty"]}[d["rk"]]
    dty = d["ty"] or "isize"
    ders = ["Clone", "Copy"] + (["bytemuck::" + derive] if derive else [])
    vs = []
    for k, v in enumerate(d["variants"]):
        body = ""
        if v["fields"]:
            body = "(%s)" % ", ".join(LEAVES[f][0] for f in v["fields"])
        disc = (" = " + literal(rnd, v["value"], dty, form=v.get("form"))) if v["explicit"] else ""
        vs.append("V%d%s%s" % (k, body, disc))
    return "#[derive(%s)]\n%s\npub enum E { %s }" % (", ".join(ders), attrs, ", ".join(vs))


def enum_modules(defs, seed):
    mods = []
    for i, d in enumerate(defs):
        rnd = random.Random(seed * 31 + i)
        fieldless = not any(v["fields"] for v in d["variants"])
        dty = d["ty"] or "isize"
        bits, signed = INT_TYPES[dty]
        txt = render_enum(d, None, random.Random(seed * 31 + i))
        if fieldless:
            facts = "pub fn facts() -> String { let v: Vec<i128> = vec![%s]; format!(\"{:?}\", v) }" % ", ".join("E::V%d as i128" % k for k in range(len(d["variants"])))
        else:
            facts = "pub fn facts() -> String { String::from(\"F\") }"
        mods.append(("e%d_plain" % i, txt + "\n" + facts))
        for der in ENUM_DERIVES:
            t2 = render_enum(d, der, random.Random(seed * 31 + i))
            if der == "Contiguous":
                f2 = "pub fn facts() -> String { use bytemuck::Contiguous; format!(\"{} {}\", <E as Contiguous>::MIN_VALUE as i128, <E as Contiguous>::MAX_VALUE as i128) }"
            elif der == "CheckedBitPattern" and fieldless and d["rk"] == "int":
                vals = sorted(set(x for v in d["variants"] for x in (v["value"] - 1, v["value"], v["value"] + 1)) | {0, -1, 1} | set(int_bounds(dty)))
                lo, hi = int_bounds(dty)
                vals = [x for x in vals if lo <= x <= hi]
                probes = ", ".join("%d as %s" % (x, dty) if x >= 0 else "(%d) as %s" % (x, dty) for x in vals)
                exh = ("let c: i64 = (%s::MIN..=%s::MAX).filter(|b| <E as CheckedBitPattern>::is_valid_bit_pattern(b)).count() as i64;" % (dty, dty)) if bits <= 16 else "let c: i64 = -1;"
                f2 = ("pub fn facts() -> String { use bytemuck::checked::CheckedBitPattern; %s let p: Vec<%s> = vec![%s]; "
                      "let r: Vec<String> = p.iter().map(|b| format!(\"{}:{}\", *b as i128, <E as CheckedBitPattern>::is_valid_bit_pattern(b) as u8)).collect(); format!(\"{} {}\", c, r.join(\",\")) }" % (exh, dty, probes))
            else:
                f2 = "pub fn facts() -> String { String::from(\"ok\") }"
            mods.append(("e%d_%s" % (i, der), t2 + "\n" + f2))
    return mods


def enum_lines(defs, verdicts, facts):
    lines = []
    skipped = 0
    rk_code = {"none": 0, "C": 1, "int": 2, "Cint": 3}
    for i, d in enumerate(defs):
        pm = "e%d_plain" % i
        if verdicts.get(pm, "x") is not None or pm not in facts:
            skipped += 1
            continue
        fieldless = not any(v["fields"] for v in d["variants"])
        dty = d["ty"] or "isize"
        bits, signed = INT_TYPES[dty]
        comp = [int(x) for x in facts[pm].strip("[]").split(",") if x.strip()] if fieldless else []
        vdesc = []
        for v in d["variants"]:
            fz = 1 if all(LEAVES[f][4] for f in v["fields"]) else 0
            vdesc += [1 if v["explicit"] else 0, v["value"] if v["explicit"] else 0, 1 if v["fields"] else 0, fz]
        for di, der in enumerate(ENUM_DERIVES):
            mod = "e%d_%s" % (i, der)
            if mod not in verdicts:
                continue
            if der == "CheckedBitPattern" and not fieldless:
                continue   # enums with fields under CheckedBitPattern are the C08 family's
            obs = 1 if verdicts[mod] is None else 0
            v = [obs, di, rk_code[d["rk"]], bits, signed, len(d["variants"])] + vdesc + [len(comp)] + comp
            lines.append("511 0 0 0 0 0 0 0 %d - ; V %s ; %s ; 3" % (i, " ".join(str(x) for x in v), mod))
            if obs and der == "Contiguous" and mod in facts and comp:
                mn, mx = facts[mod].split()
                lines.append("513 0 0 0 0 0 0 0 %d - ; V %s %s %d %s ; %s ; 3" % (i, mn, mx, len(comp), " ".join(str(x) for x in comp), mod))
            if obs and der == "CheckedBitPattern" and mod in facts and comp and " " in facts[mod]:
                c, rest = facts[mod].split(" ", 1)
                pr = [p.split(":") for p in rest.split(",") if ":" in p]
                v2 = [bits, signed, int(c), len(comp)] + comp + [len(pr)] + [int(x) for p in pr for x in p]
                lines.append("514 0 0 0 0 0 0 0 %d - ; V %s ; %s ; 3" % (i, " ".join(str(x) for x in v2), mod))
    return lines, skipped


def enum_set(tier, seed):
    defs = enum_family(tier, seed)
    mods = enum_modules(defs, seed)
    v, f, err = compile_verdicts("enum-" + tier, PRELUDE, mods)
    if err:
        return [], {}, err
    lines, skipped = enum_lines(defs, v, f)
    return lines, {"definitions": len(defs), "modules": len(mods), "invalid_definitions_skipped": skipped}, None


# ----------------------------------------------------------------------------- CheckedBitPattern family (C08)
CK_LEAVES = [  # (rust, size, align, kind, valid byte images, invalid byte images)
    ("u8", 1, 1, 0, [[0], [255], [7]], []), ("u16", 2, 2, 0, [[1, 2], [255, 255]], []), ("u32", 4, 4, 0, [[1, 2, 3, 4]], []),
    ("bool", 1, 1, 1, [[0], [1]], [[2], [255], [128]]), ("char", 4, 4, 2, [[65, 0, 0, 0], [255, 215, 0, 0], [0, 224, 0, 0], [255, 255, 16, 0]],
                                                         [[0, 216, 0, 0], [255, 223, 0, 0], [0, 0, 17, 0], [65, 0, 0, 1]]),
    ("core::num::NonZeroU8", 1, 1, 3, [[1], [255]], [[0]]), ("core::num::NonZeroU32", 4, 4, 3, [[0, 0, 0, 1], [1, 0, 0, 0]], [[0, 0, 0, 0]]),
    ("[u8; 3]", 3, 1, 0, [[1, 2, 3]], []), ("u64", 8, 8, 0, [[1, 2, 3, 4, 5, 6, 7, 8]], []),
]


def ck_round_up(n, a):
    return n if a == 0 else (n + a - 1) // a * a


def ck_layout_c(packed, align, flds):
    off = 0
    offs = []
    al = 1
    for (s, a) in flds:
        c = a if packed == 0 else min(a, packed)
        o = ck_round_up(off, c)
        offs.append(o)
        off = o + s
        al = max(al, c)
    al = max(al, align if align else 1)
    return ck_round_up(off, al), al, offs


def ck_lay(t):
    if t[0] == "leaf":
        return t[2], t[3]
    if t[0] == "struct":
        s, a, _ = ck_layout_c(t[1], t[2], [ck_lay(f) for f in t[3]])
        return s, a
    rk, tagty, vs = t[1], t[2], t[3]
    ea = t[4] if len(t) > 4 else 0          # align(N) modifier on the enum
    ts = INT_TYPES[tagty][0] // 8
    if rk == 2:
        ls = [ck_layout_c(0, 0, [(ts, ts)] + [ck_lay(f) for f in v[1]]) for v in vs]
        a = max([ts, ea] + [l[1] for l in ls])
        return ck_round_up(max([ts] + [l[0] for l in ls]), a), a
    ls = [ck_layout_c(0, 0, [ck_lay(f) for f in v[1]]) for v in vs]
    ua = max([1] + [l[1] for l in ls])
    us = ck_round_up(max([0] + [l[0] for l in ls]), ua)
    s, a, _ = ck_layout_c(0, ea, [(ts, ts), (us, ua)])
    return s, a


def ck_encode(t):
    if t[0] == "leaf":
        return [0, t[2], t[3], t[4]]
    if t[0] == "struct":
        out = [1, t[1], t[2], len(t[3])]
        for f in t[3]:
            out += ck_encode(f)
        return out
    rk, tagty, vs = t[1], t[2], t[3]
    bits, signed = INT_TYPES[tagty]
    out = [2, rk, bits // 8, signed, (t[4] if len(t) > 4 else 0), len(vs)]
    for (disc, fs) in vs:
        out += [disc, len(fs)]
        for f in fs:
            out += ck_encode(f)
    return out


def ck_images(t, rnd, want_valid=True):
    """A few byte images of t: (bytes, is_valid).  Padding bytes are filled with 0xEE."""
    size, _ = ck_lay(t)
    if t[0] == "leaf":
        out = [(list(b), True) for b in t[5]] + [(list(b), False) for b in t[6]]
        return out
    if t[0] == "struct":
        flds = [ck_lay(f) for f in t[3]]
        _, _, offs = ck_layout_c(t[1], t[2], flds)
        subs = [ck_images(f, rnd) for f in t[3]]
        base = [0xEE] * size
        for f, o, sub in zip(t[3], offs, subs):
            b = [x for x in sub if x[1]][0][0]
            base[o:o + len(b)] = b
        out = [(list(base), True)]
        for f, o, sub in zip(t[3], offs, subs):
            for (b, ok) in sub[:6]:
                im = list(base)
                im[o:o + len(b)] = b
                out.append((im, ok))
        return out
    rk, tagty, vs = t[1], t[2], t[3]
    bits, signed = INT_TYPES[tagty]
    ts = bits // 8
    out = []
    lo, hi = int_bounds(tagty)
    declared = {d for d, _ in vs}
    tags = set(declared) | {d + 1 for d in declared} | {d - 1 for d in declared} | {lo, hi, 0}
    if bits == 8:
        tags |= set(range(lo, hi + 1))
    tags = sorted(x for x in tags if lo <= x <= hi)

    def tag_bytes(v):
        return list((v & ((1 << bits) - 1)).to_bytes(ts, "little"))
    if rk == 2:
        for (disc, fs) in vs:
            flds = [(ts, ts)] + [ck_lay(f) for f in fs]
            _, _, offs = ck_layout_c(0, 0, flds)
            subs = [ck_images(f, rnd) for f in fs]
            base = [0xEE] * size
            base[0:ts] = tag_bytes(disc)
            for f, o, sub in zip(fs, offs[1:], subs):
                b = [x for x in sub if x[1]][0][0]
                base[o:o + len(b)] = b
            out.append((list(base), True))
            for f, o, sub in zip(fs, offs[1:], subs):
                for (b, ok) in sub[:5]:
                    im = list(base)
                    im[o:o + len(b)] = b
                    out.append((im, ok))
    else:
        ls = [ck_layout_c(0, 0, [ck_lay(f) for f in v[1]]) for v in vs]
        ua = max([1] + [l[1] for l in ls])
        pay = ck_round_up(ts, ua)
        for (disc, fs), l in zip(vs, ls):
            subs = [ck_images(f, rnd) for f in fs]
            base = [0xEE] * size
            base[0:ts] = tag_bytes(disc)
            for f, o, sub in zip(fs, l[2], subs):
                b = [x for x in sub if x[1]][0][0]
                base[pay + o:pay + o + len(b)] = b
            out.append((list(base), True))
            for f, o, sub in zip(fs, l[2], subs):
                for (b, ok) in sub[:5]:
                    im = list(base)
                    im[pay + o:pay + o + len(b)] = b
                    out.append((im, ok))
    # tag sweep over the first variant's valid image: valid iff the tag is declared AND that variant's payload is valid
    first = out[0][0]
    for tg in tags:
        im = list(first)
        im[0:ts] = tag_bytes(tg)
        out.append((im, None))     # expected validity decided by the model (depends on which variant the tag selects)
    return out


def ck_render(t, name, out_defs):
    """Rust type expression for t; struct/enum definitions appended to out_defs (inner first)."""
    if t[0] == "leaf":
        return t[1]
    if t[0] == "struct":
        ftys = [ck_render(f, "%s_f%d" % (name, k), out_defs) for k, f in enumerate(t[3])]
        if len(t) > 4 and t[4] == "tenum":
            out_defs.append("#[derive(Clone, Copy, bytemuck::CheckedBitPattern)] #[repr(transparent)] pub enum %s { Only(%s) }" % (name, ", ".join(ftys)))
            return name
        rep = ["C"] + (["packed(%d)" % t[1]] if t[1] else []) + (["align(%d)" % t[2]] if t[2] else [])
        out_defs.append("#[derive(Clone, Copy, bytemuck::CheckedBitPattern)] #[repr(%s)] pub struct %s { %s }" % (
            ", ".join(rep), name, ", ".join("pub g%d: %s" % (k, ty) for k, ty in enumerate(ftys))))
        return name
    rk, tagty, vs = t[1], t[2], t[3]
    rep = {1: "C", 2: tagty, 3: "C, " + tagty}[rk] + (", align(%d)" % t[4] if len(t) > 4 and t[4] else "")
    vtxt = []
    for k, (disc, fs) in enumerate(vs):
        ftys = [ck_render(f, "%s_v%d_%d" % (name, k, j), out_defs) for j, f in enumerate(fs)]
        body = "(%s)" % ", ".join(ftys) if ftys else ""
        # implicit whenever the compiler's rule gives the intended value (first = 0, else previous + 1)
        implicit = (k == 0 and disc == 0) or (k > 0 and disc == vs[k - 1][0] + 1)
        vtxt.append("W%d%s%s" % (k, body, "" if (rk == 1 or implicit) else " = %d" % disc))
    out_defs.append("#[derive(Clone, Copy, bytemuck::CheckedBitPattern)] #[repr(%s)] pub enum %s { %s }" % (rep, name, ", ".join(vtxt)))
    return name


def checked_family(tier, seed):
    rnd = random.Random(seed * 2654435761 % (1 << 31) + 3)
    n = 70 if tier == "quick" else 600
    L = [("leaf",) + x for x in CK_LEAVES]
    # zero-sized leaves of alignment 1 (only used by the transparent-enum entries of the corpus, not by the random part)
    ZL = [("leaf", "()", 0, 1, 0, [[]], []), ("leaf", "[u8; 0]", 0, 1, 0, [[]], [])]

    def has_align(t):
        """an align(N) modifier anywhere inside t (rustc refuses a packed type that contains one: E0588)"""
        if t[0] == "leaf":
            return False
        if t[0] == "struct":
            return t[2] != 0 or any(has_align(f) for f in t[3])
        return (len(t) > 4 and t[4] != 0) or any(has_align(f) for v in t[3] for f in v[1])

    def rand_struct(depth):
        nf = rnd.randint(0, 4)
        fs = [rand_ty(depth + 1) for _ in range(nf)]
        mod = rnd.choice([(0, 0), (0, 0), (0, 0), (1, 0), (2, 0), (0, 8), (0, 16)])
        if mod[0] and any(has_align(f) for f in fs):
            mod = (0, 0)       # stay inside what rustc accepts as a definition
        return ("struct", mod[0], mod[1], fs)

    def rand_enum(depth):
        rk = rnd.choice([1, 2, 2, 3])
        tagty = "i32" if rk == 1 else rnd.choice(["u8", "u8", "i8", "u16", "u32", "i16"])
        nv = rnd.randint(1, 4)
        lo, hi = int_bounds(tagty)
        discs = list(range(nv)) if rk == 1 else sorted(rnd.sample(range(max(lo, -6), min(hi, 12)), nv))
        if rk != 1 and rnd.random() < 0.5:
            rnd.shuffle(discs)
        vs = [(d, [rand_ty(depth + 1) for _ in range(rnd.randint(0, 3))]) for d in discs]
        if all(len(v[1]) == 0 for v in vs):
            vs[0] = (vs[0][0], [L[3]])
        # an align(N) modifier on the enum itself (larger than its natural alignment more often than not)
        ea = rnd.choice([0, 0, 0, 0, 2, 4, 8, 16])
        return ("enum", rk, tagty, vs, ea)

    def rand_ty(depth):
        r = rnd.random()
        if depth >= 2 or r < 0.7:
            return rnd.choice(L)
        return rand_struct(depth) if r < 0.87 else rand_enum(depth)
    corpus = [
        ("enum", 2, "u8", [(0, [L[3]]), (1, [L[2]])]),                      # repr(u8) { A(bool), B(u32) }: mixed payload alignment
        ("enum", 2, "u8", [(0, [L[0], L[0], L[0]]), (1, [L[1]])]),          # { A(u8,u8,u8), B(u16) }
        ("enum", 2, "u8", [(5, [L[0]]), (6, [L[3]]), (7, [])]),             # explicit then following
        ("enum", 3, "u8", [(10, [L[3]]), (11, [L[5]])]), ("enum", 1, "i32", [(0, [L[3]]), (1, [L[4], L[0]])]),
        ("struct", 0, 0, [L[0], L[2], L[3]]), ("struct", 1, 0, [L[0], L[2], L[3]]), ("struct", 0, 16, [L[3], L[4]]),
        ("struct", 0, 0, [("struct", 0, 0, [L[3], L[1]]), L[5]]), ("enum", 3, "u16", [(1, [("struct", 0, 0, [L[3], L[2]])]), (3, [L[4]])]),
        ("enum", 2, "i8", [(-1, [L[3]]), (0, [L[6]]), (1, [])]), ("struct", 2, 0, [L[0], L[2], L[1]]),
        # over-aligned enums with fields, and one nested in a struct
        ("enum", 2, "u8", [(0, [L[0]]), (1, [])], 4), ("enum", 3, "u8", [(0, [L[3]]), (2, [L[1]])], 8), ("enum", 1, "i32", [(0, [L[3]]), (1, [])], 16),
        ("struct", 0, 0, [L[0], ("enum", 2, "u8", [(0, [L[3]]), (1, [L[0]])], 4)]),
        # #[repr(transparent)] enums with fields: one variant, one data field among zero-sized ones of alignment 1; layout and
        # validity are those of a repr(C) struct of the same fields (the model's view), the derive has its own arm for them
        ("struct", 0, 0, [L[3]], "tenum"), ("struct", 0, 0, [ZL[0], L[3]], "tenum"), ("struct", 0, 0, [ZL[1], L[4]], "tenum"),
        ("struct", 0, 0, [L[4], ZL[0]], "tenum"), ("struct", 0, 0, [ZL[0], L[6], ZL[1]], "tenum"), ("struct", 0, 0, [ZL[1], ZL[0], L[1]], "tenum"),
    ]
    defs = list(corpus)
    while len(defs) < n:
        defs.append(rand_struct(0) if rnd.random() < 0.5 else rand_enum(0))
    return defs


def checked_set(tier, seed):
    defs = checked_family(tier, seed)
    rnd = random.Random(seed)
    mods = []
    images = {}
    for i, t in enumerate(defs):
        out_defs = []
        top = ck_render(t, "K", out_defs)
        ims = ck_images(t, rnd)[: (160 if tier == "quick" else 400)]
        images[i] = ims
        size, _ = ck_lay(t)
        arr = ", ".join("[%s]" % ", ".join(str(b) for b in im) for im, _ in ims)
        facts = ("pub fn facts() -> String {\n  use bytemuck::checked::CheckedBitPattern;\n"
                 "  type B = <%s as CheckedBitPattern>::Bits;\n"
                 "  let imgs: Vec<[u8; %d]> = vec![%s];\n"
                 "  let mut s = String::new();\n"
                 "  if core::mem::size_of::<B>() == %d { for im in &imgs {\n"
                 "    let bits: B = bytemuck::pod_read_unaligned(&im[..]);\n"
                 "    let v = <%s as CheckedBitPattern>::is_valid_bit_pattern(&bits);\n"
                 "    let c = bytemuck::checked::try_pod_read_unaligned::<%s>(&im[..]);\n"
                 "    let agree = match c { Ok(_) => v, Err(bytemuck::checked::CheckedCastError::InvalidBitPattern) => !v, Err(_) => false };\n"
                 "    s.push(if !agree { '2' } else if v { '1' } else { '0' });\n"
                 "  } }\n"
                 "  format!(\"{} {} {} {} {}\", core::mem::size_of::<%s>(), core::mem::align_of::<%s>(), core::mem::size_of::<B>(), core::mem::align_of::<B>(), if s.is_empty() { \"-\".to_string() } else { s }) }"
                 % (top, size, arr, size, top, top, top, top))
        mods.append(("k%d" % i, "\n".join(out_defs) + "\n" + facts))
    v, f, err = compile_verdicts("checked-" + tier, PRELUDE, mods)
    if err:
        return [], {}, err
    lines = []
    rejected = 0
    for i, t in enumerate(defs):
        m = "k%d" % i
        if v.get(m, "x") is not None or m not in f:
            rejected += 1
            lines.append("512 0 0 0 0 0 0 0 %d - ; V 0 0 0 0 0 -1 %d %s 0 ; %s ; 3" % (i, len(ck_encode(t)), " ".join(str(x) for x in ck_encode(t)), m))
            continue
        w = f[m].split()
        st, at, sb, ab, flags = int(w[0]), int(w[1]), int(w[2]), int(w[3]), w[4]
        enc = ck_encode(t)
        if flags == "-":
            lines.append("512 0 0 0 0 0 0 0 %d - ; V 1 %d %d %d %d -1 %d %s 0 ; %s ; 3" % (i, st, at, sb, ab, len(enc), " ".join(str(x) for x in enc), m))
            continue
        for (im, _), fl in zip(images[i], flags):
            lines.append("512 0 0 0 0 0 0 0 %d - ; V 1 %d %d %d %d %s %d %s %d %s ; %s ; 3" % (
                i, st, at, sb, ab, fl, len(enc), " ".join(str(x) for x in enc), len(im), " ".join(str(b) for b in im), m))
    return lines, {"definitions": len(defs), "modules": len(mods), "rejected_definitions": rejected}, None


# ----------------------------------------------------------------------------- ByteEq / ByteHash (C18)
BYTES_MODULE = r'''
use bytemuck::{ByteEq, ByteHash, NoUninit, Pod, Zeroable};
use core::hash::{Hash, Hasher};
#[derive(Clone, Copy, Pod, Zeroable, ByteEq, ByteHash)] #[repr(C)] pub struct F1 { pub a: f32, pub b: u32 }
#[derive(Clone, Copy, Pod, Zeroable, ByteEq, ByteHash)] #[repr(transparent)] pub struct M(pub f32);
#[derive(Clone, Copy, Pod, Zeroable, ByteEq, ByteHash)] #[repr(transparent)] pub struct S64 { pub v: f64 }
#[derive(Clone, Copy, NoUninit, ByteEq, ByteHash)] #[repr(C)] pub struct CB { pub c: char, pub b: bool, pub x: u8, pub y: u16 }
#[derive(Clone, Copy, Pod, Zeroable, ByteEq, ByteHash)] #[repr(C)] pub struct Key { pub a: u32, pub b: [u8; 8] }
#[derive(Clone, Copy, Pod, Zeroable, ByteEq, ByteHash)] #[repr(transparent)] pub struct Gen<const N: usize> { pub a: [u8; N] }
#[derive(Clone, Copy, Pod, Zeroable, ByteEq, ByteHash)] #[repr(C)] pub struct Z0 {}
#[derive(Clone, Copy, Pod, Zeroable, ByteEq, ByteHash)] #[repr(transparent)] pub struct Arr<const N: usize> { pub a: [u32; N] }
#[derive(Clone, Copy, Pod, Zeroable, ByteEq, ByteHash)] #[repr(C)] pub struct Wide { pub a: u64, pub b: [u16; 3], pub c: [u8; 2], pub d: u64 }
// enums: fieldless, and padding-free data-carrying ones whose NoUninit is written by hand (the derive is for any NoUninit type)
#[derive(Clone, Copy, NoUninit, ByteEq, ByteHash)] #[repr(u16)] pub enum Fl { A = 1, B = 2, C = 0x300 }
#[derive(Clone, Copy, ByteEq, ByteHash)] #[repr(u8)] pub enum Tg { Rgb(u8, u8, u8), Hsv(u8, u8, u8) }
unsafe impl NoUninit for Tg {}
#[derive(Clone, Copy, ByteEq, ByteHash)] #[repr(u32)] pub enum Tw { Raw([u8; 4]), Fl(f32) }
unsafe impl NoUninit for Tw {}
// a value and every value that differs from it in exactly one byte (every position): no byte may be ignored
fn one_byte_variants<T: Pod>(base: T) -> Vec<T> {
  let n = core::mem::size_of::<T>(); let mut v = vec![base, base];
  for i in 0..n { let mut x = base; bytemuck::bytes_of_mut(&mut x)[i] ^= 0x40; v.push(x); }
  v
}

// three hashers: std's, one that records every call, one that is sensitive to how the bytes are chunked
#[derive(Default)] pub struct Rec { pub calls: Vec<(u8, Vec<u8>)> }
impl Hasher for Rec {
  fn finish(&self) -> u64 { 0 }
  fn write(&mut self, b: &[u8]) { self.calls.push((0, b.to_vec())); }
  fn write_u8(&mut self, i: u8) { self.calls.push((1, vec![i])); }
  fn write_u32(&mut self, i: u32) { self.calls.push((4, i.to_ne_bytes().to_vec())); }
  fn write_u64(&mut self, i: u64) { self.calls.push((8, i.to_ne_bytes().to_vec())); }
  fn write_usize(&mut self, i: usize) { self.calls.push((9, i.to_ne_bytes().to_vec())); }
}
#[derive(Default)] pub struct Fx(pub u64);
impl Hasher for Fx {
  fn finish(&self) -> u64 { self.0 }
  fn write(&mut self, b: &[u8]) { self.0 = (self.0.rotate_left(5) ^ (b.len() as u64)).wrapping_mul(0x517cc1b727220a95); for x in b { self.0 = (self.0.rotate_left(5) ^ (*x as u64)).wrapping_mul(0x517cc1b727220a95); } }
  fn write_u64(&mut self, i: u64) { self.0 = (self.0.rotate_left(7) ^ i).wrapping_mul(0x9E3779B97F4A7C15); }
}
fn h_std<T: Hash>(v: &T) -> u64 { let mut h = std::collections::hash_map::DefaultHasher::new(); v.hash(&mut h); h.finish() }
fn h_fx<T: Hash>(v: &T) -> u64 { let mut h = Fx::default(); v.hash(&mut h); h.finish() }
fn rec_ok<T: Hash + NoUninit>(v: &T) -> bool { let mut h = Rec::default(); v.hash(&mut h); let b = bytemuck::bytes_of(v);
  if b.is_empty() { h.calls.iter().all(|c| c.0 == 0 && c.1.is_empty()) } else { h.calls.len() == 1 && h.calls[0].0 == 0 && h.calls[0].1 == b } }
fn pairs<T: Copy + PartialEq + Hash + NoUninit>(tag: u32, pool: &[T], out: &mut Vec<String>) {
  // the values live at consecutive addresses of an array: differently aligned modulo 8
  for a in pool { for b in pool {
    let be = bytemuck::bytes_of(a) == bytemuck::bytes_of(b);
    let eq = a == b; let ne_ok = (a != b) == !eq;
    let l1 = !be || h_std(a) == h_std(b); let l2 = !be || h_fx(a) == h_fx(b);
    out.push(format!("521 {} {} {} {} {} {} {} {}", tag, eq as u8, be as u8, ne_ok as u8, l1 as u8, l2 as u8, rec_ok(a) as u8, rec_ok(b) as u8));
  } }
  // reflexivity / symmetry / transitivity over the pool
  let mut refl = true; let mut sym = true; let mut trans = true;
  for a in pool { refl &= a == a; for b in pool { sym &= (a == b) == (b == a); for c in pool { if a == b && b == c { trans &= a == c; } } } }
  out.push(format!("523 {} {} {} {}", tag, refl as u8, sym as u8, trans as u8));
  // slices of length 0..=4 at start offsets 0..3: hash_slice must be one write of the concatenated bytes
  let arr: Vec<T> = pool.iter().cycle().take(8).copied().collect();
  for len in 0..=4usize { for off in 0..3usize { for off2 in 0..3usize {
    let s1 = &arr[off..off + len]; let s2 = &arr[off2..off2 + len];
    let b1: &[u8] = bytemuck::cast_slice(s1); let b2: &[u8] = bytemuck::cast_slice(s2); let be = b1 == b2;
    let mut r = Rec::default(); T::hash_slice(s1, &mut r);
    let rok = if b1.is_empty() { r.calls.iter().all(|c| c.0 == 0 && c.1.is_empty()) } else { r.calls.len() == 1 && r.calls[0].0 == 0 && r.calls[0].1 == b1 };
    let mut f1 = Fx::default(); T::hash_slice(s1, &mut f1); let mut f2 = Fx::default(); T::hash_slice(s2, &mut f2);
    let law = !be || f1.finish() == f2.finish();
    out.push(format!("522 {} {} {} {} {}", tag, len, be as u8, law as u8, rok as u8));
  } } }
}
pub fn facts() -> String {
  let mut out = vec![];
  let nan1 = f32::from_bits(0x7FC0_0000); let nan2 = f32::from_bits(0x7FC0_0001); let nan3 = f32::from_bits(0xFFC1_2345); let snan = f32::from_bits(0x7FA0_0000);
  pairs(1, &[F1 { a: 0.0, b: 1 }, F1 { a: -0.0, b: 1 }, F1 { a: nan1, b: 1 }, F1 { a: nan1, b: 1 }, F1 { a: nan2, b: 1 }, F1 { a: 1.5, b: 1 }, F1 { a: 1.5, b: 2 }, F1 { a: nan3, b: 0 }], &mut out);
  pairs(2, &[M(0.0), M(-0.0), M(nan1), M(nan1), M(nan2), M(snan), M(1.0), M(f32::from_bits(0x3F80_0001)), M(f32::INFINITY)], &mut out);
  pairs(3, &[S64 { v: 0.0 }, S64 { v: -0.0 }, S64 { v: f64::NAN }, S64 { v: f64::NAN }, S64 { v: f64::from_bits(0x7FF8_0000_0000_0001) }, S64 { v: 2.5 }], &mut out);
  pairs(4, &[CB { c: 'a', b: true, x: 1, y: 2 }, CB { c: 'a', b: true, x: 1, y: 2 }, CB { c: 'b', b: true, x: 1, y: 2 }, CB { c: 'a', b: false, x: 1, y: 2 }, CB { c: 'a', b: true, x: 1, y: 3 }, CB { c: '\u{10FFFF}', b: false, x: 0, y: 0 }], &mut out);
  pairs(5, &[Key { a: 1, b: [0; 8] }, Key { a: 1, b: [0; 8] }, Key { a: 1, b: [0, 0, 0, 0, 0, 0, 0, 1] }, Key { a: 2, b: [0; 8] }, Key { a: 1, b: [0; 8] }, Key { a: 1, b: [0; 8] }], &mut out);
  pairs(6, &[Gen::<5> { a: [1, 2, 3, 4, 5] }, Gen::<5> { a: [1, 2, 3, 4, 5] }, Gen::<5> { a: [1, 2, 3, 4, 6] }, Gen::<5> { a: [0; 5] }, Gen::<5> { a: [1, 2, 3, 4, 5] }, Gen::<5> { a: [1, 2, 3, 4, 5] }], &mut out);
  pairs(7, &[Gen::<0> { a: [] }, Gen::<0> { a: [] }], &mut out);
  pairs(8, &[Z0 {}, Z0 {}], &mut out);
  pairs(9, &one_byte_variants(Gen::<16> { a: [7; 16] }), &mut out);
  pairs(10, &one_byte_variants(Gen::<17> { a: [9; 17] }), &mut out);
  pairs(11, &one_byte_variants(Gen::<23> { a: [1; 23] }), &mut out);
  pairs(12, &one_byte_variants(Gen::<33> { a: [3; 33] }), &mut out);
  pairs(13, &one_byte_variants(Arr::<5> { a: [5; 5] }), &mut out);
  pairs(14, &one_byte_variants(Arr::<7> { a: [0x01020304; 7] }), &mut out);
  pairs(15, &one_byte_variants(Wide { a: 1, b: [2, 3, 4], c: [5, 6], d: 7 }), &mut out);
  pairs(16, &one_byte_variants(Key { a: 1, b: [0; 8] }), &mut out);
  pairs(17, &[Fl::A, Fl::B, Fl::C, Fl::A, Fl::C], &mut out);
  pairs(18, &[Tg::Rgb(0, 0, 0), Tg::Rgb(0, 0, 1), Tg::Rgb(0, 0, 0), Tg::Hsv(0, 0, 0), Tg::Hsv(9, 0, 0), Tg::Rgb(9, 0, 0)], &mut out);
  pairs(19, &[Tw::Raw([0, 0, 0, 0]), Tw::Fl(0.0), Tw::Fl(-0.0), Tw::Raw([0, 0, 0, 0x80]), Tw::Fl(nan1), Tw::Fl(nan2), Tw::Fl(nan1), Tw::Raw([0, 0, 0, 0])], &mut out);
  out.join("|")
}
'''


def bytes_set(tier, seed):
    v, f, err = compile_verdicts("bytes-" + tier, PRELUDE, [("b0", BYTES_MODULE)])
    if err:
        return [], {}, err
    if v.get("b0") is not None or "b0" not in f:
        return [], {}, "the ByteEq/ByteHash module does not compile: %s" % v.get("b0")
    lines = []
    for item in f["b0"].split("|"):
        w = item.split()
        if not w:
            continue
        lines.append("%s 0 0 0 0 0 0 0 %s - ; V %s ; b0 ; 3" % (w[0], w[1], " ".join(w[2:])))
    return lines, {"definitions": 10, "modules": 1}, None


# ----------------------------------------------------------------------------- TransparentWrapperAlloc on unsized wrappers (C13)
API_PRELUDE = """
use bytemuck::TransparentWrapper;
use bytemuck::allocation::TransparentWrapperAlloc;
use std::rc::Rc; use std::sync::Arc;
#[repr(transparent)] pub struct WS<T: ?Sized>(pub T);
unsafe impl<T> TransparentWrapper<[T]> for WS<[T]> {}
unsafe impl TransparentWrapper<str> for WS<str> {}
#[repr(transparent)] #[derive(Clone, Copy, PartialEq, Debug)] pub struct WV(pub u32);
unsafe impl TransparentWrapper<u32> for WV {}
pub trait Speak { fn speak(&self) -> u32; }
pub struct Dog(pub u32); impl Speak for Dog { fn speak(&self) -> u32 { self.0 + 1 } }
unsafe impl TransparentWrapper<dyn Speak> for WS<dyn Speak> {}
"""
API_CASES = [
    ("api_box_slice", "let b: Box<[u8]> = vec![1u8, 2, 3].into_boxed_slice(); let p = b.as_ptr() as usize; let w: Box<WS<[u8]>> = WS::<[u8]>::wrap_box(b);"
     " let ok1 = w.0.as_ptr() as usize == p && w.0.len() == 3; let back: Box<[u8]> = WS::<[u8]>::peel_box(w); ok1 && back.as_ptr() as usize == p && &*back == &[1u8, 2, 3][..]"),
    ("api_box_str", "let b: Box<str> = String::from(\"héllo\").into_boxed_str(); let p = b.as_ptr() as usize; let w: Box<WS<str>> = WS::<str>::wrap_box(b);"
     " let back: Box<str> = WS::<str>::peel_box(w); back.as_ptr() as usize == p && &*back == \"héllo\""),
    ("api_box_dyn", "let b: Box<dyn Speak> = Box::new(Dog(4)); let w: Box<WS<dyn Speak>> = WS::<dyn Speak>::wrap_box(b); let ok1 = w.0.speak() == 5;"
     " let back: Box<dyn Speak> = WS::<dyn Speak>::peel_box(w); ok1 && back.speak() == 5"),
    ("api_rc_slice", "let r: Rc<[u16]> = Rc::from(vec![7u16, 8]); let keep = r.clone(); let p = r.as_ptr() as usize; let w: Rc<WS<[u16]>> = WS::<[u16]>::wrap_rc(r);"
     " let ok1 = Rc::strong_count(&keep) == 2 && w.0.as_ptr() as usize == p; let back: Rc<[u16]> = WS::<[u16]>::peel_rc(w); ok1 && Rc::strong_count(&keep) == 2 && &*back == &[7u16, 8][..]"),
    ("api_arc_slice", "let r: Arc<[u16]> = Arc::from(vec![7u16, 8]); let keep = r.clone(); let p = r.as_ptr() as usize; let w: Arc<WS<[u16]>> = WS::<[u16]>::wrap_arc(r);"
     " let ok1 = Arc::strong_count(&keep) == 2 && w.0.as_ptr() as usize == p; let back: Arc<[u16]> = WS::<[u16]>::peel_arc(w); ok1 && Arc::strong_count(&keep) == 2 && &*back == &[7u16, 8][..]"),
    ("api_arc_str", "let r: Arc<str> = Arc::from(\"abc\"); let p = r.as_ptr() as usize; let w: Arc<WS<str>> = WS::<str>::wrap_arc(r); let back: Arc<str> = WS::<str>::peel_arc(w); back.as_ptr() as usize == p && &*back == \"abc\""),
    ("api_box_sized", "let b = Box::new(5u32); let p = &*b as *const u32 as usize; let w: Box<WV> = WV::wrap_box(b); let back: Box<u32> = WV::peel_box(w); &*back as *const u32 as usize == p && *back == 5"),
    ("api_vec_sized", "let v = vec![1u32, 2, 3]; let p = v.as_ptr() as usize; let w: Vec<WV> = WV::wrap_vec(v); let back: Vec<u32> = WV::peel_vec(w); back.as_ptr() as usize == p && back == vec![1, 2, 3]"),
]


def api_set(tier, seed):
    mods = [(m, API_PRELUDE + "pub fn facts() -> String { let ok: bool = { %s }; format!(\"{}\", ok as u8) }" % body) for (m, body) in API_CASES]
    v, f, err = compile_verdicts("api-" + tier, PRELUDE, mods)
    if err:
        return [], {}, err
    lines = []
    for k, (m, _) in enumerate(API_CASES):
        comp = 1 if (v.get(m, "x") is None and m in f) else 0
        ok = int(f[m].strip()) if comp else 0
        lines.append("531 0 0 0 0 0 0 0 %d - ; V %d %d ; %s ; 3" % (k, comp, ok, m))
    return lines, {"definitions": len(API_CASES), "modules": len(mods)}, None
