#!/usr/bin/env python3
"""refresh _CoqProject/Makefile and run make with the given targets (developer convenience)"""
import sys, os
sys.path.insert(0, os.path.dirname(os.path.abspath(__file__)))
import common as C
rc, out = C.coq_make(sys.argv[1:])
print(out[-6000:])
sys.exit(rc)
