#!/bin/bash
# developer tool: take a sub-agent's seeded change from /tmp/seed2-<ID>, validate it independently,
# run the property's check against it, archive it as seeded/<ID><suffix>.
# usage: seed_round.sh <ID> <suffix>      e.g. seed_round.sh C07 c
id=$1; suf=$2; src=${3:-/tmp/seed2}-$id; name=$id$suf
[ -f $src/patch.diff ] || { echo "$name: no patch"; exit 1; }
rm -rf /tmp/$name; cp -r $src /tmp/$name; rm -rf /tmp/$name/demo/target
v=$(/verif/tools/seed_validate.sh /tmp/$name 2>&1 | tail -1)
echo "$v"
c=$(/verif/tools/seed_check.sh /tmp/$name $id 2>&1 | grep -v conda | tail -1)
echo "$c"
python3 /verif/tools/seed_archive.py /tmp/$name "$v" "$c" >/dev/null
rm -rf /tmp/$name
