#!/bin/bash
# developer tool: run every archived seeded change against its property's check; print one line each
cd /verif
for d in seeded/*; do
  n=$(basename $d)
  tools/seed_check.sh $d ${n:0:3} 2>&1 | grep -v conda
done
