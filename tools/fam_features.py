"""C20: real builds of feature sets; transcript equality across feature sets; census monotonicity."""
import concurrent.futures
import hashlib
import json
import os
import random
import re
import shutil
import time
from collections import Counter

from common import (CACHE, REPO, VERIF, log, machinery_hash, repo_hash, sh)

try:
    import tomllib
except ImportError:  # pragma: no cover
    tomllib = None


def features():
    with open(os.path.join(REPO, "Cargo.toml"), "rb") as f:
        t = tomllib.load(f)
    return t.get("features", {})


def sound_stable(feats):
    return sorted(f for f in feats if not f.startswith("nightly_") and f != "unsound_ptr_pod_impl")


def feature_sets(tier, seed):
    feats = features()
    ss = sound_stable(feats)
    sets = [[]]
    sets += [[f] for f in ss]
    sets += [["extern_crate_alloc", f] for f in ss if f != "extern_crate_alloc"]
    sets += [["extern_crate_alloc", "align_offset", "track_caller"], ["extern_crate_alloc", "extern_crate_std", "latest_stable_rust"], ss]
    rnd = random.Random(seed)
    n = 20 if tier == "quick" else 120
    for _ in range(n):
        k = rnd.randint(2, 6)
        sets.append(sorted(rnd.sample(ss, k)))
    if tier == "thorough":
        import itertools
        sets += [list(p) for p in itertools.combinations(ss, 2)]
    seen, out = set(), []
    for s in sets:
        key = ",".join(sorted(s))
        if key not in seen:
            seen.add(key)
            out.append(sorted(s))
    return out


def build_one(args):
    idx, feats = args
    target = os.path.join(CACHE, "target-feat-%d" % (idx % 8))
    cmd = ["cargo", "check", "--offline", "--lib", "--no-default-features"]
    if feats:
        cmd += ["--features", ",".join(feats)]
    rc, out = sh(cmd, cwd=REPO, env={"CARGO_TARGET_DIR": target}, timeout=900)
    err = ""
    if rc != 0:
        m = re.findall(r"^(error(?:\[E\d+\])?: .*)$", out, flags=re.M)
        err = " | ".join(m[:3]) if m else out[-300:]
    return feats, rc, err


def builds(tier, seed):
    sets = feature_sets(tier, seed)
    # one worker per target directory so that no two cargo runs share one
    groups = {}
    for i, s in enumerate(sets):
        groups.setdefault(i % 8, []).append((i, s))
    results = []

    def run_group(g):
        return [build_one(x) for x in g]
    t0 = time.time()
    with concurrent.futures.ThreadPoolExecutor(max_workers=8) as ex:
        for rs in ex.map(run_group, groups.values()):
            results += rs
    log("feature builds: %d sets in %.1fs" % (len(sets), time.time() - t0))
    return results


def strip_cfg(line):
    parts = line.split(" ", 2)
    return parts[0] + " _ " + parts[2] if len(parts) == 3 else line


def compare_transcripts(a, b, skip_fns=()):
    """Line-by-line equality of two harness transcripts, ignoring the cfg column."""
    diffs = []
    n = 0
    with open(a) as fa, open(b) as fb:
        la = [strip_cfg(l) for l in fa if l.split(" ", 1)[0] not in skip_fns]
        lb = [strip_cfg(l) for l in fb if l.split(" ", 1)[0] not in skip_fns]
    n = len(la)
    if len(la) != len(lb):
        k = min(len(la), len(lb))
        diffs.append({"what": "different number of cases (one harness stopped early, or ran different cases)", "a": len(la), "b": len(lb),
                      "last_common_case": la[k - 1].strip() if k else None,
                      "next_case_in_the_longer": (la[k] if len(la) > k else lb[k]).strip()})
    for x, y in zip(la, lb):
        if x != y:
            diffs.append({"a": x.strip(), "b": y.strip()})
            if len(diffs) > 5:
                break
    return n, diffs


def run(tier, seed):
    """Returns (monitor_violations, stats)."""
    import fam_cast
    import fam_alloc
    import fam_tables
    import census
    mons = []
    stats = {"evaluations": 0, "distinct": set(), "samples": [], "by": Counter(), "harness_errors": [], "notes": []}
    # (1) builds
    for feats, rc, err in builds(tier, seed):
        stats["evaluations"] += 1
        stats["by"]["feature sets built"] += 1
        stats["distinct"].add("build:" + ",".join(feats))
        if len(stats["samples"]) < 3:
            stats["samples"].append({"build": feats, "ok": rc == 0})
        if rc != 0:
            mons.append({"kind": "build", "features": ",".join(feats), "observed": err,
                         "clause_violated": "a-sound-stable-feature-set-does-not-build",
                         "minimal": ",".join(feats)})
    # a failing set is reported through its smallest failing subset among those tried
    fails = [m for m in mons if m["kind"] == "build"]
    if fails:
        smallest = min(fails, key=lambda m: len(m["features"].split(",")))
        for m in fails:
            m["minimal"] = smallest["features"] if set(smallest["features"].split(",")) <= set(m["features"].split(",")) else m["features"]
    # (2) identical behaviour of the casting functions under both alignment tests (+ track_caller in thorough)
    res = fam_cast.transcripts(tier)
    base = res["cfgs"].get("0", {}).get("transcript")
    for other in ("1", "3"):
        t = res["cfgs"].get(other, {}).get("transcript")
        if base and t and os.path.exists(base) and os.path.exists(t):
            n, diffs = compare_transcripts(base, t)
            stats["evaluations"] += n
            stats["by"]["cast transcript lines compared (cfg 0 vs %s)" % other] += n
            stats["distinct"].add("cast-%s:%d" % (other, n))
            for d in diffs:
                d.update({"kind": "behaviour", "features": "none vs %s" % res["cfgs"][other]["features"],
                          "clause_violated": "casting-result-differs-between-feature-sets", "observed": json.dumps(d)})
                mons.append(d)
    for cfg, e in res["cfgs"].items():
        if "build_error" in e and not str(cfg).startswith("must"):
            stats["harness_errors"].append("castgrid cfg=%s does not build: %s" % (cfg, e["build_error"][-500:]))
    # (3) identical behaviour of the allocation functions with and without alloc_uninit
    ra = fam_alloc.transcripts(tier, seed, variants=[["uninit"], []])
    ta = ra["cfgs"].get("uninit", {}).get("transcript")
    tb = ra["cfgs"].get("base", {}).get("transcript")
    if ta and tb and os.path.exists(ta) and os.path.exists(tb):
        n, diffs = compare_transcripts(tb, ta, skip_fns=("354",))
        stats["evaluations"] += n
        stats["by"]["allocation transcript lines compared (alloc vs alloc+alloc_uninit+zeroable_maybe_uninit)"] += n
        stats["distinct"].add("alloc:%d" % n)
        for d in diffs:
            d.update({"kind": "behaviour", "features": "extern_crate_alloc vs +alloc_uninit,zeroable_maybe_uninit",
                      "clause_violated": "allocation-result-differs-between-feature-sets", "observed": json.dumps(d)})
            mons.append(d)
    for name, e in ra["cfgs"].items():
        if e.get("note"):
            stats["notes"].append(e["note"])
        if "build_error" in e:
            stats["harness_errors"].append("allocgrid %s does not build: %s" % (name, e["build_error"][-500:]))
        elif e.get("run_rc", 0) != 0:
            mons.append({"kind": "behaviour", "features": str(e.get("features")), "clause_violated": "allocation-harness-died-under-this-feature-set",
                         "observed": "rc=%s %s" % (e.get("run_rc"), e.get("run_stderr", "")[-200:])})
    # (4) marker impls only grow with the feature set (census rows per type)
    rt = fam_tables.transcripts(tier, seed, ("census",))
    names = sorted(k for k in rt["cfgs"] if k.startswith("census-"))
    rows = {k: census.load_rows(rt["cfgs"][k]["transcript"]) for k in names if rt["cfgs"][k].get("transcript")}
    for k in names:
        if "build_error" in rt["cfgs"][k]:
            stats["harness_errors"].append("%s does not build: %s" % (k, rt["cfgs"][k]["build_error"][-500:]))
    ks = sorted(rows)
    for a, b in zip(ks, ks[1:]):
        for enc, bits in rows[a].items():
            stats["evaluations"] += 1
            big = rows[b].get(enc)
            if big is None:
                continue
            stats["by"]["census rows compared (%s <= %s)" % (a, b)] += 1
            if any(x == 1 and y != 1 for x, y in zip(bits, big)):
                mons.append({"kind": "impls", "features": "%s vs %s" % (a, b), "type": enc, "small": bits, "large": big,
                             "clause_violated": "enabling-features-removed-a-marker-impl",
                             "observed": "%s: %s under the smaller set, %s under the larger" % (enc, bits, big)})
        stats["distinct"].add("census:%s:%d" % (a, len(rows[a])))
    # (5) ... and adds only sound ones: a census cell that the language does not guarantee (the C04 row monitor), under any
    # feature configuration, is an impl that some configuration declares without warrant
    m4, _, _ = fam_tables.findings(rt, "C04")
    for case in m4:
        if case.get("fn") != 410:
            continue
        mons.append({"kind": "impls", "features": case.get("cfg"), "type": case.get("text"),
                     "clause_violated": "a-feature-configuration-declares-a-marker-impl-whose-contract-the-language-does-not-guarantee",
                     "observed": case.get("observed"), "line": case.get("line")})
    return mons, stats
