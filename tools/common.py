"""Shared plumbing of the bytemuck verification runner: paths, subprocesses, locking, hashing,
model regeneration (translator), the Coq build, the extracted oracle, evidence and verdicts."""
import fcntl
import hashlib
import json
import os
import re
import shutil
import subprocess
import sys
import time

VERIF = os.path.dirname(os.path.dirname(os.path.abspath(__file__)))
REPO = os.environ.get("BMV_REPO", "/repo")
CACHE = os.path.join(VERIF, ".cache")
COQ = os.path.join(VERIF, "coq")
GEN = os.path.join(COQ, "Gen")
GOLDEN = os.path.join(COQ, "golden", "Gen")
GEN_MODULES = ["Internal", "Root", "Checked", "Must", "Alloc", "Transparent", "Zero"]
NPROC = os.cpu_count() or 8

ENV = dict(os.environ)
ENV.update({"CARGO_NET_OFFLINE": "true", "LC_ALL": "C"})


def log(msg):
    sys.stderr.write("[bmv] %s\n" % msg)
    sys.stderr.flush()


def sh(cmd, cwd=None, timeout=1800, env=None, stdin=None):
    """Run a command, return (rc, combined output).  Never raises on failure / timeout."""
    e = dict(ENV)
    if env:
        e.update(env)
    try:
        p = subprocess.run(cmd, cwd=cwd, env=e, stdin=stdin, stdout=subprocess.PIPE,
                           stderr=subprocess.STDOUT, timeout=timeout, shell=isinstance(cmd, str))
        return p.returncode, p.stdout.decode("utf-8", "replace")
    except subprocess.TimeoutExpired as ex:
        out = ex.stdout.decode("utf-8", "replace") if ex.stdout else ""
        return 124, out + "\n[bmv] TIMEOUT after %ss\n" % timeout


class Lock:
    """One check at a time touches the shared build trees."""

    def __enter__(self):
        os.makedirs(CACHE, exist_ok=True)
        self.f = open(os.path.join(CACHE, "lock"), "w")
        fcntl.flock(self.f, fcntl.LOCK_EX)
        return self

    def __exit__(self, *a):
        fcntl.flock(self.f, fcntl.LOCK_UN)
        self.f.close()


def sha_files(paths):
    h = hashlib.sha256()
    for p in sorted(paths):
        h.update(p.encode())
        try:
            with open(p, "rb") as f:
                h.update(f.read())
        except OSError:
            h.update(b"<missing>")
    return h.hexdigest()


def walk(root, exts):
    out = []
    for d, dirs, files in os.walk(root):
        dirs[:] = [x for x in dirs if x not in ("target", ".git", "__pycache__", ".cache")]
        for f in files:
            if f.endswith(exts):
                out.append(os.path.join(d, f))
    return out


def repo_files():
    fs = walk(os.path.join(REPO, "src"), (".rs",)) + walk(os.path.join(REPO, "derive", "src"), (".rs",))
    fs += [os.path.join(REPO, "Cargo.toml"), os.path.join(REPO, "derive", "Cargo.toml")]
    return fs


def repo_hash():
    return sha_files(repo_files())


def machinery_hash(subdirs):
    fs = []
    for s in subdirs:
        p = os.path.join(VERIF, s)
        if os.path.isdir(p):
            fs += walk(p, (".py", ".rs", ".v", ".ml", ".toml", ".json", ".txt"))
        elif os.path.exists(p):
            fs.append(p)
    fs = [f for f in fs if "/coq/Gen/" not in f]
    return sha_files(fs)


def write_if_changed(path, content):
    try:
        with open(path) as f:
            if f.read() == content:
                return False
    except OSError:
        pass
    os.makedirs(os.path.dirname(path), exist_ok=True)
    with open(path, "w") as f:
        f.write(content)
    return True


# ----------------------------------------------------------------------------- translator

def build_translator():
    tdir = os.path.join(VERIF, "translator")
    rc, out = sh(["cargo", "build", "--release", "--offline"], cwd=tdir, timeout=900,
                 env={"CARGO_TARGET_DIR": os.path.join(CACHE, "target-translator")})
    if rc != 0:
        raise RuntimeError("translator build failed:\n" + out[-3000:])
    return os.path.join(CACHE, "target-translator", "release", "bm2coq")


STABLE_SOUND = ["extern_crate_alloc", "extern_crate_std", "latest_stable_rust"]
EXPAND_CONFIGS = {   # name -> cargo features (the feature sets of C20 / C04)
    "none": [],
    "alloc": ["extern_crate_alloc"],
    "aat": ["extern_crate_alloc", "align_offset", "track_caller"],
    "all": STABLE_SOUND,
}


def expand_crate():
    """Macro-expand the crate once per feature configuration (nightly rustc, offline); returns
    {name: path or None}.  Cached by the hash of /repo's sources."""
    d = os.path.join(CACHE, "expand", repo_hash()[:16])
    os.makedirs(d, exist_ok=True)
    out = {}
    procs = []
    for name, feats in EXPAND_CONFIGS.items():
        path = os.path.join(d, name + ".rs")
        out[name] = path
        if os.path.exists(path) and os.path.getsize(path) > 1000:
            continue
        cmd = ["cargo", "+nightly", "rustc", "--offline", "--lib"]
        if feats:
            cmd += ["--features", ",".join(feats)]
        cmd += ["--", "-Zunpretty=expanded"]
        e = dict(ENV)
        e["CARGO_TARGET_DIR"] = os.path.join(CACHE, "target-expand-" + name)
        procs.append((name, path, subprocess.Popen(cmd, cwd=REPO, env=e, stdout=open(path + ".tmp", "w"), stderr=subprocess.PIPE)))
    for name, path, p in procs:
        try:
            _, err = p.communicate(timeout=600)
        except subprocess.TimeoutExpired:
            p.kill()
            err = b"timeout"
        if p.returncode == 0 and os.path.getsize(path + ".tmp") > 1000:
            os.replace(path + ".tmp", path)
        else:
            out[name] = None
            log("expansion of config %s failed: %s" % (name, err.decode("utf-8", "replace")[-400:]))
    # keep only the two most recent expansion directories
    root = os.path.join(CACHE, "expand")
    ds = sorted((os.path.join(root, x) for x in os.listdir(root)), key=os.path.getmtime)
    for old in ds[:-2]:
        shutil.rmtree(old, ignore_errors=True)
    return out


def regen_model():
    """Run the translator on the working tree.  Returns {module: {status, differs_from_golden, ...}}.
    Modules the translator rejects fall back to the committed golden model (fail closed)."""
    exe = build_translator()
    tmp = os.path.join(CACHE, "gen.new")
    shutil.rmtree(tmp, ignore_errors=True)
    os.makedirs(tmp)
    exp = expand_crate()
    extra = ["%s=%s" % (k, v) for k, v in exp.items() if v]
    if len(extra) != len(exp):
        extra = []   # an incomplete set of expansions gives no table: the golden table is used
    rc, out = sh([exe, REPO, tmp] + extra, timeout=120)
    status = {}
    meta = {}
    try:
        with open(os.path.join(tmp, "meta.json")) as f:
            meta = json.load(f)
    except Exception as ex:  # translator crashed: everything falls back to golden
        meta = {"modules": []}
        log("translator produced no meta.json (rc=%s): %s" % (rc, out[-500:]))
    by_mod = {m["module"]: m for m in meta.get("modules", [])}
    os.makedirs(GEN, exist_ok=True)
    tables = [f for f in os.listdir(tmp) if f.endswith(".v") and f[:-2] not in GEN_MODULES]
    golden_tables = [f for f in (os.listdir(GOLDEN) if os.path.isdir(GOLDEN) else [])
                     if f.endswith(".v") and f[:-2] not in GEN_MODULES]
    names = GEN_MODULES + sorted(set(t[:-2] for t in tables + golden_tables))
    for mod in names:
        src = os.path.join(tmp, mod + ".v")
        gold = os.path.join(GOLDEN, mod + ".v")
        dst = os.path.join(GEN, mod + ".v")
        info = by_mod.get(mod, {})
        gtxt = open(gold).read() if os.path.exists(gold) else None
        if os.path.exists(src):
            txt = open(src).read()
            write_if_changed(dst, txt)
            status[mod] = {"status": "regenerated", "differs_from_golden": gtxt is not None and txt != gtxt,
                           "golden_missing": gtxt is None, "translator": info.get("status", ""),
                           "not_translated": [i["name"] + ": " + i["status"][:160] for i in info.get("items", [])
                                              if i["status"].startswith("failed")],
                           "items": [{"name": i["name"], "lines": i["lines"], "status": i["status"]}
                                     for i in info.get("items", [])]}
        elif gtxt is not None:
            write_if_changed(dst, gtxt)
            status[mod] = {"status": "golden-fallback", "differs_from_golden": False,
                           "reason": info.get("status", "translator produced no output"),
                           "items": [{"name": i["name"], "lines": i["lines"], "status": i["status"]}
                                     for i in info.get("items", [])]}
        else:
            status[mod] = {"status": "absent", "reason": info.get("status", "no output, no golden")}
    shutil.copy(os.path.join(tmp, "meta.json"), os.path.join(GEN, "meta.json")) if os.path.exists(
        os.path.join(tmp, "meta.json")) else None
    LAST_MODEL_STATUS.clear()
    LAST_MODEL_STATUS.update(status)
    return status


# ----------------------------------------------------------------------------- Coq

COQ_ARGS = ["-Q", "theories", "BM", "-Q", "Gen", "BM.Gen"]


def coq_project():
    files = sorted(walk(os.path.join(COQ, "theories"), (".v",)) + walk(GEN, (".v",)))
    rel = [os.path.relpath(f, COQ) for f in files if not f.endswith("Extract/Extract.v")]
    txt = "-Q theories BM\n-Q Gen BM.Gen\n"
    txt += "-arg -w -arg -notation-overridden,-deprecated-hint-without-locality,-deprecated-instance-without-locality\n"
    txt += "\n".join(rel) + "\n"
    changed = write_if_changed(os.path.join(COQ, "_CoqProject"), txt)
    if changed or not os.path.exists(os.path.join(COQ, "Makefile")):
        rc, out = sh(["coq_makefile", "-f", "_CoqProject", "-o", "Makefile"], cwd=COQ)
        if rc != 0:
            raise RuntimeError("coq_makefile failed: " + out)


def coq_make(targets, timeout=1500):
    coq_project()
    return sh(["make", "-k", "-j%d" % NPROC] + targets, cwd=COQ, timeout=timeout)


FORBIDDEN = re.compile(r"\b(Admitted|admit|Axiom|Axioms|Parameter|Parameters|Conjecture|Hypothesis|Variable)\b|"
                       r"Unset\s+Guard|bypass_check|type-in-type|impredicative-set|Admit\s+Obligations")


def scan_forbidden():
    """Textual scan of the development (comments stripped) for anything that declares an axiom or
    disables a kernel check.  `Variable`/`Hypothesis`/`Context` inside a Section are allowed."""
    bad = []
    for f in walk(os.path.join(COQ, "theories"), (".v",)) + walk(GEN, (".v",)):
        txt = open(f).read()
        txt = re.sub(r"\(\*.*?\*\)", "", txt, flags=re.S)
        depth = 0
        for ln, line in enumerate(txt.split("\n"), 1):
            if re.match(r"\s*Section\b", line):
                depth += 1
            if re.match(r"\s*End\b", line) and depth > 0:
                depth -= 1
            m = FORBIDDEN.search(line)
            if m:
                if m.group(1) in ("Hypothesis", "Variable") and depth > 0:
                    continue
                bad.append("%s:%d: %s" % (os.path.relpath(f, VERIF), ln, line.strip()[:100]))
    return bad


def gen_deps(prop):
    """The regenerated modules (Gen/X) that Properties/<prop>.vo depends on, from coq_makefile's dependency file."""
    deps = {}
    try:
        for line in open(os.path.join(COQ, ".Makefile.d")):
            if ":" not in line:
                continue
            lhs, rhs = line.split(":", 1)
            ds = [d for d in rhs.split() if d.endswith(".vo")]
            for t in lhs.split():
                if t.endswith(".vo"):
                    deps[t] = ds
    except OSError:
        return None
    seen = set()
    todo = ["theories/Properties/%s.vo" % prop]
    while todo:
        t = todo.pop()
        for d in deps.get(t, []):
            if d not in seen:
                seen.add(d)
                todo.append(d)
    return sorted(x[4:-3] for x in seen if x.startswith("Gen/"))


AXIOM_ALLOW = set()  # the allow-list of axioms is empty: every theorem must be closed


def coqchk(prop):
    """Independent re-check of Properties/<prop>.vo and everything it depends on with coqchk; returns
    (ok, summary dict or error text)."""
    rc, out = sh(["coqchk", "-silent", "-o"] + COQ_ARGS + ["BM.Properties.%s" % prop], cwd=COQ, timeout=1200)
    if rc != 0:
        return False, "coqchk failed: " + out[-600:]
    summ = {}
    for key, label in (("axioms", "Axioms"), ("type_in_type", "Constants/Inductives relying on type-in-type"),
                       ("unsafe_fix", "Constants/Inductives relying on unsafe (co)fixpoints"),
                       ("assumed_positive", "Inductives whose positivity is assumed")):
        m = re.search(r"\* " + re.escape(label) + r":\s*(.*?)(?=\n\s*\n|\Z)", out, flags=re.S)
        summ[key] = " ".join(m.group(1).split()) if m else "?"
    ok = all(v == "<none>" for v in summ.values())
    return ok, summ


def prove(prop, tier="quick"):
    """Build Properties/<prop>.vo (and everything it depends on) against the current Gen/ model.
    Returns dict(ok, theorems, assumptions, axioms, error)."""
    vfile = os.path.join(COQ, "theories", "Properties", prop + ".v")
    target = "theories/Properties/%s.vo" % prop
    res = {"ok": False, "theorems": [], "closed": 0, "axioms": [], "error": None, "wall_s": 0.0}
    if not os.path.exists(vfile):
        res["error"] = "no property file"
        return res
    txt = re.sub(r"\(\*.*?\*\)", "", open(vfile).read(), flags=re.S)
    res["theorems"] = re.findall(r"^\s*Theorem\s+(\w+)", txt, flags=re.M)
    try:
        os.remove(os.path.join(COQ, target))
    except OSError:
        pass
    t0 = time.time()
    rc, out = coq_make([target])
    res["wall_s"] = round(time.time() - t0, 1)
    res["log_tail"] = out[-2500:]
    if rc != 0 or not os.path.exists(os.path.join(COQ, target)):
        m = re.search(r'File "([^"]+)", line (\d+)[^\n]*\n(Error:.*?)(?:\n\n|\nmake)', out, flags=re.S)
        if m:
            res["error"] = "%s:%s %s" % (m.group(1), m.group(2), " ".join(m.group(3).split())[:600])
            res["failed_file"] = m.group(1)
            res["failed_line"] = int(m.group(2))
            # name the lemma the failing line belongs to
            try:
                src = open(os.path.join(COQ, m.group(1))).read().split("\n")
                for i in range(int(m.group(2)) - 1, -1, -1):
                    mm = re.match(r"\s*(Theorem|Lemma|Example|Corollary|Definition|Fixpoint)\s+(\w+)", src[i])
                    if mm:
                        res["failed_lemma"] = mm.group(2)
                        break
            except Exception:
                pass
        else:
            res["error"] = "build failed: " + out[-800:]
        return res
    closed = out.count("Closed under the global context")
    axioms = re.findall(r"^Axioms:\n((?:.+\n)+?)(?=\n|\Z)", out, flags=re.M)
    res["closed"] = closed
    res["axioms"] = [a.strip() for a in axioms]
    bad = scan_forbidden()
    if bad:
        res["error"] = "forbidden constructs: " + "; ".join(bad[:5])
        return res
    if res["axioms"] or closed < len(res["theorems"]):
        res["error"] = "Print Assumptions: %d of %d theorems closed; axioms: %s" % (
            closed, len(res["theorems"]), res["axioms"])
        return res
    if tier == "thorough":
        ok, summ = coqchk(prop)
        res["coqchk"] = summ
        if not ok:
            res["error"] = "coqchk: %s" % (summ,)
            return res
    res["ok"] = True
    return res


# ----------------------------------------------------------------------------- oracle

def fallback_tree(partial):
    """A second Coq tree for the ORACLE only, used when the translator left functions out of the
    regenerated model: the executable model then takes the committed (golden) version of the incomplete
    modules, so that the monitors can still search the implementation's observations for a failing
    input and the correspondence shows where the code departed.  The proof leg never uses this tree."""
    root = os.path.join(CACHE, "coq-fallback")
    for sub in ("Base", "Spec", "Model", "Extract"):
        src = os.path.join(COQ, "theories", sub)
        dst = os.path.join(root, "theories", sub)
        os.makedirs(dst, exist_ok=True)
        for f in os.listdir(src):
            if f.endswith(".v"):
                write_if_changed(os.path.join(dst, f), open(os.path.join(src, f)).read())
    gdst = os.path.join(root, "Gen")
    os.makedirs(gdst, exist_ok=True)
    for f in os.listdir(GEN):
        if not f.endswith(".v"):
            continue
        mod = f[:-2]
        gold = os.path.join(GOLDEN, f)
        src = gold if (mod in partial and os.path.exists(gold)) else os.path.join(GEN, f)
        write_if_changed(os.path.join(gdst, f), open(src).read())
    files = sorted(walk(os.path.join(root, "theories"), (".v",)) + walk(gdst, (".v",)))
    rel = [os.path.relpath(f, root) for f in files if not f.endswith("Extract/Extract.v")]
    txt = "-Q theories BM\n-Q Gen BM.Gen\n-arg -w -arg -notation-overridden,-deprecated-hint-without-locality,-deprecated-instance-without-locality\n"
    txt += "\n".join(rel) + "\n"
    if write_if_changed(os.path.join(root, "_CoqProject"), txt) or not os.path.exists(os.path.join(root, "Makefile")):
        sh(["coq_makefile", "-f", "_CoqProject", "-o", "Makefile"], cwd=root)
    return root


LAST_MODEL_STATUS = {}


def build_oracle():
    """Extract the current model + monitors to OCaml and build the line-protocol driver."""
    odir = os.path.join(CACHE, "oracle")
    os.makedirs(odir, exist_ok=True)
    partial = sorted(m for m, v in LAST_MODEL_STATUS.items() if v.get("not_translated"))
    coq_root = fallback_tree(partial) if partial else COQ
    gen_dir = os.path.join(coq_root, "Gen")
    key = sha_files(walk(gen_dir, (".v",)) + walk(os.path.join(COQ, "theories"), (".v",)) +
                    [os.path.join(VERIF, "oracle", "driver.ml")])
    stamp = os.path.join(odir, "stamp")
    exe = os.path.join(odir, "oracle")
    if os.path.exists(exe) and os.path.exists(stamp) and open(stamp).read() == key:
        return exe, None
    targets = ["theories/Extract/Driver.vo", "theories/Extract/DriverAlloc.vo", "theories/Extract/DriverTables.vo"]
    if partial:
        log("oracle: modules %s are incomplete in the regenerated model; the oracle uses their committed version" % ", ".join(partial))
        rc, out = sh(["make", "-k", "-j%d" % NPROC] + targets, cwd=coq_root, timeout=1500)
    else:
        rc, out = coq_make(targets)
    if rc != 0:
        return None, "model does not compile: " + out[-1500:]
    for f in ("Model.ml", "Model.mli"):
        try:
            os.remove(os.path.join(odir, f))
        except OSError:
            pass
    rc, out = sh(["coqc", "-Q", os.path.join(coq_root, "theories"), "BM", "-Q", gen_dir, "BM.Gen",
                  "-o", os.path.join(odir, "Extract.vo"),
                  os.path.join(coq_root, "theories", "Extract", "Extract.v")], cwd=odir, timeout=600)
    if rc != 0 or not os.path.exists(os.path.join(odir, "Model.ml")):
        return None, "extraction failed: " + out[-1500:]
    shutil.copy(os.path.join(VERIF, "oracle", "driver.ml"), os.path.join(odir, "driver.ml"))
    rc, out = sh(["ocamlfind", "ocamlopt", "-w", "-a", "Model.mli", "Model.ml", "driver.ml", "-o", "oracle"],
                 cwd=odir, timeout=600)
    if rc != 0:
        return None, "oracle build failed: " + out[-1500:]
    with open(stamp, "w") as f:
        f.write(key)
    return exe, None


# ----------------------------------------------------------------------------- verdicts

def load_known():
    p = os.path.join(VERIF, "known_findings.json")
    try:
        with open(p) as f:
            return json.load(f).get("findings", [])
    except OSError:
        return []


def write_replay(prop, payload):
    os.makedirs(os.path.join(VERIF, "replays"), exist_ok=True)
    blob = json.dumps(payload, sort_keys=True, indent=1)
    h = hashlib.sha256(blob.encode()).hexdigest()[:12]
    path = os.path.join(VERIF, "replays", "%s-%s.json" % (prop, h))
    with open(path, "w") as f:
        f.write(blob + "\n")
    return path


def write_evidence(prop, ev):
    os.makedirs(os.path.join(VERIF, "evidence"), exist_ok=True)
    with open(os.path.join(VERIF, "evidence", prop + ".json"), "w") as f:
        json.dump(ev, f, indent=1, sort_keys=True)
        f.write("\n")


TRUSTED_BASE = [
    "Coq 8.16.1 kernel (incl. vm_compute); no native_compute; no axioms (every property theorem prints 'Closed under the global context')",
    "translator bm2coq (Rust/syn) on its stated subset, fail-closed per item; cross-checked by the correspondence run; its table "
    "extractor reads rustc's own macro expansion (nightly -Zunpretty=expanded); its pin digests (2 x 64-bit FNV of the normalised token "
    "text) tie the hand-written models (derive crate, offset_of!, zeroed, zeroed_rc/arc, the str and From<Box<T>> BoxBytes impls) to the text they transcribe; "
    "write_zeroes/fill_zeroes are translated statement by statement (zero.rs) and Model/DropLang.v gives the statements Rust's drop and unwinding semantics",
    "extraction: ExtrOcamlBasic only (Extract Inductive bool/option/unit/prod/list/sumbool/sumor/comparison; no Extract Constant), OCaml 4.13.1, oracle/driver.ml",
    "Rust harnesses + case generators + this Python runner; rustc/cargo 1.95.0",
    "Base/Prims.v, Base/Own.v: meaning of core/alloc primitives (from_raw_parts, align_offset, transmute_copy, read_unaligned; into_raw/from_raw "
    "hand the same block over; alloc_zeroed as an oracle; Layout::array; vec!) as modelled; Model/StdSlice.v (align_to), Model/Alloc.v drop_layout "
    "and Model/RcHist.v (std's layouts and counting), Model/Lang*.v (the Rust reference as read in DESIGN.md section 4)",
]
