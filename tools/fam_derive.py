"""The derive family (C05 C06 C08 C18 C19): derivefam verdict runs, oracle, findings."""
import json
import os
import re
import shutil
import subprocess
import time
from collections import Counter

from common import (CACHE, REPO, VERIF, build_oracle, log, machinery_hash, repo_hash, sh)
import derivefam as D

FN_NAMES = {501: "derive on a struct/union: compile verdict", 502: "repr(C) layout model vs compiler", 503: "bytemuck::offset_of! vs core::mem::offset_of!",
            504: "offset_of! through Deref must not compile", 511: "derive on an enum: compile verdict and discriminants", 513: "derived Contiguous MIN_VALUE / MAX_VALUE", 514: "derived is_valid_bit_pattern of a fieldless enum",
            512: "derived CheckedBitPattern: Bits layout and validity", 521: "ByteEq / ByteHash on a pair of values", 522: "ByteHash::hash_slice", 523: "ByteEq equivalence laws over a value pool", 531: "TransparentWrapperAlloc container method on a wrapper (unsized inners included): compiles and round-trips"}
PROPS = {"C05": {501, 502}, "C19": {502, 503, 504}, "C06": {511, 513, 514}, "C08": {512, 514}, "C18": {521, 522, 523}, "C17": {511, 513}, "C13": {531}}
SETS = {"C05": "struct", "C19": "struct", "C06": "enum", "C08": ("checked", "enum"), "C18": "bytes", "C17": "enum", "C13": "api"}


def run_set(which, tier, seed, cdir):
    entry = {"set": which}
    t0 = time.time()
    if which == "struct":
        defs = D.struct_family(tier, seed)
        mods = D.struct_modules(defs) + D.offset_modules(defs)
        v, f, err = D.compile_verdicts("struct-" + tier, D.PRELUDE_OFF, mods)
        if err:
            entry["build_error"] = err
            return entry
        lines, skipped = D.struct_lines(defs, v, f)
        entry["definitions"] = len(defs)
        entry["modules"] = len(mods)
        entry["invalid_definitions_skipped"] = skipped
    else:
        gen = getattr(D, which + "_set")
        lines, info, err = gen(tier, seed)
        if err:
            entry["build_error"] = err
            return entry
        entry.update(info)
    tpath = os.path.join(cdir, "derive-%s.txt" % which)
    with open(tpath, "w") as fh:
        fh.write("\n".join(lines) + "\n")
    entry["transcript"] = tpath
    entry["run_rc"] = 0
    entry["wall_s"] = round(time.time() - t0, 1)
    return entry


def transcripts(tier, seed, which):
    key = repo_hash()[:16] + "-" + machinery_hash(["oracle", "coq/theories", "tools/derivefam.py", "tools/fam_derive.py", "tools/common.py"])[:16] + "-%d-%s" % (seed, which)
    cdir = os.path.join(CACHE, "transcripts", "derive-%s-%s" % (tier, key))
    done = os.path.join(cdir, "result.json")
    if os.path.exists(done):
        r = json.load(open(done))
        r["cached"] = True
        return r
    os.makedirs(cdir, exist_ok=True)
    oracle, oerr = build_oracle()
    res = {"tier": tier, "key": key, "cfgs": {}, "oracle_error": oerr, "dir": cdir, "cached": False}
    entry = run_set(which, tier, seed, cdir)
    res["cfgs"][which] = entry
    if oracle and entry.get("transcript"):
        opath = os.path.join(cdir, "oracle-%s.txt" % which)
        with open(entry["transcript"]) as fin, open(opath, "w") as fout:
            p = subprocess.run([oracle], stdin=fin, stdout=fout, stderr=subprocess.PIPE, timeout=1800)
            entry["oracle_rc"] = p.returncode
        entry["oracle_out"] = opath
    troot = os.path.join(CACHE, "transcripts")
    ds = sorted((os.path.join(troot, x) for x in os.listdir(troot) if x.startswith("derive-")), key=os.path.getmtime)
    for old in ds[:-6]:
        shutil.rmtree(old, ignore_errors=True)
    if not oerr and "build_error" not in entry:
        json.dump(res, open(done, "w"), indent=1)
    return res


def parse_case(line):
    parts = [x.strip() for x in line.split(";")]
    c = parts[0].split()
    vec = parts[1].split()[1:] if len(parts) > 1 else []
    d = {"fn": int(c[0]), "fn_name": FN_NAMES.get(int(c[0]), "?"), "definition_index": int(c[8]), "module": parts[2] if len(parts) > 2 else "",
         "observed": parts[1] if len(parts) > 1 else "", "line": line.strip()}
    if d["fn"] == 501 and len(vec) > 9:
        d["derive"] = D.DERIVES[int(vec[1])]
        d["accepted"] = int(vec[0])
        d["captures_padding_helper_name"] = int(vec[8])
    return d


def findings(res, prop):
    fns = PROPS[prop]
    mons, corrs = [], []
    stats = {"evaluations": 0, "by_fn": Counter(), "by_outcome": Counter(), "distinct": set(), "samples": [], "harness_errors": [], "notes": []}
    if res.get("oracle_error"):
        stats["harness_errors"].append("oracle: " + res["oracle_error"])
    for cfg, entry in sorted(res["cfgs"].items()):
        if "build_error" in entry:
            stats["harness_errors"].append("derivefam %s: %s" % (cfg, str(entry["build_error"])[-1200:]))
            continue
        for k in ("definitions", "modules", "invalid_definitions_skipped"):
            if k in entry:
                stats["by_outcome"][k] = entry[k]
        tp = entry.get("transcript")
        if tp and os.path.exists(tp):
            with open(tp) as f:
                for line in f:
                    sp = line.split(" ", 1)
                    try:
                        fn = int(sp[0])
                    except ValueError:
                        continue
                    if fn not in fns:
                        continue
                    stats["evaluations"] += 1
                    stats["by_fn"][FN_NAMES.get(fn, str(fn))] += 1
                    stats["distinct"].add(line.split(";")[1] if ";" in line else line)
                    if len(stats["samples"]) < 4 and stats["evaluations"] % 397 == 1:
                        stats["samples"].append(line.strip())
        op = entry.get("oracle_out")
        if op and os.path.exists(op):
            with open(op) as f:
                for line in f:
                    if line.startswith("CORR "):
                        m = re.match(r"CORR (\d+) (\S+(?: \S+)*?) :: (.*)$", line.strip())
                        if m:
                            try:
                                case = parse_case(m.group(3))
                            except Exception:
                                continue
                            if case["fn"] in fns:
                                case["model"] = m.group(2)
                                corrs.append(case)
                    elif line.startswith("MON "):
                        m = re.match(r"MON (\S+) (\d+) (\S+) :: (.*)$", line.strip())
                        if m and m.group(1) == prop:
                            try:
                                case = parse_case(m.group(4))
                            except Exception:
                                continue
                            if case["fn"] in fns:
                                case["monitor"] = prop
                                case["clause_violated"] = m.group(3)
                                mons.append(case)
    return mons, corrs, stats
