#!/bin/bash
# developer tool: apply a seeded change to /repo, run the given checks, undo it.
# usage: seed_check.sh <seed-dir> <ID> [<ID> ...]
d=$(realpath "$1"); shift
cd /verif
git -C /repo apply $d/patch.diff 2>/dev/null || git -C /repo apply --3way $d/patch.diff >/dev/null 2>&1 || { echo "patch does not apply"; git -C /repo reset -q --hard HEAD; exit 2; }
for id in "$@"; do
  out=$(python3 tools/bmv.py check $id --tier quick 2>/dev/null | grep -E "VIOLATION|KNOWN-FINDING" | head -3)
  echo "$(basename $d) $id rc=$? :: ${out:-no alarm}"
done
git -C /repo reset -q --hard HEAD
