"""The allocation family (C09 C10 C12 C13 C15 C16 and the owning half of C11): allocgrid harness
transcripts (recording global allocator), the oracle run over them, per-property findings."""
import json
import os
import re
import shutil
import subprocess
import time
from collections import Counter

from common import (CACHE, REPO, VERIF, build_oracle, log, machinery_hash, repo_hash, sh)

FN_NAMES = {
    301: "try_cast_box", 302: "try_cast_slice_box", 303: "try_cast_vec", 304: "try_cast_rc", 305: "try_cast_slice_rc",
    306: "try_cast_arc", 307: "try_cast_slice_arc", 311: "cast_box", 312: "cast_slice_box", 313: "cast_vec", 314: "cast_rc",
    315: "cast_slice_rc", 316: "cast_arc", 317: "cast_slice_arc", 321: "box_bytes_of (sized) + drop", 322: "box_bytes_of (slice) + drop",
    323: "box_bytes_of (str) + drop", 331: "try_from_box_bytes::<T>", 332: "try_from_box_bytes::<[T]>", 333: "from_box_bytes::<T>",
    334: "from_box_bytes::<[T]>", 335: "BoxBytes into_raw_parts/from_raw_parts + drop", 341: "pod_collect_to_vec",
    351: "try_zeroed_box", 352: "try_zeroed_slice_box", 353: "try_zeroed_vec", 354: "zeroed_rc/arc(+slice)",
    355: "Zeroable::zeroed / write_zeroes / fill_zeroes (plain data)", 361: "fill_zeroes with a panicking destructor",
    362: "write_zeroes with a panicking destructor", 363: "fill_zeroes over zero-sized droppable values", 364: "write_zeroes of a zero-sized droppable value", 371: "TransparentWrapper ref/slice/value methods",
    372: "TransparentWrapperAlloc container methods", 373: "TransparentWrapper over [T], str, dyn Trait",
    381: "Rc handle history", 382: "Arc handle history (one thread per operation)",
}
PROPS = {
    "C09": set(range(301, 308)) | {372, 381, 382} | {321, 322, 323, 331, 332, 335},
    "C10": set(range(301, 308)) | {381, 382} | {331, 332, 333, 334},
    "C11": set(range(311, 318)) | {333, 334},
    "C12": {351, 352, 353, 354, 355, 361, 362, 363, 364},
    "C13": {371, 372, 373},
    "C15": set(range(321, 336)),
    "C16": {341},
}


def build(tier, feats):
    d = os.path.join(CACHE, "allocgrid-%s" % tier)
    rc, out = sh(["python3", os.path.join(VERIF, "harness", "allocgrid", "gen.py"), d + ".new", tier])
    if rc != 0:
        return None, "allocgrid generator failed: " + out[-800:]
    os.makedirs(os.path.join(d, "src"), exist_ok=True)
    for rel in ("Cargo.toml", "src/main.rs", "src/types.rs"):
        new = open(os.path.join(d + ".new", rel)).read()
        try:
            old = open(os.path.join(d, rel)).read()
        except OSError:
            old = None
        if new != old:
            with open(os.path.join(d, rel), "w") as f:
                f.write(new)
    shutil.rmtree(d + ".new", ignore_errors=True)
    shutil.copy(os.path.join(REPO, "Cargo.lock"), os.path.join(d, "Cargo.lock"))
    target = os.path.join(CACHE, "target-allocgrid-%s-%s" % (tier, "-".join(feats) or "base"))
    cmd = ["cargo", "build", "--offline"] + (["--features", ",".join(feats)] if feats else [])
    t0 = time.time()
    rc, out = sh(cmd, cwd=d, env={"CARGO_TARGET_DIR": target}, timeout=2400)
    if rc != 0:
        return None, out[-3000:]
    log("allocgrid %s %s built in %.1fs" % (tier, feats, time.time() - t0))
    return os.path.join(target, "debug", "allocgrid"), None


def transcripts(tier, seed=1, variants=None):
    key = repo_hash()[:16] + "-" + machinery_hash(["harness/allocgrid", "oracle", "coq/theories", "tools/fam_alloc.py", "tools/common.py"])[:16] + "-%d" % seed
    if variants is not None:
        key += "-" + "_".join("+".join(v) or "base" for v in variants)
    cdir = os.path.join(CACHE, "transcripts", "alloc-%s-%s" % (tier, key))
    done = os.path.join(cdir, "result.json")
    if os.path.exists(done):
        r = json.load(open(done))
        r["cached"] = True
        return r
    os.makedirs(cdir, exist_ok=True)
    oracle, oerr = build_oracle()
    res = {"tier": tier, "key": key, "cfgs": {}, "oracle_error": oerr, "dir": cdir, "cached": False}
    if variants is None:
        variants = [["uninit"]] if tier == "quick" else [["uninit"], ["uninit", "track_caller"]]
    for feats in variants:
        name = "+".join(feats) or "base"
        entry = {"features": ["extern_crate_alloc"] + (["alloc_uninit", "zeroable_maybe_uninit"] + feats[1:] if feats[:1] == ["uninit"] else feats)}
        res["cfgs"][name] = entry
        exe, err = build(tier, feats)
        if exe is None and feats[:1] == ["uninit"]:
            # the uninit features may not build (C20's concern); fall back to the plain allocation feature
            exe, err2 = build(tier, feats[1:])
            entry["features"] = ["extern_crate_alloc"] + feats[1:]
            entry["note"] = "alloc_uninit variant did not build: " + (err or "")[-400:]
            if exe is None:
                entry["build_error"] = err2
                continue
        elif exe is None:
            entry["build_error"] = err
            continue
        tpath = os.path.join(cdir, "alloc-%s.txt" % name)
        t0 = time.time()
        with open(tpath, "w") as f:
            try:
                p = subprocess.run([exe, tier, str(seed)], stdout=f, stderr=subprocess.PIPE, timeout=2400)
                entry["run_rc"] = p.returncode
                entry["run_stderr"] = p.stderr.decode("utf-8", "replace")[-600:]
            except subprocess.TimeoutExpired:
                entry["run_rc"] = 124
        entry["run_s"] = round(time.time() - t0, 1)
        entry["transcript"] = tpath
        if oracle is None:
            continue
        opath = os.path.join(cdir, "oracle-%s.txt" % name)
        with open(tpath) as fin, open(opath, "w") as fout:
            p = subprocess.run([oracle], stdin=fin, stdout=fout, stderr=subprocess.PIPE, timeout=2400)
            entry["oracle_rc"] = p.returncode
        entry["oracle_out"] = opath
    troot = os.path.join(CACHE, "transcripts")
    ds = sorted((os.path.join(troot, x) for x in os.listdir(troot) if x.startswith("alloc-")), key=os.path.getmtime)
    for old in ds[:-4]:
        shutil.rmtree(old, ignore_errors=True)
    # a run in which the oracle or a harness could not be built is never cached
    if not oerr and not any("build_error" in e for e in res["cfgs"].values()):
        json.dump(res, open(done, "w"), indent=1)
    return res


def parse_case(line):
    parts = [x.strip() for x in line.split(";")]
    c = parts[0].split()
    d = {"fn": int(c[0]), "fn_name": FN_NAMES.get(int(c[0]), "?"), "size_A": int(c[2]), "align_A": int(c[3]),
         "size_B": int(c[4]), "align_B": int(c[5]), "len": int(c[6]), "cap_or_aux": int(c[7]), "x": int(c[8]), "ops": c[9],
         "observed": parts[1] if len(parts) > 1 else "", "line": line.strip()}
    return d


def findings(res, prop):
    fns = PROPS[prop]
    tag = prop
    mons, corrs = [], []
    stats = {"evaluations": 0, "by_fn": Counter(), "by_outcome": Counter(), "distinct": set(), "samples": [],
             "harness_errors": [], "notes": []}
    if res.get("oracle_error"):
        stats["harness_errors"].append("oracle: " + res["oracle_error"])
    for cfg, entry in sorted(res["cfgs"].items()):
        if entry.get("note"):
            stats["notes"].append(entry["note"])
        if "build_error" in entry:
            stats["harness_errors"].append("allocgrid %s does not build: %s" % (cfg, entry["build_error"][-800:]))
            continue
        tp = entry.get("transcript")
        last = None
        if tp and os.path.exists(tp):
            with open(tp) as f:
                for line in f:
                    sp = line.split(" ", 1)
                    try:
                        fn = int(sp[0])
                    except ValueError:
                        continue
                    last = line
                    if fn not in fns:
                        continue
                    stats["evaluations"] += 1
                    stats["by_fn"][FN_NAMES.get(fn, str(fn))] += 1
                    parts = line.split(";")
                    ov = parts[1].split() if len(parts) > 1 else []
                    stats["by_outcome"]["ok" if len(ov) > 1 and ov[1] == "1" else "err/panic/other"] += 1
                    stats["distinct"].add(line.split(";")[0] + "|" + (parts[1] if len(parts) > 1 else ""))
                    if len(stats["samples"]) < 4 and stats["evaluations"] % 4999 == 1:
                        stats["samples"].append(line.strip())
        if entry.get("run_rc", 0) != 0:
            attributed = False
            if last is not None:
                try:
                    case = parse_case(last)
                    if case["fn"] in fns:
                        case["monitor"] = prop
                        case["clause_violated"] = "harness-process-died-(rc=%s)-in-the-call-following-this-case: %s" % (
                            entry.get("run_rc"), entry.get("run_stderr", "").strip()[-200:])
                        mons.append(case)
                    attributed = True
                except Exception:
                    pass
            if not attributed:
                stats["harness_errors"].append("allocgrid %s exited with %s: %s" % (cfg, entry.get("run_rc"), entry.get("run_stderr", "")[-300:]))
        op = entry.get("oracle_out")
        if op and os.path.exists(op):
            with open(op) as f:
                for line in f:
                    if line.startswith("CORR "):
                        m = re.match(r"CORR (\d+) (\S+(?: \S+)*?) :: (.*)$", line.strip())
                        if not m:
                            continue
                        try:
                            case = parse_case(m.group(3))
                        except Exception:
                            continue
                        if case["fn"] in fns:
                            case["model"] = m.group(2)
                            corrs.append(case)
                    elif line.startswith("MON "):
                        m = re.match(r"MON (\S+) (\d+) (\S+) :: (.*)$", line.strip())
                        if not m or m.group(1) != tag:
                            continue
                        try:
                            case = parse_case(m.group(4))
                        except Exception:
                            continue
                        if case["fn"] in fns:
                            case["monitor"] = m.group(1)
                            case["clause_violated"] = m.group(3)
                            mons.append(case)
    return mons, corrs, stats
