#!/bin/bash
# developer tool: validate a seeded change independently of the checks.
# usage: seed_validate.sh <seed-dir> ; prints one line: <name> clean_demo=<rc> tests=<rc> mutant_demo=<rc>
# (expected: 0 0 nonzero).  Uses a scratch worktree under /tmp, removed afterwards.
d=$(realpath "$1"); n=$(basename "$d"); wt=/tmp/wtv-$n
git -C /repo worktree remove --force $wt >/dev/null 2>&1
git -C /repo worktree add --detach $wt HEAD >/dev/null 2>&1 || { echo "$n worktree-failed"; exit 1; }
export CARGO_NET_OFFLINE=true
work=/tmp/demo-$n; rm -rf $work; cp -r $d/demo $work
( cd $work && bash ./run.sh $wt >/tmp/demo-$n.clean.log 2>&1 ); c=$?
git -C $wt apply $d/patch.diff || { echo "$n patch-does-not-apply"; git -C /repo worktree remove --force $wt; exit 1; }
( cd $wt && CARGO_TARGET_DIR=$wt/target cargo test --workspace --no-fail-fast --offline >/tmp/demo-$n.tests.log 2>&1 ); t=$?
( cd $work && bash ./run.sh $wt >/tmp/demo-$n.mut.log 2>&1 ); m=$?
echo "$n clean_demo=$c tests=$t mutant_demo=$m"
git -C /repo worktree remove --force $wt >/dev/null 2>&1; rm -rf $work
