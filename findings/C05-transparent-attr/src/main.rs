use bytemuck::TransparentWrapper;
#[derive(Clone, Copy, TransparentWrapper)]
#[repr(transparent)]
#[transparent([u16; 2])]
struct S([u16; 2], ());
#[derive(Clone, Copy, TransparentWrapper)]
#[repr(transparent)]
#[transparent(core::num::Wrapping<u8>)]
struct P { a: core::num::Wrapping<u8>, b: core::marker::PhantomData<u64> }
fn main() { let s = S::wrap([1, 2]); println!("{:?} {:?}", s.0, P::wrap(core::num::Wrapping(3)).a); }
